#!/bin/sh
# MANIFEST.setup_cmd — builds everything from files on disk, offline.
set -e
cd "$(dirname "$0")"
export CARGO_NET_OFFLINE=true
export CARGO_TARGET_DIR="$(pwd)/.cache/target"
mkdir -p .cache evidence replays coq/gen
( cd coq && coq_makefile -f _CoqProject -o Makefile >/dev/null && timeout 3000 make -j16 >../.cache/coq-build.log 2>&1 ) || { tail -40 .cache/coq-build.log; exit 1; }
( cd harness && RUSTFLAGS="--cfg omaha_client_verif" timeout 3000 cargo build --offline >../.cache/cargo-build.log 2>&1 ) || { tail -40 .cache/cargo-build.log; exit 1; }
echo "setup ok"
