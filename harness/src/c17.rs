//! C17 — the mock Omaha server against the client it doubles for.
//!
//! One case = one history against one real `mock_omaha_server::OmahaServer`
//! held in-process behind the `tokio::sync::Mutex` that `handle_request`
//! expects (no socket, no runtime: the lock and `hyper::body::to_bytes` are
//! plain futures).  Reconfigurations go through the real
//! `POST /set_responses_by_appid` handler; Omaha requests are built by the
//! real `RequestBuilder` (decorated by the real `StandardCupv2Handler` when
//! the client has keys), reduced to origin-form as on the wire and handed to
//! the real `handle_request` under `catch_unwind`.  Every reply then goes
//! through the real `verify_response` and `parse_json_response`, and is
//! offered to every other exchange of the history (must be refused).
//!
//! The crypto tables handed to the Coq models (SHA-256, ECDSA signatures under
//! the server's keys, DER verdicts, ECDSA verdicts under the client's keys) are
//! computed with sha2 / p256 directly, never through the server or the client.
//!
//! The generator includes the D5 input class (service URL with a query, or with a path and no CUP), on which make_etag of
//! the pinned tree panicked (repaired in /repo a35419c).
use crate::gal::*;
use crate::util::*;
use futures::executor::block_on;
use futures::future::BoxFuture;
use futures::prelude::*;
use mock_omaha_server::{
    handle_request, OmahaResponse, OmahaServer, OmahaServerBuilder, PrivateKeyAndId, PrivateKeys, ResponseAndMetadata,
    UpdateCheckAssertion,
};
use omaha_client::cup_ecdsa::{
    CupVerificationError, Cupv2RequestHandler, PublicKeyAndId, PublicKeys, RequestMetadata, StandardCupv2Handler,
};
use omaha_client::http_request::{self, HttpRequest};
use omaha_client::protocol::request::GUID;
use omaha_client::protocol::response::{parse_json_response, OmahaStatus, Response, UpdateCheck};
use omaha_client::request_builder::RequestBuilder;
use p256::ecdsa::signature::{Signer, Verifier};
use p256::ecdsa::{DerSignature, Signature, SigningKey, VerifyingKey};
use serde_json::{json, Value};
use sha2::{Digest, Sha256};
use std::collections::{BTreeMap, HashMap};
use std::convert::TryFrom;
use std::panic::{catch_unwind, AssertUnwindSafe};
use std::sync::Arc;

type SrvMutex = tokio::sync::Mutex<OmahaServer>;

// ---------------------------------------------------------------- primitives (independent of both crates under test)
fn sha(b: &[u8]) -> Vec<u8> {
    Sha256::digest(b).to_vec()
}
fn sk(seed: u8) -> SigningKey {
    SigningKey::from_bytes(&[seed; 32]).expect("valid scalar")
}
fn vk(seed: u8) -> VerifyingKey {
    sk(seed).verifying_key()
}
fn sign_der(seed: u8, msg: &[u8]) -> Vec<u8> {
    let s: Signature = sk(seed).sign(msg);
    s.to_der().as_bytes().to_vec()
}
fn der_ok(sig: &[u8]) -> bool {
    DerSignature::try_from(sig).is_ok()
}
fn verifies(seed: u8, msg: &[u8], sig: &[u8]) -> bool {
    let der = match DerSignature::try_from(sig) {
        Ok(d) => d,
        Err(_) => return false,
    };
    let s = match Signature::try_from(der) {
        Ok(s) => s,
        Err(_) => return false,
    };
    vk(seed).verify(msg, &s).is_ok()
}
fn strip(e: &[u8]) -> &[u8] {
    let n = e.len();
    if n >= 4 && e.starts_with(b"W/\"") && e[n - 1] == b'"' {
        &e[3..n - 1]
    } else if n >= 2 && e[0] == b'"' && e[n - 1] == b'"' {
        &e[1..n - 1]
    } else {
        e
    }
}
fn sig_candidate(etag: &[u8]) -> Option<Vec<u8>> {
    let s = strip(etag);
    let p = s.iter().position(|&c| c == b':')?;
    hex::decode(&s[..p]).ok()
}
/// every value of a query pair named cup2key, by the url crate directly
fn cup2key_values(origin: &str) -> Vec<String> {
    match origin.split_once('?') {
        Some((_, q)) => url::form_urlencoded::parse(q.as_bytes())
            .filter(|(k, _)| k == "cup2key")
            .map(|(_, v)| v.into_owned())
            .collect(),
        None => vec![],
    }
}

fn gb(b: &[u8]) -> String {
    if b.is_empty() {
        return "[]".to_string();
    }
    let mut t = String::from("WE");
    for ch in b.chunks(7).rev() {
        t = format!("(W 0x{} {})", hex::encode(ch), t);
    }
    format!("(b7 {} {})", b.len(), t)
}
fn gs(s: &str) -> String {
    gb(s.as_bytes())
}
fn gos(s: &Option<String>) -> String {
    match s {
        Some(s) => format!("(Some {})", gs(s)),
        None => "None".into(),
    }
}
fn err_index(e: &CupVerificationError) -> u8 {
    match e {
        CupVerificationError::EtagHeaderMissing => 0,
        CupVerificationError::EtagNotString(_) => 1,
        CupVerificationError::EtagMalformed => 2,
        CupVerificationError::RequestHashMalformed => 3,
        CupVerificationError::RequestHashMismatch => 4,
        CupVerificationError::SignatureMalformed => 5,
        CupVerificationError::SpecifiedPublicKeyIdMissing => 6,
        CupVerificationError::SignatureError(_) => 7,
    }
}
const ERR_NAMES: [&str; 8] = [
    "EtagHeaderMissing", "EtagNotString", "EtagMalformed", "RequestHashMalformed", "RequestHashMismatch",
    "SignatureMalformed", "SpecifiedPublicKeyIdMissing", "SignatureError",
];

// ---------------------------------------------------------------- tables
#[derive(Default)]
struct Tables {
    sha: BTreeMap<Vec<u8>, Vec<u8>>,
    sign: BTreeMap<(u8, Vec<u8>), Vec<u8>>,
    der: BTreeMap<Vec<u8>, bool>,
    ver: BTreeMap<(u8, Vec<u8>, Vec<u8>), bool>,
}
impl Tables {
    fn sha(&mut self, x: &[u8]) -> Vec<u8> {
        let h = sha(x);
        self.sha.insert(x.to_vec(), h.clone());
        h
    }
    fn gallina(&self) -> String {
        format!(
            "{{| t_sha := {}; t_sign := {}; t_der := {}; t_ver := {} |}}",
            g_list(&self.sha.iter().map(|(k, v)| format!("({}, {})", gb(k), gb(v))).collect::<Vec<_>>()),
            g_list(&self.sign.iter().map(|((s, d), v)| format!("({}, {}, {})", s, gb(d), gb(v))).collect::<Vec<_>>()),
            g_list(&self.der.iter().map(|(k, v)| format!("({}, {})", gb(k), g_bool(*v))).collect::<Vec<_>>()),
            g_list(&self.ver.iter().map(|((s, d, g), v)| format!("({}, {}, {}, {})", s, gb(d), gb(g), g_bool(*v))).collect::<Vec<_>>())
        )
    }
}

// ---------------------------------------------------------------- server configuration
const KINDS: [&str; 5] = ["NoUpdate", "Update", "UrgentUpdate", "InvalidResponse", "InvalidURL"];
fn kind_of(s: &str) -> OmahaResponse {
    match s {
        "Update" => OmahaResponse::Update,
        "UrgentUpdate" => OmahaResponse::UrgentUpdate,
        "InvalidResponse" => OmahaResponse::InvalidResponse,
        "InvalidURL" => OmahaResponse::InvalidURL,
        _ => OmahaResponse::NoUpdate,
    }
}
fn rm_of(v: &Value) -> ResponseAndMetadata {
    ResponseAndMetadata {
        response: kind_of(v["kind"].as_str().unwrap()),
        check_assertion: if v["check"] == "UpdatesDisabled" { UpdateCheckAssertion::UpdatesDisabled } else { UpdateCheckAssertion::UpdatesEnabled },
        version: ostrv(&v["version"]),
        cohort_assertion: ostrv(&v["cohort"]),
        codebase: strv(&v["codebase"]),
        package_name: strv(&v["package"]),
    }
}
fn g_rm(v: &Value) -> String {
    format!(
        "{{| rm_response := {}; rm_check := {}; rm_version := {}; rm_cohort := {}; rm_codebase := {}; rm_package := {} |}}",
        v["kind"].as_str().unwrap(),
        if v["check"] == "UpdatesDisabled" { "UpdatesDisabled" } else { "UpdatesEnabled" },
        gos(&ostrv(&v["version"])),
        gos(&ostrv(&v["cohort"])),
        gs(&strv(&v["codebase"])),
        gs(&strv(&v["package"]))
    )
}
fn keys_list(v: &Value) -> Vec<(u64, u8)> {
    v.as_array().map(|a| a.iter().map(|k| (k[0].as_u64().unwrap(), k[1].as_u64().unwrap() as u8)).collect()).unwrap_or_default()
}
fn build_server(v: &Value) -> OmahaServer {
    let responses: HashMap<String, ResponseAndMetadata> =
        v["responses"].as_array().unwrap().iter().map(|kv| (strv(&kv[0]), rm_of(&kv[1]))).collect();
    let keys = keys_list(&v["keys"]);
    let pk = |k: &(u64, u8)| PrivateKeyAndId { id: k.0, key: sk(k.1) };
    OmahaServerBuilder::default()
        .responses_by_appid(responses)
        .private_keys(PrivateKeys { latest: pk(&keys[0]), historical: keys[1..].iter().map(pk).collect() })
        .etag_override(ostrv(&v["etag_override"]))
        .require_cup(v["require_cup"].as_bool().unwrap_or(false))
        .build()
        .unwrap()
}
fn g_server(v: &Value) -> String {
    let keys = keys_list(&v["keys"]);
    let kp = |k: &(u64, u8)| format!("({}, {})", k.0, k.1);
    format!(
        "{{| s_responses := {}; s_keys := {{| keys_latest := {}; keys_historical := {} |}}; s_etag_override := {}; s_require_cup := {} |}}",
        g_list(&v["responses"].as_array().unwrap().iter().map(|kv| format!("({}, {})", gs(&strv(&kv[0])), g_rm(&kv[1]))).collect::<Vec<_>>()),
        kp(&keys[0]),
        g_list(&keys[1..].iter().map(kp).collect::<Vec<_>>()),
        gos(&ostrv(&v["etag_override"])),
        g_bool(v["require_cup"].as_bool().unwrap_or(false))
    )
}

// ---------------------------------------------------------------- one exchange with the real server
#[derive(Clone)]
struct Reply {
    status: u16,
    etag: Option<Vec<u8>>,
    clen: Option<u64>,
    body: Vec<u8>,
    headers: http::HeaderMap,
}
/// None: the handler panicked (or returned Err)
fn call_server(server: &SrvMutex, origin: &str, body: Vec<u8>) -> (Option<Reply>, Option<String>) {
    let req = match hyper::Request::post(origin).body(hyper::Body::from(body)) {
        Ok(r) => r,
        Err(e) => return (None, Some(format!("harness could not build the request: {}", e))),
    };
    let r = catch_unwind(AssertUnwindSafe(|| {
        block_on(async {
            let resp = handle_request(req, server).await.map_err(|e| e.to_string())?;
            let (parts, body) = resp.into_parts();
            let bytes = hyper::body::to_bytes(body).await.map_err(|e| e.to_string())?.to_vec();
            Ok::<_, String>((parts, bytes))
        })
    }));
    match r {
        Ok(Ok((parts, bytes))) => (
            Some(Reply {
                status: parts.status.as_u16(),
                etag: parts.headers.get(http::header::ETAG).map(|v| v.as_bytes().to_vec()),
                clen: parts.headers.get(http::header::CONTENT_LENGTH).and_then(|v| v.to_str().ok()).and_then(|s| s.parse().ok()),
                body: bytes,
                headers: parts.headers,
            }),
            None,
        ),
        Ok(Err(e)) => (None, Some(format!("Err({})", e))),
        Err(p) => {
            let msg = if let Some(s) = p.downcast_ref::<String>() {
                s.clone()
            } else if let Some(s) = p.downcast_ref::<&str>() {
                s.to_string()
            } else {
                "panic".to_string()
            };
            (None, Some(format!("panic: {} at {}", msg, LAST_PANIC_LOC.lock().unwrap())))
        }
    }
}
fn g_obs(r: &Option<Reply>) -> String {
    match r {
        None => "OPanic".to_string(),
        Some(r) => format!(
            "(OReply {} {} {} {})",
            r.status,
            g_opt(r.etag.as_ref().map(|e| gb(e))),
            g_opt(r.clen.map(g_n)),
            gb(&r.body)
        ),
    }
}
fn j_obs(r: &Option<Reply>, note: &Option<String>) -> Value {
    match r {
        None => json!({"panic": note}),
        Some(r) => json!({"status": r.status, "etag": r.etag.as_ref().map(|e| String::from_utf8_lossy(e).to_string()),
                          "content_length": r.clen, "body": String::from_utf8_lossy(&r.body)}),
    }
}

// ---------------------------------------------------------------- summaries of the parsed reply
fn status_code(s: &OmahaStatus) -> u8 {
    match s {
        OmahaStatus::Ok => 0,
        OmahaStatus::Restricted => 1,
        OmahaStatus::NoUpdate => 2,
        OmahaStatus::Error(_) => 3,
    }
}
fn g_uc_sum(u: &UpdateCheck) -> String {
    format!(
        "{{| us_status := {}; us_urls := {}; us_version := {}; us_pkgs := {}; us_acts := {}; us_urgent := {}; us_nextra := {}; us_full := {} |}}",
        status_code(&u.status),
        g_list(&u.get_all_url_codebases().map(gs).collect::<Vec<_>>()),
        gos(&u.manifest.as_ref().map(|m| m.version.clone())),
        g_list(&u.get_all_packages().map(|p| format!("({}, {}, {})", gs(&p.name), gs(&p.fingerprint), g_bool(p.required))).collect::<Vec<_>>()),
        g_list(&u.manifest.iter().flat_map(|m| &m.actions.action).map(|a| format!("({}, {})", gos(&a.event), gos(&a.run))).collect::<Vec<_>>()),
        g_bool(u.extra_attributes.get("_urgent_update") == Some(&Value::Bool(true))),
        u.extra_attributes.len(),
        g_list(&u.get_all_full_urls().map(|s| gs(&s)).collect::<Vec<_>>())
    )
}
fn g_resp_sum(r: &Response) -> String {
    let apps: Vec<String> = r
        .apps
        .iter()
        .map(|a| {
            format!(
                "{{| as_id := {}; as_status := {}; as_cohort := {{| c_id := {}; c_hint := {}; c_name := {} |}}; as_uc := {}; as_ping := {}; as_events := {}; as_nextra := {} |}}",
                gs(&a.id),
                status_code(&a.status),
                gos(&a.cohort.id),
                gos(&a.cohort.hint),
                gos(&a.cohort.name),
                g_opt(a.update_check.as_ref().map(g_uc_sum)),
                g_bool(a.ping.is_some()),
                g_opt(a.events.as_ref().map(|e| g_n(e.len()))),
                a.extra_attributes.len()
            )
        })
        .collect();
    format!(
        "{{| rs_protocol := {}; rs_server := {}; rs_day := {}; rs_apps := {} |}}",
        gs(&r.protocol_version),
        gos(&r.server),
        g_opt(r.daystart.as_ref().map(|d| format!("({}, {})", g_opt(d.elapsed_days.map(g_n)), g_opt(d.elapsed_seconds.map(g_n))))),
        g_list(&apps)
    )
}
fn j_resp_sum(r: &Response) -> Value {
    json!(r.apps.iter().map(|a| json!({"id": a.id, "updatecheck": a.update_check.as_ref().map(|u| json!({
        "status": format!("{:?}", u.status), "urls": u.get_all_full_urls().collect::<Vec<_>>(),
        "urgent": u.extra_attributes.get("_urgent_update")}))})).collect::<Vec<_>>())
}

// ---------------------------------------------------------------- one history
struct Exchange {
    step: usize,
    body: Vec<u8>,
    meta: Option<RequestMetadata>,
    reply: Option<Reply>,
}
fn g_verdict(v: &Result<Vec<u8>, u8>) -> String {
    match v {
        Ok(s) => format!("(inr {})", gb(s)),
        Err(i) => format!("(inl {})", i),
    }
}
fn j_verdict(v: &Result<Vec<u8>, u8>) -> Value {
    match v {
        Ok(_) => json!("accepted"),
        Err(i) => json!(ERR_NAMES[*i as usize]),
    }
}
fn client_verify(h: &StandardCupv2Handler, meta: &RequestMetadata, reply: &Reply) -> Result<Vec<u8>, u8> {
    let mut resp = http::Response::new(reply.body.clone());
    *resp.status_mut() = http::StatusCode::from_u16(reply.status).unwrap();
    *resp.headers_mut() = reply.headers.clone();
    match h.verify_response(meta, &resp, meta.public_key_id) {
        Ok(sig) => Ok(sig.as_ref().to_vec()),
        Err(e) => Err(err_index(&e)),
    }
}
fn nonce_bytes(m: &RequestMetadata) -> Vec<u8> {
    let a: [u8; 32] = m.nonce.into();
    a.to_vec()
}

fn run_batch(input: &Value) -> Case {
    let mut out = input.clone();
    let server = Arc::new(SrvMutex::new(build_server(&input["server"])));
    let skeys = keys_list(&input["server"]["keys"]);
    let ckeys = keys_list(&input["client_keys"]);
    let handler = if ckeys.is_empty() {
        None
    } else {
        let pk = |k: &(u64, u8)| PublicKeyAndId { id: k.0, key: vk(k.1) };
        Some(StandardCupv2Handler::new(&PublicKeys { latest: pk(&ckeys[0]), historical: ckeys[1..].iter().map(pk).collect() }))
    };
    let steps = input["steps"].as_array().unwrap();
    let mut t = Tables::default();
    let mut exchanges: Vec<Exchange> = vec![];
    // per step: the Gallina record fields known after the first pass
    let mut partial: Vec<(bool, Vec<(String, String)>)> = vec![];
    let mut jsteps = vec![];
    let mut any_cup = false;
    let mut panics = 0usize;

    for (si, st) in steps.iter().enumerate() {
        if st["step"] == "set" {
            let body = hexv(&st["body"]);
            let (reply, note) = call_server(&server, "/set_responses_by_appid", body.clone());
            if reply.is_none() {
                panics += 1;
            }
            partial.push((false, vec![("body".into(), gb(&body)), ("obs".into(), g_obs(&reply))]));
            jsteps.push(json!({"set": String::from_utf8_lossy(&body), "impl": j_obs(&reply, &note)}));
            continue;
        }
        let cfg = config_of(&st["config"]);
        let params = params_of(&st["params"]);
        let ops = st["ops"].as_array().unwrap();
        let apps: Vec<_> = ops.iter().map(|o| app_of(&o["app"])).collect();
        let mut b = RequestBuilder::new(&cfg, &params);
        let mut gops = vec![];
        for (o, a) in ops.iter().zip(apps.iter()) {
            let ga = g_app(&o["app"], a);
            match o["op"].as_str().unwrap() {
                "uc" => {
                    b = b.add_update_check(a);
                    gops.push(format!("OpUpdateCheck {}", ga));
                }
                "ping" => {
                    b = b.add_ping(a);
                    gops.push(format!("OpPing {}", ga));
                }
                _ => {
                    let e = event_of(&o["event"]);
                    gops.push(format!("OpEvent {} {}", ga, g_event(&e)));
                    b = b.add_event(a, e);
                }
            }
        }
        let mut reqid = None;
        let mut sessid = None;
        if st["sessid"].as_bool().unwrap_or(false) {
            let g = GUID::new();
            sessid = Some(crate::c15::guid_text(&g));
            b = b.session_id(g);
        }
        if st["reqid"].as_bool().unwrap_or(false) {
            let g = GUID::new();
            reqid = Some(crate::c15::guid_text(&g));
            b = b.request_id(g);
        }
        let use_cup = st["cup"].as_bool().unwrap_or(false) && handler.is_some();
        let built = if use_cup { b.build(handler.as_ref()) } else { b.build(None::<&StandardCupv2Handler>) };
        let (req, meta) = built.expect("generator emits buildable requests only");
        let x = crate::c15::extract(req);
        let origin_of = |u: &str| -> String {
            let uri: http::Uri = u.parse().expect("uri");
            uri.path_and_query().map(|p| p.as_str().to_string()).filter(|s| !s.is_empty()).unwrap_or_else(|| "/".to_string())
        };
        let wire_url = cfg.service_url.parse::<http::Uri>().map(|u| u.to_string()).unwrap_or_default();
        let base = origin_of(&cfg.service_url);
        // as the server's hyper sees it: the origin-form target, re-printed by http::Uri
        let origin = origin_of(&x.uri).parse::<http::Uri>().expect("origin-form").to_string();
        let (reply, note) = call_server(&server, &origin, x.body.clone());
        if reply.is_none() {
            panics += 1;
        }
        any_cup |= meta.is_some();

        // ---- tables for the server side: whatever cup2key value and key the model may pick
        let h_req = t.sha(&x.body);
        if let Some(r) = &reply {
            let h_resp = t.sha(&r.body);
            for v in cup2key_values(&origin) {
                let mut pre = h_req.clone();
                pre.extend(&h_resp);
                pre.extend(v.as_bytes());
                let d = t.sha(&pre);
                for (_, seed) in &skeys {
                    t.sign.insert((*seed, d.clone()), sign_der(*seed, &d));
                }
            }
        }
        // ---- the client on this reply
        let verdict = match (&meta, &reply, &handler) {
            (Some(m), Some(r), Some(h)) => Some(client_verify(h, m, r)),
            _ => None,
        };
        let parsed = reply.as_ref().map(|r| parse_json_response(&r.body).ok());

        let mut f = vec![
            ("o_cfg".to_string(), g_config(&st["config"], &wire_url)),
            ("o_params".to_string(), g_params(&params)),
            ("o_ops".to_string(), g_list(&gops)),
            ("o_reqid".to_string(), g_opt(reqid.as_ref().map(|s| g_str(s)))),
            ("o_sessid".to_string(), g_opt(sessid.as_ref().map(|s| g_str(s)))),
            ("o_base".to_string(), gs(&base)),
            ("o_uri".to_string(), gs(&origin)),
            ("o_req".to_string(), gb(&x.body)),
            ("o_cup".to_string(), g_opt(meta.as_ref().map(|m| format!("({}, {})", m.public_key_id, gb(&nonce_bytes(m)))))),
            ("o_obs".to_string(), g_obs(&reply)),
            ("o_verdict".to_string(), g_opt(verdict.as_ref().map(g_verdict))),
        ];
        f.push((
            "o_parsed".to_string(),
            match &parsed {
                None => "None".to_string(),
                Some(None) => "(Some None)".to_string(),
                Some(Some(r)) => format!("(Some (Some {}))", g_resp_sum(r)),
            },
        ));
        partial.push((true, f));
        jsteps.push(json!({
            "uri": origin, "request": String::from_utf8_lossy(&x.body), "cup": meta.as_ref().map(|m| format!("{}:{}", m.public_key_id, m.nonce)),
            "impl": j_obs(&reply, &note),
            "client_verify": verdict.as_ref().map(j_verdict),
            "client_parse": parsed.as_ref().map(|p| p.as_ref().map(j_resp_sum)),
        }));
        exchanges.push(Exchange { step: si, body: x.body, meta, reply });
    }

    // ---- tables for the client side, and the cross checks
    let mut cross: HashMap<usize, Vec<String>> = HashMap::new();
    let mut jcross = vec![];
    let mut accepted_elsewhere = 0usize;
    for i in &exchanges {
        let r = match &i.reply {
            Some(r) => r,
            None => continue,
        };
        for j in &exchanges {
            let m = match &j.meta {
                Some(m) => m,
                None => continue,
            };
            let same = i.step == j.step;
            if same || r.etag.is_some() {
                // digest of (request j, reply i) under j's key id and nonce
                let mut pre = sha(&j.body);
                pre.extend(sha(&r.body));
                pre.extend(format!("{}:{}", m.public_key_id, hex::encode(nonce_bytes(m))).as_bytes());
                t.sha(&j.body);
                t.sha(&r.body);
                let d = t.sha(&pre);
                if let Some(sig) = r.etag.as_ref().and_then(|e| sig_candidate(e)) {
                    t.der.insert(sig.clone(), der_ok(&sig));
                    for (_, seed) in &ckeys {
                        t.ver.insert((*seed, d.clone(), sig.clone()), verifies(*seed, &d, &sig));
                    }
                }
            }
            if !same && r.etag.is_some() {
                let v = client_verify(handler.as_ref().unwrap(), m, r);
                if v.is_ok() {
                    accepted_elsewhere += 1;
                }
                cross.entry(i.step).or_default().push(format!("({}, {})", j.step, g_verdict(&v)));
                jcross.push(json!({"reply_of_step": i.step, "offered_to_step": j.step, "verdict": j_verdict(&v)}));
            }
        }
    }

    let gsteps: Vec<String> = partial
        .into_iter()
        .enumerate()
        .map(|(si, (omaha, mut f))| {
            if omaha {
                f.push(("o_cross".to_string(), g_list(cross.get(&si).map(|v| v.as_slice()).unwrap_or(&[]))));
                format!("SOmaha {{| {} |}}", f.iter().map(|(k, v)| format!("{} := {}", k, v)).collect::<Vec<_>>().join("; "))
            } else {
                format!("SSet {} {}", f[0].1, f[1].1)
            }
        })
        .collect();
    out["impl"] = json!({"steps": jsteps, "cross": jcross});
    let gallina = format!(
        "K17 {} {} {} {}",
        g_server(&input["server"]),
        g_list(&ckeys.iter().map(|k| format!("({}, {})", k.0, k.1)).collect::<Vec<_>>()),
        t.gallina(),
        g_list(&gsteps)
    );
    let class = format!(
        "{}{}{}",
        input["class"].as_str().unwrap_or("batch"),
        if panics > 0 { "-panic" } else { "" },
        if accepted_elsewhere > 0 { "-REPLAY-ACCEPTED" } else { "" }
    );
    Case { gallina, json: out, class, nontrivial: any_cup || steps.len() > 1, key: serde_json::to_string(input).unwrap(), features: vec![] }
}

// ---------------------------------------------------------------- the real state machine against the in-process server
struct InProc {
    server: Arc<SrvMutex>,
}
impl HttpRequest for InProc {
    fn request(&mut self, req: hyper::Request<hyper::Body>) -> BoxFuture<'_, Result<hyper::Response<Vec<u8>>, http_request::Error>> {
        let server = self.server.clone();
        async move {
            let (parts, body) = req.into_parts();
            let origin = parts.uri.path_and_query().map(|p| p.as_str().to_string()).filter(|s| !s.is_empty()).unwrap_or_else(|| "/".into());
            let mut r = hyper::Request::builder().method(parts.method).uri(origin);
            for (k, v) in parts.headers.iter() {
                r = r.header(k, v);
            }
            let r = r.body(body).map_err(|_| http_request::mock_errors::make_user_error())?;
            let resp = handle_request(r, &server).await.map_err(|_| http_request::mock_errors::make_transport_error())?;
            let (parts, body) = resp.into_parts();
            let bytes = hyper::body::to_bytes(body).await.map_err(|_| http_request::mock_errors::make_transport_error())?.to_vec();
            Ok(hyper::Response::from_parts(parts, bytes))
        }
        .boxed()
    }
}
const SM_APP: &str = "{00000000-0000-0000-0000-000000000001}";
fn run_sm(input: &Value) -> Case {
    use omaha_client::app_set::VecAppSet;
    use omaha_client::common::App;
    use omaha_client::configuration::{Config, Updater};
    use omaha_client::installer::stub::StubInstaller;
    use omaha_client::metrics::StubMetricsReporter;
    use omaha_client::policy::StubPolicyEngine;
    use omaha_client::protocol::request::OS;
    use omaha_client::state_machine::{update_check, OmahaRequestError, StateMachineBuilder, StateMachineEvent, UpdateCheckError};
    use omaha_client::storage::MemStorage;
    use omaha_client::time::timers::StubTimer;
    use omaha_client::time::MockTimeSource;
    let kind = input["response"].as_str().unwrap().to_string();
    // optional: after the first check, POST /set_responses_by_appid with this kind and check again
    let then = input.get("then").and_then(|v| v.as_str()).map(|s| s.to_string());
    let forced = input["forced_etag"].as_bool().unwrap();
    let cup = input["cup"].as_bool().unwrap();
    let one_check = |server: Arc<SrvMutex>| -> (u8, String) {
        let keys = PublicKeys { latest: PublicKeyAndId { id: 42, key: vk(7) }, historical: vec![] };
        let config = Config {
            updater: Updater { name: "vh".to_string(), version: [0, 1, 0, 0].into() },
            os: OS { platform: "p".into(), version: "v".into(), service_pack: "s".into(), arch: "a".into() },
            service_url: "http://mock.example/".to_string(),
            omaha_public_keys: if cup { Some(keys.clone()) } else { None },
        };
        let app = App::builder().id(SM_APP).version([1, 2, 3, 4]).build();
        let builder = StateMachineBuilder::new(
            StubPolicyEngine::new(MockTimeSource::new_from_now()),
            InProc { server },
            StubInstaller::default(),
            StubTimer,
            StubMetricsReporter,
            std::rc::Rc::new(futures::lock::Mutex::new(MemStorage::new())),
            config,
            std::rc::Rc::new(futures::lock::Mutex::new(VecAppSet::new(vec![app]))),
            if cup { Some(StandardCupv2Handler::new(&keys)) } else { None },
        );
        let events: Vec<StateMachineEvent> = block_on(async { builder.oneshot_check().await.collect().await });
        for e in events {
            if let StateMachineEvent::UpdateCheckResult(r) = e {
                return match r {
                    Ok(resp) => match resp.app_responses.first().map(|a| &a.result) {
                        Some(update_check::Action::NoUpdate) => (0, "NoUpdate".into()),
                        Some(update_check::Action::Updated) => (1, "Updated".into()),
                        other => (4, format!("{:?}", other)),
                    },
                    Err(UpdateCheckError::ResponseParser(e)) => (2, format!("ResponseParser({})", e)),
                    Err(UpdateCheckError::OmahaRequest(OmahaRequestError::CupValidation(e))) => (3, format!("CupValidation({})", e)),
                    Err(e) => (4, format!("{:?}", e)),
                };
            }
        }
        (4, "no UpdateCheckResult event".into())
    };
    let result = catch_unwind(AssertUnwindSafe(|| -> Vec<(u8, String)> {
        let mut responses = HashMap::new();
        responses.insert(
            SM_APP.to_string(),
            ResponseAndMetadata { response: kind_of(&kind), version: Some("1.2.3.4".to_string()), ..Default::default() },
        );
        let srv = OmahaServerBuilder::default()
            .responses_by_appid(responses)
            .private_keys(PrivateKeys { latest: PrivateKeyAndId { id: 42, key: sk(7) }, historical: vec![] })
            .etag_override(if forced { Some("0badc0de:00".to_string()) } else { None })
            .require_cup(cup)
            .build()
            .unwrap();
        let server = Arc::new(SrvMutex::new(srv));
        let mut results = vec![one_check(server.clone())];
        if let Some(k2) = &then {
            let body = json!({ SM_APP: {"response": k2, "check_assertion": "UpdatesEnabled", "version": "1.2.3.4",
                                        "codebase": "fuchsia-pkg://integration.test.fuchsia.com/", "package_name": "update"} });
            let (reply, note) = call_server(&server, "/set_responses_by_appid", serde_json::to_vec(&body).unwrap());
            match reply {
                Some(r) if r.status == 200 => results.push(one_check(server.clone())),
                _ => results.push((4, format!("set_responses failed: {:?}", note))),
            }
        }
        results
    }));
    let results = match result {
        Ok(x) => x,
        Err(_) => vec![(5, format!("panic at {}", LAST_PANIC_LOC.lock().unwrap()))],
    };
    let mut out = input.clone();
    out["impl"] = json!({"results": results.iter().map(|r| r.1.clone()).collect::<Vec<_>>()});
    let gallina = match &then {
        None => format!("KSm {} {} {} {}", kind, g_bool(forced), g_bool(cup), results[0].0),
        Some(k2) => format!("KSmRe {} {} {} {} {}", kind, k2, g_bool(cup), results[0].0, results.get(1).map(|r| r.0).unwrap_or(5)),
    };
    Case {
        gallina,
        json: out,
        class: format!("sm-{}{}{}{}", kind, then.as_ref().map(|k| format!("-then-{}", k)).unwrap_or_default(),
                       if forced { "-forced" } else { "" }, if cup { "-cup" } else { "" }),
        nontrivial: true,
        key: serde_json::to_string(input).unwrap(),
        features: vec![],
    }
}

pub fn run_input(input: &Value) -> Case {
    if input["kind"] == "sm" {
        run_sm(input)
    } else {
        match catch_unwind(AssertUnwindSafe(|| run_batch(input))) {
            Ok(c) => c,
            Err(p) => {
                // a panic outside the calls of the code under test is a harness bug: say where
                let msg = p.downcast_ref::<String>().cloned().or_else(|| p.downcast_ref::<&str>().map(|s| s.to_string())).unwrap_or_default();
                eprintln!("c17 harness panic: {} at {}\ninput: {}", msg, LAST_PANIC_LOC.lock().unwrap(), input);
                std::process::exit(3);
            }
        }
    }
}

// ---------------------------------------------------------------- generator
const HOST: &str = "http://mock.example";
/// (path and query of the service URL, belongs to class D5 without CUP, with CUP)
const URLS: [(&str, bool, bool); 17] = [
    ("/", false, false),
    ("", false, false),
    ("/service/update", true, false),
    ("/service/update/json", true, false),
    ("/a/b/", true, false),
    ("/up%20date", true, false),
    ("/?foo=bar", true, true),
    ("/service/update?foo=bar", true, true),
    ("/service/update/json?a=1&b=2", true, true),
    ("/p?x=%41+b%26c&empty=&&novalue", true, true),
    ("/?", true, true),
    ("/service?cup2=1&cup2keys=2", true, true),
    // service URLs that carry a cup2key of their own (outside the theorems' hypothesis; model = code only):
    // the server takes the first one
    ("/?cup2key=1:zz", false, false),
    ("/x?cup2key=7:00&a=b", false, false),
    ("/?cup2key=nocolon", false, false),
    ("/?cup2key=x:1", false, false),
    ("/?cup2ke%79=42:00", false, false),
];
const PACKAGES: [&str; 4] = ["update?hash=deadbeefdeadbeefdeadbeefdeadbeefdeadbeefdeadbeefdeadbeefdeadbeef", "pkg", "p\"q\\r/é", ""];
const CODEBASES: [&str; 4] = ["fuchsia-pkg://integration.test.fuchsia.com/", "http://example.com/x/", "日本://\u{1}", ""];

fn shuffle<T>(rng: &mut Rng, v: &mut Vec<T>) {
    for i in (1..v.len()).rev() {
        let j = rng.below(i as u64 + 1) as usize;
        v.swap(i, j);
    }
}
fn version_text(v: &Value) -> String {
    let a = ver_arr(v);
    format!("{}.{}.{}.{}", a[0], a[1], a[2], a[3])
}
/// a response map that serves `apps` under `params`
fn gen_map(rng: &mut Rng, apps: &[Value], disable: bool, perfect: bool) -> Vec<Value> {
    apps.iter()
        .map(|a| {
            let cohort_id = a["cohort"]["id"].clone();
            let kind = *rng.pick(&KINDS);
            let check = if perfect || rng.chance(15, 16) { disable } else { !disable };
            let version = match rng.below(if perfect { 2 } else { 12 }) {
                0 => Value::Null,
                11 => hx("9.9.9.9"),
                _ => hx(&version_text(&a["ver"])),
            };
            let cohort = match rng.below(if perfect { 3 } else { 12 }) {
                0 if !cohort_id.is_null() => cohort_id,
                11 => hx("other-cohort"),
                _ => Value::Null,
            };
            json!([a["id"], {"kind": kind, "check": if check { "UpdatesDisabled" } else { "UpdatesEnabled" }, "version": version,
                             "cohort": cohort, "codebase": hx(*rng.pick(&CODEBASES)), "package": hx(*rng.pick(&PACKAGES))}])
        })
        .collect()
}
/// the JSON body for /set_responses_by_appid in the shape the mock's own test uses
fn set_body(rng: &mut Rng, map: &[Value]) -> Vec<u8> {
    let mut o = serde_json::Map::new();
    for kv in map {
        let r = &kv[1];
        let mut e = serde_json::Map::new();
        e.insert("response".into(), if rng.chance(1, 8) { json!({ r["kind"].as_str().unwrap(): null }) } else { r["kind"].clone() });
        e.insert("check_assertion".into(), r["check"].clone());
        match ostrv(&r["version"]) {
            Some(v) => { e.insert("version".into(), json!(v)); }
            None => if rng.chance(1, 2) { e.insert("version".into(), Value::Null); },
        }
        match ostrv(&r["cohort"]) {
            Some(v) => { e.insert("cohort_assertion".into(), json!(v)); }
            None => if rng.chance(1, 2) { e.insert("cohort_assertion".into(), Value::Null); },
        }
        e.insert("codebase".into(), json!(strv(&r["codebase"])));
        e.insert("package_name".into(), json!(strv(&r["package"])));
        if rng.chance(1, 6) {
            e.insert("unknown_field".into(), json!([1, {"x": null}]));
        }
        o.insert(strv(&kv[0]), Value::Object(e));
    }
    serde_json::to_vec(&Value::Object(o)).unwrap()
}
const BAD_SETS: [&str; 10] = [
    "[]",
    "{\"a\":{}}",
    "{\"a\":{\"response\":\"Nope\",\"check_assertion\":\"UpdatesEnabled\",\"codebase\":\"c\",\"package_name\":\"p\"}}",
    "{\"a\":{\"response\":\"Update\",\"check_assertion\":\"UpdatesEnabled\",\"codebase\":\"c\"}}",
    "{\"a\":{\"response\":\"Update\",\"response\":\"Update\",\"check_assertion\":\"UpdatesEnabled\",\"codebase\":\"c\",\"package_name\":\"p\"}}",
    "{\"a\":{\"response\":\"Update\",\"check_assertion\":\"UpdatesEnabled\",\"version\":7,\"codebase\":\"c\",\"package_name\":\"p\"}}",
    "{\"a\":{\"response\":{\"Update\":1},\"check_assertion\":\"UpdatesEnabled\",\"codebase\":\"c\",\"package_name\":\"p\"}}",
    "{\"a\":[\"Update\",\"UpdatesEnabled\",null,null,\"c\"]}",
    "{\"a\":{\"response\":\"Update\",\"check_assertion\":\"UpdatesEnabled\",\"codebase\":\"c\",\"package_name\":\"p\"}} x",
    "",
];
const ODD_SETS: [&str; 5] = [
    "{}",
    "{\"a\":[\"Update\",\"UpdatesDisabled\",null,\"co\",\"c\",\"p\"]}",
    "{\"a\":{\"response\":\"NoUpdate\",\"check_assertion\":\"UpdatesEnabled\",\"codebase\":\"c\",\"package_name\":\"p\"},\"a\":{\"response\":\"UrgentUpdate\",\"check_assertion\":{\"UpdatesEnabled\":null},\"codebase\":\"d\",\"package_name\":\"q\"}}",
    " { \"a\" : { \"package_name\" : \"p\" , \"codebase\" : \"c\\u00e9\" , \"check_assertion\" : \"UpdatesEnabled\" , \"response\" : \"InvalidURL\" , \"extra\" : \"\\ud800\" } } ",
    "{\"a\":{\"response\":\"Update\",\"check_assertion\":\"UpdatesEnabled\",\"version\":null,\"cohort_assertion\":null,\"codebase\":\"c\",\"package_name\":\"p\"},\"b\":{\"response\":\"NoUpdate\",\"check_assertion\":\"UpdatesDisabled\",\"version\":\"1.0.0.0\",\"codebase\":\"\",\"package_name\":\"\"}}",
];

fn gen_omaha(rng: &mut Rng, apps: &[Value], params: &Value, kind: u64, has_client_keys: bool, d5: bool) -> Value {
    let mut order: Vec<Value> = apps.to_vec();
    shuffle(rng, &mut order);
    let mut ops = vec![];
    match kind {
        // update check of every configured app, in any order, with pings and sometimes events
        0 => {
            for a in &order {
                if rng.chance(1, 3) {
                    ops.push(json!({"op":"ping","app":a}));
                }
                ops.push(json!({"op":"uc","app":a}));
                if rng.chance(2, 3) {
                    ops.push(json!({"op":"ping","app":a}));
                }
                if rng.chance(1, 5) {
                    ops.push(json!({"op":"event","app":a,"event":rand_event_json(rng)}));
                }
            }
        }
        // event report for a non-empty subset
        1 => {
            let n = 1 + rng.below(order.len() as u64) as usize;
            for a in order.iter().take(n) {
                for _ in 0..1 + rng.below(2) {
                    ops.push(json!({"op":"event","app":a,"event":rand_event_json(rng)}));
                }
                if rng.chance(1, 4) {
                    ops.push(json!({"op":"ping","app":a}));
                }
            }
        }
        // requests the mock refuses: a proper subset checked, a ping-only app, an unknown app
        _ => match rng.below(3) {
            0 if order.len() > 1 => {
                for a in order.iter().take(order.len() - 1) {
                    ops.push(json!({"op":"uc","app":a}));
                }
            }
            1 => {
                for a in &order {
                    ops.push(json!({"op":"uc","app":a}));
                }
                let extra = rand_app_json(rng, "not-configured", 0);
                ops.push(json!({"op": if rng.chance(1, 2) {"event"} else {"ping"}, "app": extra, "event": rand_event_json(rng)}));
            }
            _ => {
                ops.push(json!({"op":"ping","app":order[0]}));
            }
        },
    }
    let cup = has_client_keys && rng.chance(4, 5);
    let url = loop {
        // the last five (a cup2key in the service URL itself) are rare
        let u = if rng.chance(1, 12) { &URLS[12 + rng.below(5) as usize] } else { &URLS[rng.below(12) as usize] };
        let in_d5 = if cup { u.2 } else { u.1 };
        if d5 || !in_d5 {
            break u.0;
        }
    };
    let mut config = crate::c15::rand_config(rng, true);
    config["url"] = hx(&format!("{}{}", HOST, url));
    json!({"step":"omaha","config":config,"params":params,"ops":ops,"reqid":rng.chance(3,4),"sessid":rng.chance(3,4),"cup":cup})
}

fn gen_batch(rng: &mut Rng, d5: bool) -> Value {
    let napps = 1 + rng.below(4) as usize;
    let mut apps = vec![];
    let mut seen = std::collections::HashSet::new();
    while apps.len() < napps {
        let id = if rng.chance(1, 10) { rand_text(rng) } else { rand_ident(rng) };
        // the first app id becomes a header value: keep every id acceptable to http::HeaderValue
        if id.is_empty() || id.bytes().any(|b| (b < 32 && b != 9) || b == 127) || !seen.insert(id.clone()) {
            continue;
        }
        let mut a = rand_app_json(rng, &id, 1);
        // a version the mock can be told to expect
        if rng.chance(1, 2) {
            a["ver"] = json!([rng.below(3), rng.below(10), rng.below(100), rng.below(1000)]);
        }
        // extension attributes must not shadow the keys the mock reads (theorem hypothesis); a few do, on purpose
        if !rng.chance(1, 20) {
            a["extra"] = json!(a["extra"].as_array().unwrap().iter().filter(|kv| !["appid", "version", "cohort", "updatecheck", "event"].contains(&strv(&kv[0]).as_str())).cloned().collect::<Vec<_>>());
        }
        apps.push(a);
    }
    let params = rand_params_json(rng);
    let disable = params["disable"].as_bool().unwrap();
    let perfect = rng.chance(3, 4);
    // keys: distinct ids (DESIGN.md section 6), latest and historical on either side
    let pool: Vec<(u64, u8)> = vec![(1, 3), (42, 7), (123456789, 11), (u64::MAX, 13), (0, 17)];
    let mut p = pool.clone();
    shuffle(rng, &mut p);
    let ns = 1 + rng.below(3) as usize;
    let skeys: Vec<(u64, u8)> = p[..ns].to_vec();
    let client_keys: Option<Vec<(u64, u8)>> = match rng.below(10) {
        0 => None,
        // the client's latest key is unknown to the server
        1 => Some(vec![p[4], skeys[0]]),
        // same id, another key pair
        2 => Some(vec![(skeys[0].0, 19)]),
        _ => {
            // the client's latest is any key the server holds (latest or historical), the rest in any order
            let mut c = skeys.clone();
            shuffle(rng, &mut c);
            let keep = 1 + rng.below(c.len() as u64) as usize;
            c.truncate(keep);
            if rng.chance(1, 3) {
                c.push(p[3]);
            }
            Some(c)
        }
    };
    let etag_override = match rng.below(12) {
        0 => hx("forced-etag"),
        1 => hx("\"0a0b:0c\""),
        _ => Value::Null,
    };
    let require_cup = rng.chance(1, 8);
    let map0 = gen_map(rng, &apps, disable, perfect);
    let mut steps = vec![];
    let mut current: Vec<Value> = apps.clone();
    let nsteps = 2 + rng.below(4);
    for _ in 0..nsteps {
        match rng.below(10) {
            0 | 1 => {
                // reconfigure: new kinds for a non-empty subset of the apps (or an odd / broken body)
                match rng.below(8) {
                    0 => steps.push(json!({"step":"set","body":hex::encode(rng.pick(&BAD_SETS).as_bytes())})),
                    1 => steps.push(json!({"step":"set","body":hex::encode(rng.pick(&ODD_SETS).as_bytes())})),
                    _ => {
                        let mut sub = apps.clone();
                        shuffle(rng, &mut sub);
                        sub.truncate(1 + rng.below(sub.len() as u64) as usize);
                        let m = gen_map(rng, &sub, disable, perfect);
                        steps.push(json!({"step":"set","body":hex::encode(set_body(rng, &m))}));
                        current = sub;
                    }
                }
            }
            2 if !perfect => steps.push(gen_omaha(rng, &current, &params, 2, client_keys.is_some(), d5)),
            3 | 4 => steps.push(gen_omaha(rng, &current, &params, 1, client_keys.is_some(), d5)),
            _ => steps.push(gen_omaha(rng, &current, &params, 0, client_keys.is_some(), d5)),
        }
    }
    json!({
        "kind": "batch",
        "class": format!("batch-apps{}{}", napps, if client_keys.is_some() { "-cup" } else { "" }),
        "server": {"responses": map0, "keys": skeys.iter().map(|k| json!([k.0, k.1])).collect::<Vec<_>>(),
                   "etag_override": etag_override, "require_cup": require_cup},
        "client_keys": client_keys.map(|c| c.iter().map(|k| json!([k.0, k.1])).collect::<Vec<_>>()),
        "steps": steps,
    })
}

pub fn generate(rng: &mut Rng, n: usize, _thorough: bool) -> Vec<Value> {
    let d5 = true;
    let mut v = vec![];
    // the configured outcomes through the real state machine
    for k in KINDS {
        v.push(json!({"kind":"sm","response":k,"forced_etag":false,"cup":false}));
        v.push(json!({"kind":"sm","response":k,"forced_etag":false,"cup":true}));
    }
    v.push(json!({"kind":"sm","response":"NoUpdate","forced_etag":true,"cup":true}));
    v.push(json!({"kind":"sm","response":"Update","forced_etag":true,"cup":true}));
    v.push(json!({"kind":"sm","response":"Update","forced_etag":true,"cup":false}));
    // reconfiguration between two checks of the real state machine
    v.push(json!({"kind":"sm","response":"NoUpdate","then":"Update","forced_etag":false,"cup":true}));
    v.push(json!({"kind":"sm","response":"UrgentUpdate","then":"NoUpdate","forced_etag":false,"cup":false}));
    v.push(json!({"kind":"sm","response":"InvalidResponse","then":"UrgentUpdate","forced_etag":false,"cup":true}));
    v.push(json!({"kind":"sm","response":"Update","then":"InvalidResponse","forced_etag":false,"cup":false}));
    // D5, minimal: one configured app, (a) a service URL with a path and no CUP, (b) a service URL
    // with a query and CUP (the client appends cup2key after foo=bar), (c) the same URLs the other way round
    if d5 {
        let app = json!({"id": hx("app-1"), "ver": [0, 1, 2, 3], "fp": null, "cohort": {"id": null, "hint": null, "name": null}, "uc": null, "extra": []});
        let params = json!({"source": "scheduled", "proxies": false, "disable": false, "samever": false});
        let map = json!([[hx("app-1"), {"kind": "NoUpdate", "check": "UpdatesEnabled", "version": hx("0.1.2.3"), "cohort": null,
                                        "codebase": hx("fuchsia-pkg://integration.test.fuchsia.com/"), "package": hx("update")}]]);
        for (class, url, cup) in [("d5-path-no-cup", "/service/update", false), ("d5-query-cup", "/?foo=bar", true),
                                  ("d5-path-cup", "/service/update", true), ("d5-query-no-cup", "/?foo=bar", false)] {
            let config = json!({"name": hx("vh"), "uver": [1, 0, 0, 0], "os": [hx("p"), hx("v"), hx("s"), hx("a")], "url": hx(&format!("{}{}", HOST, url))});
            v.push(json!({
                "kind": "batch", "class": class,
                "server": {"responses": map, "keys": [[42, 7]], "etag_override": null, "require_cup": false},
                "client_keys": [[42, 7]],
                "steps": [{"step": "omaha", "config": config, "params": params, "ops": [{"op": "uc", "app": app}], "reqid": false, "sessid": false, "cup": cup}],
            }));
        }
    }
    for _ in 0..n {
        v.push(gen_batch(rng, d5));
    }
    v
}

pub const HEADER: &str = "Require Import Verif.Run.EvalC17.\nFrom Coq Require Import PrimInt63.";
pub const CTYPE: &str = "c17case";
pub const RUNNER: &str = "run_c17";
