//! C01 — CUPv2 response verification, against omaha_client::cup_ecdsa.
//!
//! Every case is one call of the real `StandardCupv2Handler::verify_response`
//! (and, when it accepts, of `verify_response_with_signature`).  Authentic
//! ETags are made here with `p256::ecdsa::SigningKey` over a digest composed
//! with `sha2` directly — never with the library's `make_transaction_hash` —
//! so a change of the composition inside the library cannot cancel out.
//! The crypto tables handed to the Coq model (SHA-256 of the bodies and of the
//! digest preimage, DER verdict, ECDSA verdict) are computed with sha2 / p256
//! directly as well, never through the handler.
use crate::util::*;
use http::header::{HeaderValue, ETAG};
use omaha_client::cup_ecdsa::{
    CupVerificationError, Cupv2RequestHandler, Cupv2Verifier, Nonce, PublicKeyAndId, PublicKeys, RequestMetadata,
    StandardCupv2Handler,
};
use p256::ecdsa::signature::{Signer, Verifier};
use p256::ecdsa::{DerSignature, Signature, SigningKey, VerifyingKey};
use serde_json::{json, Value};
use sha2::{Digest, Sha256};
use std::convert::TryFrom;

// ---------------------------------------------------------------- primitives (independent of omaha-client)
fn sha(b: &[u8]) -> Vec<u8> {
    Sha256::digest(b).to_vec()
}
/// deterministic key pair number `seed` (1..=254): private scalar = seed repeated 32 times
fn sk(seed: u8) -> SigningKey {
    SigningKey::from_bytes(&[seed; 32]).expect("valid scalar")
}
fn vk(seed: u8) -> VerifyingKey {
    sk(seed).verifying_key()
}
/// "<key id>:<nonce hex>"
fn urlparam(id: u64, nonce: &[u8]) -> Vec<u8> {
    format!("{}:{}", id, hex::encode(nonce)).into_bytes()
}
/// the preimage of the transaction digest as the SPECIFICATION composes it
fn preimage(req: &[u8], resp: &[u8], id: u64, nonce: &[u8]) -> Vec<u8> {
    let mut v = sha(req);
    v.extend(sha(resp));
    v.extend(urlparam(id, nonce));
    v
}
/// ECDSA/SHA-256 signature (DER) of `msg` under key `seed` (RFC 6979, deterministic)
fn sign_der(seed: u8, msg: &[u8]) -> Vec<u8> {
    let s: Signature = sk(seed).sign(msg);
    s.to_der().as_bytes().to_vec()
}
fn content(sig: &[u8], hash: &[u8]) -> Vec<u8> {
    format!("{}:{}", hex::encode(sig), hex::encode(hash)).into_bytes()
}
fn der_ok(sig: &[u8]) -> bool {
    DerSignature::try_from(sig).is_ok()
}
/// the real p256 verifier, directly: DER -> Signature -> Verifier::verify(message)
fn verifies(seed: u8, msg: &[u8], sig: &[u8]) -> bool {
    let der = match DerSignature::try_from(sig) {
        Ok(d) => d,
        Err(_) => return false,
    };
    let s = match Signature::try_from(der) {
        Ok(s) => s,
        Err(_) => return false,
    };
    vk(seed).verify(msg, &s).is_ok()
}
/// table-side reading of an ETag value (only decides which table entries are
/// supplied; a mistake here shows up as ORACLE-MISS, never as agreement)
fn strip(e: &[u8]) -> &[u8] {
    let n = e.len();
    if n >= 4 && e.starts_with(b"W/\"") && e[n - 1] == b'"' {
        &e[3..n - 1]
    } else if n >= 2 && e[0] == b'"' && e[n - 1] == b'"' {
        &e[1..n - 1]
    } else {
        e
    }
}
fn sig_candidate(etags: &[Vec<u8>]) -> Option<Vec<u8>> {
    let s = strip(etags.first()?);
    let p = s.iter().position(|&c| c == b':')?;
    hex::decode(&s[..p]).ok()
}
fn header_ok(e: &[u8]) -> bool {
    HeaderValue::from_bytes(e).is_ok()
}

// ---------------------------------------------------------------- one case
/// Gallina byte-string literal `(b7 len (W 0x.. (W 0x.. WE)))`, 7 bytes per
/// primitive-integer word (Run/EvalC01.v): about 30 times cheaper for Coq to
/// read than a string literal, and the case files are mostly byte strings
fn gb(b: &[u8]) -> String {
    let mut t = String::from("WE");
    for ch in b.chunks(7).rev() {
        t = format!("(W 0x{} {})", hex::encode(ch), t);
    }
    format!("(b7 {} {})", b.len(), t)
}
fn hexf(v: &Value) -> Vec<u8> {
    hex::decode(v.as_str().expect("hex string")).expect("hex")
}
fn err_index(e: &CupVerificationError) -> u8 {
    match e {
        CupVerificationError::EtagHeaderMissing => 0,
        CupVerificationError::EtagNotString(_) => 1,
        CupVerificationError::EtagMalformed => 2,
        CupVerificationError::RequestHashMalformed => 3,
        CupVerificationError::RequestHashMismatch => 4,
        CupVerificationError::SignatureMalformed => 5,
        CupVerificationError::SpecifiedPublicKeyIdMissing => 6,
        CupVerificationError::SignatureError(_) => 7,
    }
}
const ERR_NAMES: [&str; 8] = [
    "EtagHeaderMissing",
    "EtagNotString",
    "EtagMalformed",
    "RequestHashMalformed",
    "RequestHashMismatch",
    "SignatureMalformed",
    "SpecifiedPublicKeyIdMissing",
    "SignatureError",
];

enum Obs {
    Ok(Vec<u8>),
    Err(u8),
    /// accepted by verify_response but refused by verify_response_with_signature
    Split,
    History(&'static str),
}

pub fn run_input(input: &Value) -> Case {
    let req = hexf(&input["req"]);
    let resp = hexf(&input["resp"]);
    let nonce_v = hexf(&input["nonce"]);
    let mut nonce = [0u8; 32];
    nonce.copy_from_slice(&nonce_v);
    let id = input["id"].as_u64().expect("id");
    // request_metadata.public_key_id: not read by verify_response; varied to show it
    let meta_id = input.get("meta_id").and_then(|v| v.as_u64()).unwrap_or(id);
    let keys: Vec<(u64, u8)> = input["keys"]
        .as_array()
        .expect("keys")
        .iter()
        .map(|k| (k[0].as_u64().unwrap(), k[1].as_u64().unwrap() as u8))
        .collect();
    let etags: Vec<Vec<u8>> = input["etags"].as_array().expect("etags").iter().map(hexf).collect();
    let class = input["class"].as_str().unwrap_or("case").to_string();

    // ---- the implementation
    let obs = std::panic::catch_unwind(|| -> Obs {
        let pk = |k: &(u64, u8)| PublicKeyAndId { id: k.0, key: vk(k.1) };
        let pks = PublicKeys { latest: pk(&keys[0]), historical: keys[1..].iter().map(pk).collect() };
        let handler = StandardCupv2Handler::new(&pks);
        let mut b = http::Response::builder().status(200);
        for e in &etags {
            b = b.header(ETAG, HeaderValue::from_bytes(e).expect("generator emits valid header values only"));
        }
        let response: http::Response<Vec<u8>> = b.body(resp.clone()).unwrap();
        let meta = RequestMetadata { request_body: req.clone(), public_key_id: meta_id, nonce: Nonce::from(nonce) };
        match handler.verify_response(&meta, &response, id) {
            Ok(sig) => {
                let bytes: Vec<u8> = sig.as_ref().to_vec();
                // the stored-signature entry point must agree on what was just accepted
                match handler.verify_response_with_signature(&sig, &req, &resp, id, &Nonce::from(nonce)) {
                    Ok(()) => {
                        // verification is a function of its arguments: on the SAME handler, which has just accepted this
                        // exchange, the same ETag over an altered response body, and the stored signature over an altered
                        // request body, must still be refused, and the genuine exchange still accepted
                        let mut resp2 = resp.clone();
                        resp2.push(b' ');
                        let mut b2 = http::Response::builder().status(200);
                        for e in &etags { b2 = b2.header(ETAG, HeaderValue::from_bytes(e).unwrap()); }
                        let response2: http::Response<Vec<u8>> = b2.body(resp2.clone()).unwrap();
                        let mut req2 = req.clone();
                        req2.push(b' ');
                        if handler.verify_response(&meta, &response2, id).is_ok() { Obs::History("altered response body accepted after the genuine one") }
                        else if handler.verify_response_with_signature(&sig, &req, &resp2, id, &Nonce::from(nonce)).is_ok() { Obs::History("stored signature accepted over an altered response body") }
                        else if handler.verify_response_with_signature(&sig, &req2, &resp, id, &Nonce::from(nonce)).is_ok() { Obs::History("stored signature accepted over an altered request body") }
                        else if handler.verify_response(&meta, &response, id).is_err() { Obs::History("the genuine exchange refused the second time") }
                        else { Obs::Ok(bytes) }
                    }
                    Err(_) => Obs::Split,
                }
            }
            Err(e) => Obs::Err(err_index(&e)),
        }
    });

    // ---- oracle tables, from sha2 / p256 directly
    let (sha_req, sha_resp) = (sha(&req), sha(&resp));
    let pre = preimage(&req, &resp, id, &nonce);
    let digest = sha(&pre);
    let mut der_t = vec![];
    let mut ver_t = vec![];
    if let Some(sig) = sig_candidate(&etags) {
        der_t.push(g_pair(&gb(&sig), &g_bool(der_ok(&sig))));
        let mut seen = vec![];
        for (kid, seed) in &keys {
            if *kid == id && !seen.contains(seed) {
                seen.push(*seed);
                ver_t.push(format!("({}, {}, {}, {})", seed, gb(&digest), gb(&sig), g_bool(verifies(*seed, &digest, &sig))));
            }
        }
    }

    let mut out = input.clone();
    let (impl_g, class) = match obs {
        Ok(Obs::Ok(s)) => {
            out["impl"] = json!({"ok": hex::encode(&s)});
            (format!("(inr {})", gb(&s)), class)
        }
        Ok(Obs::Err(i)) => {
            out["impl"] = json!({"err": ERR_NAMES[i as usize]});
            (format!("(inl {})", i), class)
        }
        Ok(Obs::History(what)) => {
            out["impl"] = json!(format!("history on one handler: {}", what));
            ("(inl 97)".to_string(), format!("{}-HISTORY", class))
        }
        Ok(Obs::Split) => {
            out["impl"] = json!("verify_response accepted, verify_response_with_signature refused");
            ("(inl 98)".to_string(), format!("{}-SPLIT", class))
        }
        Err(_) => {
            // the model has no panic outcome: reported as a disagreement
            out["impl"] = json!("PANIC");
            ("(inl 99)".to_string(), format!("{}-PANIC", class))
        }
    };
    let gallina = format!(
        "K01 {} {} {} {} {} {} {} {} {} {} {} {}",
        gb(&req),
        gb(&resp),
        gb(&nonce),
        id,
        g_list(&keys.iter().map(|(i, s)| format!("({}, {})", i, s)).collect::<Vec<_>>()),
        g_list(&etags.iter().map(|e| gb(e)).collect::<Vec<_>>()),
        gb(&sha_req),
        gb(&sha_resp),
        g_list(&[g_pair(&gb(&pre), &gb(&digest))]),
        g_list(&der_t),
        g_list(&ver_t),
        impl_g
    );
    let nontrivial = !etags.is_empty();
    Case { gallina, json: out, class, nontrivial, key: serde_json::to_string(input).unwrap(), features: vec![] }
}

// ---------------------------------------------------------------- generator
#[derive(Clone)]
struct Exch {
    req: Vec<u8>,
    resp: Vec<u8>,
    nonce: Vec<u8>,
    keys: Vec<(u64, u8)>,
    id: u64,
    /// seed of the key the server signs with
    signer: u8,
}

fn mk(ex: &Exch, etags: &[Vec<u8>], class: &str) -> Value {
    json!({
        "class": class,
        "req": hex::encode(&ex.req),
        "resp": hex::encode(&ex.resp),
        "nonce": hex::encode(&ex.nonce),
        "id": ex.id,
        "keys": ex.keys.iter().map(|(i, s)| json!([i, s])).collect::<Vec<_>>(),
        "etags": etags.iter().map(hex::encode).collect::<Vec<_>>(),
    })
}

fn quoted(c: &[u8]) -> Vec<u8> {
    let mut v = vec![b'"'];
    v.extend_from_slice(c);
    v.push(b'"');
    v
}
fn weak(c: &[u8]) -> Vec<u8> {
    let mut v = b"W/\"".to_vec();
    v.extend_from_slice(c);
    v.push(b'"');
    v
}
fn cat(parts: &[&[u8]]) -> Vec<u8> {
    parts.concat()
}

fn rand_body(rng: &mut Rng, big: bool) -> Vec<u8> {
    match rng.below(if big { 8 } else { 6 }) {
        0 => vec![],
        1 => { let n = 1 + rng.below(8) as usize; rng.bytes(n) }
        2 => { let n = 9 + rng.below(56) as usize; rng.bytes(n) }
        3 | 4 => {
            // JSON-like
            let n = rng.below(4);
            let mut apps = vec![];
            for i in 0..=n {
                apps.push(json!({"appid": format!("{{{:08x}-app-{}}}", rng.next() as u32, i),
                                 "status": *rng.pick(&["ok", "noupdate", "error-unknownApplication"]),
                                 "cohort": format!("{}:{}", rng.below(9), rng.below(99))}));
            }
            serde_json::to_vec(&json!({"response": {"protocol": "3.0", "server": "prod", "app": apps}})).unwrap()
        }
        5 => {
            let mut v = b"{\"request\":{\"protocol\":\"3.0\",\"updater\":\"\xc3\xa9\",\"ismachine\":true}}".to_vec();
            let n = rng.below(40) as usize;
            v.extend(rng.bytes(n));
            v
        }
        _ => { let n = 257 + rng.below(1792) as usize; rng.bytes(n) }
    }
}

fn rand_id(rng: &mut Rng) -> u64 {
    match rng.below(7) {
        0 => rng.below(10),
        1 => 123456789,
        2 => u64::MAX - rng.below(2),
        3 => 10u64.pow(rng.below(20) as u32),
        4 => 1u64 << rng.below(64),
        _ => rng.next(),
    }
}

/// indices to visit: all of 0..n in the exhaustive case, else `k` sampled ones
fn positions(rng: &mut Rng, n: usize, k: usize, all: bool) -> Vec<usize> {
    if all || n <= k {
        (0..n).collect()
    } else {
        let mut v: Vec<usize> = (0..k).map(|_| rng.below(n as u64) as usize).collect();
        v.sort();
        v.dedup();
        v
    }
}

fn flip(b: &[u8], bit: usize) -> Vec<u8> {
    let mut v = b.to_vec();
    v[bit / 8] ^= 1 << (bit % 8);
    v
}

fn mutations(rng: &mut Rng, ex: &Exch, idx: usize, exhaustive: bool, lite: bool, out: &mut Vec<Value>) {
    let pre = preimage(&ex.req, &ex.resp, ex.id, &ex.nonce);
    let digest = sha(&pre);
    let sig = sign_der(ex.signer, &digest);
    let hash = sha(&ex.req);
    let c = content(&sig, &hash);
    let (sighex, hashhex) = (hex::encode(&sig).into_bytes(), hex::encode(&hash).into_bytes());
    // the encoding used as the base of the byte-level mutation streams rotates
    let enc = |x: &[u8]| -> Vec<u8> {
        match idx % 3 {
            0 => x.to_vec(),
            1 => quoted(x),
            _ => weak(x),
        }
    };
    let e = enc(&c);
    let push = |out: &mut Vec<Value>, ex: &Exch, etags: &[Vec<u8>], class: &str| {
        if etags.iter().all(|t| header_ok(t)) {
            out.push(mk(ex, etags, class));
        }
    };

    // -- authentic, three encodings; request_metadata.public_key_id is irrelevant
    push(out, ex, &[c.clone()], "authentic-plain");
    push(out, ex, &[quoted(&c)], "authentic-quoted");
    push(out, ex, &[weak(&c)], "authentic-weak");
    {
        let mut v = mk(ex, &[e.clone()], "authentic-other-meta-id");
        v["meta_id"] = json!(ex.id ^ 1);
        out.push(v);
    }

    // -- every / sampled single-bit flip of the ETag bytes
    let nb = if lite { 16 } else { 128 };
    for bit in positions(rng, e.len() * 8, nb, exhaustive) {
        push(out, ex, &[flip(&e, bit)], "etag-bitflip");
    }
    // -- bit flips of the bodies, the nonce and the key id
    for (which, body) in [("req", &ex.req), ("resp", &ex.resp)] {
        let all = exhaustive && body.len() <= 64;
        for bit in positions(rng, body.len() * 8, 8, all) {
            let mut x = ex.clone();
            if which == "req" {
                x.req = flip(body, bit);
            } else {
                x.resp = flip(body, bit);
            }
            push(out, &x, &[e.clone()], if which == "req" { "req-bitflip" } else { "resp-bitflip" });
        }
        // length changes
        let mut x = ex.clone();
        let mut longer = body.clone();
        longer.push(0);
        if which == "req" { x.req = longer } else { x.resp = longer }
        push(out, &x, &[e.clone()], if which == "req" { "req-extended" } else { "resp-extended" });
        if !body.is_empty() {
            let mut x = ex.clone();
            let shorter = body[..body.len() - 1].to_vec();
            if which == "req" { x.req = shorter } else { x.resp = shorter }
            push(out, &x, &[e.clone()], if which == "req" { "req-truncated" } else { "resp-truncated" });
        }
    }
    {
        let mut x = ex.clone();
        std::mem::swap(&mut x.req, &mut x.resp);
        push(out, &x, &[e.clone()], "bodies-swapped");
    }
    for bit in positions(rng, 256, 8, exhaustive) {
        let mut x = ex.clone();
        x.nonce = flip(&ex.nonce, bit);
        push(out, &x, &[e.clone()], "nonce-bitflip");
    }
    for bit in positions(rng, 64, 8, exhaustive) {
        let mut x = ex.clone();
        x.id = ex.id ^ (1u64 << bit);
        push(out, &x, &[e.clone()], "keyid-bitflip");
    }
    for (kid, _) in &ex.keys {
        if *kid != ex.id {
            let mut x = ex.clone();
            x.id = *kid;
            push(out, &x, &[e.clone()], "keyid-other-registered");
        }
    }
    if lite {
        return;
    }

    // -- truncation
    for n in positions(rng, e.len(), 48, exhaustive) {
        push(out, ex, &[e[..n].to_vec()], "etag-truncated");
    }
    for n in positions(rng, e.len(), 6, exhaustive) {
        push(out, ex, &[e[e.len() - n..].to_vec()], "etag-head-cut");
    }
    // -- halves
    push(out, ex, &[enc(&cat(&[&hashhex, b":", &sighex]))], "halves-swapped");
    push(out, ex, &[enc(&cat(&[&sighex, b":", &sighex]))], "sig-twice");
    push(out, ex, &[enc(&cat(&[&hashhex, b":", &hashhex]))], "hash-twice");
    push(out, ex, &[enc(&sighex)], "sig-only");
    push(out, ex, &[enc(&cat(&[&sighex, b":"]))], "hash-empty");
    push(out, ex, &[enc(&cat(&[b":", &hashhex]))], "sig-empty");
    push(out, ex, &[enc(b":")], "colon-only");
    push(out, ex, &[enc(&cat(&[&sighex, &hashhex]))], "no-colon");
    push(out, ex, &[enc(&cat(&[&sighex, b";", &hashhex]))], "semicolon");
    // hash half: prefix / extension of the right hash (a prefix compare would accept)
    push(out, ex, &[enc(&cat(&[&sighex, b":", &hashhex[..62]]))], "hash-prefix");
    push(out, ex, &[enc(&cat(&[&sighex, b":", &hashhex[..2]]))], "hash-prefix");
    push(out, ex, &[enc(&cat(&[&sighex, b":", &hashhex, b"00"]))], "hash-extended");
    push(out, ex, &[enc(&cat(&[&sighex, b":", &hashhex, b"0"]))], "hash-odd");
    push(out, ex, &[enc(&cat(&[&sighex, b":", hex::encode(sha(&ex.resp)).as_bytes()]))], "hash-of-response");
    push(out, ex, &[enc(&cat(&[&sighex, b":", hex::encode(&digest).as_bytes()]))], "hash-is-digest");
    // -- upper / mixed case hex
    let up = |x: &[u8]| x.to_ascii_uppercase();
    push(out, ex, &[enc(&cat(&[&up(&sighex), b":", &hashhex]))], "upper-sig");
    push(out, ex, &[enc(&cat(&[&sighex, b":", &up(&hashhex)]))], "upper-hash");
    push(out, ex, &[enc(&up(&c))], "upper-both");
    {
        let mixed: Vec<u8> = c.iter().map(|&b| if rng.chance(1, 2) { b.to_ascii_uppercase() } else { b }).collect();
        push(out, ex, &[enc(&mixed)], "mixed-case");
    }
    // -- extra ':' parts
    push(out, ex, &[enc(&cat(&[&c, b":00"]))], "extra-part-after");
    push(out, ex, &[enc(&cat(&[&c, b":"]))], "extra-colon-after");
    push(out, ex, &[enc(&cat(&[b":", &c]))], "extra-colon-before");
    push(out, ex, &[enc(&cat(&[b"00:", &c]))], "extra-part-before");
    push(out, ex, &[enc(&cat(&[&sighex, b"::", &hashhex]))], "double-colon");
    // -- quoting variants
    push(out, ex, &[cat(&[b"\"", &c])], "quote-open-only");
    push(out, ex, &[cat(&[&c, b"\""])], "quote-close-only");
    push(out, ex, &[cat(&[b"W/\"", &c])], "weak-open-only");
    push(out, ex, &[cat(&[b"W/", &c, b"\""])], "weak-no-open-quote");
    push(out, ex, &[cat(&[b"W/", &c])], "weak-without-quotes");
    push(out, ex, &[cat(&[b"w/\"", &c, b"\""])], "weak-lowercase");
    push(out, ex, &[cat(&[b"W\"", &c, b"\""])], "weak-no-slash");
    push(out, ex, &[cat(&[b" W/\"", &c, b"\""])], "weak-leading-space");
    push(out, ex, &[quoted(&quoted(&c))], "quoted-twice");
    push(out, ex, &[weak(&weak(&c))], "weak-twice");
    push(out, ex, &[weak(&quoted(&c))], "weak-of-quoted");
    push(out, ex, &[quoted(&weak(&c))], "quoted-of-weak");
    push(out, ex, &[cat(&[b"'", &c, b"'"])], "single-quotes");
    push(out, ex, &[b"\"".to_vec()], "lone-quote");
    push(out, ex, &[b"\"\"".to_vec()], "empty-quoted");
    push(out, ex, &[b"W/\"".to_vec()], "weak-3-bytes");
    push(out, ex, &[b"W/\"\"".to_vec()], "weak-empty");
    push(out, ex, &[b"W/".to_vec()], "weak-2-bytes");
    push(out, ex, &[b"W".to_vec()], "w-only");
    push(out, ex, &[b"\":\"".to_vec()], "quoted-colon");
    push(out, ex, &[b"W/\":\"".to_vec()], "weak-colon");
    // -- empty / missing / white space
    push(out, ex, &[vec![]], "empty-value");
    push(out, ex, &[], "no-header");
    push(out, ex, &[cat(&[b" ", &e])], "leading-space");
    push(out, ex, &[cat(&[&e, b" "])], "trailing-space");
    push(out, ex, &[cat(&[b"\t", &e])], "leading-tab");
    push(out, ex, &[cat(&[&sighex, b" : ", &hashhex])], "spaces-around-colon");
    // -- opaque bytes (HeaderValue allows >= 0x80; to_str must refuse them)
    for _ in 0..4 {
        let mut v = e.clone();
        let p = rng.below(v.len() as u64) as usize;
        v[p] = 0x80 | (rng.next() as u8);
        push(out, ex, &[v], "opaque-byte");
    }
    push(out, ex, &[cat(&[&e, &[0xff]])], "opaque-appended");
    push(out, ex, &[cat(&[&[0xc3, 0xa9], &e[..]])], "utf8-prefixed");
    push(out, ex, &[rng.bytes(16).iter().map(|b| b | 0x80).collect()], "opaque-only");
    push(out, ex, &[cat(&[b"\"", &[0x80], b"\""])], "opaque-quoted");
    // -- duplicate ETag headers: the first one counts
    push(out, ex, &[e.clone(), b"garbage".to_vec()], "dup-authentic-first");
    push(out, ex, &[b"garbage".to_vec(), e.clone()], "dup-authentic-second");
    push(out, ex, &[e.clone(), e.clone()], "dup-both-authentic");
    push(out, ex, &[vec![], e.clone()], "dup-empty-first");
    push(out, ex, &[vec![0x80], e.clone()], "dup-opaque-first");
    // -- signed by another key
    for other in [ex.signer % 8 + 1, 200] {
        let s2 = sign_der(other, &digest);
        push(out, ex, &[enc(&content(&s2, &hash))], "resigned-other-key");
    }
    // -- digest composed differently (signed with the right key)
    let (a, b, p) = (sha(&ex.req), sha(&ex.resp), urlparam(ex.id, &ex.nonce));
    let comps: [(&str, Vec<&[u8]>); 13] = [
        ("order-req-param-resp", vec![&a, &p, &b]),
        ("order-resp-req-param", vec![&b, &a, &p]),
        ("order-resp-param-req", vec![&b, &p, &a]),
        ("order-param-req-resp", vec![&p, &a, &b]),
        ("order-param-resp-req", vec![&p, &b, &a]),
        ("drop-req-hash", vec![&b, &p]),
        ("drop-resp-hash", vec![&a, &p]),
        ("drop-param", vec![&a, &b]),
        ("only-resp-hash", vec![&b]),
        ("only-param", vec![&p]),
        ("raw-bodies", vec![&ex.req, &ex.resp, &p]),
        ("raw-resp", vec![&a, &ex.resp, &p]),
        ("req-hash-twice", vec![&a, &a, &p]),
    ];
    for (name, parts) in comps.iter() {
        let alt = sha(&parts.concat());
        push(out, ex, &[enc(&content(&sign_der(ex.signer, &alt), &hash))], &format!("recomposed-{}", name));
    }
    {
        // cup2key with a different rendering of id / nonce
        let p2 = format!("{}:{}", ex.id, hex::encode_upper(&ex.nonce)).into_bytes();
        let alt = sha(&cat(&[&a, &b, &p2]));
        push(out, ex, &[enc(&content(&sign_der(ex.signer, &alt), &hash))], "recomposed-upper-nonce");
        let p3 = format!("{:x}:{}", ex.id, hex::encode(&ex.nonce)).into_bytes();
        let alt = sha(&cat(&[&a, &b, &p3]));
        push(out, ex, &[enc(&content(&sign_der(ex.signer, &alt), &hash))], "recomposed-hex-id");
        let alt = sha(&cat(&[&a, &b, &p, b"\n"]));
        push(out, ex, &[enc(&content(&sign_der(ex.signer, &alt), &hash))], "recomposed-trailing-newline");
        // ECDSA/SHA-256 directly over the concatenation (one hash fewer than the code)
        push(out, ex, &[enc(&content(&sign_der(ex.signer, &pre), &hash))], "signed-preimage-single-hash");
        // one hash more
        push(out, ex, &[enc(&content(&sign_der(ex.signer, &sha(&digest)), &hash))], "signed-digest-of-digest");
    }
    // -- signature encodings
    {
        let s: Signature = sk(ex.signer).sign(&digest);
        let raw: Vec<u8> = s.as_ref().to_vec(); // fixed-size r || s
        push(out, ex, &[enc(&content(&raw, &hash))], "sig-raw-not-der");
        let mut t = sig.clone();
        t.push(0);
        push(out, ex, &[enc(&content(&t, &hash))], "sig-der-trailing-byte");
        push(out, ex, &[enc(&content(&sig[..sig.len() - 1], &hash))], "sig-der-short");
        push(out, ex, &[enc(&content(&hex::decode("3006020100020100").unwrap(), &hash))], "sig-der-zero-scalars");
        push(out, ex, &[enc(&content(&hex::decode("3006020101020101").unwrap(), &hash))], "sig-der-tiny-scalars");
        push(out, ex, &[enc(&content(&hex::decode("3000").unwrap(), &hash))], "sig-der-empty-sequence");
        // the high-S twin (r, n - s): ECDSA malleability, also an authentic signature
        let (r, sv) = (s.r(), s.s());
        let neg = -*sv;
        if let Ok(twin) = Signature::from_scalars(*r, neg) {
            push(out, ex, &[enc(&content(twin.to_der().as_bytes(), &hash))], "sig-high-s-twin");
        }
    }
}

pub fn generate(rng: &mut Rng, n: usize, thorough: bool) -> Vec<Value> {
    let mut v = vec![];
    for i in 0..n {
        let mut r = rng.fork();
        let big = i % 8 == 7;
        let (req, resp) = if big { (rand_body(&mut r, true), rand_body(&mut r, true)) } else { (rand_body(&mut r, false), rand_body(&mut r, false)) };
        // key set: 1..4 keys, seeds 1..=8 distinct
        let nk = 1 + r.below(4) as usize;
        let mut seeds: Vec<u8> = (1..=8).collect();
        let mut keys: Vec<(u64, u8)> = vec![];
        for _ in 0..nk {
            let s = seeds.remove(r.below(seeds.len() as u64) as usize);
            let mut id = rand_id(&mut r);
            while keys.iter().any(|(k, _)| *k == id) {
                id = id.wrapping_add(1);
            }
            keys.push((id, s));
        }
        let pick = r.below(nk as u64) as usize;
        let (mut id, mut signer) = keys[pick];
        let variant = i % 10;
        if variant == 3 && nk >= 2 {
            // duplicate key ids: another entry takes the id of the picked one;
            // whether the signer is the surviving (last) entry varies
            let other = (pick + 1 + r.below(nk as u64 - 1) as usize) % nk;
            keys[other].0 = id;
            if r.chance(1, 2) {
                signer = keys[other].1;
            }
        } else if variant == 6 {
            // the id the request was sent with is not in the key set
            id = rand_id(&mut r);
            while keys.iter().any(|(k, _)| *k == id) {
                id = id.wrapping_add(1);
            }
            signer = 9;
        } else if variant == 8 && nk >= 2 {
            // the same key registered under two ids
            let other = (pick + 1) % nk;
            keys[other].1 = signer;
        }
        let ex = Exch { req, resp, nonce: r.bytes(32), keys, id, signer };
        let lite = ex.req.len() > 256 || ex.resp.len() > 256;
        // thorough: every bit flip / truncation for one exchange in ten
        let exhaustive = thorough && i % 10 == 0 && !lite;
        mutations(&mut r, &ex, i, exhaustive, lite, &mut v);
    }
    v
}

pub const HEADER: &str = "Require Import Verif.Run.EvalC01.\nFrom Coq Require Import PrimInt63.";
pub const CTYPE: &str = "c01case";
pub const RUNNER: &str = "run_c01";
