//! C16 — the response parser, against omaha_client::protocol::response.
//!
//! Every case is one call of the real `parse_json_response` on a byte string,
//! on a thread with a small stack and under `catch_unwind`; deep-nesting cases
//! are first tried in a child process so that a stack overflow (which aborts
//! the process) is observed as a result instead of killing the harness.  The
//! returned `Response` is converted field by field into the Coq model's
//! `response` record; the Coq side parses the same bytes with the model and
//! compares (Run/EvalC16.v).
//!
//! Inputs come from a generator of the response grammar written here from the
//! protocol description (own JSON printer: key order, white space, escape
//! style and XSSI prefix vary), then mutation streams over the generated
//! documents.  An input is `{"class":..,"bytes":hex,"deep":bool,"outside":bool}`
//! (or `{"class":..,"big":{"open":hex,"count":n,"tail":hex}}` for inputs too
//! large to ship to Coq): everything needed to reproduce the case.
use crate::gal::rand_text;
use crate::util::*;
use omaha_client::protocol::response::{
    parse_json_response, Action, App, OmahaStatus, Package, Ping, Response, UpdateCheck,
};
use serde_json::{json, Map, Value};
use std::io::{Read, Write};

/// stack of the thread every parse runs on (VH_C16_STACK overrides, for calibration runs)
const STACK: usize = 256 * 1024;
fn stack_size() -> usize {
    std::env::var("VH_C16_STACK").ok().and_then(|s| s.parse().ok()).unwrap_or(STACK)
}
const XSSI: &[u8] = b")]}'\n";

// ---------------------------------------------------------------- running the real parser
enum Obs {
    Ret(Option<Response>),
    Panic,
    Overflow,
}

fn parse_on_small_stack(bytes: Vec<u8>) -> Obs {
    let h = std::thread::Builder::new()
        .stack_size(stack_size())
        .spawn(move || std::panic::catch_unwind(|| parse_json_response(&bytes).ok()))
        .expect("spawn");
    match h.join() {
        Ok(Ok(r)) => Obs::Ret(r),
        _ => Obs::Panic,
    }
}

/// `VH_C16_CHILD=1 vh C16`: read the input from stdin, parse it on the small
/// stack, exit 0 (returned) or 3 (panicked).  A stack overflow kills the
/// process with a signal, which the parent reports as OOverflow.
pub fn child_main() -> bool {
    if std::env::var("VH_C16_CHILD").is_err() {
        return false;
    }
    let mut bytes = vec![];
    std::io::stdin().read_to_end(&mut bytes).expect("stdin");
    let code = match parse_on_small_stack(bytes) {
        Obs::Ret(_) => 0,
        _ => 3,
    };
    std::process::exit(code);
}

/// None: the child died (signal / abort); Some(returned?)
fn survives_in_child(bytes: &[u8]) -> Option<bool> {
    let exe = std::env::current_exe().expect("current_exe");
    let mut ch = std::process::Command::new(exe)
        .arg("C16")
        .env("VH_C16_CHILD", "1")
        .stdin(std::process::Stdio::piped())
        .stdout(std::process::Stdio::null())
        .stderr(std::process::Stdio::null())
        .spawn()
        .expect("spawn child");
    {
        let mut si = ch.stdin.take().unwrap();
        let _ = si.write_all(bytes);
    }
    let st = ch.wait().expect("wait");
    match st.code() {
        Some(0) => Some(true),
        Some(3) => Some(false),
        _ => None,
    }
}

fn observe(bytes: &[u8], deep: bool) -> Obs {
    if deep {
        match survives_in_child(bytes) {
            None => return Obs::Overflow,
            Some(false) => return Obs::Panic,
            Some(true) => {}
        }
    }
    parse_on_small_stack(bytes.to_vec())
}

// ---------------------------------------------------------------- Response -> Gallina
/// `(b7 len (W 0x.. (W 0x.. WE)))`, 7 bytes per primitive-integer word (Run/EvalC16.v)
fn gb(b: &[u8]) -> String {
    if b.is_empty() {
        return "[]".to_string();
    }
    let mut t = String::from("WE");
    for ch in b.chunks(7).rev() {
        t = format!("(W 0x{} {})", hex::encode(ch), t);
    }
    format!("(b7 {} {})", b.len(), t)
}
fn gs(s: &str) -> String {
    gb(s.as_bytes())
}
fn gos(s: &Option<String>) -> String {
    g_opt(s.as_ref().map(|x| gs(x)))
}
fn g_status(s: &OmahaStatus) -> String {
    match s {
        OmahaStatus::Ok => "SOk".into(),
        OmahaStatus::Restricted => "SRestricted".into(),
        OmahaStatus::NoUpdate => "SNoUpdate".into(),
        OmahaStatus::Error(e) => {
            // self-test of `undebug` (used to read the private Ping.status) on every error string seen
            let d = format!("{:?}", e);
            assert!(undebug(&d[1..d.len() - 1]).as_deref() == Some(e.as_str()), "harness: undebug does not invert Debug");
            format!("(SError {})", gs(e))
        }
    }
}
fn g_value(v: &Value) -> String {
    match v {
        Value::Null => "JNull".into(),
        Value::Bool(b) => format!("(JBool {})", g_bool(*b)),
        Value::Number(n) => {
            if let Some(u) = n.as_u64() {
                format!("(JInt false {})", u)
            } else if let Some(i) = n.as_i64() {
                format!("(JInt true {})", i.unsigned_abs())
            } else {
                "JFloat".into()
            }
        }
        Value::String(s) => format!("(JStr true {})", gs(s)),
        Value::Array(a) => format!("(JArr {})", g_list(&a.iter().map(g_value).collect::<Vec<_>>())),
        Value::Object(m) => format!(
            "(JObj {})",
            g_list(&m.iter().map(|(k, v)| format!("({}, true, {})", gs(k), g_value(v))).collect::<Vec<_>>())
        ),
    }
}
fn g_extras(m: &Map<String, Value>) -> String {
    g_list(&m.iter().map(|(k, v)| format!("({}, {})", gs(k), g_value(v))).collect::<Vec<_>>())
}
fn value_has_float(v: &Value) -> bool {
    match v {
        Value::Number(n) => !n.is_u64() && !n.is_i64(),
        Value::Array(a) => a.iter().any(value_has_float),
        Value::Object(m) => m.values().any(value_has_float),
        _ => false,
    }
}

/// Rust `{:?}` of a str, undone
fn undebug(s: &str) -> Option<String> {
    let mut out = String::new();
    let mut it = s.chars();
    while let Some(c) = it.next() {
        if c != '\\' {
            out.push(c);
            continue;
        }
        match it.next()? {
            'n' => out.push('\n'),
            'r' => out.push('\r'),
            't' => out.push('\t'),
            '0' => out.push('\0'),
            '\\' => out.push('\\'),
            '"' => out.push('"'),
            '\'' => out.push('\''),
            'u' => {
                if it.next()? != '{' {
                    return None;
                }
                let mut n = 0u32;
                loop {
                    let d = it.next()?;
                    if d == '}' {
                        break;
                    }
                    n = n * 16 + d.to_digit(16)?;
                }
                out.push(char::from_u32(n)?);
            }
            _ => return None,
        }
    }
    Some(out)
}
/// `Ping.status` is private: read it from the Debug rendering
fn ping_status(p: &Ping) -> OmahaStatus {
    let d = format!("{:?}", p);
    let inner = d.strip_prefix("Ping { status: ").and_then(|x| x.strip_suffix(" }")).expect("Ping debug shape");
    let st = match inner {
        "Ok" => OmahaStatus::Ok,
        "Restricted" => OmahaStatus::Restricted,
        "NoUpdate" => OmahaStatus::NoUpdate,
        other => {
            let q = other.strip_prefix("Error(\"").and_then(|x| x.strip_suffix("\")")).expect("Ping debug Error shape");
            OmahaStatus::Error(undebug(q).expect("Ping debug escape"))
        }
    };
    st
}
fn g_package(p: &Package) -> String {
    format!(
        "{{| pk_name := {}; pk_required := {}; pk_size := {}; pk_hash := {}; pk_hash_sha256 := {}; pk_fp := {}; pk_extra := {} |}}",
        gs(&p.name), g_bool(p.required), g_opt(p.size.map(g_n)), gos(&p.hash), gos(&p.hash_sha256), gs(&p.fingerprint),
        g_extras(&p.extra_attributes)
    )
}
fn g_action(a: &Action) -> String {
    format!("{{| ac_event := {}; ac_run := {}; ac_extra := {} |}}", gos(&a.event), gos(&a.run), g_extras(&a.extra_attributes))
}
fn g_update_check(u: &UpdateCheck) -> String {
    let urls = u.urls.as_ref().map(|us| g_list(&us.url.iter().map(|x| gs(&x.codebase)).collect::<Vec<_>>()));
    let man = u.manifest.as_ref().map(|m| {
        format!(
            "{{| mf_version := {}; mf_actions := {}; mf_packages := {} |}}",
            gs(&m.version),
            g_list(&m.actions.action.iter().map(g_action).collect::<Vec<_>>()),
            g_list(&m.packages.package.iter().map(g_package).collect::<Vec<_>>())
        )
    });
    format!(
        "{{| uc_status := {}; uc_info := {}; uc_urls := {}; uc_manifest := {}; uc_extra := {} |}}",
        g_status(&u.status), gos(&u.info), g_opt(urls), g_opt(man), g_extras(&u.extra_attributes)
    )
}
fn g_app(a: &App) -> String {
    format!(
        "{{| ra_id := {}; ra_status := {}; ra_cohort := {{| c_id := {}; c_hint := {}; c_name := {} |}}; ra_ping := {}; \
         ra_update_check := {}; ra_events := {}; ra_extra := {} |}}",
        gs(&a.id), g_status(&a.status), gos(&a.cohort.id), gos(&a.cohort.hint), gos(&a.cohort.name),
        g_opt(a.ping.as_ref().map(|p| g_status(&ping_status(p)))),
        g_opt(a.update_check.as_ref().map(g_update_check)),
        g_opt(a.events.as_ref().map(|es| g_list(&es.iter().map(|e| g_status(&e.status)).collect::<Vec<_>>()))),
        g_extras(&a.extra_attributes)
    )
}
fn g_response(r: &Response) -> String {
    let ds = r.daystart.as_ref().map(|d| {
        format!("{{| ds_days := {}; ds_seconds := {} |}}", g_opt(d.elapsed_days.map(g_n)), g_opt(d.elapsed_seconds.map(g_n)))
    });
    format!(
        "{{| r_protocol := {}; r_server := {}; r_daystart := {}; r_apps := {} |}}",
        gs(&r.protocol_version), gos(&r.server), g_opt(ds), g_list(&r.apps.iter().map(g_app).collect::<Vec<_>>())
    )
}
fn response_has_float(r: &Response) -> bool {
    let m = |m: &Map<String, Value>| m.values().any(value_has_float);
    r.apps.iter().any(|a| {
        m(&a.extra_attributes)
            || a.update_check.as_ref().map_or(false, |u| {
                m(&u.extra_attributes)
                    || u.manifest.as_ref().map_or(false, |mf| {
                        mf.actions.action.iter().any(|x| m(&x.extra_attributes))
                            || mf.packages.package.iter().any(|x| m(&x.extra_attributes))
                    })
            })
    })
}
fn full_urls(r: &Response) -> Vec<Vec<String>> {
    r.apps.iter().map(|a| a.update_check.as_ref().map_or(vec![], |u| u.get_all_full_urls().collect())).collect()
}

// ---------------------------------------------------------------- one case
fn big_bytes(spec: &Value) -> Vec<u8> {
    let open = hex::decode(spec["open"].as_str().unwrap()).unwrap();
    let count = spec["count"].as_u64().unwrap() as usize;
    let head = hex::decode(spec["head"].as_str().unwrap_or("")).unwrap();
    let tail = hex::decode(spec["tail"].as_str().unwrap_or("")).unwrap();
    let mut v = head;
    for _ in 0..count {
        v.extend_from_slice(&open);
    }
    v.extend_from_slice(&tail);
    v
}

pub fn run_input(input: &Value) -> Case {
    let class = input["class"].as_str().unwrap_or("case").to_string();
    let mut out = input.clone();
    if let Some(spec) = input.get("big") {
        let bytes = big_bytes(spec);
        let r = survives_in_child(&bytes);
        out["impl"] = json!(match r { Some(true) => "returned", Some(false) => "PANIC", None => "STACK-OVERFLOW" });
        let gallina = format!("K16Big {} {}", bytes.len(), g_bool(r == Some(true)));
        return Case { gallina, json: out, class, nontrivial: true, key: serde_json::to_string(input).unwrap(), features: vec![] };
    }
    let bytes = hex::decode(input["bytes"].as_str().expect("bytes")).expect("hex");
    let deep = input["deep"].as_bool().unwrap_or(false);
    let outside = input["outside"].as_bool().unwrap_or(false);
    let obs = observe(&bytes, deep);
    let (g_obs, g_urls, class, nontrivial) = match &obs {
        Obs::Ret(Some(r)) => {
            let urls = full_urls(r);
            out["impl"] = json!({"ok": format!("{:?}", r), "float_kept": response_has_float(r)});
            (
                format!("(ORet (Some {}))", g_response(r)),
                g_list(&urls.iter().map(|l| g_list(&l.iter().map(|u| gs(u)).collect::<Vec<_>>())).collect::<Vec<_>>()),
                format!("{}/ok", class),
                true,
            )
        }
        Obs::Ret(None) => {
            out["impl"] = json!("err");
            ("(ORet None)".to_string(), "[]".to_string(), format!("{}/err", class), false)
        }
        Obs::Panic => {
            out["impl"] = json!("PANIC");
            ("OPanic".to_string(), "[]".to_string(), format!("{}/PANIC", class), true)
        }
        Obs::Overflow => {
            out["impl"] = json!("STACK-OVERFLOW");
            ("OOverflow".to_string(), "[]".to_string(), format!("{}/STACK-OVERFLOW", class), true)
        }
    };
    let gallina = format!("K16 {} {} {} {}", gb(&bytes), g_obs, g_urls, g_bool(outside));
    Case { gallina, json: out, class, nontrivial, key: input["bytes"].as_str().unwrap().to_string(), features: vec![] }
}

// ---------------------------------------------------------------- JSON text, written here
#[derive(Clone, Copy, PartialEq, Debug)]
enum Kind {
    Wrapper,
    Response,
    DayStart,
    App,
    Ping,
    Event,
    UpdateCheck,
    Urls,
    Url,
    Manifest,
    Actions,
    Action,
    Packages,
    Package,
    Other,
}
/// (key, required)
fn known(k: Kind) -> &'static [(&'static str, bool)] {
    match k {
        Kind::Wrapper => &[("response", true)],
        Kind::Response => &[("protocol", true), ("server", false), ("daystart", false), ("app", true)],
        Kind::DayStart => &[("elapsed_days", false), ("elapsed_seconds", false)],
        Kind::App => &[("appid", true), ("status", true), ("cohort", false), ("cohorthint", false), ("cohortname", false),
                       ("ping", false), ("updatecheck", false), ("event", false)],
        Kind::Ping | Kind::Event => &[("status", true)],
        Kind::UpdateCheck => &[("status", true), ("info", false), ("urls", false), ("manifest", false)],
        Kind::Urls => &[("url", true)],
        Kind::Url => &[("codebase", true)],
        Kind::Manifest => &[("version", true), ("actions", true), ("packages", true)],
        Kind::Actions => &[("action", true)],
        Kind::Action => &[("event", false), ("run", false)],
        Kind::Packages => &[("package", true)],
        Kind::Package => &[("name", true), ("required", true), ("size", false), ("hash", false), ("hash_sha256", false), ("fp", true)],
        Kind::Other => &[],
    }
}
/// structs with a #[serde(flatten)] member keep their unknown keys
fn keeps_unknown(k: Kind) -> bool {
    matches!(k, Kind::App | Kind::UpdateCheck | Kind::Action | Kind::Package)
}

#[derive(Clone, Debug)]
enum J {
    Null,
    Bool(bool),
    /// number literal, verbatim
    Num(String),
    Str(String),
    /// bytes between the quotes, verbatim (invalid UTF-8, hand-written escapes)
    RawStr(Vec<u8>),
    Arr(Vec<J>),
    Obj(Kind, Vec<(J, J)>),
    /// bytes, verbatim
    Raw(Vec<u8>),
}
fn jk(s: &str) -> J {
    J::Str(s.to_string())
}

struct Style {
    ws: bool,
    esc: u64,
}
fn put_ws(out: &mut Vec<u8>, rng: &mut Rng, st: &Style) {
    if st.ws {
        for _ in 0..rng.below(3) {
            out.push(*rng.pick(&[b' ', b'\n', b'\t', b'\r', b' ']));
        }
    }
}
fn put_str(out: &mut Vec<u8>, s: &str, rng: &mut Rng, st: &Style) {
    out.push(b'"');
    for c in s.chars() {
        let fancy = st.esc > 0 && rng.below(st.esc) == 0;
        match c {
            '"' => out.extend_from_slice(b"\\\""),
            '\\' => out.extend_from_slice(b"\\\\"),
            '/' if fancy => out.extend_from_slice(b"\\/"),
            '\n' if !fancy => out.extend_from_slice(b"\\n"),
            '\r' if !fancy => out.extend_from_slice(b"\\r"),
            '\t' if !fancy => out.extend_from_slice(b"\\t"),
            '\u{8}' if !fancy => out.extend_from_slice(b"\\b"),
            '\u{c}' if !fancy => out.extend_from_slice(b"\\f"),
            c if (c as u32) < 0x20 || fancy => {
                // \uXXXX, upper or lower case hex, surrogate pair above the BMP
                let mut units = [0u16; 2];
                for u in c.encode_utf16(&mut units) {
                    let h = if rng.chance(1, 2) { format!("\\u{:04x}", u) } else { format!("\\u{:04X}", u) };
                    out.extend_from_slice(h.as_bytes());
                }
            }
            c => {
                let mut b = [0u8; 4];
                out.extend_from_slice(c.encode_utf8(&mut b).as_bytes());
            }
        }
    }
    out.push(b'"');
}
fn put(out: &mut Vec<u8>, j: &J, rng: &mut Rng, st: &Style) {
    match j {
        J::Null => out.extend_from_slice(b"null"),
        J::Bool(true) => out.extend_from_slice(b"true"),
        J::Bool(false) => out.extend_from_slice(b"false"),
        J::Num(s) => out.extend_from_slice(s.as_bytes()),
        J::Str(s) => put_str(out, s, rng, st),
        J::RawStr(b) => {
            out.push(b'"');
            out.extend_from_slice(b);
            out.push(b'"');
        }
        J::Raw(b) => out.extend_from_slice(b),
        J::Arr(a) => {
            out.push(b'[');
            put_ws(out, rng, st);
            for (i, x) in a.iter().enumerate() {
                if i > 0 {
                    out.push(b',');
                    put_ws(out, rng, st);
                }
                put(out, x, rng, st);
                put_ws(out, rng, st);
            }
            out.push(b']');
        }
        J::Obj(_, kvs) => {
            out.push(b'{');
            put_ws(out, rng, st);
            for (i, (k, v)) in kvs.iter().enumerate() {
                if i > 0 {
                    out.push(b',');
                    put_ws(out, rng, st);
                }
                put(out, k, rng, st);
                put_ws(out, rng, st);
                out.push(b':');
                put_ws(out, rng, st);
                put(out, v, rng, st);
                put_ws(out, rng, st);
            }
            out.push(b'}');
        }
    }
}
fn render(j: &J, rng: &mut Rng, xssi: bool) -> Vec<u8> {
    let st = Style { ws: rng.chance(1, 3), esc: *rng.pick(&[0u64, 0, 0, 4, 12]) };
    let mut out = vec![];
    if xssi {
        out.extend_from_slice(XSSI);
    }
    put_ws(&mut out, rng, &st);
    put(&mut out, j, rng, &st);
    put_ws(&mut out, rng, &st);
    out
}
fn compact(j: &J) -> Vec<u8> {
    let mut rng = Rng::new(0);
    let mut out = vec![];
    put(&mut out, j, &mut rng, &Style { ws: false, esc: 0 });
    out
}

// ---------------------------------------------------------------- generator of the response grammar
struct Gen {
    /// a float was put into a kept position
    outside: bool,
    /// probability (1/den) of an unknown key per struct, of array form per plain struct
    unknown_den: u64,
    seq_den: u64,
}
fn shuffle<T>(rng: &mut Rng, v: &mut Vec<T>) {
    for i in (1..v.len()).rev() {
        let j = rng.below(i as u64 + 1) as usize;
        v.swap(i, j);
    }
}
const EXT_KEYS: [&str; 12] = ["urgent_update", "_realm_id", "x", "é", "k\"q", "arg uments", "", "size2", "Status", "appid ", "😀", "a\\b"];
/// Names the decoder's own source mentions: every string literal inside a `#[serde(..)]` attribute and every field
/// identifier of protocol/response.rs, read from the repository under check.  They are tried as unknown keys, so a
/// name the decoder newly gives a meaning to (an alias, a renamed field) is met in objects of every kind.
fn mined_keys() -> &'static Vec<String> {
    static KEYS: std::sync::OnceLock<Vec<String>> = std::sync::OnceLock::new();
    KEYS.get_or_init(|| {
        let repo = std::env::var("VERIF_REPO").unwrap_or_else(|_| "/repo".to_string());
        let src = std::fs::read_to_string(format!("{}/omaha-client/src/protocol/response.rs", repo)).unwrap_or_default();
        let mut out: Vec<String> = vec![];
        for line in src.lines() {
            let t = line.trim();
            if t.contains("serde(") {
                let mut parts = t.split('"');
                parts.next();
                while let Some(lit) = parts.next() { out.push(lit.to_string()); if parts.next().is_none() { break; } }
            } else if let Some(rest) = t.strip_prefix("pub ") {
                if let Some((name, _)) = rest.split_once(':') {
                    if !name.is_empty() && name.chars().all(|c| c.is_ascii_lowercase() || c.is_ascii_digit() || c == '_') { out.push(name.to_string()); }
                }
            }
        }
        out.sort(); out.dedup();
        // names this harness already knows as fields come up anyway; the others first
        let all_known: Vec<&str> = [Kind::Wrapper, Kind::Response, Kind::DayStart, Kind::App, Kind::Ping, Kind::UpdateCheck, Kind::Urls, Kind::Url,
                                    Kind::Manifest, Kind::Actions, Kind::Action, Kind::Packages, Kind::Package]
            .iter().flat_map(|k| known(*k).iter().map(|(n, _)| *n)).collect();
        let (novel, old): (Vec<String>, Vec<String>) = out.into_iter().partition(|n| !all_known.contains(&n.as_str()));
        let mut v = vec![];
        for _ in 0..4 { v.extend(novel.iter().cloned()); }
        v.extend(old);
        v
    })
}
/// the mined names that are not a field of any struct as this harness knows the format
fn novel_keys() -> Vec<String> {
    let mut v: Vec<String> = vec![];
    let m = mined_keys();
    for (i, k) in m.iter().enumerate() { if m[..i].contains(k) && !v.contains(k) { v.push(k.clone()); } }
    v
}
fn ext_key(rng: &mut Rng) -> String {
    let mined = mined_keys();
    if !mined.is_empty() && rng.chance(1, 3) { return rng.pick(mined).clone(); }
    if rng.chance(2, 3) { (*rng.pick(&EXT_KEYS)).to_string() } else { format!("_{}", rand_text(rng)) }
}
fn int_lit(rng: &mut Rng) -> String {
    match rng.below(8) {
        0 => "0".into(),
        1 => format!("{}", rng.below(1000)),
        2 => format!("-{}", 1 + rng.below(1000)),
        3 => format!("{}", u64::MAX - rng.below(2)),
        4 => format!("{}", i64::MIN + rng.below(2) as i64),
        5 => format!("{}", (1u64 << 32) - 1 + rng.below(3)),
        6 => format!("{}", (1u64 << 63) - 1 + rng.below(3)),
        _ => format!("{}", rng.next()),
    }
}
fn float_lit(rng: &mut Rng) -> String {
    (*rng.pick(&["0.5", "-1.25", "1e3", "1E-2", "2.5e+10", "-0", "18446744073709551616", "-9223372036854775809", "0.0", "123456789012345678901234567890"])).to_string()
}
impl Gen {
    /// a value for an extension attribute
    fn ext_value(&mut self, rng: &mut Rng, depth: u32) -> J {
        match rng.below(if depth >= 3 { 6 } else { 9 }) {
            0 => J::Null,
            1 => J::Bool(rng.chance(1, 2)),
            2 | 3 => J::Str(rand_text(rng)),
            4 => J::Num(int_lit(rng)),
            5 => {
                if rng.chance(1, 25) {
                    self.outside = true;
                    J::Num(float_lit(rng))
                } else {
                    J::Num(int_lit(rng))
                }
            }
            6 | 7 => J::Arr((0..rng.below(4)).map(|_| self.ext_value(rng, depth + 1)).collect()),
            _ => J::Obj(Kind::Other, (0..rng.below(4)).map(|_| (J::Str(ext_key(rng)), self.ext_value(rng, depth + 1))).collect()),
        }
    }
    /// a value nobody looks at (unknown key of a struct without flatten): anything, floats included
    fn ignored_value(&mut self, rng: &mut Rng) -> J {
        let keep = self.outside;
        let v = if rng.chance(1, 4) { J::Num(float_lit(rng)) } else { self.ext_value(rng, 1) };
        self.outside = keep;
        v
    }
    fn finish(&mut self, rng: &mut Rng, kind: Kind, mut kvs: Vec<(J, J)>, max_ext: u64) -> J {
        if keeps_unknown(kind) {
            for _ in 0..rng.below(max_ext + 1) {
                let key = ext_key(rng);
                if known(kind).iter().any(|(n, _)| *n == key) {
                    continue;
                }
                let v = self.ext_value(rng, 0);
                kvs.push((J::Str(key), v));
            }
            shuffle(rng, &mut kvs);
            J::Obj(kind, kvs)
        } else {
            if rng.below(self.seq_den) == 0 {
                // array form: one element per declared field, null for an absent option
                let elems = known(kind)
                    .iter()
                    .map(|(n, _)| kvs.iter().find(|(k, _)| matches!(k, J::Str(s) if s == n)).map(|(_, v)| v.clone()).unwrap_or(J::Null))
                    .collect();
                return J::Arr(elems);
            }
            if rng.below(self.unknown_den) == 0 {
                let key = ext_key(rng);
                if !known(kind).iter().any(|(n, _)| *n == key) {
                    let v = self.ignored_value(rng);
                    kvs.push((J::Str(key), v));
                }
            }
            shuffle(rng, &mut kvs);
            J::Obj(kind, kvs)
        }
    }
    fn status(&mut self, rng: &mut Rng) -> J {
        J::Str(match rng.below(10) {
            0..=2 => "ok".to_string(),
            3 => "noupdate".to_string(),
            4 => "restricted".to_string(),
            5 => (*rng.pick(&["error-unknownApplication", "error-invalidAppId", "error", "OK", "Ok", "NoUpdate", "ok ", "", "noupdat", "restricted\u{0}"])).to_string(),
            6 => format!("error-{}", rand_text(rng)),
            _ => (*rng.pick(&["ok", "noupdate", "error-hash", "foobar"])).to_string(),
        })
    }
    fn opt_text(&mut self, rng: &mut Rng, kvs: &mut Vec<(J, J)>, key: &str) {
        match rng.below(8) {
            0..=3 => {}
            4 => kvs.push((jk(key), J::Null)),
            5 => kvs.push((jk(key), J::Str(String::new()))),
            _ => kvs.push((jk(key), J::Str(rand_text(rng)))),
        }
    }
    fn status_struct(&mut self, rng: &mut Rng, kind: Kind) -> J {
        let s = self.status(rng);
        self.finish(rng, kind, vec![(jk("status"), s)], 0)
    }
    fn package(&mut self, rng: &mut Rng) -> J {
        let mut kvs = vec![
            (jk("name"), J::Str(if rng.chance(1, 3) { rand_text(rng) } else { format!("pkg{}.bin", rng.below(100)) })),
            (jk("required"), J::Bool(rng.chance(1, 2))),
            (jk("fp"), J::Str(if rng.chance(1, 2) { format!("1.{:x}", rng.next()) } else { rand_text(rng) })),
        ];
        match rng.below(10) {
            0 | 1 => {}
            2 => kvs.push((jk("size"), J::Null)),
            3 => kvs.push((jk("size"), J::Num(format!("{}", (1u64 << 32) - 2 + rng.below(4))))),
            4 => kvs.push((jk("size"), J::Num(format!("{}", u64::MAX - rng.below(3))))),
            5 => kvs.push((jk("size"), J::Num("0".into()))),
            6 => kvs.push((jk("size"), J::Num(format!("{}", (1u64 << 63) - 1 + rng.below(3))))),
            _ => kvs.push((jk("size"), J::Num(format!("{}", rng.next() >> rng.below(64))))),
        }
        self.opt_text(rng, &mut kvs, "hash");
        self.opt_text(rng, &mut kvs, "hash_sha256");
        self.finish(rng, Kind::Package, kvs, 2)
    }
    fn action(&mut self, rng: &mut Rng) -> J {
        let mut kvs = vec![];
        self.opt_text(rng, &mut kvs, "event");
        self.opt_text(rng, &mut kvs, "run");
        self.finish(rng, Kind::Action, kvs, 2)
    }
    fn manifest(&mut self, rng: &mut Rng) -> J {
        let acts = J::Arr((0..rng.below(5)).map(|_| self.action(rng)).collect());
        let pkgs = J::Arr((0..rng.below(5)).map(|_| self.package(rng)).collect());
        let a = self.finish(rng, Kind::Actions, vec![(jk("action"), acts)], 0);
        let p = self.finish(rng, Kind::Packages, vec![(jk("package"), pkgs)], 0);
        let kvs = vec![(jk("version"), J::Str(format!("{}.{}.{}", rng.below(10), rng.below(100), rng.below(5)))), (jk("actions"), a), (jk("packages"), p)];
        self.finish(rng, Kind::Manifest, kvs, 0)
    }
    fn update_check(&mut self, rng: &mut Rng) -> J {
        let mut kvs = vec![(jk("status"), self.status(rng))];
        self.opt_text(rng, &mut kvs, "info");
        if rng.chance(2, 3) {
            let us = J::Arr(
                (0..rng.below(5))
                    .map(|_| {
                        let c = J::Str(if rng.chance(1, 4) { rand_text(rng) } else { format!("http://h{}/p/", rng.below(10)) });
                        self.finish(rng, Kind::Url, vec![(jk("codebase"), c)], 0)
                    })
                    .collect(),
            );
            let u = self.finish(rng, Kind::Urls, vec![(jk("url"), us)], 0);
            kvs.push((jk("urls"), u));
        } else if rng.chance(1, 4) {
            kvs.push((jk("urls"), J::Null));
        }
        if rng.chance(2, 3) {
            let m = self.manifest(rng);
            kvs.push((jk("manifest"), m));
        } else if rng.chance(1, 4) {
            kvs.push((jk("manifest"), J::Null));
        }
        self.finish(rng, Kind::UpdateCheck, kvs, 2)
    }
    fn app(&mut self, rng: &mut Rng) -> J {
        let mut kvs = vec![
            (jk("appid"), J::Str(if rng.chance(1, 4) { rand_text(rng) } else { format!("{{{:08x}-app}}", rng.next() as u32) })),
            (jk("status"), self.status(rng)),
        ];
        self.opt_text(rng, &mut kvs, "cohort");
        self.opt_text(rng, &mut kvs, "cohorthint");
        self.opt_text(rng, &mut kvs, "cohortname");
        match rng.below(6) {
            0 | 1 => {}
            2 => kvs.push((jk("ping"), J::Null)),
            _ => {
                let p = self.status_struct(rng, Kind::Ping);
                kvs.push((jk("ping"), p));
            }
        }
        match rng.below(6) {
            0 => {}
            1 => kvs.push((jk("updatecheck"), J::Null)),
            _ => {
                let u = self.update_check(rng);
                kvs.push((jk("updatecheck"), u));
            }
        }
        match rng.below(6) {
            0..=2 => {}
            3 => kvs.push((jk("event"), J::Null)),
            _ => {
                let es = J::Arr((0..rng.below(4)).map(|_| self.status_struct(rng, Kind::Event)).collect());
                kvs.push((jk("event"), es));
            }
        }
        self.finish(rng, Kind::App, kvs, 3)
    }
    fn response(&mut self, rng: &mut Rng, max_apps: u64) -> J {
        let mut kvs = vec![(jk("protocol"), J::Str(if rng.chance(1, 5) { rand_text(rng) } else { "3.0".to_string() }))];
        self.opt_text(rng, &mut kvs, "server");
        match rng.below(5) {
            0 => {}
            1 => kvs.push((jk("daystart"), J::Null)),
            _ => {
                let mut d = vec![];
                for key in ["elapsed_days", "elapsed_seconds"] {
                    match rng.below(6) {
                        0 => {}
                        1 => d.push((jk(key), J::Null)),
                        2 => d.push((jk(key), J::Num(format!("{}", u32::MAX as u64 - rng.below(2))))),
                        3 => d.push((jk(key), J::Num("0".into()))),
                        _ => d.push((jk(key), J::Num(format!("{}", rng.below(90000))))),
                    }
                }
                let ds = self.finish(rng, Kind::DayStart, d, 0);
                kvs.push((jk("daystart"), ds));
            }
        }
        let apps = J::Arr((0..rng.below(max_apps + 1)).map(|_| self.app(rng)).collect());
        kvs.push((jk("app"), apps));
        let r = self.finish(rng, Kind::Response, kvs, 0);
        self.finish(rng, Kind::Wrapper, vec![(jk("response"), r)], 0)
    }
}

fn gen_doc(rng: &mut Rng, max_apps: u64) -> (J, bool) {
    let mut g = Gen { outside: false, unknown_den: 6, seq_den: 25 };
    let j = g.response(rng, max_apps);
    (j, g.outside)
}
/// a small document: object forms only, few optional parts
fn gen_small(rng: &mut Rng) -> J {
    let mut g = Gen { outside: false, unknown_den: 1000, seq_den: 1_000_000 };
    loop {
        let j = g.response(rng, 1);
        if !g.outside && compact(&j).len() < 260 {
            return j;
        }
        g.outside = false;
    }
}

// ---------------------------------------------------------------- tree mutations
fn nodes(j: &J, path: &mut Vec<usize>, out: &mut Vec<(Vec<usize>, Kind)>) {
    match j {
        J::Arr(a) => {
            for (i, x) in a.iter().enumerate() {
                path.push(i);
                nodes(x, path, out);
                path.pop();
            }
        }
        J::Obj(kind, kvs) => {
            out.push((path.clone(), *kind));
            for (i, (_, v)) in kvs.iter().enumerate() {
                path.push(i);
                nodes(v, path, out);
                path.pop();
            }
        }
        _ => {}
    }
}
fn at<'a>(j: &'a mut J, path: &[usize]) -> &'a mut J {
    let mut cur = j;
    for &i in path {
        cur = match cur {
            J::Arr(a) => &mut a[i],
            J::Obj(_, kvs) => &mut kvs[i].1,
            _ => unreachable!(),
        };
    }
    cur
}
fn nest(open_arr: &dyn Fn(usize) -> bool, depth: usize, inner: J) -> J {
    let mut v = inner;
    for i in 0..depth {
        v = if open_arr(i) { J::Arr(vec![v]) } else { J::Obj(Kind::Other, vec![(jk("d"), v)]) };
    }
    v
}
fn deep_value(rng: &mut Rng, depth: usize) -> J {
    let mode = rng.below(3);
    let inner = match rng.below(3) { 0 => J::Null, 1 => J::Num("1".into()), _ => J::Str("x".into()) };
    nest(&|i| match mode { 0 => true, 1 => false, _ => i % 2 == 0 }, depth, inner)
}
/// the number of containers open around the *values* of an object of this kind
fn level_of(kind: Kind) -> usize {
    match kind {
        Kind::Wrapper => 1,
        Kind::Response => 2,
        Kind::DayStart => 3,
        Kind::App => 4,
        Kind::Ping | Kind::UpdateCheck => 5,
        Kind::Event | Kind::Urls | Kind::Manifest => 6,
        Kind::Actions | Kind::Packages => 7,
        Kind::Url => 8,
        Kind::Action | Kind::Package => 9,
        Kind::Other => 0,
    }
}
const BAD_UTF8: [&[u8]; 8] = [b"\xff", b"\xc0\xaf", b"\xe2\x82", b"ab\x80", b"\xed\xa0\x80", b"\xf4\x90\x80\x80", b"\xc3", b"ok\xfe"];
const BAD_ESC: [&[u8]; 8] = [b"\\ud800", b"\\udc00", b"\\ud800\\u0041", b"\\ud800x", b"\\uD83D\\uD83D\\uDE00", b"\\udbff\\udfff", b"a\\ud800\\n", b"\\ud800\\ud800"];

fn wrong_type(rng: &mut Rng, old: &J) -> J {
    for _ in 0..8 {
        let v = match rng.below(8) {
            0 => J::Null,
            1 => J::Bool(rng.chance(1, 2)),
            2 => J::Num(int_lit(rng)),
            3 => J::Str(rand_text(rng)),
            4 => J::Arr(vec![]),
            5 => J::Obj(Kind::Other, vec![]),
            6 => J::Arr(vec![J::Str("ok".into())]),
            _ => J::Num(float_lit(rng)),
        };
        if std::mem::discriminant(&v) != std::mem::discriminant(old) {
            return v;
        }
    }
    J::Null
}

/// one structured mutation of a valid document; returns (class, deep)
fn mutate_tree(rng: &mut Rng, j: &mut J) -> (String, bool) {
    let mut ns = vec![];
    nodes(j, &mut vec![], &mut ns);
    let typed: Vec<(Vec<usize>, Kind)> = ns.iter().filter(|(_, k)| *k != Kind::Other).cloned().collect();
    if typed.is_empty() {
        return ("mut-none".into(), false);
    }
    let (path, kind) = rng.pick(&typed).clone();
    let node = at(j, &path);
    let kvs = match node { J::Obj(_, kvs) => kvs, _ => unreachable!() };
    let where_ = if keeps_unknown(kind) { "kept" } else { "ignored" };
    match rng.below(14) {
        0 => {
            let req: Vec<usize> = kvs.iter().enumerate()
                .filter(|(_, (k, _))| matches!(k, J::Str(s) if known(kind).iter().any(|(n, r)| *r && n == s))).map(|(i, _)| i).collect();
            if req.is_empty() { return ("mut-none".into(), false); }
            kvs.remove(*rng.pick(&req));
            (format!("required-removed-{:?}", kind), false)
        }
        1 => {
            if kvs.is_empty() { return ("mut-none".into(), false); }
            let mut e = rng.pick(kvs).clone();
            if rng.chance(1, 2) { e.1 = wrong_type(rng, &e.1); }
            let pos = rng.below(kvs.len() as u64 + 1) as usize;
            kvs.insert(pos, e);
            ("duplicate-key".into(), false)
        }
        2 | 3 => {
            if kvs.is_empty() { return ("mut-none".into(), false); }
            let i = rng.below(kvs.len() as u64) as usize;
            kvs[i].1 = wrong_type(rng, &kvs[i].1);
            ("wrong-type".into(), false)
        }
        4 => {
            let req: Vec<usize> = kvs.iter().enumerate()
                .filter(|(_, (k, _))| matches!(k, J::Str(s) if known(kind).iter().any(|(n, r)| *r && n == s))).map(|(i, _)| i).collect();
            if req.is_empty() { return ("mut-none".into(), false); }
            kvs[*rng.pick(&req)].1 = J::Null;
            ("null-for-required".into(), false)
        }
        5 | 6 => {
            // nesting in an unknown key: around the limit, and far beyond it
            let lvl = level_of(kind);
            let room = 127 - lvl;
            let d = match rng.below(6) {
                0 => 10 + rng.below(90) as usize,
                1 => room,
                2 => room + 1,
                3 => room - 1 - rng.below(3) as usize,
                4 => room + 2 + rng.below(40) as usize,
                _ => *rng.pick(&[500usize, 1000, 5000]),
            };
            kvs.push((jk("zz_deep"), deep_value(rng, d)));
            (format!("deep-{}-{}", where_, if d <= room { "within" } else { "beyond" }), true)
        }
        7 => {
            // deep nesting where a typed value is expected
            if kvs.is_empty() { return ("mut-none".into(), false); }
            let i = rng.below(kvs.len() as u64) as usize;
            let d = *rng.pick(&[10usize, 130, 1000, 5000]);
            kvs[i].1 = deep_value(rng, d);
            ("deep-typed".into(), true)
        }
        8 => {
            let s = J::RawStr(rng.pick(&BAD_UTF8).to_vec());
            let v = match rng.below(3) { 0 => s, 1 => J::Arr(vec![J::Num("1".into()), s]), _ => J::Obj(Kind::Other, vec![(jk("q"), s)]) };
            kvs.push((jk("zz_utf8"), v));
            (format!("invalid-utf8-{}-value", where_), false)
        }
        9 => {
            let s = J::RawStr(rng.pick(&BAD_ESC).to_vec());
            let v = match rng.below(3) { 0 => s, 1 => J::Arr(vec![s, J::Null]), _ => J::Obj(Kind::Other, vec![(s, J::Null)]) };
            kvs.push((jk("zz_surr"), v));
            (format!("lone-surrogate-{}-value", where_), false)
        }
        10 => {
            // a key that is not a decodable string (serde reads every key of a struct)
            let key = if rng.chance(1, 2) { J::RawStr(rng.pick(&BAD_UTF8).to_vec()) } else { J::RawStr(rng.pick(&BAD_ESC).to_vec()) };
            kvs.push((key, J::Null));
            ("undecodable-key".into(), false)
        }
        11 => {
            // replace a string value by an undecodable string
            let strs: Vec<usize> = kvs.iter().enumerate().filter(|(_, (_, v))| matches!(v, J::Str(_))).map(|(i, _)| i).collect();
            if strs.is_empty() { return ("mut-none".into(), false); }
            let raw = if rng.chance(1, 2) { rng.pick(&BAD_UTF8).to_vec() } else { rng.pick(&BAD_ESC).to_vec() };
            kvs[*rng.pick(&strs)].1 = J::RawStr(raw);
            ("undecodable-typed-string".into(), false)
        }
        12 => {
            // numbers: floats / out-of-range / negative in typed and extension positions
            let lit = match rng.below(4) { 0 => float_lit(rng), 1 => "4294967296".to_string(), 2 => "18446744073709551616".to_string(), _ => "-1".to_string() };
            let nums: Vec<usize> = kvs.iter().enumerate().filter(|(_, (_, v))| matches!(v, J::Num(_))).map(|(i, _)| i).collect();
            if !nums.is_empty() && rng.chance(2, 3) {
                kvs[*rng.pick(&nums)].1 = J::Num(lit);
            } else {
                kvs.push((jk("zz_num"), J::Num(lit)));
            }
            ("number-variant".into(), false)
        }
        _ => {
            // array form of a struct: right length (accepted for plain structs), or one off
            let fields = known(kind);
            let mut elems: Vec<J> = fields.iter()
                .map(|(n, _)| kvs.iter().find(|(k, _)| matches!(k, J::Str(s) if s == n)).map(|(_, v)| v.clone()).unwrap_or(J::Null)).collect();
            match rng.below(3) { 0 => {} 1 => { elems.pop(); } _ => elems.push(J::Null) }
            *node = J::Arr(elems);
            (format!("array-form-{}", if keeps_unknown(kind) { "flatten" } else { "plain" }), false)
        }
    }
}

// ---------------------------------------------------------------- byte mutations
fn case(class: &str, bytes: &[u8], deep: bool, outside: bool) -> Value {
    json!({"class": class, "bytes": hex::encode(bytes), "deep": deep, "outside": outside})
}
fn mutate_bytes(rng: &mut Rng, b: &[u8]) -> (String, Vec<u8>) {
    let mut v = b.to_vec();
    let n = v.len().max(1);
    match rng.below(12) {
        0 | 1 | 2 => {
            let i = rng.below(n as u64) as usize;
            if i < v.len() { v[i] ^= 1 << rng.below(8); }
            ("bit-flip".into(), v)
        }
        3 => { v.truncate(rng.below(n as u64) as usize); ("truncated".into(), v) }
        4 => { let i = rng.below(n as u64) as usize; if i < v.len() { v.remove(i); } ("byte-deleted".into(), v) }
        5 => { let i = rng.below(n as u64 + 1) as usize; v.insert(i.min(v.len()), rng.next() as u8); ("byte-inserted".into(), v) }
        6 => { let i = rng.below(n as u64) as usize; if i < v.len() { v[i] = *rng.pick(b"{}[]\",:\\ue-0.9 \n"); } ("byte-replaced".into(), v) }
        7 => { let mut w = b"\xef\xbb\xbf".to_vec(); w.extend_from_slice(&v); ("bom".into(), w) }
        8 => {
            let g: &[u8] = *rng.pick(&[&b"x"[..], b"{}", b",", b"\0", b"]", b"}", b"null", b" 1", b"\xff"]);
            v.extend_from_slice(g);
            ("trailing-garbage".into(), v)
        }
        9 => { v.extend_from_slice(*rng.pick(&[&b" "[..], b"\n", b"\r\n\t ", b"    "])); ("trailing-whitespace".into(), v) }
        10 => {
            // XSSI prefix variants
            let p: &[u8] = *rng.pick(&[&b")]}'\n)]}'\n"[..], b")]}'", b")]}'\n ", b" )]}'\n", b")]}'\r\n", b")]}\n", b")]}'\n\n"]);
            let body = if v.starts_with(XSSI) { v[XSSI.len()..].to_vec() } else { v.clone() };
            let mut w = p.to_vec();
            w.extend_from_slice(&body);
            ("xssi-variant".into(), w)
        }
        _ => {
            // swap two adjacent bytes
            if v.len() >= 2 { let i = rng.below(v.len() as u64 - 1) as usize; v.swap(i, i + 1); }
            ("bytes-swapped".into(), v)
        }
    }
}

// ---------------------------------------------------------------- fixed boundary cases (always run)
fn fixed_cases() -> Vec<Value> {
    let mut v = vec![];
    let doc = |app_extra: &str, uc_extra: &str, pkg_extra: &str, act_extra: &str, man_extra: &str, top_extra: &str| -> Vec<u8> {
        format!(
            "{{\"response\":{{\"protocol\":\"3.0\"{top},\"app\":[{{\"appid\":\"a\",\"status\":\"ok\"{app},\"updatecheck\":{{\"status\":\"ok\"{uc},\
             \"manifest\":{{\"version\":\"1\"{man},\"actions\":{{\"action\":[{{\"event\":\"e\"{act}}}]}},\"packages\":{{\"package\":[{{\"name\":\"n\",\"required\":true,\"fp\":\"f\"{pkg}}}]}}}}}}}}]}}}}",
            top = top_extra, app = app_extra, uc = uc_extra, man = man_extra, act = act_extra, pkg = pkg_extra
        ).into_bytes()
    };
    let nested = |d: usize, obj: bool| -> String {
        if obj { format!("{}1{}", "{\"d\":".repeat(d), "}".repeat(d)) } else { format!("{}{}", "[".repeat(d), "]".repeat(d)) }
    };
    // calibration of the recursion limit: deepest accepted / first rejected nesting per kept position
    for (name, lvl) in [("app", 4usize), ("updatecheck", 5), ("package", 9), ("action", 9)] {
        for obj in [false, true] {
            for delta in [-1i64, 0, 1, 2] {
                let d = (127 - lvl as i64 + delta) as usize;
                let x = format!(",\"zz\":{}", nested(d, obj));
                let b = match name {
                    "app" => doc(&x, "", "", "", "", ""),
                    "updatecheck" => doc("", &x, "", "", "", ""),
                    "package" => doc("", "", &x, "", "", ""),
                    _ => doc("", "", "", &x, "", ""),
                };
                v.push(case(&format!("limit-{}-{}{:+}", name, 127 - lvl, delta), &b, true, false));
            }
        }
    }
    // ignored positions: no limit
    for d in [127usize, 128, 200, 1000, 5000] {
        v.push(case("deep-ignored-response", &doc("", "", "", "", "", &format!(",\"zz\":{}", nested(d, false))), true, false));
        v.push(case("deep-ignored-manifest", &doc("", "", "", "", &format!(",\"zz\":{}", nested(d, true)), ""), true, false));
        v.push(case("deep-ignored-wrapper", format!("{{\"zz\":{},\"response\":{{\"protocol\":\"3.0\",\"app\":[]}}}}", nested(d, false)).as_bytes(), true, false));
    }
    // unclosed brackets
    for d in [1usize, 100, 127, 128, 129, 5000] {
        v.push(case("unclosed-top", "[".repeat(d).as_bytes(), true, false));
        v.push(case("unclosed-top", "{\"a\":".repeat(d).as_bytes(), true, false));
        v.push(case("unclosed-ignored", format!("{{\"zz\":{}", "[".repeat(d)).as_bytes(), true, false));
        v.push(case("unclosed-kept", format!("{{\"response\":{{\"protocol\":\"3.0\",\"app\":[{{\"zz\":{}", "[".repeat(d)).as_bytes(), true, false));
    }
    v.push(json!({"class":"huge-unclosed-ignored","big":{"head":hex::encode(b"{\"zz\":"),"open":hex::encode(b"["),"count":2_000_000,"tail":""}}));
    v.push(json!({"class":"huge-unclosed-top","big":{"head":"","open":hex::encode(b"["),"count":2_000_000,"tail":""}}));
    v.push(json!({"class":"huge-unclosed-kept","big":{"head":hex::encode(b"{\"response\":{\"protocol\":\"3.0\",\"app\":[{\"zz\":"),"open":hex::encode(b"{\"a\":"),"count":400_000,"tail":""}}));
    // hand-written rule probes
    let probes: Vec<&[u8]> = vec![
        b"", b" ", b"null", b"{}", b"[]", b"{\"response\":null}", b"{\"response\":{}}",
        b"{\"response\":{\"protocol\":\"3.0\",\"app\":[]}}",
        b")]}'\n{\"response\":{\"protocol\":\"3.0\",\"app\":[]}}",
        b")]}'\n)]}'\n{\"response\":{\"protocol\":\"3.0\",\"app\":[]}}",
        b")]}'{\"response\":{\"protocol\":\"3.0\",\"app\":[]}}",
        b")]}'\n",
        b"\xef\xbb\xbf{\"response\":{\"protocol\":\"3.0\",\"app\":[]}}",
        b"{\"response\":{\"protocol\":\"3.0\",\"app\":[]}} \n\t\r",
        b"{\"response\":{\"protocol\":\"3.0\",\"app\":[]}}x",
        b"[[\"3.0\",null,null,[]]]",
        b"[[\"3.0\",null,[1,2],[]]]",
        b"[[\"3.0\",null,[1],[]]]",
        b"[[\"3.0\",null,null,[],null]]",
        b"[[\"3.0\",null,null]]",
        b"{\"response\":{\"protocol\":\"3.0\",\"protocol\":\"3.0\",\"app\":[]}}",
        b"{\"response\":{\"protocol\":\"3.0\",\"server\":null,\"server\":null,\"app\":[]}}",
        b"{\"response\":{\"protocol\":\"3.0\",\"zz\":1,\"zz\":2,\"app\":[]}}",
        b"{\"response\":{\"protocol\":\"3.0\",\"app\":[{\"appid\":\"a\",\"status\":\"OK\"}]}}",
        b"{\"response\":{\"protocol\":\"3.0\",\"app\":[{\"appid\":\"a\",\"status\":\"error\"}]}}",
        b"{\"response\":{\"protocol\":\"3.0\",\"app\":[{\"appid\":\"a\",\"status\":0}]}}",
        b"{\"response\":{\"protocol\":\"3.0\",\"app\":[{\"appid\":\"a\",\"status\":\"ok\",\"cohort\":\"\",\"cohortname\":null}]}}",
        b"{\"response\":{\"protocol\":\"3.0\",\"app\":[{\"appid\":\"a\",\"status\":\"ok\",\"cohort\":\"1\",\"cohort\":\"2\"}]}}",
        b"{\"response\":{\"protocol\":\"3.0\",\"app\":[{\"appid\":\"a\",\"status\":\"ok\",\"cohort\":5}]}}",
        b"{\"response\":{\"protocol\":\"3.0\",\"app\":[{\"appid\":\"a\",\"status\":\"ok\",\"x\":1,\"x\":2,\"b\":{\"z\":1,\"a\":2,\"z\":3}}]}}",
        b"{\"response\":{\"protocol\":\"3.0\",\"app\":[[\"a\",\"ok\"]]}}",
        b"{\"response\":{\"protocol\":\"3.0\",\"app\":[{\"appid\":\"a\",\"status\":\"ok\",\"ping\":[\"ok\"],\"event\":[[\"ok\"],{\"status\":\"noupdate\"}]}]}}",
        b"{\"response\":{\"protocol\":\"3.0\",\"daystart\":{\"elapsed_days\":4294967295,\"elapsed_seconds\":0},\"app\":[]}}",
        b"{\"response\":{\"protocol\":\"3.0\",\"daystart\":{\"elapsed_days\":4294967296},\"app\":[]}}",
        b"{\"response\":{\"protocol\":\"3.0\",\"daystart\":{\"elapsed_days\":-0},\"app\":[]}}",
        b"{\"response\":{\"protocol\":\"3.0\",\"daystart\":{\"elapsed_days\":1.0},\"app\":[]}}",
        b"{\"response\":{\"protocol\":\"3.0\",\"daystart\":{\"elapsed_days\":1e2},\"app\":[]}}",
        b"{\"response\":{\"protocol\":\"3.0\",\"daystart\":{\"elapsed_days\":\"1\"},\"app\":[]}}",
        b"{\"response\":{\"protocol\":\"3.0\",\"daystart\":{\"zz\":1e999,\"yy\":\"\\ud800\",\"xx\":\"\xff\"},\"app\":[]}}",
        b"{\"response\":{\"protocol\":\"3.0\",\"app\":[{\"appid\":\"a\",\"status\":\"ok\",\"zz\":\"\\ud800\"}]}}",
        b"{\"response\":{\"protocol\":\"3.0\",\"app\":[{\"appid\":\"a\",\"status\":\"ok\",\"zz\":\"\xff\"}]}}",
        b"{\"response\":{\"protocol\":\"3.0\",\"app\":[{\"appid\":\"a\",\"status\":\"ok\",\"ping\":{\"status\":\"ok\",\"zz\":\"\xff\"}}]}}",
    ];
    for p in probes.iter() {
        v.push(case("probe", p, false, false));
    }
    let fl: Vec<&[u8]> = vec![
        b"{\"response\":{\"protocol\":\"3.0\",\"app\":[{\"appid\":\"a\",\"status\":\"ok\",\"zz\":1e999}]}}",
        b"{\"response\":{\"protocol\":\"3.0\",\"app\":[{\"appid\":\"a\",\"status\":\"ok\",\"zz\":1.5}]}}",
        b"{\"response\":{\"protocol\":\"3.0\",\"app\":[{\"appid\":\"a\",\"status\":\"ok\",\"zz\":-0}]}}",
        b"{\"response\":{\"protocol\":\"3.0\",\"app\":[{\"appid\":\"a\",\"status\":\"ok\",\"zz\":18446744073709551616,\"yy\":-9223372036854775808,\"xx\":-9223372036854775809}]}}",
        b"{\"response\":{\"protocol\":\"3.0\",\"app\":[{\"appid\":\"a\",\"status\":\"ok\",\"updatecheck\":{\"status\":\"ok\",\"manifest\":{\"version\":\"1\",\"actions\":{\"action\":[]},\"packages\":{\"package\":[{\"name\":\"n\",\"required\":true,\"fp\":\"f\",\"size\":4294967297}]}}}}]}}",
        b"{\"response\":{\"protocol\":\"3.0\",\"app\":[{\"appid\":\"a\",\"status\":\"ok\",\"updatecheck\":{\"status\":\"ok\",\"manifest\":{\"version\":\"1\",\"actions\":{\"action\":[]},\"packages\":{\"package\":[{\"name\":\"n\",\"required\":true,\"fp\":\"f\",\"size\":18446744073709551616}]}}}}]}}",
    ];
    for p in fl.iter() {
        v.push(case("probe-number", p, false, true));
    }
    v
}

/// JSON fragments (valid and invalid) placed where the value is typed, kept in an
/// extension map, ignored, inside an ignored array, and as a whole document:
/// the same grammar must be accepted by serde_json's value parser, its
/// ignoring scanner and the model
fn syntax_cases() -> Vec<Value> {
    let frags: Vec<&[u8]> = vec![
        // numbers
        b"0", b"-0", b"00", b"01", b"-01", b"1", b"-1", b"+1", b"1.", b".5", b"1.5", b"-1.5", b"1e5", b"1E5", b"1e+5", b"1e-5", b"1e", b"1e+", b"1.e5",
        b"1.5e", b"0e0", b"0.0", b"-0.0", b"-", b"-a", b"--1", b"1-", b"1e999", b"-1e999", b"1e-999", b"0x10", b"1_000", b"1 2", b"12345678901234567890123",
        b"4294967295", b"4294967296", b"18446744073709551615", b"18446744073709551616", b"-9223372036854775808", b"-9223372036854775809", b"1.0", b"5e0",
        // literals
        b"null", b"nul", b"nulll", b"Null", b"true", b"tru", b"True", b"truee", b"false", b"fals", b"falsee", b"NaN", b"Infinity", b"-Infinity", b"undefined",
        // strings
        b"\"\"", b"\"a\"", b"\"\\/\"", b"\"\\u0000\"", b"\"\\u00e9\"", b"\"\\uD834\\uDD1E\"", b"\"\\ud834\\udd1e\"", b"\"\\x41\"", b"\"\\u12G4\"", b"\"\\u12\"", b"\"\\\"",
        b"\"abc", b"\"a\tb\"", b"\"a\nb\"", b"\"a\x1fb\"", b"\"a\x7fb\"", b"\"a\x00b\"", b"'a'", b"\"\\a\"", b"\"\\U0041\"", b"\"\xc3\xa9\"", b"\"\xc3\"", b"\"\\ud834\"",
        b"\"\\udd1e\"", b"\"\\ud834\\u0041\"", b"\"\\ud834\\n\"", b"\"\\ud834\\ud834\\udd1e\"", b"\"\\\\\"", b"\"\\b\\f\\n\\r\\t\"", b"\"\xef\xbb\xbf\"", b"\"\xf0\x9f\x98\x80\"", b"\"\xed\xa0\x80\"",
        // structure
        b"[]", b"[ ]", b"{}", b"{ }", b"[1,]", b"[,1]", b"[,]", b"[1,,2]", b"[1 2]", b"[1", b"[1,", b"]", b"[}", b"{]", b"{,}", b"{\"a\"}", b"{\"a\":}", b"{:1}", b"{\"a\":1,}",
        b"{\"a\":1 \"b\":2}", b"{\"a\":1,\"a\":2}", b"{1:2}", b"{a:1}", b"{\"a\" 1}", b"{\"a\":1", b"{\"a\":1,", b"{\"a\"", b"{", b"}", b"[[],{}]", b"[{\"a\":[{}]}]",
        b"/* c */ 1", b"1 // c", b"[1]x", b"{}{}", b"\x00", b" ", b"", b"\xef\xbb\xbf1", b"[\"\\ud800\"]", b"{\"\\ud800\":1}", b"{\"\xff\":1}", b"[\"\xff\"]",
        b"\t\n\r 1 \t\n\r", b"\x0c1", b"\x0b1", b"\xc2\xa01",
    ];
    let mut v = vec![];
    for f in frags {
        let cat = |pre: &[u8], post: &[u8]| -> Vec<u8> { [pre, f, post].concat() };
        v.push(case("syntax-typed", &cat(b"{\"response\":{\"protocol\":\"3.0\",\"daystart\":{\"elapsed_days\":", b"},\"app\":[]}}"), false, false));
        v.push(case("syntax-typed-string", &cat(b"{\"response\":{\"protocol\":", b",\"app\":[]}}"), false, false));
        v.push(case("syntax-kept", &cat(b"{\"response\":{\"protocol\":\"3.0\",\"app\":[{\"appid\":\"a\",\"status\":\"ok\",\"zz\":", b"}]}}"), false, true));
        v.push(case("syntax-kept-cohort", &cat(b"{\"response\":{\"protocol\":\"3.0\",\"app\":[{\"appid\":\"a\",\"status\":\"ok\",\"cohort\":", b"}]}}"), false, false));
        v.push(case("syntax-ignored", &cat(b"{\"response\":{\"protocol\":\"3.0\",\"zz\":", b",\"app\":[]}}"), false, false));
        v.push(case("syntax-ignored-nested", &cat(b"{\"zz\":[{\"q\":[1,", b"]}],\"response\":{\"protocol\":\"3.0\",\"app\":[]}}"), false, false));
        v.push(case("syntax-ignored-in-app", &cat(b"{\"response\":{\"protocol\":\"3.0\",\"app\":[{\"appid\":\"a\",\"status\":\"ok\",\"ping\":{\"status\":\"ok\",\"zz\":", b"}}]}}"), false, false));
        v.push(case("syntax-key", &cat(b"{\"response\":{\"protocol\":\"3.0\",\"app\":[],", b":1}}"), false, false));
        v.push(case("syntax-top", f, false, false));
    }
    v
}

/// one document containing every struct of the protocol, then, for every
/// struct and every known field of it: the field removed, null, of each other
/// JSON shape, duplicated; and every struct in array form
fn systematic_cases() -> Vec<Value> {
    let o = |k: Kind, kvs: Vec<(&str, J)>| J::Obj(k, kvs.into_iter().map(|(a, b)| (jk(a), b)).collect());
    let st = |x: &str| J::Str(x.to_string());
    let pkg = |n: &str| o(Kind::Package, vec![("name", st(n)), ("required", J::Bool(true)), ("size", J::Num("4294967297".into())),
                                               ("hash", st("h")), ("hash_sha256", st("h2")), ("fp", st("1.f")), ("ext", J::Num("1".into()))]);
    let full = o(Kind::Wrapper, vec![("response", o(Kind::Response, vec![
        ("protocol", st("3.0")), ("server", st("prod")),
        ("daystart", o(Kind::DayStart, vec![("elapsed_days", J::Num("5000".into())), ("elapsed_seconds", J::Num("86399".into()))])),
        ("app", J::Arr(vec![o(Kind::App, vec![
            ("appid", st("{app}")), ("status", st("ok")), ("cohort", st("1:2")), ("cohorthint", st("")), ("cohortname", st("stable")),
            ("ping", o(Kind::Ping, vec![("status", st("ok"))])),
            ("event", J::Arr(vec![o(Kind::Event, vec![("status", st("ok"))])])),
            ("urgent", J::Bool(true)),
            ("updatecheck", o(Kind::UpdateCheck, vec![
                ("status", st("ok")), ("info", st("i")), ("realm", st("r")),
                ("urls", o(Kind::Urls, vec![("url", J::Arr(vec![o(Kind::Url, vec![("codebase", st("http://a/"))]), o(Kind::Url, vec![("codebase", st("http://b/"))])]))])),
                ("manifest", o(Kind::Manifest, vec![
                    ("version", st("1.2.3.4")),
                    ("actions", o(Kind::Actions, vec![("action", J::Arr(vec![o(Kind::Action, vec![("event", st("install")), ("run", st("r.exe")), ("arguments", st("-q"))])]))])),
                    ("packages", o(Kind::Packages, vec![("package", J::Arr(vec![pkg("p1"), pkg("p2")]))])),
                ])),
            ])),
        ])])),
    ]))]);
    let mut v = vec![case("sys-full", &compact(&full), false, false)];
    let mut ns = vec![];
    nodes(&full, &mut vec![], &mut ns);
    let shapes: Vec<(&str, J)> = vec![
        ("null", J::Null), ("bool", J::Bool(false)), ("int", J::Num("7".into())), ("neg", J::Num("-7".into())), ("string", st("7")),
        ("array", J::Arr(vec![])), ("object", J::Obj(Kind::Other, vec![])), ("big", J::Num("18446744073709551616".into())),
        ("over32", J::Num("4294967296".into())), ("max32", J::Num("4294967295".into())), ("max64", J::Num("18446744073709551615".into())),
        ("float", J::Num("1.5".into())), ("negzero", J::Num("-0".into())),
    ];
    for (path, kind) in ns.iter().filter(|(_, k)| *k != Kind::Other) {
        let fields: Vec<String> = match at(&mut full.clone(), path) { J::Obj(_, kvs) => kvs.iter().map(|(k, _)| match k { J::Str(s) => s.clone(), _ => String::new() }).collect(), _ => vec![] };
        for (i, f) in fields.iter().enumerate() {
            let mut t = full.clone();
            if let J::Obj(_, kvs) = at(&mut t, path) { kvs.remove(i); }
            v.push(case(&format!("sys-removed-{:?}-{}", kind, f), &compact(&t), false, false));
            for (sn, sh) in &shapes {
                let mut t = full.clone();
                if let J::Obj(_, kvs) = at(&mut t, path) {
                    if std::mem::discriminant(&kvs[i].1) == std::mem::discriminant(sh) && !matches!(sh, J::Num(_)) { continue; }
                    kvs[i].1 = sh.clone();
                }
                v.push(case(&format!("sys-shape-{:?}-{}-{}", kind, f, sn), &compact(&t), false, matches!(*sn, "big" | "float" | "negzero")));
            }
            let mut t = full.clone();
            if let J::Obj(_, kvs) = at(&mut t, path) { let e = kvs[i].clone(); kvs.push(e); }
            v.push(case(&format!("sys-dup-{:?}-{}", kind, f), &compact(&t), false, false));
        }
        // array form, exact and one short / one long
        for delta in [0i32, -1, 1] {
            let mut t = full.clone();
            let node = at(&mut t, path);
            if let J::Obj(_, kvs) = node {
                let mut elems: Vec<J> = known(*kind).iter()
                    .map(|(n, _)| kvs.iter().find(|(k, _)| matches!(k, J::Str(s) if s == n)).map(|(_, x)| x.clone()).unwrap_or(J::Null)).collect();
                if delta < 0 { elems.pop(); } else if delta > 0 { elems.push(J::Null); }
                *node = J::Arr(elems);
            }
            v.push(case(&format!("sys-array-form-{:?}{:+}", kind, delta), &compact(&t), false, false));
        }
        // every name the decoder's source mentions beyond the known fields: added to the struct, and standing in for each field
        for name in novel_keys() {
            let mut t = full.clone();
            if let J::Obj(_, kvs) = at(&mut t, path) { kvs.push((jk(&name), st("x"))); }
            v.push(case(&format!("sys-mined-added-{:?}-{}", kind, name), &compact(&t), false, false));
            for (i, f) in fields.iter().enumerate() {
                let mut t = full.clone();
                if let J::Obj(_, kvs) = at(&mut t, path) { kvs[i].0 = jk(&name); }
                v.push(case(&format!("sys-mined-for-{:?}-{}-{}", kind, f, name), &compact(&t), false, false));
            }
        }
    }
    v
}

// ---------------------------------------------------------------- generate
pub fn generate(rng: &mut Rng, n: usize, thorough: bool) -> Vec<Value> {
    let mut v = fixed_cases();
    v.extend(syntax_cases());
    v.extend(systematic_cases());
    // n documents of the grammar
    let mut docs: Vec<J> = vec![];
    for i in 0..n {
        let (j, outside) = gen_doc(rng, 4);
        let xssi = i % 3 == 0;
        let b = render(&j, rng, xssi);
        v.push(case(if outside { "grammar-float" } else { "grammar" }, &b, false, outside));
        if !outside {
            docs.push(j);
        }
    }
    // truncation at every position of small documents
    let nsmall = if thorough { 12 } else { 2 };
    for s in 0..nsmall {
        let j = gen_small(rng);
        let b = if s % 2 == 0 { compact(&j) } else { render(&j, rng, true) };
        for cut in 0..b.len() {
            v.push(case("truncated-every", &b[..cut], false, false));
        }
        // every single-bit flip of one small document in the thorough tier
        if thorough && s < 3 {
            for i in 0..b.len() {
                for bit in 0..8 {
                    let mut w = b.clone();
                    w[i] ^= 1 << bit;
                    v.push(case("bit-flip-every", &w, false, false));
                }
            }
        }
    }
    // mutation streams: ~4 per document
    let per = 4;
    for (i, j) in docs.iter().enumerate() {
        for m in 0..per {
            if (i + m) % 2 == 0 {
                let mut t = j.clone();
                let (class, deep) = mutate_tree(rng, &mut t);
                if class == "mut-none" {
                    continue;
                }
                // a second mutation now and then
                let class = if rng.chance(1, 8) { let (c2, _) = mutate_tree(rng, &mut t); format!("{}+{}", class, c2) } else { class };
                let xs = rng.chance(1, 4);
                let b = if rng.chance(1, 2) { compact(&t) } else { render(&t, rng, xs) };
                if b.len() > 24_000 {
                    continue;
                }
                let outside = class.contains("number-variant");
                v.push(case(&class, &b, deep || class.contains("deep"), outside));
            } else {
                let xs = rng.chance(1, 3);
                let b = if rng.chance(1, 2) { compact(j) } else { render(j, rng, xs) };
                let (class, w) = mutate_bytes(rng, &b);
                v.push(case(&class, &w, false, false));
            }
        }
    }
    // random bytes, and random JSON-alphabet bytes
    for _ in 0..(n / 3).max(20) {
        let len = rng.below(40) as usize;
        if rng.chance(1, 2) {
            v.push(case("random-bytes", &rng.bytes(len), false, false));
        } else {
            let s: Vec<u8> = (0..len).map(|_| *rng.pick(b"{}[]\",:\\u0123456789aeE+-. \ntrfnl")).collect();
            v.push(case("random-json-alphabet", &s, false, false));
        }
    }
    v
}

pub const HEADER: &str = "Require Import Verif.Run.EvalC16.\nFrom Coq Require Import PrimInt63.";
pub const CTYPE: &str = "c16case";
pub const RUNNER: &str = "run_c16";
