#![allow(dead_code)]
//! vh — correspondence harness: runs the real omaha-client code on generated
//! and corpus cases and writes them, with the observed results, as Gallina
//! case files for the Coq model to evaluate.
//!
//! usage: vh <PROP> --out DIR [--seed S] [--n N] [--tier quick|thorough]
//!           [--shards K] [--corpus DIR] [--replay FILE]
mod util;
mod gal;
mod c01;
mod c03;
mod c15;
mod sm;
mod smgen;
mod c13;
mod c16;
mod c17;
mod c19;
mod c20;

use serde_json::Value;
use std::path::PathBuf;
use util::*;

struct Args {
    prop: String,
    out: PathBuf,
    seed: u64,
    n: usize,
    thorough: bool,
    shards: usize,
    corpus: Option<PathBuf>,
    replay: Option<PathBuf>,
}

fn parse_args() -> Args {
    let mut it = std::env::args().skip(1);
    let prop = it.next().expect("property id");
    let mut a = Args {
        prop,
        out: PathBuf::from("."),
        seed: 1,
        n: 100,
        thorough: false,
        shards: 16,
        corpus: None,
        replay: None,
    };
    while let Some(k) = it.next() {
        let mut val = || it.next().expect("value");
        match k.as_str() {
            "--out" => a.out = PathBuf::from(val()),
            "--seed" => a.seed = val().parse().unwrap(),
            "--n" => a.n = val().parse().unwrap(),
            "--tier" => a.thorough = val() == "thorough",
            "--shards" => a.shards = val().parse().unwrap(),
            "--corpus" => a.corpus = Some(PathBuf::from(val())),
            "--replay" => a.replay = Some(PathBuf::from(val())),
            _ => panic!("unknown argument {}", k),
        }
    }
    a
}

fn corpus_inputs(dir: &Option<PathBuf>) -> Vec<Value> {
    let mut v = vec![];
    if let Some(d) = dir {
        if let Ok(rd) = std::fs::read_dir(d) {
            let mut files: Vec<_> = rd.filter_map(|e| e.ok()).map(|e| e.path()).collect();
            files.sort();
            for p in files {
                if p.extension().and_then(|s| s.to_str()) != Some("json") {
                    continue;
                }
                let txt = std::fs::read_to_string(&p).unwrap();
                let val: Value = serde_json::from_str(&txt).unwrap_or_else(|e| panic!("{}: {}", p.display(), e));
                match val {
                    Value::Array(a) => v.extend(a),
                    other => v.push(other),
                }
            }
        }
    }
    v
}

fn replay_inputs(p: &PathBuf) -> Vec<Value> {
    let txt = std::fs::read_to_string(p).unwrap();
    let val: Value = serde_json::from_str(&txt).unwrap();
    // a replay file is {"property":..., "cases":[{...input fields...}], ...}
    match val.get("cases") {
        Some(Value::Array(a)) => a.clone(),
        _ => match val {
            Value::Array(a) => a,
            other => vec![other],
        },
    }
}

/// A panic of the code under test that escapes a property's own harness module must not take the whole run down:
/// the input is recorded (cases.json: "panicked") and reported by `check` as a concrete failing input.
fn guarded(w: &mut CaseWriter, input: &Value, f: impl FnOnce() -> Case) {
    match std::panic::catch_unwind(std::panic::AssertUnwindSafe(f)) {
        Ok(c) => w.push(c),
        Err(e) => {
            let msg = if let Some(s) = e.downcast_ref::<String>() { s.clone() } else if let Some(s) = e.downcast_ref::<&str>() { s.to_string() } else { "panic".to_string() };
            let mut j = input.clone();
            j["harness_panic"] = serde_json::json!(format!("{} at {}", msg, util::LAST_PANIC_LOC.lock().unwrap()));
            w.panicked.push(j);
        }
    }
}

fn main() {
    // panics of the code under test are caught and reported per case
    std::panic::set_hook(Box::new(|info| {
        if let Some(l) = info.location() {
            *util::LAST_PANIC_LOC.lock().unwrap() = format!("{}:{}", l.file(), l.line());
        }
    }));
    let args = parse_args();
    let mut rng = Rng::new(args.seed);
    let mut w = CaseWriter::new(&args.out, &args.prop);
    let mut inputs = vec![];
    if let Some(r) = &args.replay {
        inputs = replay_inputs(r);
    } else {
        inputs.extend(corpus_inputs(&args.corpus));
    }
    let (header, ctype, runner): (&str, &str, &str);
    match args.prop.as_str() {
        "C20" => {
            if args.replay.is_none() {
                inputs.extend(c20::generate(&mut rng, args.n, args.thorough));
            }
            for i in &inputs {
                guarded(&mut w, i, || c20::run_input(i));
            }
            header = c20::HEADER;
            ctype = c20::CTYPE;
            runner = c20::RUNNER;
        }
        "SM" | "C02" | "C04" | "C05" | "C06" | "C07" | "C08" | "C09" | "C10" | "C11" | "C12" | "C14" | "C18" => {
            if args.prop == "C11" { sm::ABANDON_PROBE.store(true, std::sync::atomic::Ordering::SeqCst); }
            if args.replay.is_none() {
                let k = smgen::knobs_for(&args.prop);
                for _ in 0..args.n { inputs.push(smgen::gen_sm(&mut rng, &k)); }
                if args.prop == "C08" {
                    // crash injection: one case in five is followed by the rebuilds on what its commits left behind
                    let base: Vec<Value> = inputs.iter().rev().take(args.n).step_by(5).take(400).cloned().collect();
                    for b in &base { inputs.extend(smgen::crash_cases(b, 4)); }
                }
            }
            for i in &inputs {
                w.push(smgen::run_input(i));
            }
            header = "Require Import Verif.Run.EvalProps.";
            ctype = "smcase";
            runner = smgen::runner_for(&args.prop);
        }
        "C03" => {
            if args.replay.is_none() {
                inputs.extend(c03::generate(&mut rng, args.n / 2, args.thorough));
                let mut k = smgen::default_knobs();
                k.cup = Some(true); k.forged_pct = 5; k.update_pct = 60; k.bad_url_pct = 5;
                for _ in 0..(args.n / 2) { inputs.push(smgen::gen_sm(&mut rng, &k)); }
            }
            for i in &inputs {
                if i["kind"] == "sm" {
                    let mut c = smgen::run_input(i);
                    c.gallina = format!("K03Sm ({})", c.gallina);
                    w.push(c);
                } else {
                    let mut c = c03::run_input(i);
                    c.gallina = format!("K03 ({})", c.gallina);
                    w.push(c);
                }
            }
            header = c03::HEADER;
            ctype = "c03any";
            runner = "run_c03any";
        }
        "C15" => {
            if args.replay.is_none() {
                inputs.extend(c15::generate(&mut rng, args.n, args.thorough));
            }
            for i in &inputs {
                guarded(&mut w, i, || c15::run_input(i));
            }
            header = c15::HEADER;
            ctype = c15::CTYPE;
            runner = c15::RUNNER;
        }
        "C01" => {
            if args.replay.is_none() {
                inputs.extend(c01::generate(&mut rng, args.n, args.thorough));
            }
            for i in &inputs {
                guarded(&mut w, i, || c01::run_input(i));
            }
            header = c01::HEADER;
            ctype = c01::CTYPE;
            runner = c01::RUNNER;
        }
        "C13" => {
            if args.replay.is_none() {
                inputs.extend(c13::generate(&mut rng, args.n, args.thorough));
                // the state-machine clauses (progress delivery, no running ahead of the consumer): scripted runs with installs
                let mut k = smgen::default_knobs();
                k.update_pct = 85; k.reboot_pct = 50;
                for _ in 0..(args.n / 4).max(100) { inputs.push(smgen::gen_sm(&mut rng, &k)); }
            }
            for i in &inputs {
                if i["kind"] == "sm" {
                    let mut c = smgen::run_input(i);
                    c.gallina = format!("K13Sm ({})", c.gallina);
                    w.push(c);
                } else {
                    let mut c = c13::run_input(i);
                    c.gallina = format!("K13G ({})", c.gallina);
                    w.push(c);
                }
            }
            header = "Require Import Verif.Run.EvalC13any.";
            ctype = "c13any";
            runner = "run_c13any";
        }
        "C19" => {
            if args.replay.is_none() {
                inputs.extend(c19::generate(&mut rng, args.n, args.thorough));
            }
            for i in &inputs {
                guarded(&mut w, i, || c19::run_input(i));
            }
            header = c19::HEADER;
            ctype = c19::CTYPE;
            runner = c19::RUNNER;
        }
        "C16" => {
            if c16::child_main() {
                return;
            }
            if args.replay.is_none() {
                inputs.extend(c16::generate(&mut rng, args.n, args.thorough));
            }
            for i in &inputs {
                guarded(&mut w, i, || c16::run_input(i));
            }
            header = c16::HEADER;
            ctype = c16::CTYPE;
            runner = c16::RUNNER;
        }
        "C17" => {
            if args.replay.is_none() {
                inputs.extend(c17::generate(&mut rng, args.n, args.thorough));
            }
            for i in &inputs {
                guarded(&mut w, i, || c17::run_input(i));
            }
            header = c17::HEADER;
            ctype = c17::CTYPE;
            runner = c17::RUNNER;
        }
        p => {
            eprintln!("unknown property {}", p);
            std::process::exit(2);
        }
    }
    w.finish(args.shards, header, ctype, runner).unwrap();
    println!("wrote {} cases to {}", w.cases.len(), args.out.display());
}
