//! C13 — generator programs run on the real `omaha_client::async_generator::generate`
//! under explicit consumer schedules, polled by hand with a counting root waker.
//!
//! input JSON: {"mode":"raw"|"into_yielded"|"into_complete",
//!              "ops":[["y",x] | ["ya",[x..]] | ["sw"] | ["w",k] | ["d"] ...], "ret":r,
//!              "sched":["p" | k ...]}     ("p" = Poll, a number k = Complete k)
use crate::util::*;
use futures::stream::FusedStream;
use omaha_client::async_generator::{self, GeneratorState, Yield};
use serde_json::{json, Value};
use std::cell::RefCell;
use std::collections::{BTreeMap, BTreeSet};
use std::future::Future;
use std::pin::Pin;
use std::rc::Rc;
use std::sync::atomic::{AtomicUsize, Ordering};
use std::sync::Arc;
use std::task::{Context, Poll, Wake, Waker};

#[derive(Clone, Debug, PartialEq)]
pub enum Op {
    Yield(u64),
    YieldAll(Vec<u64>),
    SelfWake,
    Wait(u64),
    DropHandle,
}
#[derive(Clone, Copy, Debug, PartialEq)]
pub enum Step {
    Poll,
    Complete(u64),
}
#[derive(Clone, Debug, PartialEq)]
pub enum Res {
    Pending,
    Yielded(u64),
    Complete(u64),
    End,
}
#[derive(Clone, Debug)]
pub struct Obs {
    pub wb: bool,
    pub res: Res,
    pub wd: bool,
    pub done: Vec<usize>,
    pub blocked: Option<u64>,
    pub term: bool,
}

/// State shared between the interpreter's futures and the driver.
#[derive(Default)]
struct Shared {
    completed: BTreeSet<u64>,
    wakers: BTreeMap<u64, Waker>,
    done_log: Vec<usize>,
}

struct RootWaker(AtomicUsize);
impl Wake for RootWaker {
    fn wake(self: Arc<Self>) {
        self.0.fetch_add(1, Ordering::SeqCst);
    }
    fn wake_by_ref(self: &Arc<Self>) {
        self.0.fetch_add(1, Ordering::SeqCst);
    }
}

/// Wakes its own waker and returns Pending once.
struct SelfWakeFut(bool);
impl Future for SelfWakeFut {
    type Output = ();
    fn poll(mut self: Pin<&mut Self>, cx: &mut Context<'_>) -> Poll<()> {
        if self.0 {
            Poll::Ready(())
        } else {
            self.0 = true;
            cx.waker().wake_by_ref();
            Poll::Pending
        }
    }
}

/// External event k: ready once the driver has completed k; otherwise stores the waker.
struct WaitFut {
    k: u64,
    sh: Rc<RefCell<Shared>>,
}
impl Future for WaitFut {
    type Output = ();
    fn poll(self: Pin<&mut Self>, cx: &mut Context<'_>) -> Poll<()> {
        let mut sh = self.sh.borrow_mut();
        if sh.completed.contains(&self.k) {
            Poll::Ready(())
        } else {
            sh.wakers.insert(self.k, cx.waker().clone());
            Poll::Pending
        }
    }
}

/// The generator body: the program, interpreted.
async fn interp(co: Yield<u64>, ops: Vec<Op>, ret: u64, sh: Rc<RefCell<Shared>>) -> u64 {
    let mut co = Some(co);
    for (i, op) in ops.into_iter().enumerate() {
        match op {
            Op::Yield(x) => {
                if let Some(h) = co.as_mut() {
                    h.yield_(x).await
                }
            }
            Op::YieldAll(xs) => {
                if let Some(h) = co.as_mut() {
                    h.yield_all(xs).await
                }
            }
            Op::SelfWake => SelfWakeFut(false).await,
            Op::Wait(k) => WaitFut { k, sh: sh.clone() }.await,
            Op::DropHandle => {
                co = None;
            }
        }
        // code after the operation runs: this is what back-pressure is about
        sh.borrow_mut().done_log.push(i);
    }
    ret
}

/// `into_yielded` needs a generator returning ().
async fn interp_unit(co: Yield<u64>, ops: Vec<Op>, sh: Rc<RefCell<Shared>>) {
    interp(co, ops, 0, sh).await;
}

#[derive(Clone, Copy, Debug, PartialEq)]
pub enum Mode {
    Raw,
    Yielded,
    Complete,
}
impl Mode {
    fn name(self) -> &'static str {
        match self {
            Mode::Raw => "raw",
            Mode::Yielded => "into_yielded",
            Mode::Complete => "into_complete",
        }
    }
    fn gallina(self) -> &'static str {
        match self {
            Mode::Raw => "MRaw",
            Mode::Yielded => "MYielded",
            Mode::Complete => "MComplete",
        }
    }
    fn parse(v: &Value) -> Mode {
        match v.as_str() {
            Some("into_yielded") => Mode::Yielded,
            Some("into_complete") => Mode::Complete,
            _ => Mode::Raw,
        }
    }
}

enum Driver {
    Raw(Pin<Box<dyn FusedStream<Item = GeneratorState<u64, u64>>>>),
    Yielded(Pin<Box<dyn FusedStream<Item = u64>>>),
    Complete(Pin<Box<dyn Future<Output = u64>>>),
}

/// A live run of the real generator that can be stepped.
pub struct Live {
    gen: Driver,
    sh: Rc<RefCell<Shared>>,
    root: Arc<RootWaker>,
    waker: Waker,
    last: usize,
    /// into_complete: the future has returned Ready and must not be polled again
    pub finished: bool,
}
impl Live {
    pub fn new(mode: Mode, ops: &[Op], ret: u64) -> Live {
        let sh = Rc::new(RefCell::new(Shared::default()));
        let sh2 = sh.clone();
        let ops = ops.to_vec();
        let gen = match mode {
            Mode::Raw => Driver::Raw(Box::pin(async_generator::generate(move |co| interp(co, ops, ret, sh2)))),
            Mode::Yielded => {
                Driver::Yielded(Box::pin(async_generator::generate(move |co| interp_unit(co, ops, sh2)).into_yielded()))
            }
            Mode::Complete => {
                Driver::Complete(Box::pin(async_generator::generate(move |co| interp(co, ops, ret, sh2)).into_complete()))
            }
        };
        let root = Arc::new(RootWaker(AtomicUsize::new(0)));
        let waker = Waker::from(root.clone());
        Live { gen, sh, root, waker, last: 0, finished: false }
    }
    fn count(&self) -> usize {
        self.root.0.load(Ordering::SeqCst)
    }
    pub fn step(&mut self, s: Step) -> Option<Obs> {
        match s {
            Step::Complete(k) => {
                let w = {
                    let mut sh = self.sh.borrow_mut();
                    sh.completed.insert(k);
                    sh.wakers.remove(&k)
                };
                if let Some(w) = w {
                    w.wake();
                }
                None
            }
            Step::Poll => {
                assert!(!self.finished, "poll after the into_complete future returned");
                let before = self.count();
                let wb = before != self.last;
                self.sh.borrow_mut().done_log.clear();
                let mut cx = Context::from_waker(&self.waker);
                let (res, term) = match &mut self.gen {
                    Driver::Raw(g) => {
                        let r = match g.as_mut().poll_next(&mut cx) {
                            Poll::Pending => Res::Pending,
                            Poll::Ready(Some(GeneratorState::Yielded(x))) => Res::Yielded(x),
                            Poll::Ready(Some(GeneratorState::Complete(r))) => Res::Complete(r),
                            Poll::Ready(None) => Res::End,
                        };
                        (r, g.is_terminated())
                    }
                    Driver::Yielded(g) => {
                        let r = match g.as_mut().poll_next(&mut cx) {
                            Poll::Pending => Res::Pending,
                            Poll::Ready(Some(x)) => Res::Yielded(x),
                            Poll::Ready(None) => Res::End,
                        };
                        (r, g.is_terminated())
                    }
                    Driver::Complete(f) => match f.as_mut().poll(&mut cx) {
                        Poll::Pending => (Res::Pending, false),
                        Poll::Ready(r) => {
                            self.finished = true;
                            (Res::Complete(r), false)
                        }
                    },
                };
                let after = self.count();
                self.last = after;
                let sh = self.sh.borrow();
                Some(Obs {
                    wb,
                    res,
                    wd: after != before,
                    done: sh.done_log.clone(),
                    blocked: sh.wakers.keys().next().copied(),
                    term,
                })
            }
        }
    }
}

// ---------- JSON <-> program / schedule ----------
fn op_json(o: &Op) -> Value {
    match o {
        Op::Yield(x) => json!(["y", x]),
        Op::YieldAll(xs) => json!(["ya", xs]),
        Op::SelfWake => json!(["sw"]),
        Op::Wait(k) => json!(["w", k]),
        Op::DropHandle => json!(["d"]),
    }
}
fn op_parse(v: &Value) -> Op {
    match v[0].as_str().unwrap() {
        "y" => Op::Yield(v[1].as_u64().unwrap()),
        "ya" => Op::YieldAll(v[1].as_array().unwrap().iter().map(|x| x.as_u64().unwrap()).collect()),
        "sw" => Op::SelfWake,
        "w" => Op::Wait(v[1].as_u64().unwrap()),
        "d" => Op::DropHandle,
        k => panic!("unknown op {}", k),
    }
}
fn step_json(s: &Step) -> Value {
    match s {
        Step::Poll => json!("p"),
        Step::Complete(k) => json!(k),
    }
}
fn step_parse(v: &Value) -> Step {
    match v.as_u64() {
        Some(k) => Step::Complete(k),
        None => Step::Poll,
    }
}
fn input_json(mode: Mode, ops: &[Op], ret: u64, sched: &[Step], kind: &str) -> Value {
    json!({"mode": mode.name(), "ops": ops.iter().map(op_json).collect::<Vec<_>>(), "ret": ret,
           "sched": sched.iter().map(step_json).collect::<Vec<_>>(), "kind": kind})
}

// ---------- Gallina ----------
fn g_op(o: &Op) -> String {
    match o {
        Op::Yield(x) => format!("Yield {}", x),
        Op::YieldAll(xs) => format!("YieldAll {}", g_list(&xs.iter().map(g_n).collect::<Vec<_>>())),
        Op::SelfWake => "SelfWake".into(),
        Op::Wait(k) => format!("Wait {}", k),
        Op::DropHandle => "DropHandle".into(),
    }
}
fn g_step(s: &Step) -> String {
    match s {
        Step::Poll => "Poll".into(),
        Step::Complete(k) => format!("Complete {}", k),
    }
}
fn g_res(r: &Res) -> String {
    match r {
        Res::Pending => "RPendingP".into(),
        Res::Yielded(x) => format!("(RYielded {})", x),
        Res::Complete(x) => format!("(RComplete {})", x),
        Res::End => "RStreamEnd".into(),
    }
}
fn g_obs(o: &Obs) -> String {
    format!(
        "Ob {} {} {} {} {} {}",
        g_bool(o.wb),
        g_res(&o.res),
        g_bool(o.wd),
        g_list(&o.done.iter().map(g_n).collect::<Vec<_>>()),
        g_opt(o.blocked.map(g_n)),
        g_bool(o.term)
    )
}
fn obs_json(o: &Obs) -> Value {
    json!({"wb": o.wb, "wd": o.wd, "done": o.done, "blocked": o.blocked, "term": o.term,
           "res": match &o.res { Res::Pending => json!("pending"), Res::Yielded(x) => json!({"yielded": x}),
                                  Res::Complete(x) => json!({"complete": x}), Res::End => json!("end") }})
}

/// Runs the schedule; returns the observations and the part of the schedule that was
/// executed (an into_complete future is not polled again after it returned Ready).
pub fn run_prog(mode: Mode, ops: &[Op], ret: u64, sched: &[Step]) -> (Vec<Obs>, Vec<Step>) {
    let mut live = Live::new(mode, ops, ret);
    let mut obs = vec![];
    let mut done = vec![];
    for s in sched {
        if live.finished {
            break;
        }
        if let Some(o) = live.step(*s) {
            obs.push(o);
        }
        done.push(*s);
    }
    (obs, done)
}

pub fn run_input(input: &Value) -> Case {
    let ops: Vec<Op> = input["ops"].as_array().unwrap().iter().map(op_parse).collect();
    let ret = input["ret"].as_u64().unwrap();
    let sched: Vec<Step> = input["sched"].as_array().unwrap().iter().map(step_parse).collect();
    let kind = input["kind"].as_str().unwrap_or("replay").to_string();
    let mode = Mode::parse(&input["mode"]);
    let mut out = input.clone();
    let r = std::panic::catch_unwind(std::panic::AssertUnwindSafe(|| run_prog(mode, &ops, ret, &sched)));
    let g_prog = g_list(&ops.iter().map(g_op).collect::<Vec<_>>());
    let mut g_sched = g_list(&sched.iter().map(g_step).collect::<Vec<_>>());
    let (gobs, class, nontrivial) = match r {
        Ok((obs, executed)) => {
            g_sched = g_list(&executed.iter().map(g_step).collect::<Vec<_>>());
            out["impl"] = Value::Array(obs.iter().map(obs_json).collect());
            let finished = obs.iter().any(|o| matches!(o.res, Res::Complete(_) | Res::End));
            let yielded = obs.iter().filter(|o| matches!(o.res, Res::Yielded(_))).count();
            let class = format!(
                "{}-{}{}{}",
                mode.name(),
                kind,
                if finished { "-finished" } else { "-unfinished" },
                if ops.contains(&Op::DropHandle) { "-drop" } else { "" }
            );
            (g_list(&obs.iter().map(g_obs).collect::<Vec<_>>()), class, yielded > 0 || finished)
        }
        Err(_) => {
            // the model never panics: an observation list no run can produce
            out["impl"] = json!("PANIC");
            ("[Ob true RStreamEnd true [99999] None false]".to_string(), format!("{}-{}-PANIC", mode.name(), kind), true)
        }
    };
    Case {
        gallina: format!("K13 {} {} {} {} {}", mode.gallina(), g_prog, ret, g_sched, gobs),
        json: out,
        class,
        nontrivial,
        key: serde_json::to_string(&json!([input["mode"], input["ops"], input["ret"], input["sched"]])).unwrap(),
        features: vec![],
    }
}

// ---------- generation ----------
fn rand_items(rng: &mut Rng) -> Vec<u64> {
    let n = match rng.below(8) {
        0 => 0,
        1 | 2 => 1,
        3 | 4 => 2,
        5 => 3,
        6 => 4,
        _ => rng.below(7) as usize,
    };
    (0..n).map(|_| rng.below(50)).collect()
}
fn rand_prog(rng: &mut Rng) -> (Vec<Op>, u64) {
    let len = match rng.below(6) {
        0 => rng.below(4),
        1 | 2 => rng.below(10),
        _ => rng.below(31),
    } as usize;
    // per-program weights so that some programs are yield-heavy, some wait-heavy, few drop early
    let w_y = 1 + rng.below(6);
    let w_ya = rng.below(4);
    let w_sw = rng.below(4);
    let w_w = rng.below(4);
    let w_d = if rng.chance(1, 3) { 1 } else { 0 };
    let tot = w_y + w_ya + w_sw + w_w + w_d;
    let nk = 1 + rng.below(4);
    let mut ops = vec![];
    for _ in 0..len {
        let mut r = rng.below(tot);
        let op = if r < w_y {
            Op::Yield(rng.below(50))
        } else {
            r -= w_y;
            if r < w_ya {
                Op::YieldAll(rand_items(rng))
            } else {
                r -= w_ya;
                if r < w_sw {
                    Op::SelfWake
                } else if r - w_sw < w_w {
                    Op::Wait(rng.below(nk))
                } else {
                    Op::DropHandle
                }
            }
        };
        ops.push(op);
    }
    (ops, rng.below(1000))
}
fn events_of(ops: &[Op]) -> Vec<u64> {
    let mut ks: Vec<u64> = ops.iter().filter_map(|o| if let Op::Wait(k) = o { Some(*k) } else { None }).collect();
    ks.sort();
    ks.dedup();
    ks
}
fn size_of(ops: &[Op]) -> usize {
    ops.iter().map(|o| if let Op::YieldAll(xs) = o { 1 + xs.len() } else { 2 }).sum::<usize>()
}

/// A consumer that behaves like an executor: polls again after every Ready and after
/// every wake; when idle, the environment completes the event the task waits for
/// (`lazy_env`: only then; otherwise events may also complete early, unasked).
/// The schedule is built by running the real generator, and then replayed from JSON.
fn adaptive_sched(rng: &mut Rng, mode: Mode, ops: &[Op], ret: u64, early: bool, extra_polls: u64) -> Vec<Step> {
    // the schedule is found by running the real generator: if that run itself panics (a broken generator), fall back
    // to a fixed executor-like schedule so that the case is still produced and the panic is recorded by run_input
    let mut fork = rng.fork();
    match std::panic::catch_unwind(std::panic::AssertUnwindSafe(|| adaptive_sched_live(&mut fork, mode, ops, ret, early, extra_polls))) {
        Ok(s) => s,
        Err(_) => {
            let mut s = vec![Step::Poll, Step::Poll];
            for k in events_of(ops) { s.push(Step::Complete(k)); s.push(Step::Poll); s.push(Step::Poll); }
            for _ in 0..(2 * size_of(ops) + 4) { s.push(Step::Poll); }
            s
        }
    }
}
fn adaptive_sched_live(rng: &mut Rng, mode: Mode, ops: &[Op], ret: u64, early: bool, extra_polls: u64) -> Vec<Step> {
    let mut live = Live::new(mode, ops, ret);
    let mut sched = vec![];
    let evs = events_of(ops);
    let mut want_poll = true; // first poll, or the previous poll returned Ready(Some) or woke the root waker
    let mut blocked = None;
    let budget = 4 * size_of(ops) + 16;
    for _ in 0..budget {
        if early && !evs.is_empty() && rng.chance(1, 6) {
            let s = Step::Complete(*rng.pick(&evs));
            live.step(s);
            sched.push(s);
        } else if want_poll || live.count() != live.last {
            let o = match live.step(Step::Poll) { Some(o) => o, None => break };
            sched.push(Step::Poll);
            want_poll = o.wd || !matches!(o.res, Res::Pending);
            blocked = o.blocked;
            if o.res == Res::End || live.finished {
                break;
            }
        } else {
            // idle: nothing will happen until the environment acts
            match blocked {
                Some(k) => {
                    let s = Step::Complete(k);
                    live.step(s);
                    sched.push(s);
                    blocked = None;
                }
                None => break, // a lost wake-up would end here, unfinished
            }
        }
    }
    for _ in 0..extra_polls {
        sched.push(Step::Poll);
    }
    sched
}
fn random_sched(rng: &mut Rng, ops: &[Op], poll_w: u64) -> Vec<Step> {
    let evs = events_of(ops);
    let nk = evs.len() as u64 + 1;
    let len = rng.below(3 * size_of(ops) as u64 + 8);
    (0..len)
        .map(|_| if rng.below(10) < poll_w { Step::Poll } else { Step::Complete(rng.below(nk)) })
        .collect()
}

pub fn generate(rng: &mut Rng, n: usize, thorough: bool) -> Vec<Value> {
    let mut v = vec![];
    // hand-written shapes, every run
    let fixed: Vec<(Vec<Op>, Vec<Step>)> = vec![
        (vec![], vec![Step::Poll, Step::Poll, Step::Poll]),
        (vec![Op::Yield(1), Op::Yield(2)], vec![Step::Poll; 6]),
        (vec![Op::YieldAll(vec![1, 2, 3]), Op::Yield(4)], vec![Step::Poll; 8]),
        (vec![Op::YieldAll(vec![])], vec![Step::Poll; 3]),
        (vec![Op::SelfWake, Op::Yield(1), Op::SelfWake], vec![Step::Poll; 6]),
        (vec![Op::Wait(0), Op::Yield(1)], vec![Step::Poll, Step::Poll, Step::Complete(0), Step::Poll, Step::Poll, Step::Poll]),
        (vec![Op::Wait(0), Op::Yield(1)], vec![Step::Complete(0), Step::Poll, Step::Poll, Step::Poll]),
        (vec![Op::Yield(1), Op::DropHandle, Op::Yield(2), Op::Wait(0), Op::SelfWake],
         vec![Step::Poll, Step::Poll, Step::Poll, Step::Complete(0), Step::Poll, Step::Poll, Step::Poll]),
        (vec![Op::DropHandle, Op::DropHandle, Op::YieldAll(vec![5, 6])], vec![Step::Poll; 3]),
        (vec![Op::Wait(1), Op::Wait(0), Op::Wait(1)], vec![Step::Poll, Step::Complete(0), Step::Poll, Step::Complete(1), Step::Poll, Step::Complete(0), Step::Poll, Step::Poll]),
    ];
    for (ops, s) in &fixed {
        for m in [Mode::Raw, Mode::Yielded, Mode::Complete] {
            v.push(input_json(m, ops, 7, s, "fixed"));
        }
    }
    for _ in 0..n {
        let (ops, ret) = rand_prog(rng);
        // the raw stream: 4 schedules
        let s1 = adaptive_sched(rng, Mode::Raw, &ops, ret, false, 2);
        v.push(input_json(Mode::Raw, &ops, ret, &s1, "executor"));
        let extra = rng.below(3);
        let s2 = adaptive_sched(rng, Mode::Raw, &ops, ret, true, extra);
        v.push(input_json(Mode::Raw, &ops, ret, &s2, "executor-early"));
        let s3 = random_sched(rng, &ops, 7);
        v.push(input_json(Mode::Raw, &ops, ret, &s3, "random"));
        let pw = 3 + rng.below(7);
        let s4 = random_sched(rng, &ops, pw);
        v.push(input_json(Mode::Raw, &ops, ret, &s4, "random"));
        // the two wrappers the state machine uses: one schedule each
        for m in [Mode::Yielded, Mode::Complete] {
            let (s5, kind) = if rng.chance(1, 2) {
                let early = rng.chance(1, 2);
                (adaptive_sched(rng, m, &ops, ret, early, if m == Mode::Yielded { 2 } else { 0 }), "executor")
            } else {
                (random_sched(rng, &ops, 7), "random")
            };
            v.push(input_json(m, &ops, ret, &s5, kind));
        }
    }
    if thorough {
        // all programs of length <= 4 over five operations x all schedules of length 8 over
        // {Poll, Complete 0} (every shorter schedule is a prefix of one of these and the
        // observations of a prefix are a prefix of the observations); the wrappers for length <= 3
        let alphabet = [Op::Yield(1), Op::YieldAll(vec![2, 3]), Op::SelfWake, Op::Wait(0), Op::DropHandle];
        let mut progs: Vec<Vec<Op>> = vec![vec![]];
        let mut frontier: Vec<Vec<Op>> = vec![vec![]];
        for _ in 0..4 {
            let mut next = vec![];
            for p in &frontier {
                for a in &alphabet {
                    let mut q = p.clone();
                    q.push(a.clone());
                    next.push(q);
                }
            }
            progs.extend(next.iter().cloned());
            frontier = next;
        }
        for p in &progs {
            for bits in 0u32..256 {
                let s: Vec<Step> =
                    (0..8).map(|i| if bits >> i & 1 == 0 { Step::Poll } else { Step::Complete(0) }).collect();
                v.push(input_json(Mode::Raw, p, 9, &s, "exhaustive"));
                if p.len() <= 3 {
                    v.push(input_json(Mode::Yielded, p, 9, &s, "exhaustive"));
                    v.push(input_json(Mode::Complete, p, 9, &s, "exhaustive"));
                }
            }
        }
    }
    v
}

pub const HEADER: &str = "Require Import Verif.Run.EvalC13.";
pub const CTYPE: &str = "c13case";
pub const RUNNER: &str = "run_c13";
