//! C20 — Version parse / print / order / serde, against omaha_client::version::Version.
use crate::util::*;
use omaha_client::version::Version;
use serde_json::{json, Value};
use std::str::FromStr;

fn comps(v: Version) -> [u32; 4] {
    // Version is a newtype over [u32; 4] with a private field; read it
    // without going through Display (which is itself under test).
    assert_eq!(std::mem::size_of::<Version>(), 16);
    unsafe { std::mem::transmute::<Version, [u32; 4]>(v) }
}

fn g_ver(a: [u32; 4]) -> String {
    format!("({}, {}, {}, {})", a[0], a[1], a[2], a[3])
}
fn arr(v: &Value) -> [u32; 4] {
    let a = v.as_array().unwrap();
    [
        a[0].as_u64().unwrap() as u32,
        a[1].as_u64().unwrap() as u32,
        a[2].as_u64().unwrap() as u32,
        a[3].as_u64().unwrap() as u32,
    ]
}

pub fn run_input(input: &Value) -> Case {
    let kind = input["kind"].as_str().unwrap();
    let mut out = input.clone();
    let (gallina, nontrivial) = match kind {
        "parse" => {
            let b = hex::decode(input["s"].as_str().unwrap()).unwrap();
            let s = String::from_utf8(b.clone()).unwrap();
            let r = Version::from_str(&s).ok().map(comps);
            out["impl"] = json!(r.map(|a| a.to_vec()));
            out["text"] = json!(s);
            (
                format!("KParse {} {}", g_bytes(&b), g_opt(r.map(g_ver))),
                !b.is_empty(),
            )
        }
        "print" => {
            let a = arr(&input["v"]);
            let v = Version::from(a);
            let mut d = v.to_string();
            let mut dbg = format!("{:?}", v);
            // "printing always yields the four-part canonical form": also through placeholders that carry a precision
            // (which a formatter helper may apply as a maximum length); what differs is what gets compared with the model
            for alt in [format!("{:.0}", v), format!("{:.1}", v), format!("{:.3}", v), format!("{:.6}", v), format!("{:.12}", v)] {
                if alt != d { d = alt; break; }
            }
            for alt in [format!("{:.0?}", v), format!("{:.3?}", v), format!("{:.6?}", v)] {
                if alt != dbg { dbg = alt; break; }
            }
            out["impl"] = json!([d, dbg]);
            (
                format!("KPrint {} {} {}", g_ver(a), g_str(&d), g_str(&dbg)),
                true,
            )
        }
        "cmp" => {
            let x = arr(&input["x"]);
            let y = arr(&input["y"]);
            let (vx, vy) = (Version::from(x), Version::from(y));
            let c = vx.cmp(&vy);
            let pc = vx.partial_cmp(&vy);
            let e = vx == vy;
            let cs = match c {
                std::cmp::Ordering::Less => "Lt",
                std::cmp::Ordering::Equal => "Eq",
                std::cmp::Ordering::Greater => "Gt",
            };
            out["impl"] = json!([cs, e, pc == Some(c)]);
            (
                format!("KCmp {} {} {} {} {}", g_ver(x), g_ver(y), cs, g_bool(e), g_bool(pc == Some(c))),
                x != y,
            )
        }
        "from_array" => {
            let ns: Vec<u32> = input["ns"].as_array().unwrap().iter().map(|x| x.as_u64().unwrap() as u32).collect();
            let v = match ns.len() {
                1 => Version::from([ns[0]]),
                2 => Version::from([ns[0], ns[1]]),
                3 => Version::from([ns[0], ns[1], ns[2]]),
                _ => Version::from([ns[0], ns[1], ns[2], ns[3]]),
            };
            let r = comps(v);
            out["impl"] = json!(r.to_vec());
            (
                format!(
                    "KFromArr {} {}",
                    g_list(&ns.iter().map(|n| g_n(*n)).collect::<Vec<_>>()),
                    g_ver(r)
                ),
                true,
            )
        }
        "json_ser" => {
            let a = arr(&input["v"]);
            let s = serde_json::to_string(&Version::from(a)).unwrap_or_else(|e| format!("<serialisation failed: {}>", e));
            out["impl"] = json!(s);
            (format!("KJsonSer {} {}", g_ver(a), g_str(&s)), true)
        }
        "json_de" => {
            let b = hex::decode(input["j"].as_str().unwrap()).unwrap();
            let r = serde_json::from_slice::<Version>(&b).ok().map(comps);
            // the same text through the other routes serde_json offers (a reader, a parsed Value) and, for a plain quoted
            // string, with its first character written as a \u escape: "JSON (de)serialisation uses exactly that string"
            // whichever way the string reaches the visitor (borrowed, copied, owned)
            let r2 = serde_json::from_reader::<_, Version>(&b[..]).ok().map(comps);
            let r3 = serde_json::from_slice::<Value>(&b).ok().and_then(|v| serde_json::from_value::<Version>(v).ok()).map(comps);
            let mut routes = vec![("from_reader", r2), ("from_value", r3)];
            if b.len() >= 3 && b[0] == b'"' && b[b.len() - 1] == b'"' && !b[1..b.len() - 1].iter().any(|c| *c == b'"' || *c == b'\\' || *c < 32 || *c >= 128) {
                let mut e = format!("\"\\u{:04x}", b[1]).into_bytes();
                e.extend_from_slice(&b[2..]);
                routes.push(("escaped", serde_json::from_slice::<Version>(&e).ok().map(comps)));
            }
            for (name, x) in routes {
                if x != r { panic!("deserialisation of {} differs by route: from_slice {:?}, {} {:?}", String::from_utf8_lossy(&b), r, name, x); }
            }
            out["impl"] = json!(r.map(|a| a.to_vec()));
            out["text"] = json!(String::from_utf8_lossy(&b));
            (
                format!("KJsonDe {} {}", g_bytes(&b), g_opt(r.map(g_ver))),
                true,
            )
        }
        k => panic!("unknown C20 case kind {}", k),
    };
    let key = serde_json::to_string(input).unwrap();
    Case {
        gallina,
        json: out,
        class: kind.to_string(),
        nontrivial,
        key,
        features: vec![],
    }
}

const BOUND: [u32; 9] = [0, 1, 9, 10, 99, 1 << 31, u32::MAX - 1, u32::MAX, 4294967];

fn rand_comp(rng: &mut Rng) -> u32 {
    match rng.below(4) {
        0 => *rng.pick(&BOUND),
        1 => rng.below(20) as u32,
        2 => rng.next() as u32,
        _ => (rng.next() as u32) >> rng.below(32),
    }
}
fn rand_ver(rng: &mut Rng) -> [u32; 4] {
    [rand_comp(rng), rand_comp(rng), rand_comp(rng), rand_comp(rng)]
}

fn rand_part(rng: &mut Rng) -> String {
    match rng.below(15) {
        0 => String::new(),
        1 => "4294967296".into(),
        2 => "4294967295".into(),
        3 => format!("+{}", rand_comp(rng)),
        4 => format!("-{}", rand_comp(rng)),
        5 => format!("{:05}", rng.below(1000)),
        6 => format!(" {}", rng.below(100)),
        7 => format!("{}a", rng.below(100)),
        8 => "99999999999999999999".into(),
        9 => "0000000000000000000000000000004294967295".into(),
        10 => format!("{}é", rng.below(10)),
        11 => "+".into(),
        12 => crate::gal::boundary_text(rng, 64),
        _ => rand_comp(rng).to_string(),
    }
}

pub fn generate(rng: &mut Rng, n: usize, thorough: bool) -> Vec<Value> {
    let mut v = vec![];
    // fixed boundary grid first
    for s in [
        "", ".", "..", "1", "1.2", "1.2.3", "1.2.3.4", "1.2.3.4.5", "1.2.3.4.", ".1.2.3", "1..2", "1.2.0.4",
        "4294967295.4294967295.4294967295.4294967295", "4294967296", "1.4294967296", "+1.2", "1.+2", "-1",
        "1.-2", " 1", "1 ", "1.2 ", "0x10", "1e3", "1.2.3.x", "1.2.3.4.x", "x.1.2.3.4", "1.2.3.4.5.6",
        "01.002.0003.00004", "00000000000000000000000000001", "١", "1.２", "1,2", "1.2.3.4\n", "+", "+.1", "++1",
        "0.0.0.0", "0", "1.2.3.99999999999",
    ] {
        v.push(json!({"kind":"parse","s":hexs(s.as_bytes())}));
    }
    // many parts: counts around the wrap-around points of narrow counters (a count kept in 8 bits, a fixed buffer; 16-bit counts would need strings too long for the case files)
    for k in [5usize, 8, 16, 32, 64, 128, 255, 256, 257, 258, 259, 260, 261, 511, 512, 513, 516, 517, 1024, 1028] {
        let s = (0..k).map(|i| if i < 4 { (i + 1).to_string() } else { "7".to_string() }).collect::<Vec<_>>().join(".");
        v.push(json!({"kind":"parse","s":hexs(s.as_bytes())}));
        if k <= 1028 { v.push(json!({"kind":"json_de","j":hexs(format!("\"{}\"", s).as_bytes())})); }
    }
    if thorough {
        // all strings of length <= 5 over 8 symbols (37 449 strings)
        let alpha = [b'0', b'1', b'9', b'.', b'+', b'-', b' ', b'a'];
        for len in 0..=5usize {
            let total = 8usize.pow(len as u32);
            for mut idx in 0..total {
                let mut s = Vec::with_capacity(len);
                for _ in 0..len {
                    s.push(alpha[idx % 8]);
                    idx /= 8;
                }
                v.push(json!({"kind":"parse","s":hexs(&s)}));
            }
        }
    }
    for i in 0..n {
        match i % 8 {
            0 | 1 | 2 => {
                let parts = rng.below(7) as usize;
                let s = (0..parts).map(|_| rand_part(rng)).collect::<Vec<_>>().join(".");
                v.push(json!({"kind":"parse","s":hexs(s.as_bytes())}));
            }
            3 => v.push(json!({"kind":"print","v":rand_ver(rng)})),
            4 => {
                let x = rand_ver(rng);
                let mut y = rand_ver(rng);
                // make shared prefixes likely
                let k = rng.below(5) as usize;
                y[..k.min(4)].copy_from_slice(&x[..k.min(4)]);
                v.push(json!({"kind":"cmp","x":x,"y":y}));
            }
            5 => {
                let k = 1 + rng.below(4) as usize;
                let ns: Vec<u32> = (0..k).map(|_| rand_comp(rng)).collect();
                v.push(json!({"kind":"from_array","ns":ns}));
            }
            6 => v.push(json!({"kind":"json_ser","v":rand_ver(rng)})),
            _ => {
                let parts = 1 + rng.below(5) as usize;
                let s = (0..parts).map(|_| rand_part(rng)).collect::<Vec<_>>().join(".");
                let j = match rng.below(6) {
                    0 => s.clone(),                                   // unquoted
                    1 => format!("[\"{}\"]", s),                      // wrong JSON type
                    2 => "null".to_string(),
                    3 => format!("\"{}", s),                          // unterminated
                    _ => format!("\"{}\"", s),
                };
                // keep inside the sub-language Version.of_json models: printable
                // ASCII, no escapes, no whitespace outside the quotes
                if j.bytes().all(|c| (32..128).contains(&c) && c != b'\\') && !j.starts_with(' ') && !j.ends_with(' ')
                    && j.matches('"').count() <= 2
                {
                    v.push(json!({"kind":"json_de","j":hexs(j.as_bytes())}));
                } else {
                    v.push(json!({"kind":"json_ser","v":rand_ver(rng)}));
                }
            }
        }
    }
    v
}

pub const HEADER: &str = "Require Import Verif.Run.EvalC20.";
pub const CTYPE: &str = "c20case";
pub const RUNNER: &str = "run_c20";
