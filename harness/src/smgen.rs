//! Generators of scripted environments for the state machine (shared by the
//! state-machine properties; each property biases the knobs it cares about).
use crate::gal::*;
use crate::sm;
use crate::util::*;
use omaha_client::common::PersistedApp;
use serde_json::{json, Value};

#[derive(Clone, Default)]
pub struct Knobs {
    pub cup: Option<bool>,          // force CUP on/off
    pub oneshot_pct: u64,           // percent of oneshot entries
    pub forged_pct: u64,            // percent of responses that fail authentication (CUP only)
    pub retry_after_pct: u64,       // percent of responses carrying X-Retry-After
    pub update_pct: u64,            // percent of docs offering an update
    pub faults_pct: u64,            // percent of cases with storage faults
    pub weird_storage_pct: u64,     // percent of cases with stored values of wrong type / extreme magnitude
    pub clock_jump_pct: u64,
    pub bad_url_pct: u64,
    pub max_checks: u64,
    pub reboot_pct: u64,
    pub inject_pct: u64,           // percent of cases with control requests sent between polls
    pub drop_pct: u64,             // percent of cases that drop all control handles at some wait
    pub reboot_scn_pct: u64,       // percent of cases directed at a long wait-for-reboot (install succeeds, reboot refused several times)
    pub twin_pct: u64,             // percent of cases / documents in which all apps share a version / are offered the same manifest version
    pub resume_pct: u64,           // percent of cases in which the plan on record is offered again and the policy's answers vary
    pub reboot_record_pct: u64,    // percent of cases started on the recorded target version, with the first clock readings shaped (consistent / inconsistent)
}
pub fn default_knobs() -> Knobs {
    Knobs { cup: None, oneshot_pct: 15, forged_pct: 10, retry_after_pct: 20, update_pct: 50, faults_pct: 10,
            weird_storage_pct: 10, clock_jump_pct: 10, bad_url_pct: 3, max_checks: 4, reboot_pct: 50, inject_pct: 25, drop_pct: 5, reboot_scn_pct: 5, twin_pct: 10, resume_pct: 4, reboot_record_pct: 2 }
}

pub fn knobs_for(prop: &str) -> Knobs {
    let mut k = default_knobs();
    match prop {
        "C14" => { k.weird_storage_pct = 60; k.clock_jump_pct = 50; k.faults_pct = 50; k.bad_url_pct = 15; k.forged_pct = 30; }
        "C02" => { k.cup = Some(true); k.forged_pct = 45; k.retry_after_pct = 40; }
        "C06" => { k.retry_after_pct = 25; k.update_pct = 10; k.max_checks = 6; }
        "C07" => { k.retry_after_pct = 80; k.update_pct = 20; }
        "C08" => { k.faults_pct = 0; k.weird_storage_pct = 0; k.reboot_scn_pct = 15; }
        "C09" => { k.update_pct = 20; k.faults_pct = 0; }
        "C04" => { k.update_pct = 85; k.resume_pct = 8; }
        "C10" => { k.update_pct = 85; k.twin_pct = 40; }
        "C18" => { k.update_pct = 90; k.reboot_pct = 70; k.reboot_scn_pct = 20; k.clock_jump_pct = 30; k.reboot_record_pct = 35; k.resume_pct = 12; }
        "C05" | "C12" => { k.update_pct = 60; k.reboot_pct = 70; k.reboot_scn_pct = 35; k.resume_pct = 12; }
        "C11" => { k.update_pct = 60; k.reboot_pct = 70; k.inject_pct = 90; k.drop_pct = 15; k.oneshot_pct = 0; k.max_checks = 5; k.reboot_scn_pct = 35; }
        _ => {}
    }
    k
}
pub fn runner_for(prop: &str) -> &'static str {
    match prop {
        "C02" => "run_c02", "C04" => "run_c04", "C05" => "run_c05", "C06" => "run_c06", "C07" => "run_c07",
        "C08" => "run_c08", "C09" => "run_c09", "C10" => "run_c10", "C11" => "run_c11", "C12" => "run_c12", "C14" => "run_c14",
        "C18" => "run_c18", _ => "run_sm_all",
    }
}

const GOOD_URLS: [&str; 11] = ["http://example.com/", "https://omaha.example.org/service/update/json", "http://[::1]:8080/?a=b",
                              "https://user@host.example:444/p/q?x=1&y=2", "http://example.com",
                              // queries that are not key=value lists: a bare flag, an empty query, doubled and trailing separators, empty names and values, a cup2key of its own
                              "http://host.example/path?beta", "http://host.example/path?", "http://host.example/p?a=1&&b=2",
                              "http://host.example/p?a=1&", "http://host.example:8443/p?=v&k=", "http://host.example/p?cup2key=1:00"];
const BAD_URLS: [&str; 3] = ["/relative/only", "http://exa mple.com/", ""];

fn zs(z: i128) -> Value { json!(z.to_string()) }

pub fn rand_retry_after(rng: &mut Rng) -> String {
    match rng.below(14) {
        0 => "".into(), 1 => "0".into(), 2 => "86400".into(), 3 => "86401".into(), 4 => "4294967296".into(),
        5 => "18446744073709551615".into(), 6 => "18446744073709551616".into(), 7 => "+5".into(), 8 => "-5".into(),
        9 => " 7".into(), 10 => "7 ".into(), 11 => "00000000000000000000000012".into(), 12 => "1e3".into(),
        _ => rng.below(100000).to_string(),
    }
}

/// a stored time relative to the first clock reading, in microseconds: normally in the past, one time in six ahead of the
/// clock (the clock was set back since the value was written)
fn stored_offset(rng: &mut Rng, span: u64) -> i128 {
    let d = rng.below(span) as i128;
    if rng.chance(1, 6) { d } else { -d }
}

/// the X-Retry-After header of a response of the directed reboot scenario: absent, a small plain number, or any of the odd values
fn scn_ra(rng: &mut Rng) -> Vec<Value> {
    match rng.below(6) { 0 | 1 => vec![hx(&(rng.below(5000)).to_string())], 2 => vec![hx(&rand_retry_after(rng))], _ => vec![] }
}

pub fn rand_doc(rng: &mut Rng, app_ids: &[String], k: &Knobs) -> Value {
    let mut ids: Vec<String> = app_ids.to_vec();
    // shuffle, drop some, add unknown / duplicate ids sometimes
    for i in (1..ids.len()).rev() { let j = rng.below(i as u64 + 1) as usize; ids.swap(i, j); }
    if rng.chance(1, 4) && ids.len() > 1 { ids.pop(); }
    if rng.chance(1, 6) { ids.insert(rng.below(ids.len() as u64 + 1) as usize, "unknown-app".into()); }
    if rng.chance(1, 12) && !ids.is_empty() { let d = ids[0].clone(); ids.push(d); }
    let offer = rng.below(100) < k.update_pct;
    // twins: every offered app gets the same manifest version (their events can then be identical)
    let twin: Option<Value> = if rng.below(100) < k.twin_pct { Some(if rng.chance(3, 4) { hx(&format!("{}.{}.0.0", 1 + rng.below(9), rng.below(20))) } else { Value::Null }) } else { None };
    let apps: Vec<Value> = ids.iter().map(|id| {
        let uc = if rng.chance(1, 8) { Value::Null } else {
            let status = if offer && (twin.is_some() || rng.chance(2, 3)) { "ok" } else { *rng.pick(&["noupdate", "restricted", "error-unknownApplication", "OK"]) };
            let man = match &twin { Some(m) if status == "ok" => m.clone(),
                                    _ => if status == "ok" && rng.chance(3, 4) { hx(&format!("{}.{}.0.0", 1 + rng.below(9), rng.below(20))) } else { Value::Null } };
            json!({"status": status, "manifest": man})
        };
        json!({"id": hx(id), "cohort": {"id": ohx(&opt_co(rng)), "hint": ohx(&opt_co(rng)), "name": ohx(&opt_co(rng))}, "uc": uc})
    }).collect();
    let daystart = match rng.below(4) { 0 => Value::Null, 1 => json!({}), _ => json!({"days": rng.below(10000)}) };
    json!({"daystart": daystart, "apps": apps})
}
fn opt_co(rng: &mut Rng) -> Option<String> {
    match rng.below(4) { 0 => None, 1 => Some(String::new()), _ => Some(format!("c{}", rng.below(5))) }
}

pub fn rand_http(rng: &mut Rng, app_ids: &[String], k: &Knobs, cup: bool) -> Value {
    match rng.below(10) {
        0 => json!({"err": *rng.pick(&["user", "transport", "timeout"])}),
        1 => json!({"err": "transport"}),
        _ => {
            let status = match rng.below(11) { 0 => 500, 1 => 404, 2 => 302, 3 => 204, 4 => 299,
                5 => *rng.pick(&[100u64, 101, 199, 201, 300, 304, 399, 400, 418, 429, 451, 499, 501, 503, 599, 600, 700, 999]), _ => 200 };
            let ra: Vec<Value> = if rng.below(100) < k.retry_after_pct {
                let mut v = vec![hx(&rand_retry_after(rng))];
                if rng.chance(1, 5) { v.push(hx(&rand_retry_after(rng))); }
                v
            } else { vec![] };
            let auth = if cup && rng.below(100) < k.forged_pct { *rng.pick(&["none", "badsig", "otherkey", "histkey", "bodytamper", "replay", "rawetag", "rawetag", "rawetag"]) } else { "genuine" };
            let body = if rng.chance(1, 8) {
                json!({"bad": hex::encode(*rng.pick(&[&b"<html>"[..], b"", b"{\"response\":{}}", b"{\"response\":{\"protocol\":\"3.0\",\"app\":[{\"appid\":1}]}}", b")]}'\n)]}'\n{}", b"\xff\xfe",
                                                        // every prefix of the anti-XSSI guard, with and without its line end
                                                        b")", b")]", b")]}", b")]}'", b")]}'\n", b")]}'\n ", b")]}'{}", b")]}'\r\n{}"]))})
            } else { json!({"doc": rand_doc(rng, app_ids, k)}) };
            let mut o = json!({"status": status, "retry_after": ra, "auth": auth, "body": body});
            if auth == "rawetag" {
                // header values around the ETag grammar: lone quotes, weak-validator prefixes, empty halves, non-hex, non-ASCII
                o["etag"] = json!(hex::encode(*rng.pick(&[&b"\""[..], b"\"", b"\"", b"W/\"", b"W/\"", b"W/", b"W", b"", b"\"\"", b"W/\"\"", b"\"a", b"a\"", b":", b"::", b"00:00", b"zz:zz",
                                                        b"W/\"00:00\"", b"\"00:00", b"00:00\"", b"3006020101020101:", b":3006020101020101", b"\xff\xfe:\x80", b" \" ", b"\"\"\""])));
            }
            o
        }
    }
}

pub fn rand_pct(rng: &mut Rng, base_w: i128, base_m: i128) -> Value {
    let w = base_w + rng.range(-5_000_000_000, 50_000_000_000) as i128;
    let m = base_m + rng.range(0, 50_000_000_000) as i128;
    json!({"shape": *rng.pick(&["wall", "mono", "complex"]), "w": w.to_string(), "m": m.to_string()})
}

pub fn gen_sm(rng: &mut Rng, k: &Knobs) -> Value {
    let cup_on = k.cup.unwrap_or_else(|| rng.chance(1, 2));
    let napps = 1 + rng.below(3) as usize;
    let mut app_ids = vec![];
    let mut apps = vec![];
    for i in 0..napps {
        let id = format!("app{}-{}", i, rand_ident(rng));
        let mut a = rand_app_json(rng, &id, 1);
        // extras that shadow protocol keys are exercised by C15; here they would confuse the read-back summary
        if a["extra"].as_array().map(|x| x.iter().any(|kv| ["appid", "version", "ping", "cohort", "cohorthint", "cohortname", "updatecheck", "event", "fp"].contains(&strv(&kv[0]).as_str()))).unwrap_or(false) {
            a["extra"] = json!([]);
        }
        // versions must be non-zero for a valid app set
        if ver_arr(&a["ver"]) == [0, 0, 0, 0] { a["ver"] = json!([1, 0, 0, 0]); }
        // header-safe ids only (first app id becomes a header value)
        apps.push(a);
        app_ids.push(id);
    }
    if rng.below(100) < k.twin_pct { let v0 = apps[0]["ver"].clone(); for a in apps.iter_mut() { a["ver"] = v0.clone(); } }
    if rng.chance(1, 20) {
        // invalid app set: one app, anywhere in the set, has version 0 or (not the first, whose id is a header value) an empty id
        let i = rng.below(napps as u64) as usize;
        if i > 0 && rng.chance(1, 2) { apps[i]["id"] = json!(""); app_ids[i] = String::new(); } else { apps[i]["ver"] = json!([0, 0, 0, 0]); }
    }
    let gen_url;
    let url = if rng.below(100) < k.bad_url_pct { *rng.pick(&BAD_URLS) }
              else if rng.chance(1, 4) {
                  // from the grammar, when the http crate takes it as an absolute URL
                  let u = rand_url(rng);
                  gen_url = if u.parse::<http::Uri>().map(|p| p.scheme().is_some() && p.authority().is_some()).unwrap_or(false) { u } else { "http://h/p/".to_string() };
                  gen_url.as_str()
              } else { *rng.pick(&GOOD_URLS) };
    let os_version = format!("{}.{}.0.0", 1 + rng.below(3), rng.below(3));
    let config = json!({"name": hx(&rand_ident(rng)), "uver": rand_version(rng),
                        "os": [hx("plat"), hx(&os_version), hx("sp"), hx("arch")], "url": hx(url)});
    // clock
    let base_w: i128 = if rng.below(100) < k.clock_jump_pct { *rng.pick(&[-5_000_000_000i128, 0, 1, 253_402_300_800_000_000_000, -62_135_596_800_000_000_000]) }
                       else { 1_700_000_000_000_000_000 + rng.below(1_000_000_000_000_000) as i128 };
    let base_m: i128 = rng.below(1_000_000_000_000) as i128;
    let mut clock = vec![];
    let (mut cw, mut cm) = (base_w, base_m);
    for _ in 0..(20 + rng.below(80)) {
        let step = match rng.below(6) { 0 => 0, 1 => 1, 2 => 999, 3 => 1_000_000, 4 => 3_000_000_000, _ => rng.below(100_000_000_000) as i128 };
        // the monotonic clock normally only moves forward; under clock jumps it may also be read going backwards (a TimeSource may do that)
        cm += if rng.below(100) < k.clock_jump_pct && rng.chance(1, 4) { -(rng.below(50_000_000_000) as i128) } else { step };
        if cm < 0 { cm = 0; }
        cw += if rng.below(100) < k.clock_jump_pct { rng.range(-100_000_000_000, 100_000_000_000) as i128 } else { step };
        clock.push(json!([cw.to_string(), cm.to_string()]));
    }
    // storage
    let mut storage: Vec<Value> = vec![];
    let weird = rng.below(100) < k.weird_storage_pct;
    let mut put = |k: &str, v: Value| storage.push(json!([hx(k), v]));
    let wint = |rng: &mut Rng| -> i128 { *rng.pick(&[0i128, 1, -1, 4294967295, 4294967296, i64::MAX as i128, i64::MIN as i128, 86400_000_000, -86400_000_000, 5]) };
    if rng.chance(1, 2) { put("last_update_time", if weird { if rng.chance(1,3) { json!({"str": hx("x")}) } else { json!({"int": wint(rng).to_string()}) } } else { json!({"int": ((base_w / 1000) + stored_offset(rng, 10_000_000_000)).to_string()}) }); }
    if rng.chance(1, 3) { put("server_dictated_poll_interval", if weird { json!({"int": wint(rng).to_string()}) }
                               else { json!({"int": (match rng.below(7) { 0 => 0, 1 => 1, 2 => 86400 * 1_000_000, _ => rng.below(86400) as i128 * 1_000_000 }).to_string()}) }); }
    if rng.chance(1, 3) { put("consecutive_failed_update_checks", if weird { json!({"int": wint(rng).to_string()}) } else { json!({"int": rng.below(5).to_string()}) }); }
    if rng.chance(1, 4) { put("consecutive_failed_install_attempts", if weird { json!({"int": wint(rng).to_string()}) } else { json!({"int": rng.below(5).to_string()}) }); }
    if rng.chance(1, 3) { put("install_plan_id", json!({"str": hx(*rng.pick(&["plan-a", "plan-b"]))}));
                          if rng.chance(3, 4) { put("update_first_seen_time", json!({"int": ((base_w / 1000) + stored_offset(rng, 1_000_000_000)).to_string()})); } }
    // the two reboot-bookkeeping keys are generated independently of each other (either may be absent or mistyped)
    if rng.chance(1, 4) { put("update_finish_time", if weird && rng.chance(1, 2) { if rng.chance(1, 2) { json!({"str": hx("soon")}) } else { json!({"int": wint(rng).to_string()}) } }
                                                     else { json!({"int": ((base_w / 1000) + rng.range(-20_000_000, 5_000_000) as i128).to_string()}) }); }
    if rng.chance(1, 4) { put("target_version", if weird && rng.chance(1, 4) { json!({"int": "7"}) } else { json!({"str": hx(if rng.chance(2, 3) { &os_version } else { "9.9.9.9" })}) }); }
    if weird {
        // any key may hold a value of the wrong type
        for k in ["last_update_time", "server_dictated_poll_interval", "consecutive_failed_update_checks", "consecutive_failed_install_attempts",
                  "install_plan_id", "update_first_seen_time"] {
            if rng.chance(1, 8) { put(k, match rng.below(3) { 0 => json!({"str": hx("12")}), 1 => json!({"bool": true}), _ => json!({"int": wint(rng).to_string()}) }); }
        }
    }
    for (i, id) in app_ids.iter().enumerate() {
        if rng.chance(1, 3) {
            let v = match rng.below(8) {
                0 => "not json".to_string(), 1 => "{}".to_string(),
                // undecodable records of some length: plain garbage, and JSON that lacks a required field
                6 => format!("not json {}", boundary_text(rng, 4096)),
                7 => format!("{{\"cohort\":{{\"cohort\":null,\"cohorthint\":null,\"cohortname\":\"{}\"}}}}", boundary_text(rng, 1024)), 2 => "{\"cohort\":{},\"user_counting\":{\"ClientRegulatedByDate\":null},\"extra\":[1,{\"a\":null}]}".to_string(),
                _ => serde_json::to_string(&PersistedApp::from(&app_of(&rand_app_json(rng, id, 0)))).unwrap(),
            };
            put(id, json!({"str": hx(&v)}));
            let _ = i;
        }
    }
    if rng.below(100) < k.reboot_record_pct && clock.len() >= 2 {
        // Directed: the machine starts on the version a finished install recorded.  The first two clock readings (taken at
        // start-up and when the waited-for-reboot duration is computed) are consistent or inconsistent in one of the ways
        // the property names; later readings (retries of the report) are left as generated.
        storage.retain(|kv| { let k = strv(&kv[0]); k != "update_finish_time" && k != "target_version" });
        let r0w: i128 = clock[0][0].as_str().unwrap().parse().unwrap();
        let r0m: i128 = clock[0][1].as_str().unwrap().parse().unwrap();
        let finish_us = r0w / 1000 - rng.below(20_000_000) as i128;
        storage.push(json!([hx("update_finish_time"), {"int": finish_us.to_string()}]));
        storage.push(json!([hx("target_version"), {"str": hx(&os_version)}]));
        let (w1, m1) = match rng.below(6) {
            0 => (r0w + 5_000_000_000, r0m + 3_000_000_000),          // consistent
            1 => (finish_us * 1000 - 1_000_000_000, r0m + 1_000_000_000), // the wall clock is before the recorded finish time
            2 => (r0w + 5_000_000_000, (r0m - 1_000_000_000).max(0)),     // the monotonic clock went backwards
            3 => (finish_us * 1000 + 1_000_000, r0m + 60_000_000_000),    // less wall time since the finish than monotonic time since start
            4 => (r0w, r0m),                                             // no time at all
            _ => (r0w + rng.below(100_000_000_000) as i128, r0m + rng.below(100_000_000_000) as i128),
        };
        clock[1] = json!([w1.to_string(), m1.to_string()]);
    }
    let faults: Vec<u64> = if rng.below(100) < k.faults_pct { (0..1 + rng.below(4)).map(|_| rng.below(40)).collect() } else { vec![] };
    // policy
    let next_time: Vec<Value> = (0..rng.below(8)).map(|_| json!({"time": rand_pct(rng, cw, cm),
        "min": if rng.chance(1, 3) {
                   if rng.below(100) < k.weird_storage_pct / 3 {
                       // "never on your own": minimum waits at the limits of Duration
                       json!(*rng.pick(&["18446744073709551615999999999", "18446744073709551615000000000", "9223372036854775807000000000", "0", "1"]))
                   } else { json!((10_000_000_000u64 + rng.below(100_000_000_000)).to_string()) }
               } else { Value::Null }})).collect();
    let allowed: Vec<Value> = (0..rng.below(6)).map(|_| {
        let d = match rng.below(8) { 0 => "toosoon", 1 => "throttled", 2 => "denied", 3 => "okdeferred", _ => "ok" };
        json!({"d": d, "params": rand_params_json(rng)})
    }).collect();
    let can_start: Vec<Value> = (0..rng.below(5)).map(|_| json!(*rng.pick(&["ok", "ok", "ok", "deferred", "denied"]))).collect();
    let reboot_needed: Vec<Value> = (0..rng.below(5)).map(|_| json!(rng.below(100) < k.reboot_pct)).collect();
    let reboot_allowed: Vec<Value> = (0..rng.below(6)).map(|_| json!(rng.chance(1, 2))).collect();
    let http: Vec<Value> = (0..(rng.below(2) * k.max_checks + rng.below(6 * k.max_checks + 1))).map(|_| rand_http(rng, &app_ids, k, cup_on)).collect();
    let plan: Vec<Value> = (0..rng.below(5)).map(|_| if rng.chance(1, 6) { Value::Null } else { json!(hex::encode(*rng.pick(&["plan-a", "plan-b", "plan-c"]))) }).collect();
    let perform: Vec<Value> = (0..rng.below(5)).map(|_| {
        let progress: Vec<u32> = (0..rng.below(4)).map(|_| *rng.pick(&[0f32.to_bits(), 0.25f32.to_bits(), 0.5f32.to_bits(), 1f32.to_bits(), f32::NAN.to_bits()])).collect();
        let results: Vec<&str> = (0..5).map(|_| *rng.pick(&["installed", "installed", "installed", "deferred", "failed"])).collect();
        json!({"progress": progress, "results": results, "concurrent": rng.chance(1, 2), "forget": rng.chance(1, 4)})
    }).collect();
    let reboot: Vec<Value> = (0..rng.below(3)).map(|_| json!(rng.chance(3, 4))).collect();
    let stimuli: Vec<Value> = (0..rng.below(3 * k.max_checks + 1)).map(|_| match rng.below(8) {
        0 => json!({"control": "ondemand"}), 1 => json!({"control": "scheduled"}), 2 => json!({"fire": 1}), 3 => json!({"fire": 2}), _ => json!({"fire": 0}) }).collect();
    let mut oneshot = rng.below(100) < k.oneshot_pct;
    let mut stimuli = stimuli;
    let (mut next_time, mut allowed, mut can_start, mut reboot_needed, mut reboot_allowed, mut http, mut plan, mut perform) =
        (next_time, allowed, can_start, reboot_needed, reboot_allowed, http, plan, perform);
    if rng.below(100) < k.reboot_scn_pct {
        // Directed scenario: the first check installs everything, a reboot is needed and refused several times, and
        // the wait for the reboot sees pings (with and without a minimum wait), reboot-timer firings and control
        // requests of both kinds before the policy finally gives in.
        oneshot = false;
        let ok_doc = |rng: &mut Rng| {
            let apps: Vec<Value> = app_ids.iter().map(|id| json!({"id": hx(id),
                "cohort": {"id": ohx(&opt_co(rng)), "hint": ohx(&opt_co(rng)), "name": ohx(&opt_co(rng))},
                "uc": {"status": "ok", "manifest": hx(&format!("{}.{}.0.0", 2 + rng.below(8), rng.below(20)))}})).collect();
            json!({"status": 200, "retry_after": scn_ra(rng), "auth": "genuine", "body": {"doc": {"daystart": {"days": rng.below(10000)}, "apps": apps}}})
        };
        let mut h = vec![ok_doc(rng)];
        for _ in 0..(3 + rng.below(8)) {
            h.push(match rng.below(9) {
                0 | 2 => rand_http(rng, &app_ids, k, cup_on),
                // a ping (or report) answered 2xx by something that is not Omaha: a failed exchange that reached no server
                1 => json!({"status": *rng.pick(&[200u64, 204, 299]), "retry_after": scn_ra(rng), "auth": "genuine",
                            "body": {"bad": hex::encode(*rng.pick(&[&b"<html>captive portal</html>"[..], b"", b"{}", b")]}'\n"]))}}),
                _ => ok_doc(rng) });
        }
        http = h;
        plan = vec![json!(hex::encode("plan-a"))];
        can_start = vec![json!("ok")];
        perform = vec![json!({"progress": [0.5f32.to_bits()], "results": ["installed", "installed", "installed", "installed", "installed"]})];
        reboot_needed = vec![json!(true)];
        reboot_allowed = (0..(3 + rng.below(6))).map(|_| json!(false)).collect();
        reboot_allowed.push(json!(true));
        allowed = vec![json!({"d": "ok", "params": rand_params_json(rng)})];
        next_time = (0..(4 + rng.below(5))).map(|_| json!({"time": rand_pct(rng, cw, cm),
            "min": if rng.chance(1, 2) { json!((10_000_000_000u64 + rng.below(100_000_000_000)).to_string()) } else { Value::Null }})).collect();
        let mut st: Vec<Value> = match rng.below(3) {
            0 => vec![json!({"control": "ondemand"})],
            1 => vec![json!({"control": "scheduled"})],
            _ => vec![json!({"fire": 0}), json!({"fire": 0})],
        };
        for _ in 0..(8 + rng.below(8)) {
            st.push(match rng.below(20) {
                0..=7 => json!({"fire": 0}), 8..=12 => json!({"fire": 1}), 13..=14 => json!({"fire": 2}),
                15..=17 => json!({"control": "ondemand"}), _ => json!({"control": "scheduled"}) });
        }
        stimuli = st;
    }
    if rng.below(100) < k.resume_pct {
        // Directed: the plan on record from an earlier attempt is offered again - the first response offers every app an
        // update, the installer builds that very plan each time - and the policy's answers to "can it start" vary
        // (deferred / denied / ok), over several checks in a row.
        let pid = *rng.pick(&["plan-a", "plan-b"]);
        storage.retain(|kv| { let k = strv(&kv[0]); k != "install_plan_id" && k != "update_first_seen_time" });
        storage.push(json!([hx("install_plan_id"), {"str": hx(pid)}]));
        if rng.chance(3, 4) { storage.push(json!([hx("update_first_seen_time"), {"int": ((base_w / 1000) + stored_offset(rng, 1_000_000_000)).to_string()}])); }
        let apps_doc: Vec<Value> = app_ids.iter().map(|id| json!({"id": hx(id), "cohort": {"id": Value::Null, "hint": Value::Null, "name": Value::Null},
            "uc": {"status": "ok", "manifest": hx(&format!("{}.{}.0.0", 2 + rng.below(8), rng.below(20)))}})).collect();
        http.insert(0, json!({"status": 200, "retry_after": [], "auth": "genuine", "body": {"doc": {"daystart": {"days": rng.below(10000)}, "apps": apps_doc}}}));
        plan = (0..4).map(|_| json!(hex::encode(pid))).collect();
        can_start = (0..4).map(|_| json!(*rng.pick(&["deferred", "denied", "ok", "deferred"]))).collect();
        allowed.insert(0, json!({"d": "ok", "params": rand_params_json(rng)}));
    }
    let mut inject: Vec<Value> = vec![];
    if !oneshot && rng.below(100) < k.inject_pct {
        let mut idx = 0u64;
        for _ in 0..(1 + rng.below(4)) {
            // bursts: every other request follows the previous one at the very next event (several requests queued at once)
            idx += if rng.chance(1, 2) { 0 } else { rng.below(12) };
            inject.push(json!([idx, if rng.chance(1, 2) { "ondemand" } else { "scheduled" }]));
            idx += 1;
        }
    }
    if !oneshot && inject.is_empty() && rng.below(100) < k.drop_pct {
        // drop all handles at some wait; no control request is sent afterwards
        let pos = rng.below(stimuli.len() as u64 + 1) as usize;
        for s in stimuli.iter_mut().skip(pos) { if s.get("control").is_some() { *s = json!({"fire": 0}); } }
        stimuli.insert(pos, json!({"drop": true}));
    }
    let cup = if cup_on { let l = 1 + rng.below(1000); json!({"latest": l, "hist": (0..rng.below(3)).map(|i| l + 1 + i).collect::<Vec<_>>()}) } else { Value::Null };
    json!({"kind": "sm", "entry": if oneshot { "oneshot" } else { "start" }, "inject": inject,
           "config": config, "cup": cup, "apps": apps, "storage": storage,
           "clock0": [base_w.to_string(), base_m.to_string()], "clock": clock, "faults": faults,
           "next_time": next_time, "allowed": allowed, "can_start": can_start, "reboot_needed": reboot_needed,
           "reboot_allowed": reboot_allowed, "http": http, "plan": plan, "perform": perform, "reboot": reboot,
           "stimuli": stimuli})
}

/// Crash injection (C08): the process may die at any instant; what survives is the storage as of the last completed
/// commit.  For every distinct committed view the run of `input` produced, a follow-up case rebuilds the state machine
/// on exactly that view (no further stimuli: it shows its policy what it loaded and goes to sleep).  The values it
/// presents are compared with the model's load of the same bytes, and C08's monitor starts from them.
pub fn crash_cases(input: &Value, max: usize) -> Vec<Value> {
    let r = sm::run_sm(input);
    if r.panic.is_some() || r.hang { return vec![]; }
    let n = r.snaps.len();
    let mut out = vec![];
    for (i, snap) in r.snaps.iter().enumerate() {
        // keep the first, the last and an even spread of the others
        if n > max && i != 0 && i != n - 1 && (i * max / n) == ((i - 1) * max / n) { continue; }
        let mut c = input.clone();
        c["storage"] = sm::storage_json(snap);
        c["stimuli"] = json!([]);
        c["inject"] = json!([]);
        c["faults"] = json!([]);
        c["entry"] = json!("start");
        c["crash_after_commit"] = json!(i + 1);
        out.push(c);
    }
    out
}

pub fn run_input(input: &Value) -> Case {
    let r = sm::run_sm(input);
    let mut out = input.clone();
    out["impl_trace"] = json!(r.jtrace);
    out["impl_backoffs_ms"] = json!(r.backoffs_ms);
    if let Some(p) = &r.panic { out["impl_panic"] = json!(p); }
    if r.hang { out["impl_hang"] = json!(true); }
    if let Some(v) = &r.violation { out["impl_violation"] = json!(v); }
    let n_http = r.jtrace.iter().filter(|s| s.starts_with("http ")).count();
    let n_checks = r.jtrace.iter().filter(|s| s.starts_with("result ")).count();
    let class = format!("{}{}checks{}{}", if input["entry"] == "oneshot" { "oneshot-" } else { "" }, if input["cup"].is_null() { "" } else { "cup-" }, n_checks.min(5),
                        if r.panic.is_some() { "-PANIC" } else if r.hang { "-HANG" } else { "" });
    let features = trace_features(input, &r.jtrace);
    Case { gallina: sm::g_case(input, &r), json: out, class, nontrivial: n_http > 0 || n_checks > 0,
           key: format!("{:?}", r.jtrace), features }
}

/// Which paths of the state machine a run went through, read off the implementation's trace.  The evidence file
/// reports, per feature, the number of cases that show it, so that a generator that stops reaching a path is visible.
pub fn trace_features(input: &Value, t: &[String]) -> Vec<String> {
    let mut f = std::collections::BTreeSet::<String>::new();
    let mut in_check = false;
    let mut in_reboot = false;
    let mut attempts = 0usize;
    let mut after_result = false;
    f.insert(if input["entry"] == "oneshot" { "entry:oneshot".into() } else { "entry:start".into() });
    f.insert(if input["cup"].is_null() { "cup:off".into() } else { "cup:on".into() });
    if !input["crash_after_commit"].is_null() { f.insert("rebuilt-after-crash".into()); }
    for l in t {
        if let Some(s) = l.strip_prefix("state ") {
            let name = s.split('(').next().unwrap_or(s);
            f.insert(format!("state:{}", name));
            if name == "CheckingForUpdates" { in_check = true; attempts = 0; after_result = false; }
            if name == "WaitingForReboot" { in_reboot = true; }
            if name == "Idle" { in_check = false; in_reboot = false; }
        } else if l.starts_with("http ") {
            let kind = if l.contains("\"event\"") || l.contains("\"events\"") { "report" } else if l.contains("\"ping\"") && !l.contains("\"updatecheck\"") { "ping" } else { "check" };
            let out = l.rsplit(" -> ").next().unwrap_or("");
            let oc: String = if out.starts_with("default") { "unscripted-transport-error".into() }
                     else if let Ok(v) = serde_json::from_str::<Value>(out) {
                         if let Some(e) = v.get("err").and_then(|x| x.as_str()) { format!("err-{}", e) }
                         else {
                             let auth = v.get("auth").and_then(|x| x.as_str()).unwrap_or("none");
                             let st = v.get("status").and_then(|x| x.as_u64()).unwrap_or(0);
                             let body = if v["body"].get("bad").is_some() { "unparseable" } else { "doc" };
                             if !v["retry_after"].as_array().map(|a| a.is_empty()).unwrap_or(true) { f.insert("http:retry-after-header".into()); }
                             if auth != "genuine" && !input["cup"].is_null() { format!("forged-{}", auth) }
                             else { format!("{}xx-{}", st / 100, body) }
                         }
                     } else { "other".into() };
            f.insert(format!("http:{}:{}", kind, oc));
            if kind == "check" { attempts += 1; f.insert(format!("attempts:{}", attempts.min(3))); }
            if in_reboot { f.insert("reboot-wait:ping".into()); }
        } else if let Some(s) = l.strip_prefix("result ") {
            after_result = true; in_check = false;
            if s.starts_with("Ok") {
                f.insert("result:ok".into());
                for k in ["NoUpdate", "Updated", "DeferredByPolicy", "DeniedByPolicy", "InstallPlanExecutionError"] {
                    if s.contains(k) { f.insert(format!("app-result:{}", k)); }
                }
            } else {
                let k = s.trim_start_matches("Err ").split('(').next().unwrap_or("").to_string();
                f.insert(format!("result:err:{}", k));
            }
        } else if let Some(s) = l.strip_prefix("reply ") {
            let k = s.split(' ').nth(1).unwrap_or("");
            f.insert(format!("reply:{}", k));
            if k == "AlreadyRunning" { f.insert(if in_reboot { "request:during-reboot-wait".into() } else { "request:during-check".into() }); }
        } else if l.starts_with("request ") {
            if l.ends_with("OnDemand") { f.insert("request:ondemand".into()); } else { f.insert("request:scheduled".into()); }
            if in_reboot && l.ends_with("OnDemand") { f.insert("reboot-wait:ondemand-request".into()); }
        } else if let Some(s) = l.strip_prefix("policy ") {
            let q = s.split(' ').next().unwrap_or("");
            let a = s.rsplit(" -> ").next().unwrap_or("");
            let a = a.split(|c| c == '(' || c == ' ').next().unwrap_or("");
            if q != "next_time" { f.insert(format!("policy:{}:{}", q, a)); }
            if q == "next_time" && s.contains("t_min := (Some") { f.insert("wait:with-minimum".into()); }
            if q == "next_time" && s.contains("poll=Some") { f.insert("poll-interval:in-force".into()); }
        } else if let Some(s) = l.strip_prefix("store ") {
            if s.ends_with("ok=false") { f.insert("storage:write-refused".into()); }
            if after_result && s.starts_with("commit") { f.insert("persist:after-result".into()); }
        } else if let Some(s) = l.strip_prefix("metric ") {
            let k = s.split(|c| c == '(' || c == ' ' || c == '{').next().unwrap_or("");
            f.insert(format!("metric:{}", k));
        } else if l.starts_with("timer for") {
            if in_check { f.insert("retry:backoff-wait".into()); }
        } else if let Some(s) = l.strip_prefix("installer ") {
            let k = s.split(' ').next().unwrap_or("");
            f.insert(format!("installer:{}", k));
            if k == "create_plan" && s.ends_with("-> None") { f.insert("installer:plan-refused".into()); }
        } else if l == "handles dropped" {
            f.insert("handles:dropped".into());
        } else if l.starts_with("progress ") {
            f.insert("install:progress".into());
        }
    }
    let _ = in_check;
    f.into_iter().collect()
}
