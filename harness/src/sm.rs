//! Scripted environment for the real state machine: every trait the state
//! machine talks to is implemented here, answers come from the case's script,
//! and everything observable is logged as Gallina `action` terms (Model/Env.v).
use crate::c19::{inst_from_ns, inst_to_ns, st_from_ns, st_to_ns};
use crate::gal::*;
use crate::util::*;
use futures::future::{BoxFuture, LocalBoxFuture};
use futures::prelude::*;
use omaha_client::app_set::VecAppSet;
use omaha_client::common::{App, CheckOptions, CheckTiming, ProtocolState, UpdateCheckSchedule, UserCounting};
use omaha_client::cup_ecdsa::{PublicKeyAndId, PublicKeys, RequestMetadata, StandardCupv2Handler};
use omaha_client::http_request::{self, HttpRequest};
use omaha_client::installer::{AppInstallResult, Installer, Plan, ProgressObserver};
use omaha_client::metrics::{ClockType, Metrics, MetricsReporter, UpdateCheckFailureReason};
use omaha_client::policy::{CheckDecision, PolicyEngine, UpdateDecision};
use omaha_client::protocol::request::InstallSource;
use omaha_client::protocol::response::{OmahaStatus, Response};
use omaha_client::request_builder::RequestParams;
use omaha_client::state_machine::{
    update_check, OmahaRequestError, StartUpdateCheckResponse, State, StateMachineBuilder, StateMachineEvent,
    UpdateCheckError,
};
use omaha_client::storage::Storage;
use omaha_client::time::{ComplexTime, PartialComplexTime, TimeSource, Timer};
use p256::ecdsa::{signature::Signer, SigningKey};
use serde_json::{json, Value};
use sha2::{Digest, Sha256};
use std::collections::HashMap;
use std::pin::Pin;
use std::sync::atomic::{AtomicBool, Ordering};
use std::sync::{Arc, Mutex};
use std::task::{Context, Poll, Wake, Waker};
use std::time::{Duration, Instant, SystemTime};

// ---------------------------------------------------------------- world
#[derive(Clone, Debug, PartialEq)]
pub enum SVal {
    Int(i64),
    Str(String),
    Bool(bool),
}

pub struct TimerSlot {
    /// the 30-minute timer of the wait for the reboot
    reboot: bool,
    fired: bool,
    dropped: bool,
    done: bool,
    waker: Option<Waker>,
}

pub struct World {
    pub trace: Vec<String>,      // Gallina actions
    pub jtrace: Vec<String>,     // short human-readable form for evidence / replays
    clock: Vec<(i128, i128)>,
    clock_pos: usize,
    last_clock: (i128, i128),
    pend: Vec<(String, SVal)>,
    comm: Vec<(String, SVal)>,
    /// the committed view after each successful commit that changed it: what survives a crash from then on
    snaps: Vec<Vec<(String, SVal)>>,
    opn: u64,
    faults: Vec<u64>,
    q_next_time: Vec<Value>,
    q_allowed: Vec<Value>,
    q_can_start: Vec<Value>,
    q_reboot_needed: Vec<Value>,
    q_reboot_allowed: Vec<Value>,
    q_http: Vec<Value>,
    q_plan: Vec<Value>,
    q_perform: Vec<Value>,
    q_reboot: Vec<Value>,
    pos: [usize; 9],
    timers: Vec<TimerSlot>,
    in_check: bool,
    guids: HashMap<String, u64>,
    nonces: HashMap<String, u64>,
    // last update-check style exchange seen on the wire, for the metadata comparison
    last_wire_body: Vec<u8>,
    last_wire_cup: Option<(u64, String)>,
    genuine: Vec<(Vec<u8>, Vec<u8>)>, // earlier genuine (body, etag) pairs for replays
    pub backoffs_ms: Vec<u64>,
    // script-aware checks (the harness knows which timers it fired and which requests it sent; a trace does not)
    pub violation: Option<String>,
    reboot_wait: bool,
    reboot_asks: u32,
    reask_causes: u32,
    wait_timers: Vec<usize>,
    pending_requests: i64,
    in_install: bool,
    cup_keys: Option<(u64, Vec<u64>)>,
    pub panicked: Option<String>,
}

type W = Arc<Mutex<World>>;

fn key_for(id: u64) -> SigningKey {
    let mut b = [7u8; 32];
    b[24..32].copy_from_slice(&(id.wrapping_mul(0x9E37_79B9).wrapping_add(11)).to_be_bytes());
    SigningKey::from_bytes(&b).unwrap()
}

impl World {
    fn violate(&mut self, what: &str) {
        self.jtrace.push(format!("VIOLATION: {}", what));
        if self.violation.is_none() { self.violation = Some(what.to_string()); }
    }
    fn log(&mut self, g: String, j: String) {
        self.trace.push(g);
        self.jtrace.push(j);
    }
    fn pop(&mut self, which: usize) -> Option<Value> {
        let q = match which {
            0 => &self.q_next_time,
            1 => &self.q_allowed,
            2 => &self.q_can_start,
            3 => &self.q_reboot_needed,
            4 => &self.q_reboot_allowed,
            5 => &self.q_http,
            6 => &self.q_plan,
            7 => &self.q_perform,
            _ => &self.q_reboot,
        };
        let p = self.pos[which];
        if p < q.len() {
            self.pos[which] += 1;
            Some(q[p].clone())
        } else {
            None
        }
    }
    fn read_clock(&mut self) -> (i128, i128) {
        if self.clock_pos < self.clock.len() {
            self.last_clock = self.clock[self.clock_pos];
            self.clock_pos += 1;
        }
        let (w, m) = self.last_clock;
        self.log(format!("AClock {{| wall := {}; mono := {} |}}", g_z(w), g_z(m)), format!("clock wall={} mono={}", w, m));
        self.last_clock
    }
    fn get(&self, k: &str) -> Option<SVal> {
        self.pend.iter().find(|(kk, _)| kk == k).map(|(_, v)| v.clone())
    }
    fn write(&mut self, op: &str, k: &str, v: Option<SVal>) -> bool {
        let ok = !self.faults.contains(&self.opn);
        self.opn += 1;
        if ok {
            match op {
                "set" => {
                    self.pend.retain(|(kk, _)| kk != k);
                    self.pend.insert(0, (k.to_string(), v.clone().unwrap()));
                }
                "remove" => self.pend.retain(|(kk, _)| kk != k),
                _ => {
                    if self.comm != self.pend { self.snaps.push(self.pend.clone()); }
                    self.comm = self.pend.clone();
                }
            }
        }
        let (g, j) = match (op, &v) {
            ("set", Some(SVal::Int(i))) => (format!("SSetInt {} {}", g_str(k), g_z(*i as i128)), format!("set {}={}", k, i)),
            ("set", Some(SVal::Str(s))) => (format!("SSetStr {} {}", g_str(k), g_str(s)), format!("set {}={:?}", k, s)),
            ("set", Some(SVal::Bool(b))) => (format!("SSetStr {} {}", g_str(k), g_str(&b.to_string())), format!("set {}={}", k, b)),
            ("remove", _) => (format!("SRemove {}", g_str(k)), format!("remove {}", k)),
            _ => ("SCommit".to_string(), "commit".to_string()),
        };
        self.log(format!("AStore ({}) {}", g, g_bool(ok)), format!("store {} ok={}", j, ok));
        ok
    }
}

// ---------------------------------------------------------------- Gallina printers
fn g_pct(p: &PartialComplexTime) -> String {
    match p {
        PartialComplexTime::Wall(w) => format!("(PWall {})", g_z(st_to_ns(*w))),
        PartialComplexTime::Monotonic(m) => format!("(PMono {})", g_z(inst_to_ns(*m))),
        PartialComplexTime::Complex(c) => {
            format!("(PComplex {{| wall := {}; mono := {} |}})", g_z(st_to_ns(c.wall)), g_z(inst_to_ns(c.mono)))
        }
    }
}
fn g_dur(d: Duration) -> String {
    g_z(d.as_nanos() as i128)
}
fn g_timing(t: &CheckTiming) -> String {
    format!("{{| t_time := {}; t_min := {} |}}", g_pct(&t.time), g_opt(t.minimum_wait.map(g_dur)))
}
fn g_sched(s: &UpdateCheckSchedule) -> String {
    format!(
        "{{| s_last_update := {}; s_last_check := {}; s_next := {} |}}",
        g_opt(s.last_update_time.as_ref().map(g_pct)),
        g_opt(s.last_update_check_time.as_ref().map(g_pct)),
        g_opt(s.next_update_time.as_ref().map(g_timing))
    )
}
fn g_ps(p: &ProtocolState) -> String {
    format!(
        "{{| ps_poll := {}; ps_fails := {}; ps_proxied := {} |}}",
        g_opt(p.server_dictated_poll_interval.map(g_dur)),
        g_z(p.consecutive_failed_update_checks as i128),
        g_z(p.consecutive_proxied_requests as i128)
    )
}
fn g_apps(apps: &[App]) -> String {
    g_list(&apps.iter().map(g_app_real).collect::<Vec<_>>())
}
fn g_cohort_real(c: &omaha_client::protocol::Cohort) -> String {
    g_cohort(&cohort_json(c))
}
fn g_doc(r: &Response) -> String {
    let ds = match &r.daystart {
        None => "None".to_string(),
        Some(d) => format!("(Some {})", g_opt(d.elapsed_days.map(g_n))),
    };
    let apps: Vec<String> = r
        .apps
        .iter()
        .map(|a| {
            let uc = match &a.update_check {
                None => "None".to_string(),
                Some(u) => format!(
                    "(Some ({}, {}))",
                    g_bool(u.status == OmahaStatus::Ok),
                    g_opt(u.manifest.as_ref().map(|m| g_str(&m.version)))
                ),
            };
            format!("{{| r_id := {}; r_cohort := {}; r_uc := {} |}}", g_str(&a.id), g_cohort_real(&a.cohort), uc)
        })
        .collect();
    format!("{{| d_daystart := {}; d_apps := {} |}}", ds, g_list(&apps))
}
fn g_state(s: &State) -> String {
    match s {
        State::Idle => "Idle".into(),
        State::CheckingForUpdates(src) => format!("(CheckingForUpdates {})", g_source(src)),
        State::ErrorCheckingForUpdate => "ErrorCheckingForUpdate".into(),
        State::NoUpdateAvailable => "NoUpdateAvailable".into(),
        State::InstallationDeferredByPolicy => "InstallationDeferredByPolicy".into(),
        State::InstallingUpdate => "InstallingUpdate".into(),
        State::WaitingForReboot => "WaitingForReboot".into(),
        State::InstallationError => "InstallationError".into(),
    }
}
fn g_terr(e: &http_request::Error) -> &'static str {
    if e.is_user() {
        "TUser"
    } else if e.is_timeout() {
        "TTimeout"
    } else {
        "TTransport"
    }
}
fn g_result(r: &Result<update_check::Response, UpdateCheckError>) -> String {
    match r {
        Ok(resp) => {
            let apps: Vec<String> = resp
                .app_responses
                .iter()
                .map(|a| {
                    let UserCounting::ClientRegulatedByDate(uc) = a.user_counting.clone();
                    let act = match a.result {
                        update_check::Action::NoUpdate => "ANoUpdate",
                        update_check::Action::DeferredByPolicy => "ADeferredByPolicy",
                        update_check::Action::DeniedByPolicy => "ADeniedByPolicy",
                        update_check::Action::InstallPlanExecutionError => "AInstallPlanExecutionError",
                        update_check::Action::Updated => "AUpdated",
                    };
                    format!(
                        "{{| ar_id := {}; ar_cohort := {}; ar_uc := {}; ar_result := {} |}}",
                        g_str(&a.app_id),
                        g_cohort_real(&a.cohort),
                        g_opt(uc.map(g_n)),
                        act
                    )
                })
                .collect();
            format!("(inr {})", g_list(&apps))
        }
        Err(e) => {
            let s = match e {
                UpdateCheckError::OmahaRequest(r) => format!(
                    "(CEOmahaRequest {})",
                    match r {
                        OmahaRequestError::Json(_) => "REJson".to_string(),
                        OmahaRequestError::HttpBuilder(_) => "REHttpBuilder".to_string(),
                        OmahaRequestError::CupDecoration(_) => "RECupDecoration".to_string(),
                        OmahaRequestError::CupValidation(_) => "RECupValidation".to_string(),
                        OmahaRequestError::HttpTransport(t) => format!("(REHttpTransport {})", g_terr(t)),
                        OmahaRequestError::HttpStatus(c) => format!("(REHttpStatus {})", c.as_u16()),
                    }
                ),
                UpdateCheckError::ResponseParser(_) => "CEResponseParser".to_string(),
                UpdateCheckError::InstallPlan(_) => "CEInstallPlan".to_string(),
            };
            format!("(inl {})", s)
        }
    }
}
fn g_event_sm(e: &StateMachineEvent) -> (String, String) {
    match e {
        StateMachineEvent::StateChange(s) => (format!("EvState {}", g_state(s)), format!("state {:?}", s)),
        StateMachineEvent::ScheduleChange(s) => (format!("EvSchedule {}", g_sched(s)), "schedule".to_string()),
        StateMachineEvent::ProtocolStateChange(p) => (
            format!("EvProtocol {}", g_ps(p)),
            format!("protocol poll={:?} fails={}", p.server_dictated_poll_interval, p.consecutive_failed_update_checks),
        ),
        StateMachineEvent::UpdateCheckResult(r) => (
            format!("EvResult {}", g_result(r)),
            match r {
                Ok(x) => format!("result Ok {:?}", x.app_responses.iter().map(|a| (a.app_id.clone(), a.result.clone())).collect::<Vec<_>>()),
                Err(e) => format!("result Err {:?}", e),
            },
        ),
        StateMachineEvent::InstallProgressChange(p) => (format!("EvProgress {}", p.progress.to_bits()), format!("progress {}", p.progress)),
        StateMachineEvent::OmahaServerResponse(r) => (format!("EvServerResponse {}", g_doc(r)), "server-response".to_string()),
        StateMachineEvent::InstallerError(_) => ("EvInstallerError".to_string(), "installer-error".to_string()),
    }
}
fn g_omaha_event(e: &omaha_client::protocol::request::Event) -> String {
    g_event(e)
}

// ---------------------------------------------------------------- clock
#[derive(Clone)]
pub struct Clock(W);
impl TimeSource for Clock {
    fn now_in_walltime(&self) -> SystemTime {
        st_from_ns(self.0.lock().unwrap().read_clock().0).unwrap()
    }
    fn now_in_monotonic(&self) -> Instant {
        inst_from_ns(self.0.lock().unwrap().read_clock().1)
    }
    fn now(&self) -> ComplexTime {
        let (w, m) = self.0.lock().unwrap().read_clock();
        ComplexTime { wall: st_from_ns(w).unwrap(), mono: inst_from_ns(m) }
    }
}

// ---------------------------------------------------------------- policy
pub struct TPlan {
    id: String,
}
impl Plan for TPlan {
    fn id(&self) -> String {
        self.id.clone()
    }
}
pub struct Pol {
    w: W,
    ts: Clock,
}
fn pct_of(v: &Value) -> PartialComplexTime {
    let w = v["w"].as_str().map(|s| s.parse::<i128>().unwrap()).unwrap_or(0);
    let m = v["m"].as_str().map(|s| s.parse::<i128>().unwrap()).unwrap_or(0);
    match v["shape"].as_str().unwrap() {
        "wall" => PartialComplexTime::Wall(st_from_ns(w).unwrap()),
        "mono" => PartialComplexTime::Monotonic(inst_from_ns(m)),
        _ => PartialComplexTime::Complex(ComplexTime { wall: st_from_ns(w).unwrap(), mono: inst_from_ns(m) }),
    }
}
fn timing_of(v: &Value) -> CheckTiming {
    let t = pct_of(&v["time"]);
    match v["min"].as_str() {
        Some(s) => {
            let ns: u128 = s.parse().unwrap();
            CheckTiming::builder().time(t).minimum_wait(Duration::new((ns / 1_000_000_000) as u64, (ns % 1_000_000_000) as u32)).build()
        }
        None => CheckTiming::builder().time(t).build(),
    }
}
impl PolicyEngine for Pol {
    type TimeSource = Clock;
    type InstallResult = ();
    type InstallPlan = TPlan;
    fn time_source(&self) -> &Clock {
        &self.ts
    }
    fn compute_next_update_time<'a>(
        &'a mut self,
        apps: &'a [App],
        scheduling: &'a UpdateCheckSchedule,
        protocol_state: &'a ProtocolState,
    ) -> BoxFuture<'a, CheckTiming> {
        let mut w = self.w.lock().unwrap();
        w.wait_timers.clear();
        let t = match w.pop(0) {
            Some(v) => timing_of(&v),
            None => CheckTiming::builder().time(PartialComplexTime::Monotonic(inst_from_ns(0))).build(),
        };
        w.log(
            format!("APolicy (QNextTime {} {} {}) (PTiming {})", g_apps(apps), g_sched(scheduling), g_ps(protocol_state), g_timing(&t)),
            format!("policy next_time fails={} poll={:?} -> {}", protocol_state.consecutive_failed_update_checks, protocol_state.server_dictated_poll_interval, g_timing(&t)),
        );
        future::ready(t).boxed()
    }
    fn update_check_allowed<'a>(
        &'a mut self,
        apps: &'a [App],
        scheduling: &'a UpdateCheckSchedule,
        protocol_state: &'a ProtocolState,
        check_options: &'a CheckOptions,
    ) -> BoxFuture<'a, CheckDecision> {
        let mut w = self.w.lock().unwrap();
        let d = match w.pop(1) {
            Some(v) => match v["d"].as_str().unwrap() {
                "ok" => CheckDecision::Ok(params_of(&v["params"])),
                "okdeferred" => CheckDecision::OkUpdateDeferred(params_of(&v["params"])),
                "toosoon" => CheckDecision::TooSoon,
                "throttled" => CheckDecision::ThrottledByPolicy,
                _ => CheckDecision::DeniedByPolicy,
            },
            None => CheckDecision::Ok(RequestParams::default()),
        };
        let gd = match &d {
            CheckDecision::Ok(p) => format!("(DOk {})", g_params(p)),
            CheckDecision::OkUpdateDeferred(p) => format!("(DOkDeferred {})", g_params(p)),
            CheckDecision::TooSoon => "DTooSoon".to_string(),
            CheckDecision::ThrottledByPolicy => "DThrottled".to_string(),
            CheckDecision::DeniedByPolicy => "DDenied".to_string(),
        };
        if w.pending_requests == 0 && w.wait_timers.iter().any(|&k| !w.timers[k].fired) {
            w.violate("an unrequested check begins although a timer armed for this wait has not fired");
        }
        w.log(
            format!(
                "APolicy (QCheckAllowed {} {} {} {}) (PDecision {})",
                g_apps(apps),
                g_sched(scheduling),
                g_ps(protocol_state),
                g_source(&check_options.source),
                gd
            ),
            format!("policy check_allowed src={:?} -> {:?}", check_options.source, d),
        );
        future::ready(d).boxed()
    }
    fn update_can_start<'a>(&'a mut self, plan: &'a TPlan) -> BoxFuture<'a, UpdateDecision> {
        let mut w = self.w.lock().unwrap();
        let d = match w.pop(2).as_ref().and_then(|v| v.as_str().map(|s| s.to_string())).as_deref() {
            Some("deferred") => UpdateDecision::DeferredByPolicy,
            Some("denied") => UpdateDecision::DeniedByPolicy,
            _ => UpdateDecision::Ok,
        };
        let gd = match d { UpdateDecision::Ok => "UOk", UpdateDecision::DeferredByPolicy => "UDeferred", UpdateDecision::DeniedByPolicy => "UDenied" };
        w.log(format!("APolicy (QCanStart {}) (PUDecision {})", g_str(&plan.id), gd), format!("policy can_start {} -> {}", plan.id, gd));
        future::ready(d).boxed()
    }
    fn reboot_allowed<'a>(&'a mut self, check_options: &'a CheckOptions, _r: &'a ()) -> BoxFuture<'a, bool> {
        let mut w = self.w.lock().unwrap();
        let b = w.pop(4).and_then(|v| v.as_bool()).unwrap_or(true);
        if w.reboot_wait {
            if w.reboot_asks >= 1 {
                if w.reask_causes == 0 {
                    w.violate("the reboot question is re-asked although neither its 30-minute timer fired nor an on-demand request arrived");
                } else {
                    w.reask_causes -= 1;
                }
            }
            w.reboot_asks += 1;
        }
        w.log(
            format!("APolicy (QRebootAllowed {}) (PBool {})", g_source(&check_options.source), g_bool(b)),
            format!("policy reboot_allowed src={:?} -> {}", check_options.source, b),
        );
        future::ready(b).boxed()
    }
    fn reboot_needed<'a>(&'a mut self, plan: &'a TPlan) -> BoxFuture<'a, bool> {
        let mut w = self.w.lock().unwrap();
        let b = w.pop(3).and_then(|v| v.as_bool()).unwrap_or(false);
        w.log(format!("APolicy (QRebootNeeded {}) (PBool {})", g_str(&plan.id), g_bool(b)), format!("policy reboot_needed {} -> {}", plan.id, b));
        future::ready(b).boxed()
    }
}

// ---------------------------------------------------------------- installer
#[derive(Debug)]
pub struct TErr;
impl std::fmt::Display for TErr {
    fn fmt(&self, f: &mut std::fmt::Formatter<'_>) -> std::fmt::Result {
        write!(f, "scripted installer failure")
    }
}
impl std::error::Error for TErr {}

pub struct Inst {
    w: W,
}
impl Installer for Inst {
    type InstallPlan = TPlan;
    type InstallResult = ();
    type Error = TErr;
    fn perform_install<'a>(
        &'a mut self,
        plan: &'a TPlan,
        observer: Option<&'a dyn ProgressObserver>,
    ) -> LocalBoxFuture<'a, ((), Vec<AppInstallResult<TErr>>)> {
        let ans = {
            let mut w = self.w.lock().unwrap();
            let a = w.pop(7);
            let ga = match &a {
                Some(a) => g_perform(a),
                None => "{| pa_progress := []; pa_results := [RInstalled; RInstalled; RInstalled; RInstalled; RInstalled] |}".to_string(),
            };
            w.log(format!("AInstaller (IPerform {}) (IPerformed {})", g_str(&plan.id), ga), format!("installer perform {} -> {:?}", plan.id, a));
            a
        };
        let wi = self.w.clone();
        async move {
            wi.lock().unwrap().in_install = true;
            let mut results = vec![];
            if ans.is_none() {
                // script exhausted: the default answer installs everything (Model/Env.v pop_perform)
                for _ in 0..5 { results.push(AppInstallResult::Installed); }
            }
            if let Some(a) = ans {
                if let Some(obs) = observer {
                    let ps: Vec<f32> = a["progress"].as_array().unwrap().iter().map(|p| f32::from_bits(p.as_u64().unwrap() as u32)).collect();
                    if a["forget"] == true {
                        // an installer that does not wait for its reports to be taken: each is handed over (the first poll
                        // of a report puts the value into the channel) and abandoned; the install returns at once
                        for p in ps {
                            let _ = obs.receive_progress(None, p, None, None).now_or_never();
                        }
                    } else if a["concurrent"] == true {
                        // an installer with several components reporting at once: all reports are in flight together
                        futures::future::join_all(ps.iter().map(|p| obs.receive_progress(None, *p, None, None))).await;
                    } else {
                        for p in ps {
                            obs.receive_progress(None, p, None, None).await;
                        }
                    }
                }
                for r in a["results"].as_array().unwrap() {
                    results.push(match r.as_str().unwrap() {
                        "installed" => AppInstallResult::Installed,
                        "deferred" => AppInstallResult::Deferred,
                        _ => AppInstallResult::Failed(TErr),
                    });
                }
            }
            wi.lock().unwrap().in_install = false;
            ((), results)
        }
        .boxed_local()
    }
    fn perform_reboot(&mut self) -> LocalBoxFuture<'_, Result<(), anyhow::Error>> {
        let mut w = self.w.lock().unwrap();
        let ok = w.pop(8).and_then(|v| v.as_bool()).unwrap_or(true);
        w.log(format!("AInstaller IReboot (IRebooted {})", g_bool(ok)), format!("installer reboot -> {}", ok));
        future::ready(if ok { Ok(()) } else { Err(anyhow::anyhow!("scripted reboot failure")) }).boxed_local()
    }
    fn try_create_install_plan<'a>(
        &'a self,
        request_params: &'a RequestParams,
        request_metadata: Option<&'a RequestMetadata>,
        response: &'a Response,
        _response_bytes: Vec<u8>,
        ecdsa_signature: Option<Vec<u8>>,
    ) -> LocalBoxFuture<'a, Result<TPlan, TErr>> {
        let mut w = self.w.lock().unwrap();
        let meta = request_metadata.map(|m| {
            let wire_ok = m.request_body == w.last_wire_body;
            let cup_ok = match &w.last_wire_cup {
                Some((kid, nonce)) => *kid == m.public_key_id && *nonce == format!("{}", m.nonce),
                None => false,
            };
            wire_ok && cup_ok
        });
        let r = match w.pop(6) {
            Some(Value::String(s)) => Ok(TPlan { id: String::from_utf8(hex::decode(s).unwrap()).unwrap() }),
            _ => Err(TErr),
        };
        w.log(
            format!(
                "AInstaller (ICreatePlan {} {} {} {}) (IPlan {})",
                g_params(request_params),
                g_opt(meta.map(g_bool)),
                g_doc(response),
                g_bool(ecdsa_signature.is_some()),
                g_opt(r.as_ref().ok().map(|p| g_str(&p.id)))
            ),
            format!("installer create_plan meta={:?} sig={} -> {:?}", meta, ecdsa_signature.is_some(), r.as_ref().ok().map(|p| p.id.clone())),
        );
        future::ready(r).boxed_local()
    }
}

// ---------------------------------------------------------------- metrics
pub struct Met {
    w: W,
}
impl MetricsReporter for Met {
    fn report_metrics(&mut self, m: Metrics) -> Result<(), anyhow::Error> {
        let g = match &m {
            Metrics::UpdateCheckResponseTime { response_time, successful } => {
                format!("MResponseTime {} {}", g_dur(*response_time), g_bool(*successful))
            }
            Metrics::UpdateCheckInterval { interval, clock, install_source } => format!(
                "MCheckInterval {} {} {}",
                g_dur(*interval),
                g_bool(*clock == ClockType::Monotonic),
                g_source(install_source)
            ),
            Metrics::SuccessfulUpdateDuration(d) => format!("MSuccessfulUpdateDuration {}", g_dur(*d)),
            Metrics::SuccessfulUpdateFromFirstSeen(d) => format!("MSuccessfulUpdateFromFirstSeen {}", g_dur(*d)),
            Metrics::FailedUpdateDuration(d) => format!("MFailedUpdateDuration {}", g_dur(*d)),
            Metrics::UpdateCheckFailureReason(r) => format!(
                "MFailureReason {}",
                match r {
                    UpdateCheckFailureReason::Omaha => 0,
                    UpdateCheckFailureReason::Network => 1,
                    UpdateCheckFailureReason::Proxy => 2,
                    UpdateCheckFailureReason::Configuration => 3,
                    UpdateCheckFailureReason::Internal => 4,
                }
            ),
            Metrics::RequestsPerCheck { count, successful } => format!("MRequestsPerCheck {} {}", g_z(*count as i128), g_bool(*successful)),
            Metrics::AttemptsToSuccessfulCheck(n) => format!("MAttemptsToSuccessfulCheck {}", g_z(*n as i128)),
            Metrics::AttemptsToSuccessfulInstall { count, successful } => {
                format!("MAttemptsToSuccessfulInstall {} {}", g_z(*count as i128), g_bool(*successful))
            }
            Metrics::WaitedForRebootDuration(d) => format!("MWaitedForReboot {}", g_dur(*d)),
            Metrics::FailedBootAttempts(n) => format!("MAttemptsToSuccessfulCheck {}", g_z(*n as i128 + (1i128 << 70))),
            Metrics::OmahaEventLost(e) => format!("MOmahaEventLost {}", g_omaha_event(e)),
        };
        let mut w = self.w.lock().unwrap();
        w.log(format!("AMetric ({})", g), format!("metric {:?}", m));
        Ok(())
    }
}

// ---------------------------------------------------------------- storage
pub struct Store {
    w: W,
}
#[derive(Debug)]
pub struct SErr;
impl std::fmt::Display for SErr {
    fn fmt(&self, f: &mut std::fmt::Formatter<'_>) -> std::fmt::Result {
        write!(f, "scripted storage failure")
    }
}
impl std::error::Error for SErr {}
impl Storage for Store {
    type Error = SErr;
    fn get_string<'a>(&'a self, key: &'a str) -> BoxFuture<'a, Option<String>> {
        let v = match self.w.lock().unwrap().get(key) {
            Some(SVal::Str(s)) => Some(s),
            _ => None,
        };
        future::ready(v).boxed()
    }
    fn get_int<'a>(&'a self, key: &'a str) -> BoxFuture<'a, Option<i64>> {
        let v = match self.w.lock().unwrap().get(key) {
            Some(SVal::Int(s)) => Some(s),
            _ => None,
        };
        future::ready(v).boxed()
    }
    fn get_bool<'a>(&'a self, key: &'a str) -> BoxFuture<'a, Option<bool>> {
        let v = match self.w.lock().unwrap().get(key) {
            Some(SVal::Bool(s)) => Some(s),
            _ => None,
        };
        future::ready(v).boxed()
    }
    fn set_string<'a>(&'a mut self, key: &'a str, value: &'a str) -> BoxFuture<'a, Result<(), SErr>> {
        let ok = self.w.lock().unwrap().write("set", key, Some(SVal::Str(value.to_string())));
        future::ready(if ok { Ok(()) } else { Err(SErr) }).boxed()
    }
    fn set_int<'a>(&'a mut self, key: &'a str, value: i64) -> BoxFuture<'a, Result<(), SErr>> {
        let ok = self.w.lock().unwrap().write("set", key, Some(SVal::Int(value)));
        future::ready(if ok { Ok(()) } else { Err(SErr) }).boxed()
    }
    fn set_bool<'a>(&'a mut self, key: &'a str, value: bool) -> BoxFuture<'a, Result<(), SErr>> {
        let ok = self.w.lock().unwrap().write("set", key, Some(SVal::Bool(value)));
        future::ready(if ok { Ok(()) } else { Err(SErr) }).boxed()
    }
    fn remove<'a>(&'a mut self, key: &'a str) -> BoxFuture<'a, Result<(), SErr>> {
        let ok = self.w.lock().unwrap().write("remove", key, None);
        future::ready(if ok { Ok(()) } else { Err(SErr) }).boxed()
    }
    fn commit(&mut self) -> BoxFuture<'_, Result<(), SErr>> {
        let ok = self.w.lock().unwrap().write("commit", "", None);
        future::ready(if ok { Ok(()) } else { Err(SErr) }).boxed()
    }
}

// ---------------------------------------------------------------- timers
pub struct Tim {
    w: W,
}
struct TimerFut {
    w: W,
    idx: usize,
}
impl Future for TimerFut {
    type Output = ();
    fn poll(self: Pin<&mut Self>, cx: &mut Context<'_>) -> Poll<()> {
        let mut w = self.w.lock().unwrap();
        let s = &mut w.timers[self.idx];
        if s.fired {
            s.done = true;
            Poll::Ready(())
        } else {
            s.waker = Some(cx.waker().clone());
            Poll::Pending
        }
    }
}
impl Drop for TimerFut {
    fn drop(&mut self) {
        if let Ok(mut w) = self.w.lock() {
            w.timers[self.idx].dropped = true;
        }
    }
}
impl Tim {
    fn arm(&self, g: String, j: String) -> BoxFuture<'static, ()> {
        let mut w = self.w.lock().unwrap();
        let reboot = w.reboot_wait && j == "timer for 1800s";
        w.log(format!("ATimer ({})", g), j);
        let auto = w.in_check;
        w.timers.push(TimerSlot { reboot, fired: auto, dropped: false, done: false, waker: None });
        let idx = w.timers.len() - 1;
        if !auto && !reboot { w.wait_timers.push(idx); }
        TimerFut { w: self.w.clone(), idx }.boxed()
    }
}
impl Timer for Tim {
    fn wait_until(&mut self, time: impl Into<PartialComplexTime>) -> BoxFuture<'static, ()> {
        let t = time.into();
        self.arm(format!("WUntil {}", g_pct(&t)), format!("timer until {}", g_pct(&t)))
    }
    fn wait_for(&mut self, duration: Duration) -> BoxFuture<'static, ()> {
        {
            let mut w = self.w.lock().unwrap();
            if w.in_check {
                w.backoffs_ms.push(duration.as_millis() as u64);
            }
        }
        self.arm(format!("WFor {}", g_dur(duration)), format!("timer for {:?}", duration))
    }
}

// ---------------------------------------------------------------- http
pub struct Http {
    w: W,
}
fn doc_json(d: &Value) -> Vec<u8> {
    let mut resp = serde_json::Map::new();
    resp.insert("protocol".into(), json!("3.0"));
    resp.insert("server".into(), json!("prod"));
    match &d["daystart"] {
        Value::Null => {}
        Value::Object(o) => {
            let mut ds = serde_json::Map::new();
            if let Some(n) = o.get("days").and_then(|x| x.as_u64()) {
                ds.insert("elapsed_days".into(), json!(n));
            }
            ds.insert("elapsed_seconds".into(), json!(42));
            resp.insert("daystart".into(), Value::Object(ds));
        }
        _ => {}
    }
    let mut apps = vec![];
    for a in d["apps"].as_array().unwrap() {
        let mut o = serde_json::Map::new();
        o.insert("appid".into(), json!(strv(&a["id"])));
        o.insert("status".into(), json!("ok"));
        for (k, f) in [("cohort", "id"), ("cohorthint", "hint"), ("cohortname", "name")] {
            if let Some(s) = ostrv(&a["cohort"][f]) {
                o.insert(k.into(), json!(s));
            }
        }
        if let Some(uc) = a.get("uc").filter(|x| !x.is_null()) {
            let mut u = serde_json::Map::new();
            u.insert("status".into(), json!(uc["status"].as_str().unwrap()));
            if uc["status"] == "ok" {
                u.insert("urls".into(), json!({"url":[{"codebase":"http://dl.example/"}]}));
            }
            if let Some(v) = ostrv(&uc["manifest"]) {
                u.insert(
                    "manifest".into(),
                    json!({"version": v, "actions":{"action":[{"event":"install","run":"x"}]},
                           "packages":{"package":[{"name":"pkg","required":true,"size":1u64<<33,"fp":"fp1"}]}}),
                );
            }
            o.insert("updatecheck".into(), Value::Object(u));
        }
        apps.push(Value::Object(o));
    }
    resp.insert("app".into(), Value::Array(apps));
    serde_json::to_vec(&json!({"response": Value::Object(resp)})).unwrap()
}
fn g_doc_script(d: &Value) -> String {
    let ds = match &d["daystart"] {
        Value::Object(o) => format!("(Some {})", g_opt(o.get("days").and_then(|x| x.as_u64()).map(g_n))),
        _ => "None".to_string(),
    };
    let apps: Vec<String> = d["apps"]
        .as_array()
        .unwrap()
        .iter()
        .map(|a| {
            let uc = match a.get("uc").filter(|x| !x.is_null()) {
                None => "None".to_string(),
                Some(u) => format!("(Some ({}, {}))", g_bool(u["status"] == "ok"), g_obytes(&u["manifest"])),
            };
            format!("{{| r_id := {}; r_cohort := {}; r_uc := {} |}}", g_bytes(&hexv(&a["id"])), g_cohort(&a["cohort"]), uc)
        })
        .collect();
    format!("{{| d_daystart := {}; d_apps := {} |}}", ds, g_list(&apps))
}

/// structured content of a request body, read back by parsing the JSON that was put on the wire
fn g_wsum(body: &str) -> String {
    let v: Value = serde_json::from_str(body).unwrap_or(Value::Null);
    let r = &v["request"];
    let os = |x: &Value| g_opt(x.as_str().map(g_str));
    let on = |x: &Value| g_opt(x.as_u64().map(g_n));
    let apps: Vec<String> = r["app"].as_array().cloned().unwrap_or_default().iter().map(|a| {
        // the *first* occurrence of a key is the protocol field (extras come last in the object);
        // serde_json::Value keeps the last duplicate, so duplicates of protocol keys are avoided by the generators
        let uc = match a.get("updatecheck") { Some(u) => format!("(Some ({}, {}))", g_bool(u["updatedisabled"] == true), g_bool(u["sameversionupdate"] == true)), None => "None".into() };
        let ping = match a.get("ping") { Some(p) => format!("(Some ({}, {}))", on(&p["ad"]), on(&p["rd"])), None => "None".into() };
        let evs: Vec<String> = a["event"].as_array().cloned().unwrap_or_default().iter().map(|e| format!(
            "({}, {}, {}, {}, {})", e["eventtype"].as_u64().unwrap_or(999), e["eventresult"].as_u64().unwrap_or(999),
            g_opt(e["errorcode"].as_i64().map(|x| g_n(x as u64))), os(&e["previousversion"]), os(&e["nextversion"]))).collect();
        format!("{{| wa_id := {}; wa_cohort := {{| c_id := {}; c_hint := {}; c_name := {} |}}; wa_uc := {}; wa_ping := {}; wa_events := {} |}}",
                g_str(a["appid"].as_str().unwrap_or("")), os(&a["cohort"]), os(&a["cohorthint"]), os(&a["cohortname"]), uc, ping, g_list(&evs))
    }).collect();
    format!("{{| ws_source := {}; ws_session := {}; ws_request := {}; ws_apps := {} |}}",
            if r["installsource"] == "ondemand" { "OnDemand" } else { "ScheduledTask" }, os(&r["sessionid"]), os(&r["requestid"]), g_list(&apps))
}

impl HttpRequest for Http {
    fn request(&mut self, req: hyper::Request<hyper::Body>) -> BoxFuture<'_, Result<hyper::Response<Vec<u8>>, http_request::Error>> {
        let w = self.w.clone();
        async move {
            let (parts, body) = req.into_parts();
            let body = hyper::body::to_bytes(body).await.unwrap().to_vec();
            let mut w = w.lock().unwrap();
            // canonicalise GUIDs (session first, then request) and the CUP nonce
            let mut text = String::from_utf8_lossy(&body).to_string();
            if let Ok(v) = serde_json::from_slice::<Value>(&body) {
                for f in ["sessionid", "requestid"] {
                    if let Some(g) = v["request"][f].as_str() {
                        let n = w.guids.len() as u64;
                        let idx = *w.guids.entry(g.to_string()).or_insert(n);
                        text = text.replace(g, &format!("{{00000000-0000-0000-0000-{:012}}}", idx));
                    }
                }
            }
            let mut uri = parts.uri.to_string();
            let mut cup = None;
            if let (Some(q), true) = (parts.uri.query(), w.cup_keys.is_some()) {
                // the decoration is the last parameter (the service URL may carry a cup2key of its own)
                for kv in q.rsplit('&').take(1) {
                    if let Some(val) = kv.strip_prefix("cup2key=") {
                        if let Some((kid, nonce)) = val.split_once(':') {
                            let n = w.nonces.len() as u64;
                            let idx = *w.nonces.entry(nonce.to_string()).or_insert(n);
                            if nonce.len() == 64 && nonce.bytes().all(|c| c.is_ascii_hexdigit() && !c.is_ascii_uppercase()) {
                                uri = uri.replace(nonce, &format!("{:064}", idx));
                            }
                            cup = Some((kid.parse::<u64>().unwrap_or(u64::MAX), nonce.to_string()));
                        }
                    }
                }
            }
            w.last_wire_body = body.clone();
            w.last_wire_cup = cup.clone();
            let gsum = g_wsum(&text);
            let hs: Vec<String> =
                parts.headers.iter().map(|(k, v)| format!("({}, {})", g_str(k.as_str()), g_bytes(v.as_bytes()))).collect();
            let o = w.pop(5);
            let cup_on = w.cup_keys.is_some();
            let go = match &o { Some(o) => g_http_outcome(o, cup_on), None => "(HErr TTransport)".to_string() };
            if w.reboot_wait && w.wait_timers.iter().any(|&k| !w.timers[k].fired) {
                w.violate("a ping goes out although a timer armed for its wait has not fired");
            }
            w.log(
                format!(
                    "AHttp {{| w_uri := {}; w_headers := {}; w_body := {}; w_sum := {} |}} {}",
                    g_str(&uri),
                    g_list(&hs),
                    g_str(&text),
                    gsum,
                    go
                ),
                format!("http {} {} body={} -> {}", parts.method, uri, text, o.as_ref().map(|x| x.to_string()).unwrap_or("default transport error".into())),
            );
            if parts.method != http::Method::POST {
                w.log("AReply 999999 Started".into(), "BAD METHOD".into());
            }
            let o = match o {
                Some(o) => o,
                None => return Err(http_request::mock_errors::make_transport_error()),
            };
            if let Some(k) = o.get("err").and_then(|x| x.as_str()) {
                return Err(match k {
                    "user" => http_request::mock_errors::make_user_error(),
                    "timeout" => http_request::Error::new_timeout(),
                    _ => http_request::mock_errors::make_transport_error(),
                });
            }
            let mut rbody = match o["body"].get("doc") {
                Some(d) => doc_json(d),
                None => hexv(&o["body"]["bad"]),
            };
            let mut rb = hyper::Response::builder().status(o["status"].as_u64().unwrap() as u16);
            for ra in o["retry_after"].as_array().unwrap() {
                rb = rb.header("X-Retry-After", http::HeaderValue::from_bytes(&hexv(ra)).unwrap());
            }
            if let (Some((kid, nonce)), Some(_)) = (&cup, &w.cup_keys) {
                let auth = o["auth"].as_str().unwrap_or("genuine");
                let sign = |key: &SigningKey, req: &[u8], resp: &[u8]| -> Vec<u8> {
                    let mut h = Sha256::new();
                    h.update(Sha256::digest(req));
                    h.update(Sha256::digest(resp));
                    h.update(format!("{}:{}", kid, nonce).as_bytes());
                    let d = h.finalize();
                    let sig: p256::ecdsa::Signature = key.sign(&d);
                    format!("{}:{}", hex::encode(sig.to_der().as_bytes()), hex::encode(Sha256::digest(req))).into_bytes()
                };
                let etag: Option<Vec<u8>> = match auth {
                    "genuine" => {
                        let e = sign(&key_for(*kid), &body, &rbody);
                        w.genuine.push((rbody.clone(), e.clone()));
                        Some(e)
                    }
                    "none" => None,
                    // an arbitrary header value where the signature should be (hostile or broken server / middlebox)
                    "rawetag" => Some(hexv(&o["etag"])),
                    "badsig" => {
                        let mut e = sign(&key_for(*kid), &body, &rbody);
                        e[10] = if e[10] == b'0' { b'1' } else { b'0' };
                        Some(e)
                    }
                    "otherkey" => Some(sign(&key_for(kid.wrapping_add(1000)), &body, &rbody)),
                    // signed with another key the client is provisioned with (a historical one), not the one the request named
                    "histkey" => {
                        let other = w.cup_keys.as_ref().and_then(|(_, h)| h.first().cloned()).unwrap_or(kid.wrapping_add(1000));
                        Some(sign(&key_for(other), &body, &rbody))
                    }
                    "bodytamper" => {
                        let e = sign(&key_for(*kid), &body, &rbody);
                        // change the response after signing, keeping it a well-formed document
                        let t = String::from_utf8_lossy(&rbody).replacen("\"prod\"", "\"evil\"", 1);
                        rbody = if t.as_bytes() == &rbody[..] { let mut x = rbody.clone(); x.push(b' '); x } else { t.into_bytes() };
                        Some(e)
                    }
                    _ => {
                        // replay of an earlier genuine response of this history (if any), else unsigned
                        match w.genuine.first().cloned() {
                            Some((b, e)) => {
                                rbody = b;
                                Some(e)
                            }
                            None => None,
                        }
                    }
                };
                if let Some(e) = etag {
                    if let Ok(hv) = http::HeaderValue::from_bytes(&e) { rb = rb.header("ETag", hv); }
                }
            }
            Ok(rb.body(rbody).unwrap())
        }
        .boxed()
    }
}

// ---------------------------------------------------------------- tracing sink (so that every Display/Debug on a log line runs)
pub struct Sink;
struct V(String);
impl tracing_core::field::Visit for V {
    fn record_debug(&mut self, field: &tracing_core::Field, value: &dyn std::fmt::Debug) {
        use std::fmt::Write;
        let _ = write!(self.0, "{}={:?} ", field.name(), value);
    }
}
impl tracing_core::Subscriber for Sink {
    fn enabled(&self, _m: &tracing_core::Metadata<'_>) -> bool {
        true
    }
    fn new_span(&self, _s: &tracing_core::span::Attributes<'_>) -> tracing_core::span::Id {
        tracing_core::span::Id::from_u64(1)
    }
    fn record(&self, _s: &tracing_core::span::Id, _v: &tracing_core::span::Record<'_>) {}
    fn record_follows_from(&self, _s: &tracing_core::span::Id, _f: &tracing_core::span::Id) {}
    fn event(&self, e: &tracing_core::Event<'_>) {
        let mut v = V(String::new());
        e.record(&mut v);
        std::hint::black_box(&v.0);
    }
    fn enter(&self, _s: &tracing_core::span::Id) {}
    fn exit(&self, _s: &tracing_core::span::Id) {}
}
pub fn install_sink() {
    let _ = tracing_core::dispatcher::set_global_default(tracing_core::Dispatch::new(Sink));
}

// ---------------------------------------------------------------- driver
struct Flag(AtomicBool);
impl Wake for Flag {
    fn wake(self: Arc<Self>) {
        self.0.store(true, Ordering::SeqCst);
    }
    fn wake_by_ref(self: &Arc<Self>) {
        self.0.store(true, Ordering::SeqCst);
    }
}

fn sval_of(v: &Value) -> SVal {
    if let Some(s) = v.get("int") {
        SVal::Int(s.as_str().unwrap().parse().unwrap())
    } else if let Some(s) = v.get("str") {
        SVal::Str(strv(s))
    } else {
        SVal::Bool(v["bool"].as_bool().unwrap())
    }
}
/// a storage view in the JSON form of a case's "storage" field
pub fn storage_json(m: &[(String, SVal)]) -> Value {
    Value::Array(m.iter().map(|(k, v)| serde_json::json!([hex::encode(k.as_bytes()), match v {
        SVal::Int(i) => serde_json::json!({"int": i.to_string()}),
        SVal::Str(s) => serde_json::json!({"str": hex::encode(s.as_bytes())}),
        SVal::Bool(b) => serde_json::json!({"bool": b}),
    }])).collect())
}
fn arr(v: &Value, k: &str) -> Vec<Value> {
    v.get(k).and_then(|x| x.as_array()).cloned().unwrap_or_default()
}

pub struct RunResult {
    pub trace: Vec<String>,
    pub jtrace: Vec<String>,
    pub backoffs_ms: Vec<u64>,
    pub committed: Vec<(String, SVal)>,
    pub snaps: Vec<Vec<(String, SVal)>>,
    /// a violation only the harness can see (it knows which timers it fired and which requests it sent)
    pub violation: Option<String>,
    pub hang: bool,
    pub panic: Option<String>,
}

pub fn keys_of(cup: &Value) -> Option<PublicKeys> {
    if cup.is_null() {
        return None;
    }
    let mk = |id: u64| PublicKeyAndId { id, key: p256::ecdsa::VerifyingKey::from(&key_for(id)) };
    Some(PublicKeys {
        latest: mk(cup["latest"].as_u64().unwrap()),
        historical: arr(cup, "hist").iter().map(|x| mk(x.as_u64().unwrap())).collect(),
    })
}

/// Runs the real state machine on the scripted environment `c`.  When the script makes storage operations fail, the
/// run is repeated with a storage that works and the requests sent and events announced are compared (C14: "identical
/// to those of a run in which storage works"); a difference is a violation only the harness can see.
pub fn run_sm(c: &Value) -> RunResult {
    let mut r = run_sm_once(c);
    if !arr(c, "faults").is_empty() && r.violation.is_none() && !r.hang && r.panic.is_none() {
        let mut c2 = c.clone();
        c2["faults"] = json!([]);
        let r2 = run_sm_once(&c2);
        if !r2.hang && r2.panic.is_none() {
            let low = |t: &Vec<String>| -> Vec<String> { t.iter().filter(|a| a.starts_with("AHttp ") || a.starts_with("AEvent ")).cloned().collect() };
            let (a, b) = (low(&r.trace), low(&r2.trace));
            if a != b {
                let i = a.iter().zip(b.iter()).position(|(x, y)| x != y).unwrap_or(a.len().min(b.len()));
                let cut = |s: Option<&String>| s.map(|x| x.chars().take(160).collect::<String>()).unwrap_or_else(|| "<nothing>".to_string());
                r.violation = Some(format!("storage failures changed the requests sent or the events announced (action #{} of {} / {}): with failures {} ; with a working storage {}",
                                           i, a.len(), b.len(), cut(a.get(i)), cut(b.get(i))));
            }
        }
    }
    // C11 only: the same history once more, every scripted request preceded, on the same handle, by a request that is
    // abandoned after its first poll (its message stays in the handle's slot of the control channel).  The request proper
    // must still get a truthful reply: only that is looked at, the trace of this run is compared with nothing.
    if ABANDON_PROBE.load(Ordering::SeqCst) && !arr(c, "inject").is_empty() && r.violation.is_none() && !r.hang && r.panic.is_none() {
        let mut c3 = c.clone();
        c3["abandon"] = json!(true);
        let r3 = run_sm_once(&c3);
        if let Some(v) = r3.violation {
            if v.contains(ABANDON_MSG) { r.violation = Some(v); }
        }
    }
    r
}
pub static ABANDON_PROBE: AtomicBool = AtomicBool::new(false);
const ABANDON_MSG: &str = "on a handle whose earlier request was abandoned";
fn run_sm_once(c: &Value) -> RunResult {
    install_sink();
    let storage: Vec<(String, SVal)> = arr(c, "storage").iter().map(|kv| (strv(&kv[0]), sval_of(&kv[1]))).collect();
    let clock: Vec<(i128, i128)> = arr(c, "clock")
        .iter()
        .map(|p| (p[0].as_str().unwrap().parse().unwrap(), p[1].as_str().unwrap().parse().unwrap()))
        .collect();
    let last_clock = c.get("clock0").map(|p| (p[0].as_str().unwrap().parse().unwrap(), p[1].as_str().unwrap().parse().unwrap())).unwrap_or((0, 0));
    let cupv = c.get("cup").cloned().unwrap_or(Value::Null);
    let world = Arc::new(Mutex::new(World {
        trace: vec![],
        jtrace: vec![],
        clock,
        clock_pos: 0,
        last_clock,
        pend: storage.clone(),
        comm: storage,
        snaps: vec![],
        opn: 0,
        faults: arr(c, "faults").iter().map(|x| x.as_u64().unwrap()).collect(),
        q_next_time: arr(c, "next_time"),
        q_allowed: arr(c, "allowed"),
        q_can_start: arr(c, "can_start"),
        q_reboot_needed: arr(c, "reboot_needed"),
        q_reboot_allowed: arr(c, "reboot_allowed"),
        q_http: arr(c, "http"),
        q_plan: arr(c, "plan"),
        q_perform: arr(c, "perform"),
        q_reboot: arr(c, "reboot"),
        pos: [0; 9],
        timers: vec![],
        in_check: false,
        guids: HashMap::new(),
        nonces: HashMap::new(),
        last_wire_body: vec![],
        last_wire_cup: None,
        genuine: vec![],
        backoffs_ms: vec![],
        violation: None,
        reboot_wait: false,
        reboot_asks: 0,
        reask_causes: 0,
        wait_timers: vec![],
        pending_requests: 0,
        in_install: false,
        cup_keys: if cupv.is_null() { None } else { Some((cupv["latest"].as_u64().unwrap(), arr(&cupv, "hist").iter().filter_map(|x| x.as_u64()).collect())) },
        panicked: None,
    }));
    let w2 = world.clone();
    let c2 = c.clone();
    let res = std::panic::catch_unwind(std::panic::AssertUnwindSafe(move || drive(&c2, w2)));
    let mut w = world.lock().unwrap_or_else(|e| e.into_inner());
    let (hang, panic) = match res {
        Ok(h) => (h, None),
        Err(e) => {
            let msg = if let Some(s) = e.downcast_ref::<String>() {
                s.clone()
            } else if let Some(s) = e.downcast_ref::<&str>() {
                s.to_string()
            } else {
                "panic".to_string()
            };
            let msg = format!("{} at {}", msg, crate::util::LAST_PANIC_LOC.lock().unwrap());
            (false, Some(msg))
        }
    };
    RunResult {
        trace: std::mem::take(&mut w.trace),
        jtrace: std::mem::take(&mut w.jtrace),
        backoffs_ms: std::mem::take(&mut w.backoffs_ms),
        committed: w.comm.clone(),
        snaps: std::mem::take(&mut w.snaps),
        violation: w.violation.clone(),
        hang,
        panic,
    }
}

fn j_short(ev: &StateMachineEvent) -> &'static str {
    match ev {
        StateMachineEvent::StateChange(_) => "state change",
        StateMachineEvent::ScheduleChange(_) => "schedule change",
        StateMachineEvent::ProtocolStateChange(_) => "protocol state change",
        StateMachineEvent::UpdateCheckResult(_) => "update check result",
        StateMachineEvent::InstallProgressChange(_) => "install progress",
        StateMachineEvent::OmahaServerResponse(_) => "server response",
        StateMachineEvent::InstallerError(_) => "installer error",
    }
}
fn drive(c: &Value, world: W) -> bool {
    let cfg = {
        let mut cfg = config_of(&c["config"]);
        cfg.omaha_public_keys = keys_of(&c.get("cup").cloned().unwrap_or(Value::Null));
        cfg
    };
    let apps: Vec<App> = arr(c, "apps").iter().map(app_of).collect();
    let cup_handler = cfg.omaha_public_keys.as_ref().map(StandardCupv2Handler::new);
    let clock = Clock(world.clone());
    // storage and app set are shared with the embedder by construction: the harness, as an observer, looks at them
    // whenever it takes an event
    let store_rc = std::rc::Rc::new(futures::lock::Mutex::new(Store { w: world.clone() }));
    let apps_rc = std::rc::Rc::new(futures::lock::Mutex::new(VecAppSet::new(apps)));
    let builder = StateMachineBuilder::new(
        Pol { w: world.clone(), ts: clock },
        Http { w: world.clone() },
        Inst { w: world.clone() },
        Tim { w: world.clone() },
        Met { w: world.clone() },
        store_rc.clone(),
        cfg,
        apps_rc.clone(),
        cup_handler,
    );
    let flag = Arc::new(Flag(AtomicBool::new(false)));
    let waker = Waker::from(flag.clone());
    let mut cx = Context::from_waker(&waker);
    let oneshot = c["entry"] == "oneshot";
    let (handle, mut stream): (Option<_>, Pin<Box<dyn Stream<Item = StateMachineEvent>>>) = if oneshot {
        let s = futures::executor::block_on(builder.oneshot_check());
        (None, Box::pin(s))
    } else {
        let (h, s) = futures::executor::block_on(builder.start());
        (Some(h), Box::pin(s))
    };
    let stimuli = arr(c, "stimuli");
    let mut si = 0usize;
    let mut inject: std::collections::VecDeque<(u64, String)> =
        arr(c, "inject").iter().map(|x| (x[0].as_u64().unwrap(), x[1].as_str().unwrap().to_string())).collect();
    let mut events_seen = 0u64;
    let mut handle = handle;
    type CtlFut = Pin<Box<dyn Future<Output = Result<StartUpdateCheckResponse, omaha_client::state_machine::StateMachineGone>>>>;
    let mut controls: Vec<(u64, Option<CtlFut>)> = vec![];
    let mut next_ctl = 0u64;
    let mut polls = 0u64;
    let abandon = c["abandon"].as_bool().unwrap_or(false);
    let send = |handle: &Option<omaha_client::state_machine::ControlHandle>, src: &str, next_ctl: &mut u64,
                controls: &mut Vec<(u64, Option<CtlFut>)>, cx: &mut Context<'_>, world: &W| {
        if let Some(h) = handle {
            let mut h = h.clone();
            let source = if src == "ondemand" { InstallSource::OnDemand } else { InstallSource::ScheduledTask };
            let opts = CheckOptions { source };
            let id = *next_ctl;
            *next_ctl += 1;
            {
                let mut w = world.lock().unwrap();
                w.pending_requests += 1;
                if w.reboot_wait && src == "ondemand" { w.reask_causes += 1; }
                w.log(format!("ARequest {} {}", id, g_source(&source)), format!("request {} {:?}", id, source));
            }
            if abandon {
                let mut f0 = Box::pin(h.start_update_check(opts.clone()));
                let _ = f0.as_mut().poll(cx);
                drop(f0);
            }
            let mut fut: CtlFut = Box::pin(async move { h.start_update_check(opts).await });
            if let Poll::Ready(r) = fut.as_mut().poll(cx) {
                { let mut w = world.lock().unwrap(); w.pending_requests -= 1; w.jtrace.push(format!("reply {} immediate {:?}", id, r.is_ok()));
                  if abandon && r.is_err() {
                      w.violate(&format!("a start-update-check request {} fails with a gone error although the machine is still running", ABANDON_MSG));
                  } }
                controls.push((id, None));
            } else {
                controls.push((id, Some(fut)));
            }
        }
    };
    loop {
        polls += 1;
        if polls > 200_000 {
            return true;
        }
        let r = stream.as_mut().poll_next(&mut cx);
        // replies first (program order: a reply precedes the yield that ended this poll)
        for (id, f) in controls.iter_mut() {
            if let Some(fut) = f {
                if let Poll::Ready(res) = fut.as_mut().poll(&mut cx) {
                    let mut w = world.lock().unwrap();
                    w.pending_requests -= 1;
                    if res.is_err() && !matches!(r, Poll::Ready(None)) {
                        if abandon { w.violate(&format!("a start-update-check request {} fails with a gone error although the machine is still running", ABANDON_MSG)); }
                        else { w.violate("a start-update-check request fails with a gone error although the machine is still running"); }
                    }
                    match res {
                        Ok(StartUpdateCheckResponse::Started) => w.log(format!("AReply {} Started", id), format!("reply {} Started", id)),
                        Ok(StartUpdateCheckResponse::AlreadyRunning) => w.log(format!("AReply {} AlreadyRunning", id), format!("reply {} AlreadyRunning", id)),
                        Ok(StartUpdateCheckResponse::Throttled) => w.log(format!("AReply {} Throttled", id), format!("reply {} Throttled", id)),
                        Err(_) => w.jtrace.push(format!("reply {} Gone", id)),
                    }
                    *f = None;
                }
            }
        }
        match r {
            Poll::Ready(Some(ev)) => {
                let (g, j) = g_event_sm(&ev);
                let is_result = matches!(ev, StateMachineEvent::UpdateCheckResult(_));
                let (store_free, apps_free) = (store_rc.try_lock().is_some(), apps_rc.try_lock().is_some());
                {
                    let mut w = world.lock().unwrap();
                    if !store_free || !apps_free {
                        w.violate(&format!("the shared {} is locked while an event is handed over ({}): an observer that uses it between polls would block the flow for ever",
                                           if !store_free { "storage" } else { "app set" }, j_short(&ev)));
                    }
                    match &ev {
                        StateMachineEvent::StateChange(State::CheckingForUpdates(_)) => w.in_check = true,
                        StateMachineEvent::UpdateCheckResult(_) => w.in_check = false,
                        StateMachineEvent::StateChange(State::WaitingForReboot) => { w.reboot_wait = true; w.reboot_asks = 0; w.reask_causes = 0; }
                        StateMachineEvent::StateChange(State::Idle) => w.reboot_wait = false,
                        _ => {}
                    }
                    w.log(format!("AEvent ({})", g), j);
                }
                // a scripted request that is due is sent right after this event has been taken
                if let Some((k0, _)) = inject.front() {
                    if *k0 <= events_seen && !is_result {
                        let (_, src) = inject.pop_front().unwrap();
                        send(&handle, &src, &mut next_ctl, &mut controls, &mut cx, &world);
                    }
                }
                events_seen += 1;
            }
            Poll::Ready(None) => break,
            Poll::Pending => {
                if flag.0.swap(false, Ordering::SeqCst) {
                    continue;
                }
                // blocked: nothing the machine awaits is outstanding except timers and requests
                {
                    let mut w = world.lock().unwrap();
                    if w.pending_requests > 0 {
                        w.violate("a start-update-check request stays unanswered although the machine is blocked in a wait (a request must wake it without any timer firing)");
                    }
                    if w.in_install {
                        w.violate("the flow is blocked inside an install although the installer awaits nothing but the delivery of its progress reports");
                    }
                }
                // apply the next stimulus
                if si >= stimuli.len() {
                    break;
                }
                let s = &stimuli[si];
                si += 1;
                if let Some(i) = s.get("fire").and_then(|x| x.as_u64()) {
                    let mut w = world.lock().unwrap();
                    let pending: Vec<usize> =
                        w.timers.iter().enumerate().filter(|(_, t)| !t.fired && !t.dropped).map(|(k, _)| k).collect();
                    if let Some(&k) = pending.get(i as usize) {
                        if w.timers[k].reboot { w.reask_causes += 1; }
                        w.timers[k].fired = true;
                        if let Some(wk) = w.timers[k].waker.take() {
                            wk.wake();
                        }
                    }
                } else if let Some(src) = s.get("control").and_then(|x| x.as_str()) {
                    send(&handle, src, &mut next_ctl, &mut controls, &mut cx, &world);
                } else if s.get("drop").is_some() {
                    // drop every control handle (only when no request is outstanding)
                    if controls.iter().all(|(_, f)| f.is_none()) {
                        handle = None;
                        world.lock().unwrap().jtrace.push("handles dropped".into());
                    }
                }
                flag.0.store(false, Ordering::SeqCst);
            }
        }
    }
    drop(stream);
    // the machine is gone: every outstanding request, and a request made now, must fail at once instead of hanging
    let mut hang = false;
    for (id, f) in controls.iter_mut() {
        if let Some(fut) = f {
            match fut.as_mut().poll(&mut cx) {
                Poll::Ready(Err(_)) => world.lock().unwrap().jtrace.push(format!("reply {} Gone", id)),
                Poll::Ready(Ok(r)) => world.lock().unwrap().jtrace.push(format!("reply {} late {:?}", id, r)),
                Poll::Pending => { world.lock().unwrap().jtrace.push(format!("reply {} HANGS after the machine is gone", id)); hang = true; }
            }
        }
    }
    if let Some(h) = &handle {
        let mut h = h.clone();
        let mut fut: CtlFut = Box::pin(async move { h.start_update_check(CheckOptions::default()).await });
        let mut done = false;
        for _ in 0..3 {
            if let Poll::Ready(r) = fut.as_mut().poll(&mut cx) {
                done = true;
                if r.is_ok() { hang = true; world.lock().unwrap().jtrace.push("request after the machine is gone was answered".into()); }
                break;
            }
        }
        if !done { hang = true; world.lock().unwrap().jtrace.push("request after the machine is gone HANGS".into()); }
    }
    hang
}

// ---------------------------------------------------------------- Gallina env from the script
fn g_pct_script(v: &Value) -> String {
    let w = v["w"].as_str().map(|s| s.parse::<i128>().unwrap()).unwrap_or(0);
    let m = v["m"].as_str().map(|s| s.parse::<i128>().unwrap()).unwrap_or(0);
    match v["shape"].as_str().unwrap() {
        "wall" => format!("(PWall {})", g_z(w)),
        "mono" => format!("(PMono {})", g_z(m)),
        _ => format!("(PComplex {{| wall := {}; mono := {} |}})", g_z(w), g_z(m)),
    }
}
fn g_sval(v: &SVal) -> String {
    match v {
        SVal::Int(i) => format!("VInt {}", g_z(*i as i128)),
        SVal::Str(s) => format!("VStr {}", g_str(s)),
        SVal::Bool(b) => format!("VBool {}", g_bool(*b)),
    }
}
pub fn g_smap(m: &[(String, SVal)]) -> String {
    g_list(&m.iter().map(|(k, v)| format!("({}, {})", g_str(k), g_sval(v))).collect::<Vec<_>>())
}

pub fn g_http_outcome(o: &Value, cup_on: bool) -> String {
    if let Some(k) = o.get("err").and_then(|x| x.as_str()) {
        format!("(HErr {})", match k { "user" => "TUser", "timeout" => "TTimeout", _ => "TTransport" })
    } else {
        let ra = arr(o, "retry_after");
        let body = match o["body"].get("doc") { Some(d) => format!("(BDoc {})", g_doc_script(d)), None => "BBad".to_string() };
        let auth = o["auth"].as_str().unwrap_or("genuine");
        format!(
            "(HResp {} {} {} {})",
            o["status"].as_u64().unwrap(),
            g_opt(ra.first().map(|x| g_bytes(&hexv(x)))),
            g_bool(!cup_on || auth == "genuine"),
            body
        )
    }
}
pub fn g_perform(a: &Value) -> String {
    format!(
        "{{| pa_progress := {}; pa_results := {} |}}",
        g_list(&arr(a, "progress").iter().map(|p| g_n(p.as_u64().unwrap())).collect::<Vec<_>>()),
        g_list(&arr(a, "results").iter().map(|r| match r.as_str().unwrap() { "installed" => "RInstalled", "deferred" => "RDeferred", _ => "RFailed" }.to_string()).collect::<Vec<_>>())
    )
}

pub fn g_env(c: &Value) -> String {
    let storage: Vec<(String, SVal)> = arr(c, "storage").iter().map(|kv| (strv(&kv[0]), sval_of(&kv[1]))).collect();
    let clock: Vec<String> = arr(c, "clock")
        .iter()
        .map(|p| format!("({}, {})", g_z(p[0].as_str().unwrap().parse().unwrap()), g_z(p[1].as_str().unwrap().parse().unwrap())))
        .collect();
    let c0 = c.get("clock0").map(|p| format!("({}, {})", g_z(p[0].as_str().unwrap().parse().unwrap()), g_z(p[1].as_str().unwrap().parse().unwrap()))).unwrap_or("(0%Z, 0%Z)".into());
    let nt: Vec<String> = arr(c, "next_time")
        .iter()
        .map(|v| format!("{{| t_time := {}; t_min := {} |}}", g_pct_script(&v["time"]), g_opt(v["min"].as_str().map(|s| g_z(s.parse().unwrap())))))
        .collect();
    let al: Vec<String> = arr(c, "allowed")
        .iter()
        .map(|v| match v["d"].as_str().unwrap() {
            "ok" => format!("DOk {}", g_params(&params_of(&v["params"]))),
            "okdeferred" => format!("DOkDeferred {}", g_params(&params_of(&v["params"]))),
            "toosoon" => "DTooSoon".into(),
            "throttled" => "DThrottled".into(),
            _ => "DDenied".into(),
        })
        .collect();
    let cs: Vec<String> = arr(c, "can_start")
        .iter()
        .map(|v| match v.as_str().unwrap() { "deferred" => "UDeferred", "denied" => "UDenied", _ => "UOk" }.to_string())
        .collect();
    let bl = |k: &str| g_list(&arr(c, k).iter().map(|v| g_bool(v.as_bool().unwrap())).collect::<Vec<_>>());
    let cup_on = !c.get("cup").map(|x| x.is_null()).unwrap_or(true);
    let ht: Vec<String> = arr(c, "http").iter().map(|o| { let g = g_http_outcome(o, cup_on); g[1..g.len() - 1].to_string() }).collect();
    let pl: Vec<String> = arr(c, "plan").iter().map(|v| match v.as_str() { Some(s) => format!("Some {}", g_bytes(&hex::decode(s).unwrap())), None => "None".into() }).collect();
    let pf: Vec<String> = arr(c, "perform").iter().map(g_perform).collect();
    let st: Vec<String> = arr(c, "stimuli")
        .iter()
        .map(|s| {
            if let Some(i) = s.get("fire").and_then(|x| x.as_u64()) {
                format!("Fire {}%nat", i)
            } else {
                if s.get("drop").is_some() { "DropHandles".to_string() } else { format!("Control {}", if s["control"] == "ondemand" { "OnDemand" } else { "ScheduledTask" }) }
            }
        })
        .collect();
    format!(
        "{{| e_clock := {}; e_last_clock := {}; e_store := {{| pend := {}; comm := {}; opn := 0%N |}}; e_faults := {};\n \
         q_next_time := {}; q_allowed := {}; q_can_start := {}; q_reboot_needed := {}; q_reboot_allowed := {};\n \
         q_http := {}; q_plan := {}; q_perform := {}; q_reboot := {}; q_backoff := [];\n \
         e_stim := {}; e_ctl := 0%N; e_cs := ctl0 {}; e_draws := 0%N; e_guids := []; e_nonces := 0%N; e_trace := [] |}}",
        g_list(&clock), c0, g_smap(&storage), g_smap(&storage),
        g_list(&arr(c, "faults").iter().map(|x| format!("{}%N", x.as_u64().unwrap())).collect::<Vec<_>>()),
        g_list(&nt), g_list(&al), g_list(&cs), bl("reboot_needed"), bl("reboot_allowed"),
        g_list(&ht), g_list(&pl), g_list(&pf), bl("reboot"), g_list(&st),
        g_list(&arr(c, "inject").iter().map(|x| format!("({}%N, {})", x[0].as_u64().unwrap(), if x[1] == "ondemand" { "OnDemand" } else { "ScheduledTask" })).collect::<Vec<_>>())
    )
}

/// url oracle: components as http::Uri sees them
pub fn g_url(service_url: &str) -> String {
    match service_url.parse::<http::Uri>() {
        Ok(u) => {
            let prefix = match u.scheme_str() {
                Some(s) => format!("{}://{}", s, u.authority().map(|a| a.as_str()).unwrap_or("")),
                None => u.authority().map(|a| a.as_str().to_string()).unwrap_or_default(),
            };
            format!(
                "{{| u_valid := true; u_prefix := {}; u_path := {}; u_query := {} |}}",
                g_str(&prefix), g_str(if u.path_and_query().is_some() { u.path() } else { "" }), g_opt(u.query().map(g_str))
            )
        }
        _ => "{| u_valid := false; u_prefix := []; u_path := []; u_query := None |}".to_string(),
    }
}

/// The Gallina case: `KSm entry cfg url cup apps env impl_trace hang`
pub fn g_case(c: &Value, r: &RunResult) -> String {
    let apps: Vec<String> = arr(c, "apps").iter().map(|a| g_app(a, &app_of(a))).collect();
    let cupv = c.get("cup").cloned().unwrap_or(Value::Null);
    let url = strv(&c["config"]["url"]);
    let wire = url.parse::<http::Uri>().map(|u| u.to_string()).unwrap_or_default();
    format!(
        "KSm {} {} {} {} {} ({})\n {} {}",
        if c["entry"] == "oneshot" { "EOneshot" } else { "EStart" },
        g_config(&c["config"], &wire),
        g_url(&url),
        g_opt(cupv.get("latest").and_then(|x| x.as_u64()).map(g_n)),
        g_list(&apps),
        g_env(c),
        g_list(&r.trace),
        g_bool(r.hang || r.panic.is_some() || r.violation.is_some())
    )
}
