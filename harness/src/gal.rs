//! Gallina printers for the shared protocol types (Model/Proto.v) and the
//! JSON <-> omaha_client conversions for harness inputs.
use crate::util::*;
use omaha_client::common::{App, UserCounting};
use omaha_client::configuration::{Config, Updater};
use omaha_client::protocol::request::{Event, EventErrorCode, EventResult, EventType, InstallSource, OS};
use omaha_client::protocol::Cohort;
use omaha_client::request_builder::RequestParams;
use omaha_client::version::Version;
use serde_json::{json, Value};

pub fn hexv(v: &Value) -> Vec<u8> {
    hex::decode(v.as_str().unwrap()).unwrap()
}
pub fn strv(v: &Value) -> String {
    String::from_utf8(hexv(v)).unwrap()
}
pub fn ostrv(v: &Value) -> Option<String> {
    if v.is_null() { None } else { Some(strv(v)) }
}
pub fn hx(s: &str) -> Value {
    json!(hex::encode(s.as_bytes()))
}
pub fn ohx(s: &Option<String>) -> Value {
    match s { Some(s) => hx(s), None => Value::Null }
}
pub fn g_obytes(v: &Value) -> String {
    if v.is_null() { "None".into() } else { format!("(Some {})", g_bytes(&hexv(v))) }
}
pub fn ver_arr(v: &Value) -> [u32; 4] {
    let a = v.as_array().unwrap();
    [a[0].as_u64().unwrap() as u32, a[1].as_u64().unwrap() as u32, a[2].as_u64().unwrap() as u32, a[3].as_u64().unwrap() as u32]
}
pub fn g_ver(a: [u32; 4]) -> String {
    format!("({}, {}, {}, {})", a[0], a[1], a[2], a[3])
}

// cohort: {"id":hex|null,"hint":..,"name":..}
pub fn cohort_of(v: &Value) -> Cohort {
    Cohort { id: ostrv(&v["id"]), hint: ostrv(&v["hint"]), name: ostrv(&v["name"]) }
}
pub fn g_cohort(v: &Value) -> String {
    format!("{{| c_id := {}; c_hint := {}; c_name := {} |}}", g_obytes(&v["id"]), g_obytes(&v["hint"]), g_obytes(&v["name"]))
}
pub fn cohort_json(c: &Cohort) -> Value {
    json!({"id": ohx(&c.id), "hint": ohx(&c.hint), "name": ohx(&c.name)})
}

// app: {"id":hex,"ver":[4],"fp":hex|null,"cohort":{..},"uc":n|null,"extra":[[k,v],..]}
pub fn app_of(v: &Value) -> App {
    let extras: std::collections::HashMap<String, String> =
        v["extra"].as_array().unwrap().iter().map(|kv| (strv(&kv[0]), strv(&kv[1]))).collect();
    let mut a = App::builder().id(strv(&v["id"])).version(Version::from(ver_arr(&v["ver"]))).build();
    a.fingerprint = ostrv(&v["fp"]);
    a.cohort = cohort_of(&v["cohort"]);
    a.user_counting = UserCounting::ClientRegulatedByDate(v["uc"].as_u64().map(|x| x as u32));
    a.extra_fields = extras;
    a
}
/// Gallina app; `extra_order` = the iteration order of the real HashMap
pub fn g_app(v: &Value, real: &App) -> String {
    let extras: Vec<String> = real
        .extra_fields
        .iter()
        .map(|(k, val)| format!("({}, {})", g_str(k), g_str(val)))
        .collect();
    format!(
        "{{| a_id := {}; a_ver := {}; a_fp := {}; a_cohort := {}; a_uc := {}; a_extra := {} |}}",
        g_bytes(&hexv(&v["id"])),
        g_ver(ver_arr(&v["ver"])),
        g_obytes(&v["fp"]),
        g_cohort(&v["cohort"]),
        g_opt(v["uc"].as_u64().map(g_n)),
        g_list(&extras)
    )
}
pub fn g_app_real(a: &App) -> String {
    let extras: Vec<String> = a.extra_fields.iter().map(|(k, val)| format!("({}, {})", g_str(k), g_str(val))).collect();
    let UserCounting::ClientRegulatedByDate(uc) = a.user_counting.clone();
    let c = cohort_json(&a.cohort);
    format!(
        "{{| a_id := {}; a_ver := {}; a_fp := {}; a_cohort := {}; a_uc := {}; a_extra := {} |}}",
        g_str(&a.id),
        g_ver(ver_of(&a.version)),
        g_opt(a.fingerprint.as_ref().map(|s| g_str(s))),
        g_cohort(&c),
        g_opt(uc.map(g_n)),
        g_list(&extras)
    )
}
pub fn ver_of(v: &Version) -> [u32; 4] {
    unsafe { std::mem::transmute::<Version, [u32; 4]>(*v) }
}

// params: {"source":"ondemand"|"scheduled","proxies":b,"disable":b,"samever":b}
pub fn params_of(v: &Value) -> RequestParams {
    RequestParams {
        source: if v["source"] == "ondemand" { InstallSource::OnDemand } else { InstallSource::ScheduledTask },
        use_configured_proxies: v["proxies"].as_bool().unwrap(),
        disable_updates: v["disable"].as_bool().unwrap(),
        offer_update_if_same_version: v["samever"].as_bool().unwrap(),
    }
}
pub fn g_source(s: &InstallSource) -> &'static str {
    match s { InstallSource::OnDemand => "OnDemand", InstallSource::ScheduledTask => "ScheduledTask" }
}
pub fn g_params(p: &RequestParams) -> String {
    format!(
        "{{| p_source := {}; p_proxies := {}; p_disable := {}; p_samever := {} |}}",
        g_source(&p.source), g_bool(p.use_configured_proxies), g_bool(p.disable_updates), g_bool(p.offer_update_if_same_version)
    )
}
pub fn params_json(p: &RequestParams) -> Value {
    json!({"source": if p.source == InstallSource::OnDemand {"ondemand"} else {"scheduled"},
           "proxies": p.use_configured_proxies, "disable": p.disable_updates, "samever": p.offer_update_if_same_version})
}

// event: {"type":n,"result":n,"err":n|null,"prev":hex|null,"next":hex|null,"dl":n|null}
pub const ETYPES: [(u8, &str); 7] = [(0, "ETUnknown"), (1, "ETDownloadComplete"), (2, "ETInstallComplete"), (3, "ETUpdateComplete"),
    (13, "ETUpdateDownloadStarted"), (14, "ETUpdateDownloadFinished"), (54, "ETRebootedAfterUpdate")];
pub const ERESULTS: [(u8, &str); 7] = [(0, "ERError"), (1, "ERSuccess"), (2, "ERSuccessAndRestartRequired"), (3, "ERSuccessAndAppRestartRequired"),
    (4, "ERCancelled"), (8, "ERErrorInSystemInstaller"), (9, "ERUpdateDeferred")];
pub const EERRS: [(i32, &str); 4] = [(0, "EEParseResponse"), (1, "EEConstructInstallPlan"), (2, "EEInstallation"), (3, "EEDeniedByPolicy")];
pub fn etype_of(n: u64) -> EventType {
    match n { 1 => EventType::DownloadComplete, 2 => EventType::InstallComplete, 3 => EventType::UpdateComplete,
              13 => EventType::UpdateDownloadStarted, 14 => EventType::UpdateDownloadFinished, 54 => EventType::RebootedAfterUpdate, _ => EventType::Unknown }
}
pub fn etype_idx(t: &EventType) -> usize {
    match t { EventType::Unknown => 0, EventType::DownloadComplete => 1, EventType::InstallComplete => 2, EventType::UpdateComplete => 3,
              EventType::UpdateDownloadStarted => 4, EventType::UpdateDownloadFinished => 5, EventType::RebootedAfterUpdate => 6 }
}
pub fn eresult_of(n: u64) -> EventResult {
    match n { 1 => EventResult::Success, 2 => EventResult::SuccessAndRestartRequired, 3 => EventResult::SuccessAndAppRestartRequired,
              4 => EventResult::Cancelled, 8 => EventResult::ErrorInSystemInstaller, 9 => EventResult::UpdateDeferred, _ => EventResult::Error }
}
pub fn eresult_idx(t: &EventResult) -> usize {
    match t { EventResult::Error => 0, EventResult::Success => 1, EventResult::SuccessAndRestartRequired => 2, EventResult::SuccessAndAppRestartRequired => 3,
              EventResult::Cancelled => 4, EventResult::ErrorInSystemInstaller => 5, EventResult::UpdateDeferred => 6 }
}
pub fn eerr_of(n: i64) -> EventErrorCode {
    match n { 1 => EventErrorCode::ConstructInstallPlan, 2 => EventErrorCode::Installation, 3 => EventErrorCode::DeniedByPolicy, _ => EventErrorCode::ParseResponse }
}
pub fn eerr_idx(t: &EventErrorCode) -> usize {
    match t { EventErrorCode::ParseResponse => 0, EventErrorCode::ConstructInstallPlan => 1, EventErrorCode::Installation => 2, EventErrorCode::DeniedByPolicy => 3 }
}
pub fn event_of(v: &Value) -> Event {
    Event {
        event_type: etype_of(v["type"].as_u64().unwrap()),
        event_result: eresult_of(v["result"].as_u64().unwrap()),
        errorcode: v["err"].as_i64().map(eerr_of),
        previous_version: ostrv(&v["prev"]),
        next_version: ostrv(&v["next"]),
        download_time_ms: v["dl"].as_u64(),
    }
}
pub fn g_event(e: &Event) -> String {
    format!(
        "{{| ev_type := {}; ev_result := {}; ev_err := {}; ev_prev := {}; ev_next := {}; ev_dl := {} |}}",
        ETYPES[etype_idx(&e.event_type)].1,
        ERESULTS[eresult_idx(&e.event_result)].1,
        g_opt(e.errorcode.as_ref().map(|c| EERRS[eerr_idx(c)].1.to_string())),
        g_opt(e.previous_version.as_ref().map(|s| g_str(s))),
        g_opt(e.next_version.as_ref().map(|s| g_str(s))),
        g_opt(e.download_time_ms.map(g_n))
    )
}

// config: {"name":hex,"uver":[4],"os":[hex;4],"url":hex}
pub fn config_of(v: &Value) -> Config {
    let os = v["os"].as_array().unwrap();
    Config {
        updater: Updater { name: strv(&v["name"]), version: Version::from(ver_arr(&v["uver"])) },
        os: OS { platform: strv(&os[0]), version: strv(&os[1]), service_pack: strv(&os[2]), arch: strv(&os[3]) },
        service_url: strv(&v["url"]),
        omaha_public_keys: None,
    }
}
/// `wire_url`: how http::Uri renders the configured URL (oracle)
pub fn g_config(v: &Value, wire_url: &str) -> String {
    let os = v["os"].as_array().unwrap();
    format!(
        "{{| cfg_name := {}; cfg_uver := {}; os_platform := {}; os_version := {}; os_sp := {}; os_arch := {}; cfg_url := {} |}}",
        g_bytes(&hexv(&v["name"])), g_ver(ver_arr(&v["uver"])),
        g_bytes(&hexv(&os[0])), g_bytes(&hexv(&os[1])), g_bytes(&hexv(&os[2])), g_bytes(&hexv(&os[3])),
        g_str(wire_url)
    )
}

// ---- random generators for these types ----
const WORDS: [&str; 14] = ["", "a", "stable", "beta-channel", "x y", "q\"uote", "back\\slash", "tab\there", "new\nline", "ünï", "日本", "\u{1}ctl", "1.2.3", "😀"];
/// Text whose multi-byte characters straddle a round byte offset (8, 16, ... 4096): code that cuts a string at a fixed
/// byte position (for a log line, an abbreviation, a buffer) meets a character boundary only by luck.
pub fn boundary_text(rng: &mut Rng, max: usize) -> String {
    let sizes: Vec<usize> = [8usize, 16, 32, 64, 100, 128, 255, 256, 257, 512, 1000, 1024, 4096].iter().cloned().filter(|n| *n <= max).collect();
    let n = *rng.pick(&sizes);
    let mut s: String = (0..rng.below(4)).map(|_| 'a').collect();
    let ch = *rng.pick(&['é', '版', '😀']);
    while s.len() < n + 8 { s.push(ch); }
    s
}
pub fn rand_text(rng: &mut Rng) -> String {
    if rng.chance(1, 16) { return boundary_text(rng, 256); }
    match rng.below(5) {
        0 => WORDS[rng.below(WORDS.len() as u64) as usize].to_string(),
        1 => format!("{}{}", rng.pick(&WORDS), rng.below(100)),
        2 => (0..rng.below(12)).map(|_| (b'a' + rng.below(26) as u8) as char).collect(),
        3 => (0..rng.below(8)).map(|_| char::from_u32(32 + rng.below(95) as u32).unwrap()).collect(),
        _ => (0..rng.below(6)).map(|_| *rng.pick(&['"', '\\', '/', '\u{8}', '\u{c}', '\n', '\r', '\t', '\u{0}', '\u{1f}', '\u{7f}', 'é', '\u{2028}', 'z'])).collect(),
    }
}
/// A service URL from a small grammar: scheme, authority, path segments (empty ones, dots, escapes, trailing slash) and an
/// optional query of assorted parameters (empty, bare flags, values holding slashes and URLs, trailing separators).
pub fn rand_url(rng: &mut Rng) -> String {
    let scheme = *rng.pick(&["http", "https"]);
    let auth = *rng.pick(&["h", "example.com", "host.example:8443", "user@h", "[::1]:8080", "127.0.0.1", "a.b.c:1"]);
    let nseg = rng.below(5);
    let mut path = String::new();
    for _ in 0..nseg {
        path.push('/');
        path.push_str(*rng.pick(&["a", "p", "service", "update2", "json", "v1.2", "%20", "~x", "a;b", "a=b", "", ".", "x:y", "@"]));
    }
    if rng.chance(1, 2) { path.push('/'); }
    let mut url = format!("{}://{}{}", scheme, auth, path);
    if rng.chance(1, 2) {
        url.push('?');
        let n = rng.below(4);
        let ps: Vec<&str> = (0..n).map(|_| *rng.pick(&["a=b", "x=/", "flag", "k=", "=v", "u=http://x/y/", "q=a/b/", "cup2key=1:00", "%2F=%2f", "/", "a=b/", "?", "p=q?r"])).collect();
        url.push_str(&ps.join("&"));
        match rng.below(6) { 0 => url.push('/'), 1 => url.push('&'), _ => {} }
    }
    url
}
pub fn rand_ident(rng: &mut Rng) -> String {
    let n = 1 + rng.below(10);
    (0..n).map(|_| *rng.pick(&['a', 'b', 'c', 'x', 'y', '0', '1', '-', '_', '{', '}'])).collect()
}
pub fn rand_opt_text(rng: &mut Rng) -> Option<String> {
    if rng.chance(1, 2) { Some(rand_text(rng)) } else { None }
}
pub fn rand_version(rng: &mut Rng) -> [u32; 4] {
    let mut c = || match rng.below(4) { 0 => 0, 1 => rng.below(10) as u32, 2 => u32::MAX, _ => rng.next() as u32 };
    [c(), c(), c(), c()]
}
pub fn rand_cohort_json(rng: &mut Rng) -> Value {
    json!({"id": ohx(&rand_opt_text(rng)), "hint": ohx(&rand_opt_text(rng)), "name": ohx(&rand_opt_text(rng))})
}
pub fn rand_app_json(rng: &mut Rng, id: &str, max_extras: u64) -> Value {
    let ne = rng.below(max_extras + 1);
    let mut extras = vec![];
    let mut seen = std::collections::HashSet::new();
    for _ in 0..ne {
        let k = if rng.chance(1, 6) { (*rng.pick(&["appid", "version", "ping", "cohort"])).to_string() } else { rand_text(rng) };
        if seen.insert(k.clone()) {
            extras.push(json!([hx(&k), hx(&rand_text(rng))]));
        }
    }
    json!({"id": hx(id), "ver": rand_version(rng), "fp": ohx(&rand_opt_text(rng)), "cohort": rand_cohort_json(rng),
           "uc": if rng.chance(1, 2) { json!(rng.pick(&[0u32, 1, 5000, u32::MAX])) } else { Value::Null }, "extra": extras})
}
pub fn rand_params_json(rng: &mut Rng) -> Value {
    json!({"source": if rng.chance(1, 2) {"ondemand"} else {"scheduled"}, "proxies": rng.chance(1, 2), "disable": rng.chance(1, 2), "samever": rng.chance(1, 2)})
}
pub fn rand_event_json(rng: &mut Rng) -> Value {
    json!({"type": rng.pick(&ETYPES).0, "result": rng.pick(&ERESULTS).0,
           "err": if rng.chance(1, 2) { json!(rng.pick(&EERRS).0) } else { Value::Null },
           "prev": ohx(&rand_opt_text(rng)), "next": ohx(&rand_opt_text(rng)),
           "dl": if rng.chance(1, 2) { json!(*rng.pick(&[0u64, 1, 1234567, u64::MAX])) } else { Value::Null }})
}
