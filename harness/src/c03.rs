//! C03 — CUP decoration: the real RequestBuilder + StandardCupv2Handler against the model.
use crate::c15::{extract, rand_config};
use crate::gal::*;
use crate::sm::{g_url, keys_of};
use crate::util::*;
use omaha_client::cup_ecdsa::StandardCupv2Handler;
use omaha_client::request_builder::RequestBuilder;
use serde_json::{json, Value};

const URLS: [&str; 22] = [
    "http://example.com", "http://example.com/", "https://omaha.example.org/service/update/json", "http://h/p?", "http://h/p?a=b",
    "http://h/p?a=b&c=d", "http://h:8080/", "https://user:pw@host.example:444/p/q?x=1&y=2", "http://[::1]:8080/?a=b",
    "http://[fe80::1%25eth0]/svc", "http://h/p?cup2key=1:00", "http://h/p?x=cup2key=3", "http://h/?cup2key=7:aa&cup2key=8:bb",
    "http://h//double//slash", "http://h/p%20q?r%26s=t", "/relative/only", "/relative?x=y", "http://h/p#frag",
    "example.com:80", "*", "http://exa mple.com/", "",
];

pub fn run_input(input: &Value) -> Case {
    let mut cfg = config_of(&input["config"]);
    cfg.omaha_public_keys = keys_of(&input["cup"]);
    let handler = StandardCupv2Handler::new(cfg.omaha_public_keys.as_ref().unwrap());
    let params = params_of(&input["params"]);
    let ops = input["ops"].as_array().unwrap();
    let apps: Vec<_> = ops.iter().map(|o| app_of(&o["app"])).collect();
    let mut b = RequestBuilder::new(&cfg, &params);
    let mut gops = vec![];
    for (o, a) in ops.iter().zip(apps.iter()) {
        let ga = g_app(&o["app"], a);
        match o["op"].as_str().unwrap() {
            "uc" => { b = b.add_update_check(a); gops.push(format!("OpUpdateCheck {}", ga)); }
            "ping" => { b = b.add_ping(a); gops.push(format!("OpPing {}", ga)); }
            _ => { let e = event_of(&o["event"]); gops.push(format!("OpEvent {} {}", ga, g_event(&e))); b = b.add_event(a, e); }
        }
    }
    let mut out = input.clone();
    let mut gs = vec![];
    let mut js = vec![];
    let r = std::panic::catch_unwind(std::panic::AssertUnwindSafe(|| {
        let mut v = vec![];
        for _ in 0..2 {
            v.push(match b.build(Some(&handler)) {
                Ok((req, Some(meta))) => {
                    let x = extract(req);
                    Some((x.uri, x.body, meta.request_body.clone(), meta.public_key_id, format!("{}", meta.nonce)))
                }
                Ok((_, None)) => panic!("no metadata although a handler was given"),
                Err(_) => None,
            });
        }
        v
    }));
    let panicked = r.is_err();
    for x in r.unwrap_or_else(|_| vec![Some((String::new(), vec![], vec![], 0, String::new())), None]) {
        match x {
            Some((uri, body, mbody, kid, nonce)) => {
                gs.push(format!("(Some {{| bw_uri := {}; bw_body := {}; bm_body := {}; bm_kid := {}; bm_nonce := {} |}})",
                                g_str(&uri), g_bytes(&body), g_bytes(&mbody), kid, g_str(&nonce)));
                js.push(json!({"uri": uri, "body_len": body.len(), "meta_equals_wire": body == mbody, "kid": kid, "nonce": nonce}));
            }
            None => { gs.push("None".to_string()); js.push(Value::Null); }
        }
    }
    out["impl"] = json!(js);
    if panicked { out["impl_panic"] = json!(true); }
    let url = strv(&input["config"]["url"]);
    let absolute = url.parse::<http::Uri>().map(|u| (u.scheme().is_some() && u.authority().is_some()) || (u.scheme().is_none() && u.authority().is_none() && u.path().starts_with('/'))).unwrap_or(true);
    let wire = url.parse::<http::Uri>().map(|u| u.to_string()).unwrap_or_default();
    let gallina = format!("KDecorate {} {} {} {} {} {} {} {}",
        g_config(&input["config"], &wire), g_url(&url), g_bool(absolute), input["cup"]["latest"].as_u64().unwrap(),
        g_params(&params), g_list(&gops), gs[0], gs[1]);
    Case { gallina, json: out, class: format!("{}{}", if js[0].is_null() { "err-" } else { "ok-" }, url.split('/').take(3).collect::<Vec<_>>().join("/")),
           nontrivial: !js[0].is_null(), key: serde_json::to_string(input).unwrap(), features: vec![] }
}

pub fn generate(rng: &mut Rng, n: usize, _thorough: bool) -> Vec<Value> {
    let mut v = vec![];
    for i in 0..n {
        let mut config = rand_config(rng, true);
        config["url"] = if i % 3 == 2 { hx(&rand_url(rng)) } else { hx(URLS[(i - i / 3) % URLS.len()]) };
        let latest = *rng.pick(&[0u64, 1, 42, 123456789, u64::MAX]);
        let cup = json!({"latest": latest, "hist": (0..rng.below(3)).map(|k| latest.wrapping_add(k + 1)).collect::<Vec<_>>()});
        let napps = 1 + rng.below(3) as usize;
        let pool: Vec<Value> = (0..napps).map(|_| { let id = rand_ident(rng); rand_app_json(rng, &id, 1) }).collect();
        let ops: Vec<Value> = (0..rng.below(6)).map(|_| {
            let app = rng.pick(&pool).clone();
            match rng.below(3) { 0 => json!({"op":"uc","app":app}), 1 => json!({"op":"ping","app":app}), _ => json!({"op":"event","app":app,"event":rand_event_json(rng)}) }
        }).collect();
        v.push(json!({"kind":"decorate","config":config,"cup":cup,"params":rand_params_json(rng),"ops":ops}));
    }
    v
}

pub const HEADER: &str = "Require Import Verif.Run.EvalC03.";
pub const CTYPE: &str = "c03case";
pub const RUNNER: &str = "run_c03";
