//! C15 — request wire shape: the real RequestBuilder against Model/Request.v.
use crate::gal::*;
use crate::util::*;
use futures::executor::block_on;
use omaha_client::cup_ecdsa::StandardCupv2Handler;
use omaha_client::protocol::request::GUID;
use omaha_client::request_builder::RequestBuilder;
use serde_json::{json, Value};

pub fn guid_text(g: &GUID) -> String {
    let s = serde_json::to_string(g).unwrap();
    s[1..s.len() - 1].to_string()
}

pub struct Built {
    pub uri: String,
    pub headers: Vec<(String, Vec<u8>)>,
    pub body: Vec<u8>,
}
pub fn extract(req: http::Request<hyper::Body>) -> Built {
    let (parts, body) = req.into_parts();
    let body = block_on(hyper::body::to_bytes(body)).unwrap().to_vec();
    Built {
        uri: parts.uri.to_string(),
        headers: parts.headers.iter().map(|(k, v)| (k.as_str().to_string(), v.as_bytes().to_vec())).collect(),
        body,
    }
}

pub fn run_input(input: &Value) -> Case {
    let cfg = config_of(&input["config"]);
    let params = params_of(&input["params"]);
    let mut out = input.clone();
    let ops = input["ops"].as_array().unwrap();
    let apps: Vec<_> = ops.iter().map(|o| app_of(&o["app"])).collect();
    let mut b = RequestBuilder::new(&cfg, &params);
    let mut gops = vec![];
    for (o, a) in ops.iter().zip(apps.iter()) {
        let ga = g_app(&o["app"], a);
        match o["op"].as_str().unwrap() {
            "uc" => { b = b.add_update_check(a); gops.push(format!("OpUpdateCheck {}", ga)); }
            "ping" => { b = b.add_ping(a); gops.push(format!("OpPing {}", ga)); }
            _ => {
                let e = event_of(&o["event"]);
                gops.push(format!("OpEvent {} {}", ga, g_event(&e)));
                b = b.add_event(a, e);
            }
        }
    }
    let mut reqid = None;
    let mut sessid = None;
    if input["sessid"].as_bool().unwrap_or(false) {
        let g = GUID::new();
        sessid = Some(guid_text(&g));
        b = b.session_id(g);
    }
    if input["reqid"].as_bool().unwrap_or(false) {
        let g = GUID::new();
        reqid = Some(guid_text(&g));
        b = b.request_id(g);
    }
    let wire_url = cfg.service_url.parse::<http::Uri>().map(|u| u.to_string()).unwrap_or_default();
    let r1 = b.build(None::<&StandardCupv2Handler>);
    let r2 = b.build(None::<&StandardCupv2Handler>);
    let (res, stable) = match (r1, r2) {
        (Ok((q1, m1)), Ok((q2, m2))) => {
            let (x, y) = (extract(q1), extract(q2));
            let same = x.uri == y.uri && x.headers == y.headers && x.body == y.body && m1.is_none() && m2.is_none();
            (Some(x), same)
        }
        (Err(_), Err(_)) => (None, true),
        _ => (None, false),
    };
    let gres = match &res {
        Some(x) => format!(
            "(Some ({}, {}, {}))",
            g_str(&x.uri),
            g_list(&x.headers.iter().map(|(k, v)| format!("({}, {})", g_str(k), g_bytes(v))).collect::<Vec<_>>()),
            g_bytes(&x.body)
        ),
        None => "None".to_string(),
    };
    out["impl"] = match &res {
        Some(x) => json!({"uri": x.uri, "headers": x.headers.iter().map(|(k, v)| json!([k, String::from_utf8_lossy(v)])).collect::<Vec<_>>(),
                          "body": String::from_utf8_lossy(&x.body), "stable": stable}),
        None => json!({"error": true, "stable": stable}),
    };
    let gallina = format!(
        "KBuild {} {} {} {} {} {} {}",
        g_config(&input["config"], &wire_url),
        g_params(&params),
        g_list(&gops),
        g_opt(reqid.map(|s| g_str(&s))),
        g_opt(sessid.map(|s| g_str(&s))),
        g_bool(stable),
        gres
    );
    Case {
        gallina,
        json: out,
        class: format!("ops{}{}", ops.len().min(6), if res.is_none() { "-err" } else { "" }),
        nontrivial: !ops.is_empty(),
        key: serde_json::to_string(input).unwrap(),
        features: vec![],
    }
}

const URLS: [&str; 6] = ["http://example.com/", "https://omaha.example.org/service/update/json", "http://[::1]:8080/?a=b",
                         "https://user@host.example:444/p/q?x=1&y=2", "http://example.com", "/relative/only"];

pub fn rand_config(rng: &mut Rng, safe_name: bool) -> Value {
    let name = if safe_name || rng.chance(9, 10) { rand_ident(rng) } else { rand_text(rng) };
    json!({"name": hx(&name), "uver": rand_version(rng),
           "os": [hx(&rand_text(rng)), hx(&rand_text(rng)), hx(&rand_text(rng)), hx(&rand_text(rng))],
           "url": hx(*rng.pick(&URLS))})
}

pub fn generate(rng: &mut Rng, n: usize, _thorough: bool) -> Vec<Value> {
    let mut v = vec![];
    for i in 0..n {
        let napps = 1 + rng.below(4) as usize;
        // a pool where several app values share an id (differing cohort/version)
        let mut pool = vec![];
        for k in 0..napps {
            let id = if i % 11 == 10 && k == 0 { rand_text(rng) } else { rand_ident(rng) };
            let variants = 1 + rng.below(2);
            for _ in 0..variants {
                pool.push(rand_app_json(rng, &id, 2));
            }
        }
        let nops = rng.below(9) as usize;
        // one event op in three repeats an earlier (app, event) pair exactly: events are a list, not a set
        let mut said: Vec<Value> = vec![];
        let mut ops: Vec<Value> = vec![];
        for _ in 0..nops {
            let app = rng.pick(&pool).clone();
            ops.push(match rng.below(3) {
                0 => json!({"op":"uc","app":app}),
                1 => json!({"op":"ping","app":app}),
                _ => {
                    if !said.is_empty() && rng.chance(1, 3) {
                        rng.pick(&said).clone()
                    } else {
                        let o = json!({"op":"event","app":app,"event":rand_event_json(rng)});
                        said.push(o.clone());
                        o
                    }
                }
            });
        }
        v.push(json!({"kind":"build","config":rand_config(rng, false),"params":rand_params_json(rng),"ops":ops,
                      "reqid":rng.chance(3,4),"sessid":rng.chance(3,4)}));
    }
    // the service URL is any URL the embedder configures: every third case takes one from the URL grammar or from the
    // directed list (paths ending in a slash, empty segments, queries ending in a separator), drawn from a stream of its
    // own so that the cases above stay what they were
    let mut urng = Rng::new(0xC15_0C15 ^ n as u64);
    for (i, c) in v.iter_mut().enumerate() {
        if i % 3 == 1 {
            let u = if i % 2 == 0 { rand_url(&mut urng) } else { (*urng.pick(&SLASH_URLS)).to_string() };
            c["config"]["url"] = hx(&u);
        }
    }
    v
}
const SLASH_URLS: [&str; 8] = ["http://example.com/service/update/", "https://h/a/", "http://h//", "http://h/a//", "http://h/a/?x=1",
                               "http://h/a/?x=/", "https://omaha.example.org/service/update/json/", "http://h/p?q=1&"];

pub const HEADER: &str = "Require Import Verif.Run.EvalC15.";
pub const CTYPE: &str = "c15case";
pub const RUNNER: &str = "run_c15";
