//! Shared helpers: PRNG, Gallina term printing, case-file writer.
use serde_json::Value;
use std::fmt::Write as _;
use std::io::Write as _;
use std::path::{Path, PathBuf};

pub static LAST_PANIC_LOC: std::sync::Mutex<String> = std::sync::Mutex::new(String::new());

/// splitmix64 — every random choice of a run derives from one seed.
#[derive(Clone)]
pub struct Rng(pub u64);
impl Rng {
    pub fn new(seed: u64) -> Self {
        Rng(seed ^ 0x9E37_79B9_7F4A_7C15)
    }
    pub fn next(&mut self) -> u64 {
        self.0 = self.0.wrapping_add(0x9E37_79B9_7F4A_7C15);
        let mut z = self.0;
        z = (z ^ (z >> 30)).wrapping_mul(0xBF58_476D_1CE4_E5B9);
        z = (z ^ (z >> 27)).wrapping_mul(0x94D0_49BB_1331_11EB);
        z ^ (z >> 31)
    }
    pub fn below(&mut self, n: u64) -> u64 {
        if n == 0 {
            0
        } else {
            self.next() % n
        }
    }
    pub fn range(&mut self, lo: i64, hi: i64) -> i64 {
        lo + self.below((hi - lo + 1) as u64) as i64
    }
    pub fn chance(&mut self, num: u64, den: u64) -> bool {
        self.below(den) < num
    }
    pub fn pick<'a, T>(&mut self, xs: &'a [T]) -> &'a T {
        &xs[self.below(xs.len() as u64) as usize]
    }
    pub fn bytes(&mut self, n: usize) -> Vec<u8> {
        (0..n).map(|_| self.next() as u8).collect()
    }
    pub fn fork(&mut self) -> Rng {
        Rng::new(self.next())
    }
}

// ---------- Gallina printing ----------
pub fn g_bytes(b: &[u8]) -> String {
    if b.is_empty() {
        return "[]".to_string();
    }
    format!("(hx \"{}\")", hex::encode(b))
}
pub fn g_str(s: &str) -> String {
    g_bytes(s.as_bytes())
}
pub fn g_n<T: std::fmt::Display>(n: T) -> String {
    format!("{}", n)
}
pub fn g_z(z: i128) -> String {
    if z < 0 {
        format!("({})%Z", z)
    } else {
        format!("{}%Z", z)
    }
}
pub fn g_bool(b: bool) -> String {
    if b { "true" } else { "false" }.to_string()
}
pub fn g_opt(o: Option<String>) -> String {
    match o {
        Some(s) => format!("(Some {})", s),
        None => "None".to_string(),
    }
}
pub fn g_list(xs: &[String]) -> String {
    if xs.is_empty() {
        "[]".to_string()
    } else {
        format!("[{}]", xs.join("; "))
    }
}
pub fn g_pair(a: &str, b: &str) -> String {
    format!("({}, {})", a, b)
}

/// One generated case: its Gallina constructor application, a JSON description
/// (for evidence samples and replay files), a class label for the
/// distribution histogram and whether it is "non-trivial" by the property's rule.
pub struct Case {
    pub gallina: String,
    pub json: Value,
    pub class: String,
    pub nontrivial: bool,
    /// canonical key for distinctness counting
    pub key: String,
    /// paths of the code this case went through (state-machine cases: read off the implementation's trace)
    pub features: Vec<String>,
}

pub struct CaseWriter {
    pub dir: PathBuf,
    pub prop: String,
    pub cases: Vec<Case>,
    /// inputs on which the code under test panicked outside a harness module's own guard
    pub panicked: Vec<Value>,
}

impl CaseWriter {
    pub fn new(dir: &Path, prop: &str) -> Self {
        CaseWriter {
            dir: dir.to_path_buf(),
            prop: prop.to_string(),
            cases: vec![],
            panicked: vec![],
        }
    }
    pub fn push(&mut self, c: Case) {
        self.cases.push(c);
    }
    /// Write `shards` files cases_<k>.v plus cases.json.
    /// `header`: Require lines; `ctype`: Gallina case type; `runner`: function
    /// `list (N * ctype) -> list (N * N)`.
    pub fn finish(&self, shards: usize, header: &str, ctype: &str, runner: &str) -> std::io::Result<()> {
        std::fs::create_dir_all(&self.dir)?;
        // remove stale shards
        for e in std::fs::read_dir(&self.dir)? {
            let p = e?.path();
            if let Some(n) = p.file_name().and_then(|s| s.to_str()) {
                if n.starts_with("cases_") || n.starts_with(".cases_") {
                    let _ = std::fs::remove_file(&p);
                }
            }
        }
        let n = self.cases.len();
        let shards = shards.max(1).min(n.max(1));
        for k in 0..shards {
            let mut s = String::new();
            writeln!(s, "{}", header).unwrap();
            writeln!(s, "Open Scope N_scope.").unwrap();
            writeln!(s, "Definition cases : list (N * {}) := [", ctype).unwrap();
            let mut first = true;
            for (i, c) in self.cases.iter().enumerate() {
                if i % shards != k {
                    continue;
                }
                if !first {
                    writeln!(s, ";").unwrap();
                }
                first = false;
                write!(s, "({}, {})", i, c.gallina).unwrap();
            }
            writeln!(s, "\n].").unwrap();
            writeln!(s, "Eval vm_compute in ({} cases).", runner).unwrap();
            let p = self.dir.join(format!("cases_{}.v", k));
            let mut f = std::fs::File::create(p)?;
            f.write_all(s.as_bytes())?;
        }
        // sidecar
        let mut hist = std::collections::BTreeMap::<String, u64>::new();
        let mut distinct = std::collections::HashSet::<&str>::new();
        let mut nontrivial = 0u64;
        let mut feats = std::collections::BTreeMap::<String, u64>::new();
        for c in &self.cases {
            for f in &c.features { *feats.entry(f.clone()).or_default() += 1; }
            *hist.entry(c.class.clone()).or_default() += 1;
            if distinct.insert(c.key.as_str()) && c.nontrivial {
                nontrivial += 1;
            }
        }
        let side = serde_json::json!({
            "property": self.prop,
            "n": n,
            "shards": shards,
            "distinct_nontrivial": nontrivial,
            "distribution": hist,
            "features": feats,
            "panicked": self.panicked,
            "cases": self.cases.iter().map(|c| c.json.clone()).collect::<Vec<_>>(),
        });
        std::fs::write(self.dir.join("cases.json"), serde_json::to_vec(&side).unwrap())?;
        Ok(())
    }
}

pub fn hexs(b: &[u8]) -> String {
    hex::encode(b)
}
