//! C19 — time conversions, truncation, two-clock times, against omaha_client::time.
use crate::util::*;
use futures::executor::block_on;
use omaha_client::storage::{MemStorage, StorageExt};
use omaha_client::time::system_time_conversion::{
    checked_system_time_to_micros_from_epoch as to_micros, micros_from_epoch_to_system_time as from_micros,
};
use omaha_client::time::{ComplexTime, PartialComplexTime};
use serde_json::{json, Value};
use std::time::{Duration, Instant, SystemTime};

fn dur(ns: u128) -> Duration {
    Duration::new((ns / 1_000_000_000) as u64, (ns % 1_000_000_000) as u32)
}
pub fn st_from_ns(ns: i128) -> Option<SystemTime> {
    if ns >= 0 {
        if (ns / 1_000_000_000) as u128 > i64::MAX as u128 { return None; }
        SystemTime::UNIX_EPOCH.checked_add(dur(ns as u128))
    } else {
        let a = (-ns) as u128;
        if a / 1_000_000_000 > i64::MAX as u128 { return None; }
        SystemTime::UNIX_EPOCH.checked_sub(dur(a))
    }
}
pub fn st_to_ns(t: SystemTime) -> i128 {
    match t.duration_since(SystemTime::UNIX_EPOCH) {
        Ok(d) => d.as_nanos() as i128,
        Err(e) => -(e.duration().as_nanos() as i128),
    }
}
thread_local! {
    static BASE: Instant = Instant::now() + Duration::from_secs(1_000_000_000);
}
pub fn inst_from_ns(ns: i128) -> Instant {
    BASE.with(|b| if ns >= 0 { *b + dur(ns as u128) } else { *b - dur((-ns) as u128) })
}
pub fn inst_to_ns(i: Instant) -> i128 {
    BASE.with(|b| {
        if i >= *b { i.duration_since(*b).as_nanos() as i128 } else { -(b.duration_since(i).as_nanos() as i128) }
    })
}
fn zs(v: &Value) -> i128 {
    v.as_str().unwrap().parse().unwrap()
}
fn js(z: i128) -> Value {
    json!(z.to_string())
}
fn g_oz(o: Option<i128>) -> String {
    g_opt(o.map(g_z))
}
fn shape(v: &Value) -> (&'static str, u8) {
    match v.as_str().unwrap() {
        "wall" => ("SWall", 0),
        "mono" => ("SMono", 1),
        _ => ("SComplex", 2),
    }
}
fn mkp(k: u8, w: i128, m: i128) -> PartialComplexTime {
    match k {
        0 => PartialComplexTime::Wall(st_from_ns(w).unwrap()),
        1 => PartialComplexTime::Monotonic(inst_from_ns(m)),
        _ => PartialComplexTime::Complex(ComplexTime { wall: st_from_ns(w).unwrap(), mono: inst_from_ns(m) }),
    }
}
fn destr(p: PartialComplexTime) -> (Option<i128>, Option<i128>) {
    let (w, m) = p.destructure();
    // the two single-component accessors must give the same components; where they do not, theirs are what is compared with the model
    let (aw, am) = (p.checked_to_system_time(), p.checked_to_instant());
    if (aw, am) != (w, m) { return (aw.map(st_to_ns), am.map(inst_to_ns)); }
    (w.map(st_to_ns), m.map(inst_to_ns))
}

pub fn run_input(input: &Value) -> Case {
    let kind = input["kind"].as_str().unwrap();
    let mut out = input.clone();
    let r = std::panic::catch_unwind(|| -> (String, Value) {
        match kind {
            "to_micros" => {
                let t = zs(&input["t"]);
                let r = to_micros(st_from_ns(t).unwrap()).map(|x| x as i128);
                (format!("KToMicros {} {}", g_z(t), g_oz(r)), json!(r.map(|x| x.to_string())))
            }
            "from_micros" => {
                let m = zs(&input["m"]);
                let r = st_to_ns(from_micros(m as i64));
                (format!("KFromMicros {} {}", g_z(m), g_z(r)), js(r))
            }
            "roundtrip" => {
                let m = zs(&input["m"]);
                let r = to_micros(from_micros(m as i64)).map(|x| x as i128);
                (format!("KRoundTrip {} {}", g_z(m), g_oz(r)), json!(r.map(|x| x.to_string())))
            }
            "truncate" => {
                let (w, m) = (zs(&input["w"]), zs(&input["m"]));
                let c = ComplexTime { wall: st_from_ns(w).unwrap(), mono: inst_from_ns(m) };
                let c1 = c.truncate_submicrosecond_walltime();
                let c2 = c1.truncate_submicrosecond_walltime();
                let (a, b, d) = (st_to_ns(c1.wall), inst_to_ns(c1.mono), st_to_ns(c2.wall));
                (
                    format!("KTruncate {} {} {} {} {}", g_z(w), g_z(m), g_z(a), g_z(b), g_z(d)),
                    json!([a.to_string(), b.to_string(), d.to_string()]),
                )
            }
            "store_reload" => {
                let t = zs(&input["t"]);
                let mut st = MemStorage::new();
                let r = block_on(async {
                    let _ = st.set_time("k", st_from_ns(t).unwrap()).await;
                    st.get_time("k").await
                })
                .map(st_to_ns);
                (format!("KStoreReload {} {}", g_z(t), g_oz(r)), json!(r.map(|x| x.to_string())))
            }
            "pct_add" | "pct_sub" => {
                let (sn, k) = shape(&input["shape"]);
                let (w, m, d) = (zs(&input["w"]), zs(&input["m"]), zs(&input["d"]));
                let p = mkp(k, w, m);
                // exercise the assign forms too; they must agree with the operator forms
                let (q, q2) = if kind == "pct_add" {
                    let mut z = p;
                    z += dur(d as u128);
                    (p + dur(d as u128), z)
                } else {
                    let mut z = p;
                    z -= dur(d as u128);
                    (p - dur(d as u128), z)
                };
                assert!(q == q2, "assign form differs from operator form");
                let (rw, rm) = destr(q);
                let ctor = if kind == "pct_add" { "KPctAdd" } else { "KPctSub" };
                (
                    format!("{} {} {} {} {} {} {}", ctor, sn, g_z(w), g_z(m), g_z(d), g_oz(rw), g_oz(rm)),
                    json!([rw.map(|x| x.to_string()), rm.map(|x| x.to_string())]),
                )
            }
            "complete" => {
                let (sn, k) = shape(&input["shape"]);
                let (w, m, cw, cm) = (zs(&input["w"]), zs(&input["m"]), zs(&input["cw"]), zs(&input["cm"]));
                let c = mkp(k, w, m).complete_with(ComplexTime { wall: st_from_ns(cw).unwrap(), mono: inst_from_ns(cm) });
                let (a, b) = (st_to_ns(c.wall), inst_to_ns(c.mono));
                (
                    format!("KComplete {} {} {} {} {} {} {}", sn, g_z(w), g_z(m), g_z(cw), g_z(cm), g_z(a), g_z(b)),
                    json!([a.to_string(), b.to_string()]),
                )
            }
            "after" => {
                let (sn, k) = shape(&input["shape"]);
                let (w, m, cw, cm) = (zs(&input["w"]), zs(&input["m"]), zs(&input["cw"]), zs(&input["cm"]));
                let c = ComplexTime { wall: st_from_ns(cw).unwrap(), mono: inst_from_ns(cm) };
                let r = c.is_after_or_eq_any(mkp(k, w, m));
                (
                    format!("KAfter {} {} {} {} {} {}", sn, g_z(w), g_z(m), g_z(cw), g_z(cm), g_bool(r)),
                    json!(r),
                )
            }
            "pct_micros" => {
                let (sn, k) = shape(&input["shape"]);
                let (w, m) = (zs(&input["w"]), zs(&input["m"]));
                let r = mkp(k, w, m).checked_to_micros_since_epoch().map(|x| x as i128);
                (format!("KPctMicros {} {} {} {}", sn, g_z(w), g_z(m), g_oz(r)), json!(r.map(|x| x.to_string())))
            }
            k => panic!("unknown C19 case kind {}", k),
        }
    });
    let (gallina, class) = match r {
        Ok((g, v)) => {
            out["impl"] = v;
            (g, kind.to_string())
        }
        Err(_) => {
            // the model never panics: a panic is reported as a disagreement
            out["impl"] = json!("PANIC");
            ("KToMicros 0%Z (Some 1%Z)".to_string(), format!("{}-PANIC", kind))
        }
    };
    Case { gallina, json: out, class, nontrivial: true, key: serde_json::to_string(input).unwrap(), features: vec![] }
}

const I64MAX_US_NS: i128 = (i64::MAX as i128) * 1000;
const I64MIN_US_NS: i128 = (i64::MIN as i128) * 1000;
const ST_MAX_NS: i128 = (i64::MAX as i128) * 1_000_000_000 + 999_999_999;

fn rand_time(rng: &mut Rng) -> i128 {
    match rng.below(8) {
        0 => {
            // +-k us +- {0,1,999} ns
            let k = rng.range(-3, 3) as i128;
            k * 1000 + *rng.pick(&[0i128, 1, -1, 999, -999, 500, -500])
        }
        1 => I64MAX_US_NS + rng.range(-2500, 2500) as i128,
        2 => I64MIN_US_NS + rng.range(-2500, 2500) as i128,
        3 => {
            let s = if rng.chance(1, 2) { 1 } else { -1 };
            s * (ST_MAX_NS - rng.below(3_000_000_000) as i128)
        }
        4 => (rng.next() as i64 as i128) >> rng.below(60),
        5 => 1_700_000_000_000_000_000 + rng.below(1_000_000_000_000) as i128,
        6 => -(rng.below(4_000_000_000_000_000_000) as i128),
        _ => {
            let s = if rng.chance(1, 2) { 1 } else { -1 };
            s * ((rng.next() as i128) * (rng.below(1_000_000) as i128 + 1))
        }
    }
}
fn rand_micros(rng: &mut Rng) -> i128 {
    match rng.below(6) {
        0 => i64::MIN as i128 + rng.below(3) as i128,
        1 => i64::MAX as i128 - rng.below(3) as i128,
        2 => rng.range(-3, 3) as i128,
        3 => (rng.next() as i64 as i128) >> rng.below(63),
        _ => rng.next() as i64 as i128,
    }
}
/// moderate times, safe for add/sub with moderate durations
fn mod_time(rng: &mut Rng) -> i128 {
    match rng.below(4) {
        0 => rng.range(-5000, 5000) as i128,
        1 => -(rng.below(1_000_000_000_000_000_000) as i128),
        _ => rng.below(4_000_000_000_000_000_000) as i128,
    }
}
fn mod_inst(rng: &mut Rng) -> i128 {
    rng.range(-100_000_000_000_000_000, 100_000_000_000_000_000) as i128
}

pub fn generate(rng: &mut Rng, n: usize, thorough: bool) -> Vec<Value> {
    let mut v = vec![];
    // boundary grid (exhaustive in both tiers)
    for k in -3i128..=3 {
        for e in [0i128, 1, -1, 999, -999, 500, -500] {
            let t = k * 1000 + e;
            v.push(json!({"kind":"to_micros","t":js(t)}));
            v.push(json!({"kind":"truncate","w":js(t),"m":js(12345)}));
            v.push(json!({"kind":"store_reload","t":js(t)}));
        }
    }
    for d in -2i128..=2 {
        for base in [i64::MIN as i128, i64::MAX as i128, 0] {
            let m = base + d;
            if m < i64::MIN as i128 || m > i64::MAX as i128 { continue; }
            v.push(json!({"kind":"roundtrip","m":js(m)}));
            v.push(json!({"kind":"from_micros","m":js(m)}));
        }
        for base in [I64MAX_US_NS, I64MIN_US_NS] {
            for e in [0i128, 1, -1, 999, -999, 1000, -1000] {
                v.push(json!({"kind":"to_micros","t":js(base + d * 1000 + e)}));
                v.push(json!({"kind":"store_reload","t":js(base + d * 1000 + e)}));
            }
        }
    }
    let _ = thorough;
    let shapes = ["wall", "mono", "complex"];
    for i in 0..n {
        match i % 10 {
            0 => v.push(json!({"kind":"to_micros","t":js(rand_time(rng))})),
            1 => v.push(json!({"kind":"from_micros","m":js(rand_micros(rng))})),
            2 => v.push(json!({"kind":"roundtrip","m":js(rand_micros(rng))})),
            3 => {
                // keep one microsecond of head-room from the platform limits
                let mut w = rand_time(rng);
                if w.abs() > ST_MAX_NS - 2_000_000_000 { w /= 2; }
                v.push(json!({"kind":"truncate","w":js(w),"m":js(mod_inst(rng))}));
            }
            4 => v.push(json!({"kind":"store_reload","t":js(rand_time(rng))})),
            5 | 6 => {
                let d = match rng.below(3) { 0 => rng.below(3000) as i128, 1 => rng.below(1_000_000_000_000_000) as i128, _ => 0 };
                let k = if i % 10 == 5 { "pct_add" } else { "pct_sub" };
                v.push(json!({"kind":k,"shape":*rng.pick(&shapes),"w":js(mod_time(rng)),"m":js(mod_inst(rng)),"d":js(d)}));
            }
            7 => v.push(json!({"kind":"complete","shape":*rng.pick(&shapes),"w":js(mod_time(rng)),"m":js(mod_inst(rng)),
                               "cw":js(mod_time(rng)),"cm":js(mod_inst(rng))})),
            8 => {
                let (w, m) = (mod_time(rng), mod_inst(rng));
                // near-equal components so that each of <, =, > occurs on each clock
                let cw = w + *rng.pick(&[-1i128, 0, 1, 1000, -1000]) * rng.below(3) as i128;
                let cm = m + *rng.pick(&[-1i128, 0, 1, 1000, -1000]) * rng.below(3) as i128;
                v.push(json!({"kind":"after","shape":*rng.pick(&shapes),"w":js(w),"m":js(m),"cw":js(cw),"cm":js(cm)}));
            }
            _ => v.push(json!({"kind":"pct_micros","shape":*rng.pick(&shapes),"w":js(rand_time(rng)),"m":js(mod_inst(rng))})),
        }
    }
    v
}

pub const HEADER: &str = "Require Import Verif.Run.EvalC19.";
pub const CTYPE: &str = "c19case";
pub const RUNNER: &str = "run_c19";
