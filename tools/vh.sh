#!/bin/sh
# build the harness exactly as ./check does (always against the current /repo sources), then run it
touch /repo/omaha-client/src/lib.rs /repo/mock-omaha-server/src/lib.rs
( cd /verif/harness && CARGO_NET_OFFLINE=true CARGO_TARGET_DIR=/verif/.cache/target RUSTFLAGS="--cfg omaha_client_verif" cargo build --offline 2>&1 | grep -E "^error" -A12 )
exec /verif/.cache/target/debug/vh "$@"
