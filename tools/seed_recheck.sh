#!/bin/bash
# seed_recheck.sh <seeded-dir-name> <property>...   re-runs checks against a stored seeded change
set -u
D=/verif/seeded/$1; shift
cd /repo && git apply $D/patch.diff || { echo "patch does not apply"; exit 1; }
for P in "$@"; do
  ( cd /verif && ./check $P > $D/check_$P.txt 2>&1; echo "check $P exit=$?" | tee -a $D/check_$P.txt; grep -E "VIOLATION|KNOWN" $D/check_$P.txt )
done
cd /repo && git checkout -- . && git status --short | head -3
# evidence written while the change was applied describes the changed tree: put the committed evidence back
git -C /verif checkout -- evidence 2>/dev/null
