"""Constants of the code, read from /repo's working tree on every run and turned into Coq equalities with the
constants the model uses (gen/<prop>/Anchors.v, checked by coqc).  A small piece of 'translation': if a constant of the
source changes, or can no longer be found, the obligation 'anchors' breaks and names it."""
import os, re

def _read(repo, rel):
    with open(os.path.join(repo, rel), encoding="utf-8") as f:
        return f.read()

def _one(src, pattern, what):
    m = re.findall(pattern, src, flags=re.M)
    if len(m) != 1:
        raise RuntimeError("anchor %s: expected exactly one match of /%s/, found %d" % (what, pattern, len(m)))
    return m[0]

def _coq_str(s):
    if '"' in s or "\\" in s or not s.isascii():
        raise RuntimeError("anchor string %r needs escaping" % s)
    return '"%s"' % s

# (model constant, file, regex with one group (string constant))
SM_KEYS = [
    ("K_LAST_UPDATE_TIME", "omaha-client/src/state_machine/update_check.rs", r'^pub const LAST_UPDATE_TIME: &str = "([^"]*)";'),
    ("K_POLL_INTERVAL", "omaha-client/src/state_machine/update_check.rs", r'^pub const SERVER_DICTATED_POLL_INTERVAL: &str = "([^"]*)";'),
    ("K_FAILED_CHECKS", "omaha-client/src/state_machine/update_check.rs", r'^pub const CONSECUTIVE_FAILED_UPDATE_CHECKS: &str = "([^"]*)";'),
    ("K_INSTALL_PLAN_ID", "omaha-client/src/state_machine.rs", r'^const INSTALL_PLAN_ID: &str = "([^"]*)";'),
    ("K_FIRST_SEEN", "omaha-client/src/state_machine.rs", r'^const UPDATE_FIRST_SEEN_TIME: &str = "([^"]*)";'),
    ("K_FINISH_TIME", "omaha-client/src/state_machine.rs", r'^const UPDATE_FINISH_TIME: &str = "([^"]*)";'),
    ("K_TARGET_VERSION", "omaha-client/src/state_machine.rs", r'^const TARGET_VERSION: &str = "([^"]*)";'),
    ("K_FAILED_INSTALLS", "omaha-client/src/state_machine.rs", r'^const CONSECUTIVE_FAILED_INSTALL_ATTEMPTS: &str = "([^"]*)";'),
]

def _sm(repo):
    out, info = [], {}
    cache = {}
    def src(rel):
        if rel not in cache:
            cache[rel] = _read(repo, rel)
        return cache[rel]
    for name, rel, pat in SM_KEYS:
        v = _one(src(rel), pat, name)
        info[name] = v
        out.append("Example anchor_%s : %s = s2b %s. Proof. reflexivity. Qed." % (name, name, _coq_str(v)))
    sm = src("omaha-client/src/state_machine.rs")
    expr = _one(sm, r'^const CHECK_REBOOT_ALLOWED_INTERVAL: Duration = Duration::from_secs\(([\d\s\*_]+)\);', "CHECK_REBOOT_ALLOWED_INTERVAL")
    secs = 1
    for f in expr.replace("_", "").split("*"):
        secs *= int(f.strip())
    info["CHECK_REBOOT_ALLOWED_INTERVAL_s"] = secs
    out.append("Example anchor_reboot_interval : REBOOT_INTERVAL_NS = (%d * 1000000000)%%Z. Proof. reflexivity. Qed." % secs)
    n = _one(sm, r'^const MAX_OMAHA_REQUEST_ATTEMPTS: u64 = (\d+);', "MAX_OMAHA_REQUEST_ATTEMPTS")
    info["MAX_OMAHA_REQUEST_ATTEMPTS"] = int(n)
    out.append("Example anchor_max_attempts : MAX_ATTEMPTS = %s%%Z. Proof. reflexivity. Qed." % n)
    cap = _one(sm, r'Some\(Duration::from_secs\(min\(seconds, (\d+)\)\)\)', "X-Retry-After cap")
    info["retry_after_cap_s"] = int(cap)
    out.append("Example anchor_retry_after_cap : MAX_RETRY_AFTER_S = %s%%Z. Proof. reflexivity. Qed." % cap)
    k, r = _one(sm, r'let backoff_time = randomize\(backoff_time_secs \* (\d+), (\d+)\);', "back-off randomisation")
    info["backoff_scale_ms"], info["backoff_jitter_range_ms"] = int(k), int(r)
    # the model's attempt loop uses these two numbers inline: the first back-off with draw 0 is scale - range/2 ms
    out.append("Example anchor_backoff : randomize (Z.shiftl 1 (1 - 1) * %s) %s 0 = (%s - %s / 2)%%Z. Proof. reflexivity. Qed." % (k, r, k, r))
    out.append("Example anchor_backoff_model : randomize (Z.shiftl 1 (1 - 1) * 1000) 1000 0 = (%s - %s / 2)%%Z. Proof. reflexivity. Qed." % (k, r))
    # wire constants of the request
    proto = _one(src("omaha-client/src/protocol.rs"), r'^pub const PROTOCOL_V3: &str = "([^"]*)";', "PROTOCOL_V3")
    info["PROTOCOL_V3"] = proto
    req = src("omaha-client/src/protocol/request.rs")
    hdrs = []
    for cname in ("HEADER_UPDATER_NAME", "HEADER_INTERACTIVITY", "HEADER_APP_ID"):
        h = _one(req, r'^pub const %s: &str = "([^"]*)";' % cname, cname)
        info[cname] = h
        hdrs.append(h.lower())
    out.append("Example anchor_headers : forall cfg b e r, b_entries b = e :: r -> map fst (headers_of cfg b) = "
               "[s2b \"content-type\"; s2b %s; s2b %s; s2b %s]. Proof. intros cfg b e r H. unfold headers_of. rewrite H. reflexivity. Qed."
               % tuple(_coq_str(h) for h in hdrs))
    return out, info

GROUPS = {"sm": _sm}

def generate(prop, repo, gendir, group="sm"):
    lines, info = GROUPS[group](repo)
    os.makedirs(gendir, exist_ok=True)
    with open(os.path.join(gendir, "Anchors.v"), "w") as f:
        f.write("(* generated from %s by tools/extract_anchors.py on every run; do not edit *)\n" % repo)
        f.write("Require Import Verif.Model.Time Verif.Base.Bytes Verif.Model.Version Verif.Model.Json Verif.Model.Proto\n"
                "               Verif.Model.Request Verif.Model.Env Verif.Model.SM.\nOpen Scope Z_scope.\n")
        f.write("\n".join(lines) + "\n")
    return {"group": group, "constants": info, "equalities_checked": len(lines)}
