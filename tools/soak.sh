#!/bin/sh
# soak.sh — run every SM-based check with several seeds (flakiness / rare-disagreement hunt); not registered in the manifest
cd "$(dirname "$0")/.."
./setup.sh >/dev/null 2>&1
for seed in 11 22 33 44 55 66; do
  for p in C02 C04 C05 C06 C07 C08 C09 C10 C11 C12 C14 C18 C03; do
    VERIF_SEED=$seed ./check $p 2>&1 | tail -1 | sed "s/^/seed=$seed /"
    grep -h VIOLATION /dev/null
  done
done
