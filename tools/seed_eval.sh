#!/bin/bash
# seed_eval.sh <worktree-name> <seed-id> <property> [more properties...]
# Confirms a seeded change (compiles, suite passes, demo fails with / passes without), stores it under
# /verif/seeded/<seed-id>/, runs the given checks against it (applied to /repo, reverted afterwards).
set -u
WT=${WTROOT:-/tmp/wt}/$1; SID=$2; shift 2
OUT=/verif/seeded/$SID; mkdir -p $OUT
cd $WT
git diff -- . ':(exclude)*/tests/demo_*' > $OUT/patch.diff
DEMO=$(git status --porcelain | grep '??' | awk '{print $2}' | head -1)
find $WT -name 'demo_*.rs' -newer $WT/Cargo.toml -exec cp {} $OUT/ \; 2>/dev/null
DEMOFILE=$(ls $OUT/demo_*.rs 2>/dev/null | head -1); DEMONAME=$(basename ${DEMOFILE:-none} .rs)
PKG=omaha_client; grep -q mock-omaha-server/tests <<< "$(cd $WT; git status --porcelain)" && PKG=mock-omaha-server
export CARGO_TARGET_DIR=$WT-target CARGO_NET_OFFLINE=true
echo "== suite with change (excluding demo)"
cargo test --workspace --offline --no-fail-fast 2>&1 | grep -E "^test result|FAILED|failed" | grep -v "$DEMONAME" | sort | uniq -c > $OUT/suite_with_change.txt; cat $OUT/suite_with_change.txt
echo "== demo with change (must fail)"
cargo test -p $PKG --test $DEMONAME --offline 2>&1 | grep -E "^test result" | tee $OUT/demo_with_change.txt
git apply -R $OUT/patch.diff
echo "== demo without change (must pass)"
cargo test -p $PKG --test $DEMONAME --offline 2>&1 | grep -E "^test result" | tee $OUT/demo_without_change.txt
git apply $OUT/patch.diff
unset CARGO_TARGET_DIR
echo "== checks against the change"
cd /repo && git apply $OUT/patch.diff || { echo "patch does not apply to /repo"; exit 1; }
for P in "$@"; do
  ( cd /verif && ./check $P > $OUT/check_$P.txt 2>&1; echo "check $P exit=$?" | tee -a $OUT/check_$P.txt; grep -E "VIOLATION|KNOWN" $OUT/check_$P.txt )
done
cd /repo && git checkout -- . 
git -C /repo status --short | head -3
# evidence written while the change was applied describes the changed tree: put the committed evidence back
git -C /verif checkout -- evidence 2>/dev/null
