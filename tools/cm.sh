#!/bin/bash
# locked make inside coq/ (same lock the check uses)
cd /verif/coq && flock /verif/.cache/coq.lock timeout 1800 make "$@"
