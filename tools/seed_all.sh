#!/bin/bash
# seed_all.sh [pattern]   re-runs, for every stored seeded change, the check of the property it breaks (quick tier)
# and prints one line per change: caught (exit 1) / MISSED (exit 0), concrete or no-failing-input-found.
# /repo must be clean; each patch is applied, checked and reverted; committed evidence is restored at the end.
set -u
cd /repo && [ -z "$(git status --short)" ] || { echo "/repo is not clean"; exit 2; }
OUT=/verif/.cache/seed_all.txt; : > $OUT
for D in /verif/seeded/${1:-*}/; do
  [ -f $D/meta.json ] || continue
  ID=$(basename $D); P=$(python3 -c "import json;print(json.load(open('$D/meta.json'))['breaks_property'])")
  cd /repo && git apply $D/patch.diff 2>/dev/null || { echo "$ID $P PATCH-DOES-NOT-APPLY" | tee -a $OUT; continue; }
  ( cd /verif && ./check $P > /tmp/seed_all_$ID.txt 2>&1; echo $? > /tmp/seed_all_rc )
  RC=$(cat /tmp/seed_all_rc); V=$(grep -m1 VIOLATION /tmp/seed_all_$ID.txt)
  KIND=concrete; echo "$V" | grep -q no-failing-input-found && KIND=no-failing-input-found
  if [ "$RC" = 1 ]; then echo "$ID $P caught $KIND" | tee -a $OUT; else echo "$ID $P MISSED rc=$RC" | tee -a $OUT; fi
  rm -f /tmp/seed_all_$ID.txt
  cd /repo && git checkout -- .
done
git -C /verif checkout -- evidence 2>/dev/null
echo "== summary"; grep -c caught $OUT; grep MISSED $OUT; grep no-failing $OUT
