#!/usr/bin/env python3
"""Regenerates MANIFEST.json from tools/propconf.py (keeps claims and not_applicable in step)."""
import json, os, sys
ROOT = os.path.dirname(os.path.dirname(os.path.abspath(__file__)))
sys.path.insert(0, os.path.join(ROOT, "tools"))
import propconf
ALL = ["C%02d" % i for i in range(1, 21)]
checks = []
for p in ALL:
    c = propconf.PROPS.get(p)
    if not c or not c.get("claimed", True) or p in getattr(propconf, 'IN_PROGRESS', set()):
        continue
    checks.append({
        "property_id": p,
        "quick_cmd": "./check %s --tier quick" % p,
        "thorough_cmd": "./check %s --tier thorough" % p,
        "evidence_file": "/verif/evidence/%s.json" % p,
        "replay_cmd_template": "./check %s --replay {path}" % p,
        "engine": "coq-model+differential-harness",
        "level_claimed": {"category": "proof", "text": c["level_text"], "design_ref": c.get("design_ref", "DESIGN.md section 4, " + p)},
        "level_note": c["level_note"],
        "technique": c.get("technique", "Coq 8.16 theorems over a hand-written Gallina model; model tied to /repo by differential evaluation (vm_compute) of harness-run cases"),
    })
na = [{"property_id": p, "reason": propconf.NOT_YET.get(p, "check not built yet in this round; see DESIGN.md section 4 for the plan")}
      for p in ALL if p not in [c["property_id"] for c in checks]]
m = {
    "version": 1,
    "setup_cmd": "./setup.sh",
    "hooks": {"guard": "--cfg omaha_client_verif", "enable": "RUSTFLAGS=\"--cfg omaha_client_verif\" (set by ./check when it builds the harness against /repo); no hook commits exist: every observation goes through public traits and functions",
              "baseline_off_cmd": "cd /repo && cargo test --workspace --no-fail-fast --offline", "source_commits": [], "add_only": True},
    "engines": [{"name": "coq-model+differential-harness", "path": "/verif/check",
                 "serves_properties": [c["property_id"] for c in checks],
                 "kind_free_text": "Rocq/Coq 8.16.1 proofs about a Gallina model (coq/theories); Rust harness (harness/) runs the real crate on generated cases, Coq evaluates the model on the same cases"}],
    "checks": checks,
    "notes": "See DESIGN.md. Fix commits in /repo are listed in known_findings.txt.",
    "not_applicable": na,
}
json.dump(m, open(os.path.join(ROOT, "MANIFEST.json"), "w"), indent=1)
print("MANIFEST.json:", len(checks), "checks,", len(na), "not claimed")
