"""Per-property configuration for ./check."""

CODES = {1: "DIFF: the Coq model (proved to satisfy the property) and the implementation disagree on this input",
         2: "MON: the property's executable monitor rejects the implementation's observed behaviour",
         3: "ORACLE-MISS (harness bug)"}

COMMON_TB = [
    "Coq 8.16.1 kernel, vm_compute (no native_compute)",
    "no axioms: Print Assumptions of every property theorem is re-run on each check and must be 'Closed under the global context'",
    "hand-written Gallina model of the anchored Rust code (coq/theories/Model), tied to /repo by the differential harness (harness/, rebuilt against the working tree on each run)",
    "Rust harness + case emitters (harness/src), Python driver (check, tools/)",
]

NOT_YET = {}
IN_PROGRESS = set()

PROPS = {
    "C20": {
        "level_text": "All clauses are theorems about the Gallina model of version.rs for every byte string / every u32 tuple "
                      "(parse accepts exactly 1..4 dot-separated +?digits numerals < 2^32 and zero-fills; rejection iff >4 parts or a bad part; "
                      "print is the 4-part canonical form; parse(print v)=v; array conversion zero-fills; compare is the lexicographic numeric "
                      "total order; serde uses the canonical string).  The model is tied to the code by differential runs on every check.  Deserialisation is also run through a reader, a parsed Value and an escaped literal, and printing through placeholders that carry a precision; all routes must agree.",
        
        "level_note": "Proved for the model, unbounded. Model = code is validated on sampled inputs (thorough: exhaustive for strings of length <= 5 over 8 symbols). "
                      "Leading '+' is accepted by Rust's u32::from_str and therefore by the model (DESIGN.md section 6).",
        "run": ["EvalC20"],
        "n": {"quick": 3000, "thorough": 40000},
        "exhaustive": {"thorough": True},
        "diff_meaning": "The theorems of Props/C20.v determine parse/print/compare/serde results uniquely; "
                        "an input where omaha_client::version::Version differs from the model is an input on which the property fails.",
        "rule": "boundary grid + random dotted strings (parts drawn from 13 classes: empty, u32 max, overflow, signs, leading zeros, "
                "spaces, letters, non-ASCII), random component tuples biased to u32 boundaries; thorough adds all 37449 strings of "
                "length <= 5 over {0,1,9,.,+,-,space,a}.  distinct = distinct input; non-trivial = non-empty parse input or any non-parse case.",
        "assumptions": ["Version's in-memory layout is [u32;4] (read by transmute in the harness)",
                        "serde_json string quoting for digit/dot strings is a pair of quotes"],
        "trusted_base": COMMON_TB + ["modelled, not verified: omaha-client/src/version.rs (FromStr, Display, From<[u32;n]>, Ord, serde), "
                                     "Rust u32::from_str, itertools::format"],
    },
    "C19": {
        "run": ["EvalC19"],
        "n": {"quick": 2000, "thorough": 40000},
        "level_text": "Every clause is a theorem about the Gallina model of the time helpers for all Z (i64 / nanosecond) values: "
                      "from->to identity on all of i64; to_micros = truncation toward the epoch (Z.quot), None iff it does not fit; store/reload = truncation; "
                      "the truncation helper equals that round trip and is idempotent; partial/complete times keep their components under add/sub/complete_with/"
                      "destructure; is_after_or_eq_any iff a shared component is reached.  Model tied to the code by differential runs on boundary grids and random values.",
        "level_note": "Proved for the model, unbounded.  std::time arithmetic is modelled as exact integer arithmetic inside the platform range (inputs that make "
                      "std panic on overflow are outside the property's quantifier).  Model = code is sampled (boundary grid exhaustive).",
        "diff_meaning": "The theorems of Props/C19.v determine every result uniquely; an input where the real conversion / truncation / two-clock operation "
                        "differs from the model is an input on which the property fails.",
        "rule": "grid: (+-k us +- {0,1,999,500} ns, k<=3) x {to_micros, truncate, store_reload}; i64 micro extremes +-2 for both conversions; then random "
                "instants (8 magnitude classes up to the platform limit), random i64 micros, the 3 partial-time shapes with near-equal components.  distinct = distinct input.",
        "assumptions": ["std::time::{SystemTime,Instant,Duration} arithmetic is exact within range on Linux",
                        "MemStorage stores i64 values faithfully"],
        "trusted_base": COMMON_TB + ["modelled, not verified: time.rs (truncate_submicrosecond_walltime, is_after_or_eq_any, complete_with, destructure), "
                                     "time/complex.rs (Add/Sub impls, system_time_conversion), storage.rs (get_time/set_time)"],
    },
    "C15": {
        "run": ["EvalC15"],
        "n": {"quick": 400, "thorough": 8000},
        "level_text": "The request encoder (builder fold, AppEntry conversion, serde field order/skip rules, headers) is a Gallina function; theorems: the "
                      "fold over add_update_check/add_ping/add_event equals the declarative spec (apps once each in first-insertion order keeping the first "
                      "insertion's app data, flags/ping/events as the property says), building is a pure function of the builder.  The real RequestBuilder's "
                      "bytes are compared with the model's printed body byte for byte, and the model's JSON parser must read the real body back to the model tree.",
        "level_note": "Proved for the model; model = code sampled (random configs, params, op lists with repeated ids and differing cohorts, escapes, non-ASCII). "
                      "HashMap iteration order of extra_fields is taken from the real map (oracle). http::Uri rendering of the service URL is an oracle.",
        "diff_meaning": "The model's output is the spec's output (theorem C15_build_refines_spec); a request on which the real RequestBuilder's method/URI/headers/body differ is a wire-shape violation.",
        "rule": "random config (names incl. header-unsafe ones), params (16 combos), 1-4 app ids each with 1-2 variants (differing cohort/version/extras), 0-8 ops; "
                "distinct = distinct input; non-trivial = at least one op",
        "assumptions": ["serde_json compact printer escaping rules as modelled in Model/Json.v", "http lower-cases header names"],
        "trusted_base": COMMON_TB + ["modelled, not verified: request_builder.rs, protocol/request.rs serde derives, version Display"],
    },
    "C14": {
        "run": ["EvalProps"], "functional": False,
        "n": {"quick": 400, "thorough": 6000},
        "level_text": "The state machine is a total Gallina function from scripts to traces (no panic outcome exists in the model after the repairs).  Theorems: "
                      "C14_storage_failures_change_nothing_but_storage_operations_and_metrics (two-run theorem, proved with a relational Hoare logic over the model's monad, Proofs/C14Rel.v: "
                      "for every script and any two sets of failing storage operations the two traces are equal once storage operations and metrics are taken out - same requests, events, policy "
                      "questions, installer calls, clock readings, timers, control requests and replies, in the same order), its corollary C14_requests_and_events_as_if_storage_worked (the property's "
                      "wording, against the run in which no operation fails), and the two saturating-increment range theorems.  Tied to the code by running the real state machine "
                      "on scripted environments (extreme stored values, wrong types, clock jumps, storage faults, bad URLs) under catch_unwind with a TRACE-level "
                      "tracing subscriber and a poll watchdog, and comparing full traces; every run with storage failures is also repeated on the real machine with a working storage and "
                      "its requests and events compared (a difference is a concrete violation).",
        "level_note": "see DESIGN.md section 4 C14: panic-freedom of unmodelled code (logging, third-party crates) is exercised, not proved.",
        "diff_meaning": "The implementation panicked, hung, sent other requests or announced other events than the same run with a working storage (code 2), or produced a trace that differs from the model's on this scripted environment.",
        "rule": "random scripted environments biased to extreme stored values (0, +-1, u32::MAX+-1, i64 extremes, wrong types), clock jumps, storage faults and invalid URLs; "
                "distinct = distinct implementation trace; non-trivial = at least one HTTP request or completed check",
        "assumptions": ["harness trait implementations follow the trait contracts", "Storage trait contract: writes cached until commit"],
        "trusted_base": COMMON_TB + ["modelled, not verified: state_machine.rs, update_check.rs, builder.rs, app_set.rs, common.rs"],
    },
    "C01": {
        "run": ["EvalC01", "EvalC01Facts"],
        "n": {"quick": 30, "thorough": 150},
        "level_text": "Every clause is a theorem about the Gallina model of verify_response + verify_response_with_signature + parse_etag + the id->key map, "
                      "for all byte strings and for ARBITRARY sha256 / DER / ECDSA functions (explicit arguments, no axioms): accepted iff the first ETag is printable and, "
                      "after parse_etag, is hex(s) ':' hex(SHA-256(request body)) with s passing the DER check and verifying under the key the map holds for the id over "
                      "sha256(sha256 req ++ sha256 resp ++ dec id ++ ':' ++ hex nonce), s returned unchanged; plain/quoted/weak-quoted agree (exact side condition); "
                      "the outcome is Ok or one of the 8 error variants; tamper theorems for response body, request body, nonce, key id, hash half, signature, signing key.  Each authentic case is followed, on the SAME handler, by the same ETag over an altered response body and the stored signature over altered bodies (all must be refused) and by the genuine exchange again (must be accepted): the verifier is a function of its arguments whatever it verified before.",
        "level_note": "Proved for the model, unbounded. The tamper theorems carry their idealising premises explicitly (no SHA-256 collision on the two inputs compared, digests of a "
                      "fixed length, a signature verifies for at most one message under a key); ECDSA malleability is not excluded (the high-S twin is an authentic signature). "
                      "Model = code is sampled: authentic exchanges signed by the harness with p256 over a digest composed with sha2 (never make_transaction_hash), plus mutation streams; "
                      "the crypto tables the model is evaluated with come from sha2/p256 directly. 'No ETag text makes it panic' is by construction in the model and sampled "
                      "under catch_unwind on the binary (unsafe from_utf8_unchecked in parse_etag).",
        "diff_meaning": "Theorem C01_accept_iff and the rejection theorems determine the result (Ok signature / error variant) uniquely from the inputs and the primitives' verdicts; "
                        "a case where StandardCupv2Handler returns something else (or panics) is an input on which the property fails.",
        "rule": "n exchanges (random/JSON-like bodies 0-2 KiB, random nonce, 1-4 keys incl. duplicate ids, the same key under two ids, id absent from the set) x per-exchange mutation streams: "
                "3 encodings; single-bit flips of the ETag bytes (128 sampled; thorough: all ~1700 for one exchange in ten), of both bodies, nonce, key id; truncation from both ends; halves swapped/"
                "doubled/missing; hash prefix/extension; upper and mixed case; extra ':' parts; 20 quoting variants (one-sided, W/ without quotes, nested, 1-4 byte strings); empty/missing header; "
                "white space; opaque bytes; duplicate ETag headers; re-signed with another key; digest re-composed in the 5 other orders, with each component dropped, with raw bodies, with other "
                "renderings of id/nonce, with one hash fewer or more; non-DER, truncated, extended, zero-scalar and high-S signatures.  Header values that http::HeaderValue refuses are skipped.  "
                "distinct = distinct input; non-trivial = an ETag header is present.",
        "assumptions": ["sha2, p256, ecdsa (DER parser), hex and http::HeaderValue behave as their documentation says; their verdicts enter the model as lookup tables",
                        "HeaderMap::get returns the first value of a repeated header"],
        "trusted_base": COMMON_TB + ["modelled, not verified: omaha-client/src/cup_ecdsa.rs (StandardCupv2Handler::new, verify_response, make_transaction_hash, "
                                     "verify_response_with_signature, parse_etag), HeaderValue::to_str, hex::decode, str::split_once, u64 Display",
                                     "abstract in the proofs: SHA-256, DER decoding, ECDSA P-256 verification (RustCrypto crates, outside the repository)"],
    },
    "C05": {
        "anchors": "sm",
        "run": ["EvalProps"], "functional": False,
        "n": {"quick": 300, "thorough": 6000},
        "level_text": "Theorems C05_consent_monitor_accepts_every_model_trace and C05_reboot_only_after_an_install_with_no_failed_app: for every script (all policy, HTTP, installer, clock, storage answers and "
                      "stimuli), configuration, app set and entry point, the trace of the state-machine model is accepted by the executable consent monitor step5 "
                      "(requests only inside a check the policy allowed and carrying exactly its parameters; install only for an approved plan; reboot only after a "
                      "clean install with reboot_needed = yes and the latest reboot_allowed = yes; negative decisions lead to no request/install/reboot) and by step5b (the reboot-needed "
                      "question and the wait for the reboot only after an installer answer with no failure among the apps the response offered - judged by the installer's answer, not by the machine's own error events); "
                      "an invalid app set makes run() inert (C05_invalid_app_set_inert, C05_invalid_app_set_trace_is_empty: whatever is stored, the trace is empty - the check applies that rule to implementation traces).  The model is tied to the code by trace equality on scripted runs of the real state machine, and the same "
                      "monitors are run on every implementation trace.",
        "level_note": "Proved for the model by a trace-Hoare argument over SM.v (Proofs/C05Proof.v), unbounded in script length.  Model = code is sampled. "
                      "Control requests arrive only at the outer waits in this check's executor mode (in-check arrivals: C11).  Pings while waiting to reboot use the fixed "
                      "scheduled-task parameters (DESIGN.md section 6).",
        "diff_meaning": "The consent monitor rejects the implementation's trace (code 2), or the implementation's policy/request/installer projection differs from the model's.",
        "rule": "random scripted environments: all 5 check decisions, 3 install decisions, reboot needed/allowed sequences, 16 parameter combinations, invalid app sets, "
                "timer firings and control requests at the waits; distinct = distinct implementation trace; non-trivial = at least one request or completed check",
        "assumptions": ["harness trait implementations follow the trait contracts"],
        "trusted_base": COMMON_TB + ["modelled, not verified: state_machine.rs, request_builder.rs, common.rs (valid)"],
    },
    "C07": {
        "anchors": "sm",
        "run": ["EvalProps"], "functional": False,
        "n": {"quick": 300, "thorough": 8000},
        "level_text": "Theorems: (1) the accepted language of X-Retry-After is exactly +?digits < 2^64 giving min(N,86400) s, everything else absent (all byte strings); "
                      "(2) C07_poll_monitor_accepts_every_model_trace: for every script, configuration and entry point the model's trace is accepted by the executable monitor "
                      "step7 (interval in force = parse(first header) after every authenticated response of any status/kind, unchanged otherwise; every change announced, "
                      "written with the new value and committed before anything else; policy and observers always shown the interval in force); (3) restart loads what was stored. "
                      "Model tied to the code by trace equality on scripted runs; the monitor also runs on every implementation trace.",
        "level_note": "Proved for the model, unbounded.  Leading '+' accepted (Rust u64::from_str; DESIGN.md section 6).  Model = code sampled.",
        "diff_meaning": "The poll-interval monitor rejects the implementation's trace (code 2), or the request/protocol-state/policy/storage projection differs from the model's.",
        "rule": "random scripted environments, 80% of responses carrying X-Retry-After values from 14 classes (digits around 86400/2^32/2^64, signs, spaces, leading zeros, exponent, empty, two headers), "
                "all status classes and request kinds, CUP on/off with forged responses; distinct = distinct implementation trace; non-trivial = at least one request",
        "assumptions": ["harness trait implementations follow the trait contracts"],
        "trusted_base": COMMON_TB + ["modelled, not verified: state_machine.rs do_omaha_request_and_update_context, update_check.rs Context::load/persist"],
    },
    "C06": {
        "anchors": "sm",
        "run": ["EvalProps"], "functional": False,
        "n": {"quick": 300, "thorough": 6000},
        "level_text": "Theorems: C06_retry_monitor_accepts_every_model_trace, C06_every_attempt_keeps_the_session_id_with_a_fresh_request_id and C06_response_time_metric_accounts_for_exactly_the_attempts: for every script, configuration and entry point the model's trace is accepted by the executable "
                      "retry monitor step6 (at most 3 attempts; a further attempt only after a retryable outcome, with fewer than 3 attempts, no poll interval in force, and exactly "
                      "one wait inside the k-th window; no waits or retries among event reports; RequestsPerCheck = attempts made with the right success flag; the loop stops only "
                      "when it must) and by the id monitor step6ids (inside a check every request carries the session id of the check's first request; no request id is ever "
                      "seen twice over the whole history, pings and reports included) and by the response-time monitor step6r (exactly one response-time metric per attempt, carrying the monotonic time between "
                      "the two clock readings that bracket the attempt and the attempt's success; none on any other occasion).  Plus: the back-off window is attained by every value (randomised), and C06_the_random_draws_influence_nothing_but_the_length_of_the_waits (two-run theorem, Proofs/C06Rel.v: changing the random draws of the back-off leaves the run the same action for action except for the duration of relative waits).  Model tied to code by trace "
                      "equality; the three monitors also run on every implementation trace; observed jitter values are recorded.",
        "level_note": "Proved for the model, unbounded (GUIDs modelled as draws from an unbounded counter: the collision probability of real v4 UUIDs is not modelled).  "
                      "Jitter is compared by window.",
        "diff_meaning": "The retry monitor rejects the implementation's trace (code 2), or the request/wait/metric projection differs from the model's.",
        "rule": "random scripted environments with per-attempt outcomes from {transport error, timeout, caller error, status classes, X-Retry-After, forged, unparseable, success}; "
                "distinct = distinct implementation trace; non-trivial = at least one request",
        "assumptions": ["harness trait implementations follow the trait contracts"],
        "trusted_base": COMMON_TB + ["modelled, not verified: state_machine.rs perform_update_check attempt loop, do_omaha_request_and_update_context, randomize"],
    },
    "C13": {
        "run": ["EvalC13", "EvalC13any"], "functional": True,
        "n": {"quick": 500, "thorough": 3000},
        "level_text": "Two parts.  (A) State machine: C13_state_machine_delivers_progress_and_never_runs_ahead - for every script and entry point the trace of the state-machine model is accepted by the executable "
                      "monitor step13: every progress value the installer reports is delivered, in order, before anything else happens (so before the install's outcome is announced); a request goes out only after the "
                      "check (or, for a ping, the wait for the reboot) has announced itself, the installer is started only after InstallingUpdate has been taken, the reboot is performed only after WaitingForReboot has "
                      "been taken.  Tied to the code by scripted runs of the real state machine (events are recorded when the consumer takes them, calls when they are made; the scripted installer reports its progress "
                      "values one by one or all at once), monitor and trace equality as for the other state-machine properties.  (B) Generator.  Model/Gen.v transcribes async_generator.rs (generate, Yield::yield_/yield_all, Generator::poll_next, FusedStream) over a protocol-level "
                      "transcription of futures-channel 0.3.34 mpsc::channel(0) (park on every send, flush ready iff unparked, receive = pop + unpark + wake, AtomicWaker recv_task, "
                      "close on last sender drop) and of futures-util Send/SendAll/Fuse.  Theorems for ALL programs (lists of Yield/YieldAll/SelfWake/Wait k/DropHandle + return) and ALL "
                      "schedules (lists of Poll/Complete k), unbounded: C13_order_exactly_once (results = Pending/Yielded prefix whose values are a prefix of the emissions in order; "
                      "then all of them, exactly one Complete r, then None forever), C13_back_pressure + C13_done_log_exact (when Yielded x is returned the pc is still at the emitting "
                      "operation and no operation from it on has finished in this or an earlier poll), C13_no_lost_wakeup (every delivery wakes; a Pending poll either woke the root waker "
                      "or left the task parked on an uncompleted Wait whose completion wakes it), C13_liveness_bound / C13_liveness_progress (a consumer polling only when entitled needs "
                      "at most items+SelfWakes+Waits+3 polls, bound attained; an idle consumer whose awaited events are all completed has received the completion), "
                      "C13_monitor_accepts_model and three monitor-soundness theorems (acceptance of ANY observation list implies order/exactly-once, back-pressure on the observed "
                      "finished-operation log, wake-up discipline); C13_into_yielded_order / C13_into_complete_result for the two filter_map wrappers.  Tied to the code by running the same "
                      "programs on the real generate() (raw, .into_yielded(), .into_complete()) through an async interpreter, polled by hand with a counting root waker.  The harness, as an observer, also finds the shared storage and app set unlocked at every event it takes (a lock held across an emission would deadlock an observer that uses them: script-aware check, code 2); the scripted installer reports sequentially, concurrently, or hands its reports over and returns without waiting.",
        
        "level_note": "Proved for the model, unbounded.  Model = code is sampled (quick: ~500 random programs of length <= 30 x 4 schedules; thorough adds all programs of length <= 4 over "
                      "5 operations x all schedules of length <= 8).  The futures-channel model is hand-written from its source (third party); real wakers and memory ordering are runtime.  "
                      "The state-machine clauses of C13 (progress before outcome, APoll boundaries) are in the SM model, not in this check.",
        "diff_meaning": "The theorems of Props/C13.v hold of the model's observation list (poll results, wake flags, finished-operation log, parked-on event, is_terminated); "
                        "code 1: the real generator's observations differ from the model's on this program/schedule; code 2: they violate the executable monitor of "
                        "order / exactly-once / back-pressure / no-lost-wake-up (proved to accept every model run).",
        "rule": "10 fixed shapes x 3 consumption modes; n random programs (length 0..30, per-program operation weights, items 0..49, events 0..3) x 4 schedules each on the raw stream: "
                "executor (poll when entitled, complete the awaited event when idle; always runs to None), executor with unsolicited early completions, two random Poll/Complete mixes; plus one "
                "executor-or-random schedule each through .into_yielded() and .into_complete(); thorough adds 781 programs (length <= 4 over 5 operations) x 256 schedules (all of length 8 over "
                "{Poll, Complete 0}, which cover every shorter one as a prefix) exhaustively on the raw stream and the 156 programs of length <= 3 through both wrappers.  distinct = distinct (program, return, schedule); non-trivial = at least one Yielded or the Complete was observed.",
        "exhaustive": {"thorough": True},
        "assumptions": ["the harness's Wait/SelfWake futures and counting root waker follow the std::task contract",
                        "futures-channel 0.3.34 / futures-util 0.3.34 as locked in /repo/Cargo.lock"],
        "trusted_base": COMMON_TB + ["modelled, not verified: omaha-client/src/async_generator.rs; futures-channel mpsc (bounded), futures-util sink::Send/SendAll, future::Fuse, AtomicWaker"],
    },
    "C16": {
        "run": ["EvalC16"],
        "n": {"quick": 300, "thorough": 6000},
        "level_text": "The response parser is modelled as Model/Json.v (bytes -> JSON tree, iterative with an explicit stack) followed by Model/Response.v "
                      "(tree -> Response with serde's derive rules: required vs Option fields, null -> None, duplicate field -> error, unknown keys ignored by plain "
                      "structs and collected by the four #[serde(flatten)] structs, struct-from-sequence, field_identifier statuses, u32/u64 bounds, serde_json's 128 "
                      "recursion limit for kept values and none for ignored ones, one XSSI prefix).  Theorems for all byte strings / all documents: C16_total, "
                      "C16_stack_bounded_by_input + C16_no_fuel_error (every loop iteration consumes input; the stack never exceeds the input length; fuel is never the "
                      "reason for an error), C16_kept_values_within_limit, C16_prefix/_removed/_no_prefix/_only_one_prefix, C16_json_roundtrip (parse(print j) = j for every "
                      "well-formed tree), C16_roundtrip (parse_response(print_doc d) = Some d field for field, for every well-formed abstract document, with or without the "
                      "prefix), C16_status (unknown strings preserved as Error), C16_full_urls (membership, length, codebase-major index), C16_required_* (for ANY object: "
                      "deleting a required key or giving it a refused value makes the struct's decoder fail; per struct), C16_size_is_u64.  Tied to the code by running the "
                      "real parse_json_response on every case and comparing the converted Response with the model's inside Coq.",
        "level_note": "Proved for the model, unbounded.  Model = code is sampled (grammar documents + mutation streams + fixed limit probes).  Not modelled: the f64 "
                      "overflow check of serde_json for floats kept in extension attributes (cases whose model result keeps a float accept an Err from the code); stack usage "
                      "and panic-freedom of serde_json itself are runtime facts, exercised on a 256 KiB stack (deep cases first in a child process) under catch_unwind.  "
                      "Extension maps are BTreeMaps in the code (sorted, last duplicate wins) and document-ordered lists in the model; both sides are canonicalised before comparison.",
        "diff_meaning": "code 1: parse_json_response returned something else than the model (which is proved total and faithful) on this input: a well-formed document "
                        "decoded differently, or an accept/reject difference; code 2: the real parser panicked or overflowed its stack on this input.",
        "rule": "fixed: recursion-limit probes at 127-lvl-1..+2 nesting for each of the four kept positions (arrays and objects), 127..5000-deep nesting in ignored "
                "positions, 1..5000 unclosed brackets at top/ignored/kept positions, 2,000,000 unclosed brackets (totality only), 46 hand-written rule probes; "
                "136 JSON fragments (number, literal, string/escape, structure grammar incl. invalid ones) x 9 placements (typed number, typed string, kept extension, "
                "cohort, ignored, ignored-nested, ignored inside an app, key, whole document); one document with every struct and, for every field of every struct: "
                "removed, duplicated, replaced by each of 13 JSON shapes (null/bool/ints at the u32/u64 boundaries/negative/-0/float/string/array/object), plus every "
                "struct in array form of exact/short/long length; "
                "n grammar documents from an independent generator (0-4 apps/urls/actions/packages, every optional field absent/null/empty/present, known and unknown "
                "statuses, sizes around 2^32, 2^63, 2^64, extension attributes of every JSON type, unknown keys in plain structs, array form of plain structs, shuffled keys, "
                "random white space, \\u escapes incl. surrogate pairs, XSSI prefix on every third); truncation at every position of 2 small documents (thorough: 12, plus "
                "every single-bit flip of 3); ~4 mutations per document: required field removed, duplicated key, wrong type, null for required, nesting around and far beyond "
                "the limit in kept/ignored/typed positions, invalid UTF-8 and lone surrogates in kept vs ignored values and in keys, number variants (floats, -0, 2^32, 2^64, "
                "negatives), array forms of right/wrong length; bit flips, truncation, byte insert/delete/replace/swap, BOM, trailing garbage/white space, 7 XSSI variants; "
                "random bytes and random JSON-alphabet strings.  distinct = distinct input bytes; non-trivial = the code returned Ok (or crashed).",
        "assumptions": ["serde_json default features (BTreeMap maps, no arbitrary_precision, no unbounded_depth), as locked in /repo/Cargo.lock",
                        "Ping.status is private: read from the Debug rendering of Ping"],
        "trusted_base": COMMON_TB + ["modelled, not verified: omaha-client/src/protocol/response.rs (serde derives, parse_json_response, parse_safe_json, "
                                     "get_all_full_urls), protocol.rs (Cohort), serde_derive's generated visitors, serde's private Content/FlatMapDeserializer, "
                                     "serde_json's Deserializer (parse_str, ignore_value, number scanning, recursion limit)"],
    },
    "C02": {
        "anchors": "sm",
        "run": ["EvalProps"], "functional": False,
        "n": {"quick": 300, "thorough": 3000},
        "level_text": "Theorem C02_auth_monitor_accepts_every_model_trace: for every script, configuration and entry point the model's trace is accepted by the executable "
                      "monitor step2: after a response that fails authentication, as an update-check attempt there is no retry, no report, no installer call, no server-response "
                      "event, the result is the validation error with failure reason Internal, last-contact and the apps' cohort/user-counting data shown to the policy afterwards "
                      "are unchanged; as an event report the lost event is recorded before anything else; as a ping no last-contact announcement follows.  Poll-interval inertness is "
                      "C07's monitor.  The model is tied to the code by trace equality on scripted runs with the REAL StandardCupv2Handler and harness-signed/forged ETags "
                      "(unsigned, bad signature, other key, body tampered after signing, replay of an earlier genuine response); the monitor runs on every implementation trace.  Third theorem C02_what_an_unauthenticated_response_says_changes_nothing (two-run statement, relational Hoare logic, Proofs/C02Rel.v): with a CUP handler, for every script, changing in any responses that fail authentication what they say (status, X-Retry-After, body) leaves the run the same action for action - requests and their bytes, events, policy questions and the state shown, installer calls, storage operations, metrics, timers, replies - except for the outcome each request records.  Second theorem C02_forged_response_changes_no_protocol_state: the executable monitor step2b (no protocol-state change is announced between a response that fails authentication and the next schedule announcement) accepts every model trace; it also runs on every implementation trace.  'Counted as one failed check' and 'last-contact time untouched' are the rules of C08's proved monitor step8 (C08_bookkeeping_monitor_accepts_every_model_trace), which this check also runs on every implementation trace.",
        "level_note": "Proved for the model (the model takes the verifier's verdict as an input bit per response; the harness produces that verdict with real keys).  "
                      "'Changes nothing else' for event reports and pings is covered by trace equality with the model, in which a forged response and a transport error differ only in the error kind.",
        "diff_meaning": "The authentication monitor rejects the implementation's trace (code 2), or the projection (everything except timers and replies) differs from the model's.",
        "rule": "random scripted environments with CUP on, 45% of responses failing authentication in 5 ways at every request kind, combined with X-Retry-After, update offers, cohorts, non-2xx statuses; "
                "distinct = distinct implementation trace; non-trivial = at least one request",
        "assumptions": ["harness trait implementations follow the trait contracts", "p256/sha2 crates implement ECDSA/SHA-256"],
        "trusted_base": COMMON_TB + ["modelled, not verified: state_machine.rs; the verifier itself is C01's model"],
    },
    "C04": {
        "anchors": "sm",
        "run": ["EvalProps"], "functional": False,
        "n": {"quick": 300, "thorough": 6000},
        "level_text": "Theorems: (1) C04_event_monitor_accepts_every_model_trace: for every script, configuration, app set and entry point the model's trace is accepted by the executable monitor step4, "
                      "which reads the facts from the trace (outcome of the last attempt, document, plan, policy decision, per-app installer results, reboot-needed answer) and dictates the event stream: "
                      "CheckingForUpdates first; ErrorCheckingForUpdate iff no usable response; the server response iff authenticated, 2xx and parsed (and that very document); NoUpdateAvailable / "
                      "InstallingUpdate+InstallationError / InstallationDeferredByPolicy / InstallingUpdate, one InstallerError per failed app then InstallationError, per path; then schedule, protocol state and "
                      "exactly one result listing the response's apps in order with the action each received; those two announcements are what the policy is next shown; WaitingForReboot iff a reboot is pending, "
                      "then Idle; (2) the result functions are characterised for all responses and result vectors (C04_result_alignment etc.).  Model tied to the code by trace equality on scripted runs; "
                      "the monitor also runs on every implementation trace.",
        "level_note": "Proved for the model, unbounded.  Model = code is sampled on scripted runs.",
        "diff_meaning": "The event-stream monitor rejects the implementation's trace (code 2), or the event projection differs from the model's.",
        "rule": "random scripted environments over transport/HTTP/parse outcomes, multi-app responses with any subset offered, unknown and duplicate app ids, error/restricted statuses, shuffled order, 3 policy decisions, per-app installer results, reboot needed or not; distinct = distinct implementation trace; non-trivial = at least one request or completed check",
        "assumptions": ["harness trait implementations follow the trait contracts", "Storage trait contract: writes cached until commit, commit atomic"],
        "trusted_base": COMMON_TB + ["modelled, not verified: state_machine.rs, update_check.rs, builder.rs, app_set.rs, common.rs"],
    },
    "C08": {
        "anchors": "sm",
        "run": ["EvalProps"], "functional": False,
        "n": {"quick": 300, "thorough": 6000},
        "level_text": "Theorems: (1) C08_bookkeeping_monitor_accepts_every_model_trace: for every script, configuration, stored state and entry point the model's trace is accepted by the executable monitor "
                      "step8, which keeps the failure count (0 after a successful check or ping, saturating successor after a failed one) and the last-contact time (the clock reading at the end of a check that "
                      "got an answer - success, parser error, plan error - or after a successful ping; untouched otherwise) and demands that the schedule and protocol state announced with every result carry them, "
                      "that the policy is always shown them, and that right after the result the time (microseconds), the poll interval, the count and the apps are written and committed before anything else; "
                      "(2) storage written by Context::persist loads back to exactly the persisted count, poll interval and last-contact time at microsecond precision, never a mixture "
                      "(C08_rebuilt_state_is_last_persisted, C08_time_precision); the counter saturates; (3) C08_a_running_check_writes_only_what_was_announced: the monitor step8m - while a check is under way, every write to the "
                      "last-contact-time key and the failure-count key carries the value last announced, so a commit in the middle of a check (a changed poll interval is persisted at once) never stores values of the running check.  Model tied to the code by trace equality on scripted runs (storage operations with success flags, "
                      "clock readings, policy arguments, schedule/protocol/result/state events); the monitor also runs on every implementation trace.",
        "level_note": "Proved for the model, unbounded.  Crash consistency is composed of three parts: the monitor (each commit of a finished check carries exactly the machine's values, one commit per block - on model "
                      "traces by theorem, on implementation traces at run time); atomic commit, which is the Storage trait's contract (trusted base; the harness's storage keeps a pending and a committed view); and the "
                      "rebuild: for one history in five the harness takes every distinct committed view the real run left behind (what survives a crash at any instant after that commit), rebuilds the real state "
                      "machine on it and compares what it presents to its policy with the model's load of the same bytes (load after persist is the identity by theorem (2)).  The persist after a ping is compared by "
                      "trace equality only.  Model = code is sampled on scripted runs.",
        "diff_meaning": "The bookkeeping monitor rejects the implementation's trace (code 2), or the storage / clock / policy-argument / event projection differs from the model's.",
        "rule": "random scripted histories of check and ping outcomes without storage faults, plus, for one history in five, a rebuild of the real state machine on each distinct committed storage view that history produced (crash injection; up to 4 per history); distinct = distinct implementation trace; non-trivial = at least one request or completed check",
        "assumptions": ["harness trait implementations follow the trait contracts", "Storage trait contract: writes cached until commit, commit atomic"],
        "trusted_base": COMMON_TB + ["modelled, not verified: state_machine.rs, update_check.rs, builder.rs, app_set.rs, common.rs"],
    },
    "C09": {
        "anchors": "sm",
        "run": ["EvalProps"], "functional": False,
        "n": {"quick": 300, "thorough": 6000},
        "level_text": "Theorems: (1) cohort merge is field-wise (present, even empty, replaces; absent keeps); apps not named are unchanged, named apps take the first naming response's cohort merge and day number; "
                      "(2) restart: the value written for an app reads back exactly (every cohort of UTF-8 strings, every u32 date) and App::load restores it into every field left unset (C09_stored_value_reads_back, "
                      "C09_restart_fills_unset_fields); (3) C09_monitor_accepts_every_model_trace: for every script, configuration, app set, stored state and entry point the model's trace is accepted by the "
                      "executable monitor step9, which keeps the app set as it must currently be (changed only by a successful check's result and a successful ping's document) and demands that every request "
                      "carries the current cohort and ping dates, that the policy is always shown the current app set, and that right after a result / a successful ping every app is written with exactly its "
                      "current persisted form, in order, and committed before anything else.  Model tied to the code by trace equality on scripted runs (requests, per-app storage writes, apps shown to the policy); "
                      "the monitor also runs on every implementation trace.",
        "level_note": "Proved for the model, unbounded.  The request clause is proved in the form 'the cohort and dates of an app of the set with that id' (app sets with duplicate ids are not distinguished).  "
                      "Model = code is sampled on scripted runs; the stored-value decoder is modelled for the object form serde writes.",
        "diff_meaning": "The monitor rejects the implementation's trace (code 2), or the request / storage / policy projection differs from the model's.",
        "rule": "random histories of responses carrying every subset of the three cohort fields (present-empty vs absent), any daystart, any subset of a 1-3 app set, failed checks, pings, stored PersistedApp values incl. malformed ones; distinct = distinct implementation trace; non-trivial = at least one request or completed check",
        "assumptions": ["harness trait implementations follow the trait contracts", "Storage trait contract: writes cached until commit, commit atomic"],
        "trusted_base": COMMON_TB + ["modelled, not verified: state_machine.rs, update_check.rs, builder.rs, app_set.rs, common.rs"],
    },
    "C10": {
        "anchors": "sm",
        "run": ["EvalProps"], "functional": False,
        "n": {"quick": 300, "thorough": 6000},
        "level_text": "Theorems: (1) C10_report_monitor_accepts_every_model_trace: for every script, configuration, app set and entry point the model's trace is accepted by the executable monitor "
                      "step10: update-check requests and pings carry no event; after the attempts the path taken (unparseable body / plan refused / policy deferred or denied / approved install with per-app "
                      "results) fixes the reports owed, each discharged by exactly one request carrying exactly the expected events for exactly the expected apps (previous version = current version, next "
                      "version = an offered manifest version), or by one lost-event metric per event when it cannot be delivered; no other request, no retry, result only when nothing is owed; "
                      "(2) C10_reports_stay_in_the_session_with_fresh_request_ids: the same for the id monitor step6ids (every request of a check carries the session id of its first request, no request id twice); "
                      "(3) C10_a_lost_event_follows_a_failed_exchange: the same for the monitor step10l (when the service URL is valid and the updater name and app ids are acceptable header values, so that every request can be built, "
                      "a lost-event metric only follows a request whose exchange failed: no report is written off without having been attempted); "
                      "(4) C10_report_ok_meaning, C10_report_for_exactly_the_offered_known_apps, C10_event_versions, C10_templates.  Model tied to the code by trace equality on scripted runs; "
                      "the three monitors also run on every implementation trace.",
        "level_note": "Proved for the model, unbounded (GUIDs modelled as draws from an unbounded counter).  Model = code is sampled on scripted runs.",
        "diff_meaning": "The report monitor (or the id monitor, or the loss monitor) rejects the implementation's trace (code 2), or the request / lost-metric / installer / result projection differs from the model's.",
        "rule": "random scripted environments with update offers for any subset of 1-3 apps, plan failure, 3 policy decisions, per-app results, and every delivery outcome (ok, transport, HTTP error, forged) of each report; distinct = distinct implementation trace; non-trivial = at least one request or completed check",
        "assumptions": ["harness trait implementations follow the trait contracts", "Storage trait contract: writes cached until commit, commit atomic"],
        "trusted_base": COMMON_TB + ["modelled, not verified: state_machine.rs, update_check.rs, builder.rs, app_set.rs, common.rs"],
    },
    "C12": {
        "anchors": "sm",
        "run": ["EvalProps"], "functional": False,
        "n": {"quick": 300, "thorough": 6000},
        "level_text": "Theorems: (1) the timer branch of the wait is taken only after every armed timer has fired (any order), a control request wakes the machine without a timer, partial firings leave it waiting "
                      "(theorems about the model's select: firings are environment inputs, invisible to a trace monitor); (2) C12_arming_monitor_accepts_every_model_trace: for every script and entry point the "
                      "model's trace is accepted by the executable monitor step12: after every answer of the policy to the next-time question the very next actions are the schedule announcement carrying that answer, "
                      "then a timer for exactly the minimum wait when there is one, then a timer for exactly the time bound; no time-bound timer is armed otherwise; every later schedule announcement still carries "
                      "the latest answer; the same for the ping waits while waiting for the reboot.  Model tied to the code by trace equality on scripted runs (policy questions, schedule announcements, every "
                      "timer armed with kind and value, state events, pings, reboot); the monitor also runs on every implementation trace.  (3) C12_reboot_wait_* and C12_ping_turn_never_asks: while waiting for the reboot "
                      "the question is asked only in the turn where the reboot timer fires and in the turn that sees an on-demand request.",
        "level_note": "Proved for the model, unbounded.  'The reboot question is re-asked only when its 30-minute timer fires or an on-demand request arrives' is stated turn by turn (C12_reboot_wait_*: what one turn of "
                      "the wait loop does for each kind of stimulus; C12_ping_turn_never_asks: the ping and the re-arming of its timers never ask), since firings are inputs and not visible in a trace.  "
                      "Model = code is sampled on scripted runs.",
        "diff_meaning": "The arming monitor rejects the implementation's trace (code 2), or the policy/schedule/timer/state/ping/reboot projection differs from the model's.",
        "rule": "random scripts with all timing shapes, minimum wait present/absent, firing orders and proper subsets, control requests, plus 35% directed wait-for-reboot histories (install succeeds, reboot refused 3-8 times, pings with and without minimum wait, reboot-timer firings, control requests of both kinds); distinct = distinct implementation trace; non-trivial = at least one request or completed check",
        "assumptions": ["harness trait implementations follow the trait contracts", "Storage trait contract: writes cached until commit, commit atomic"],
        "trusted_base": COMMON_TB + ["modelled, not verified: state_machine.rs, update_check.rs, builder.rs, app_set.rs, common.rs"],
    },
    "C18": {
        "anchors": "sm",
        "run": ["EvalProps"], "functional": False,
        "n": {"quick": 300, "thorough": 6000},
        "level_text": "Theorems: (1) the waited-for-reboot duration is finish -> start of this state machine, reported only with consistent clocks and independent of reporting delay; the install-attempt counter "
                      "saturates; (2) C18_bookkeeping_monitor_accepts_every_model_trace: for every script, configuration, stored state, entry point and every app set whose ids do not collide with the five bookkeeping "
                      "keys, the model's trace is accepted by the executable monitor step18 (Model/Monitors18.v), which keeps a ghost copy of the storage view the machine reads (linked to the model's store in the proof, "
                      "Proofs/MonitorL.v) and demands: the plan id is rewritten only for a different plan and the first-seen time only together with it (as the current time); the first-seen duration metric uses the time "
                      "on record; the attempts metric carries the stored count + 1 (saturating), is reported exactly for installs that failed or installed something, with the right verdict, and is followed by the "
                      "matching counter write or removal before the result; finish time and the system app's offered version are written and committed before the reboot-needed question; the waited-for-reboot "
                      "duration is reported at most once, only on the recorded target version, with exactly the duration of (1), followed by removal of both keys and a commit.  Model tied to the code by trace "
                      "equality on the storage / clock / installer / metric projection; the monitor also runs on every implementation trace.",
        "level_note": "Proved for the model, unbounded, under the premise that no app id equals a bookkeeping key.  Restart is covered by starting the monitor from the store the machine is built on; that the store "
                      "survives a restart is the Storage contract (trusted base).  Model = code is sampled on scripted runs.",
        "diff_meaning": "The bookkeeping monitor rejects the implementation's trace (code 2), or the storage / clock / installer / metric projection differs from the model's.",
        "rule": "random scripted histories of install attempts (plan ids from a small alphabet, per-app results, manifest version present or not) with stored first-seen/finish/target-version values of every kind, clock steps; distinct = distinct implementation trace; non-trivial = at least one request or completed check",
        "assumptions": ["harness trait implementations follow the trait contracts", "Storage trait contract: writes cached until commit, commit atomic"],
        "trusted_base": COMMON_TB + ["modelled, not verified: state_machine.rs, update_check.rs, builder.rs, app_set.rs, common.rs"],
    },
    "C03": {
        "run": ["EvalC03"], "functional": False,
        "n": {"quick": 400, "thorough": 6000},
        "level_text": "Theorems: (1) append_query leaves prefix (scheme, authority) and path untouched and appends exactly one parameter (empty query gives '?&k=v'); the number of cup2key parameters grows by exactly one; "
                      "the cup2key value never contains '&'; (2) C03_decoration_monitor_accepts_every_model_trace: for every script, URL, key id and entry point every request of the model's trace (update check, retry, "
                      "report, ping) is accepted by the executable monitor step3a: the configured URL with scheme, authority, path and old query intact plus exactly cup2key=<latest id>:<at least 64 hex digits>, "
                      "no decoration without a handler, and the installer gets signed metadata exactly with CUP; (3) C03_no_nonce_is_ever_used_twice: the same for step3f, which adds that the nonce of every request differs from the "
                      "nonce of every earlier request of the history (the machine draws afresh for every request it sends; invariant over monitor state and the environment's nonce counter, Proofs/MonitorG.v).  The real RequestBuilder + StandardCupv2Handler are compared byte for byte with the model on a URL corpus "
                      "(no path, '/', deep path, existing/empty query, port, userinfo, IPv6 with zone, fragment, existing cup2key, relative, authority-only, '*', invalid): wire URI, wire body = metadata body, key id = latest, "
                      "nonce in the URL = metadata nonce (64 lower-case hex), two builds give different nonces.  Scripted state-machine histories run under step3a, step3f and under the stricter run-time monitor step3 "
                      "(exactly 64 digits, nonces pairwise distinct over the history, installer metadata = wire) and are compared with the model's requests.",
        "level_note": "PARTIAL: 'exactly 64 digits' and 'metadata = bytes sent' are run-time checks + correspondence, not theorems (the model's nonce text is a zero-padded counter, 64 digits only below 10^64).  The "
                      "freshness theorem is about the machine (one new draw per request sent); that two random 256-bit draws differ is probabilistic and assumed.  http::Uri parsing is an oracle; for URL shapes that are neither absolute nor origin-form only 'no panic' is compared.",
        "diff_meaning": "A decorated request differs from the model (URI, body, metadata, key id, nonce reuse), or the run-time decoration monitor rejects an implementation trace.",
        "rule": "22-URL corpus x random configs/params/op lists/key sets (latest id from {0,1,42,123456789,u64::MAX}); plus random CUP-enabled state-machine histories with retries, reports and pings; distinct = distinct input / trace",
        "assumptions": ["http::Uri parsing/rendering (oracle)", "rand::thread_rng yields distinct 256-bit values"],
        "trusted_base": COMMON_TB + ["modelled, not verified: http_uri_ext.rs append_query_parameter, cup_ecdsa.rs decorate_request, request_builder.rs build"],
    },
    "C17": {
        "run": ["EvalC17"], "functional": True,
        "n": {"quick": 120, "thorough": 1500},
        "level_text": "The mock server is modelled as Model/MockServer.v (request JSON read as a serde_json::Value with last-wins keys, the per-app assertions and reply assembly of handle_omaha_request "
                      "in request order, json! as BTreeMap insertion so the printed reply has sorted keys, make_etag in its REPAIRED reading: query pairs of the origin-form URI by form_urlencoded rules, "
                      "the first pair named cup2key wherever it stands, key lookup latest-then-historical first match, digest over SHA-256(request), SHA-256(reply) and the raw cup2key value, "
                      "hex(sig) ':' hex(request hash); etag_override, require_cup, serde decoding of the set_responses body) and proved against the client's own models: Request.v (encoder), "
                      "Response.v (parse_response), Cup.v (verify).  Theorems, for every builder state / configuration / URI and ARBITRARY sha256, sign, DER and ECDSA functions: C17_reply_parses "
                      "(a served request gets a reply that parse_response maps to exactly expected_response: the requested apps in request order with the configured decision, or a parse failure iff a requested "
                      "check is configured InvalidResponse), C17_expected_apps / _request_order / _decisions / _invalid_response_refused / _otherwise_accepted (what expected_response says), C17_request_wellformed, "
                      "C17_decoration_found (the client's append_query_parameter decoration is found for any service URL path and query), C17_etag_verifies + C17_etag_shape + C17_key_lookup, "
                      "C17_etag_only_this_exchange (refused for any other request body, reply body, nonce or key id, under C01's idealisations), C17_no_cup_no_etag, C17_unknown_key_no_etag, C17_no_etag_refused, "
                      "C17_forced_etag, C17_reconfigure (+ _keeps_rest, _refused, _reconfigure_reply_parses), C17_d5_class.  Tied to the code by whole histories against the real in-process server: "
                      "requests built by the real RequestBuilder and StandardCupv2Handler, the real handle_request under catch_unwind, and every reply pushed through the real verify_response and "
                      "parse_json_response and offered to every other exchange of the history; the real state machine (oneshot_check) is driven against the in-process server for every configured kind, "
                      "with and without CUP, and with a forced ETag.",
        "level_note": "Proved for the model, unbounded.  Model = code is sampled.  The model is make_etag as repaired by /repo commit a35419c (cup2key looked up by name): before it the code panicked on the class d5_class (service URL with a path and no cup2key, "
                      "or any query parameter before cup2key - every decorated service URL with a query, because the client appends); a panic on such an input is reported with code 5.  "
                      "Key ids are pairwise distinct in the generator (DESIGN.md section 6).  Not modelled: the f64 overflow check of float literals "
                      "in a request body (the client writes none), lossy UTF-8 decoding of percent-escapes above 0x7F in the query (not generated).  A ping-only request (no updatecheck, no event) makes the mock "
                      "panic by design (lib.rs:641) and is outside the theorem's hypothesis; the state machine sends such requests only while waiting for a reboot.",
        "diff_meaning": "code 1: the real server (or the real client on the server's reply) did something else than the models on this history: another body, status, ETag, Content-Length, a panic where the model "
                        "replies or a reply where it panics, another verify_response verdict, another parse result; code 2: a clause of the property fails on the observations alone: the ETag of an exchange was "
                        "accepted for another exchange, a served and CUP-decorated request under a key pair both sides hold was not accepted, a served request was not parsed to the configured decisions, "
                        "or the state machine did not reach the configured outcome; code 5: the server panicked in make_etag on an input of class D5 where the repaired model replies.",
        "rule": "fixed: the real state machine against the in-process server for each of the 5 configured kinds with and without CUP, and forced ETag with/without CUP (13 runs); "
                "n random histories: 1-4 apps (ids incl. non-ASCII / JSON-escaped text), response map with every kind, version / check / cohort assertions (1 in 4 histories also with mismatching ones), "
                "1-3 server keys and client key sets whose latest is the server's latest, a historical one, unknown to the server, or another pair under the same id, no client keys, etag_override (plain, quoted), "
                "require_cup; 2-5 steps each: update checks of all configured apps in any order with pings and events, event reports of subsets, refused requests (proper subset checked, unknown app, ping only), "
                "reconfigurations (new kinds for a subset, serde variants: null/absent options, object-form enum, unknown fields; 5 odd and 10 broken bodies); 12 service URLs (no path, '/', deep paths, "
                "percent-escapes, queries with one or several parameters, empty query, escapes and '+' in the query, names that share a prefix with cup2key); all four request-parameter flags, request/session ids; "
                "every reply is offered to every other CUP exchange of its history.  distinct = distinct input; non-trivial = CUP used or more than one step.",
        "assumptions": ["sha2, p256 (RFC 6979 deterministic signing, DER), hex, url 1.7 form_urlencoded and http::Uri behave as documented; their verdicts enter the models as lookup tables / printed URIs",
                        "key ids pairwise distinct within a key set (DESIGN.md section 6)",
                        "C17_etag_verifies: the client's public key verifies what the server's secret key signs (premise), signatures and digests are byte strings",
                        "C17_etag_only_this_exchange: no SHA-256 collision on the inputs compared, digests of a fixed length, a signature verifies for at most one message under the client's keys (premises)"],
        "trusted_base": COMMON_TB + ["modelled, not verified: mock-omaha-server/src/lib.rs (make_etag, handle_request, handle_set_responses, handle_omaha_request, PrivateKeys::find), serde_json::Value / json! / to_vec, "
                                     "serde derive for ResponseAndMetadata, url::form_urlencoded::parse, http_uri_ext.rs append_query_parameter; on the client side the models of C01, C15, C16",
                                     "abstract in the proofs: SHA-256, ECDSA P-256 signing and verification, DER (RustCrypto crates, outside the repository)"],
    },
    "C11": {
        "anchors": "sm",
        "run": ["EvalProps"], "functional": False,
        "n": {"quick": 300, "thorough": 4000},
        "level_text": "Theorems: (1) C11_no_reply_without_request_and_never_two: the executable monitor step11a (every reply answers a request that was sent and is still unanswered, no request "
                      "is answered twice, ids never reused) accepts every model trace, for every script and entry point; (2) C11_every_reply_is_the_truthful_one: the executable monitor step11x "
                      "(Started / Throttled only for the oldest outstanding request, right after the check-allowed question asked with that request's options and matching the policy's answer; "
                      "AlreadyRunning only during a check or the wait for the reboot; the reboot question is asked with the check's source, upgraded to on-demand by an on-demand request; a positive "
                      "answer is followed by the reboot before any request, timer or schedule question; an on-demand request during the wait for the reboot gets the question asked again before the "
                      "next ping) accepts every model trace of the scheduled entry point.  Both invariants tie the monitor's outstanding requests (and upgrade flag) to the model's queue of requests in "
                      "flight, so they are proved with triples over monitor state and environment (Proofs/MonitorG.v).  (3) the reply rules of the three places where the model answers a request, a "
                      "queued request wakes a waiting machine before any timer, dropped handles leave the timers in charge.  Model tied to the code by trace equality: requests are injected after "
                      "arbitrary events (attempts, reports, installs, progress, reboot waits, pings) and at every wait; handle drops and requests on a dead machine (must fail with StateMachineGone "
                      "at once) are exercised by the harness.  Both monitors also run on every implementation trace.",
        "level_note": "Proved for the model, unbounded.  'At least one reply' is liveness: a finite trace may end with requests outstanding; the harness checks that those fail with StateMachineGone at "
                      "once.  The real select!'s random branch order and futures-channel internals are not modelled; the racy point right after the check's result event is excluded from the "
                      "deterministic scripts.  Model = code is sampled on scripted runs.",
        "diff_meaning": "The control-request monitor rejects the implementation's trace, a request hung / was answered on a dead machine, or the request/reply/policy/state projection differs from the model's.",
        "rule": "random scripted environments, 90% with 1-4 requests injected after arbitrary events, control requests at waits, 15% dropping all handles; distinct = distinct implementation trace; "
                "non-trivial = at least one request or completed check",
        "assumptions": ["harness trait implementations follow the trait contracts", "futures mpsc channel is FIFO"],
        "trusted_base": COMMON_TB + ["modelled, not verified: state_machine.rs run / wait_for_reboot select loops, ControlHandle"],
    },
}
