"""Per-property configuration for ./check."""

CODES = {1: "DIFF: the Coq model (proved to satisfy the property) and the implementation disagree on this input",
         2: "MON: the property's executable monitor rejects the implementation's observed behaviour",
         3: "ORACLE-MISS (harness bug)"}

COMMON_TB = [
    "Coq 8.16.1 kernel, vm_compute (no native_compute)",
    "no axioms: Print Assumptions of every property theorem is re-run on each check and must be 'Closed under the global context'",
    "hand-written Gallina model of the anchored Rust code (coq/theories/Model), tied to /repo by the differential harness (harness/, rebuilt against the working tree on each run)",
    "Rust harness + case emitters (harness/src), Python driver (check, tools/)",
]

NOT_YET = {}

PROPS = {
    "C20": {
        "level_text": "All clauses are theorems about the Gallina model of version.rs for every byte string / every u32 tuple "
                      "(parse accepts exactly 1..4 dot-separated +?digits numerals < 2^32 and zero-fills; rejection iff >4 parts or a bad part; "
                      "print is the 4-part canonical form; parse(print v)=v; array conversion zero-fills; compare is the lexicographic numeric "
                      "total order; serde uses the canonical string).  The model is tied to the code by differential runs on every check.",
        "level_note": "Proved for the model, unbounded. Model = code is validated on sampled inputs (thorough: exhaustive for strings of length <= 5 over 8 symbols). "
                      "Leading '+' is accepted by Rust's u32::from_str and therefore by the model (DESIGN.md section 6).",
        "run": ["EvalC20"],
        "n": {"quick": 3000, "thorough": 40000},
        "exhaustive": {"thorough": True},
        "diff_meaning": "The theorems of Props/C20.v determine parse/print/compare/serde results uniquely; "
                        "an input where omaha_client::version::Version differs from the model is an input on which the property fails.",
        "rule": "boundary grid + random dotted strings (parts drawn from 13 classes: empty, u32 max, overflow, signs, leading zeros, "
                "spaces, letters, non-ASCII), random component tuples biased to u32 boundaries; thorough adds all 37449 strings of "
                "length <= 5 over {0,1,9,.,+,-,space,a}.  distinct = distinct input; non-trivial = non-empty parse input or any non-parse case.",
        "assumptions": ["Version's in-memory layout is [u32;4] (read by transmute in the harness)",
                        "serde_json string quoting for digit/dot strings is a pair of quotes"],
        "trusted_base": COMMON_TB + ["modelled, not verified: omaha-client/src/version.rs (FromStr, Display, From<[u32;n]>, Ord, serde), "
                                     "Rust u32::from_str, itertools::format"],
    },
}
