#!/bin/bash
# seed_confirm.sh <worktree-name> <seed-id>   (the first half of seed_eval.sh: no check is run, /repo is not touched)
# Confirms a seeded change (compiles, suite passes, demo fails with / passes without), stores it under
# /verif/seeded/<seed-id>/, runs the given checks against it (applied to /repo, reverted afterwards).
set -u
WT=${WTROOT:-/tmp/wt}/$1; SID=$2
OUT=/verif/seeded/$SID; mkdir -p $OUT
cd $WT
git diff -- . ':(exclude)*/tests/demo_*' > $OUT/patch.diff
DEMO=$(git status --porcelain | grep '??' | awk '{print $2}' | head -1)
find $WT -name 'demo_*.rs' -newer $WT/Cargo.toml -exec cp {} $OUT/ \; 2>/dev/null
DEMOFILE=$(ls $OUT/demo_*.rs 2>/dev/null | head -1); DEMONAME=$(basename ${DEMOFILE:-none} .rs)
PKG=omaha_client; grep -q mock-omaha-server/tests <<< "$(cd $WT; git status --porcelain)" && PKG=mock-omaha-server
export CARGO_TARGET_DIR=$WT-target CARGO_NET_OFFLINE=true
echo "== suite with change (excluding demo)"
cargo test --workspace --offline --no-fail-fast -j4 2>&1 | grep -E "^test result|FAILED|failed" | grep -v "$DEMONAME" | sort | uniq -c > $OUT/suite_with_change.txt; cat $OUT/suite_with_change.txt
echo "== demo with change (must fail)"
cargo test -p $PKG --test $DEMONAME --offline -j4 2>&1 | grep -E "^test result" | tee $OUT/demo_with_change.txt
git apply -R $OUT/patch.diff
echo "== demo without change (must pass)"
cargo test -p $PKG --test $DEMONAME --offline -j4 2>&1 | grep -E "^test result" | tee $OUT/demo_without_change.txt
git apply $OUT/patch.diff
unset CARGO_TARGET_DIR
