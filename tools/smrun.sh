#!/bin/sh
# smrun.sh PROP N SEED — generate cases with the harness and evaluate them in Coq (development helper)
P=$1; N=${2:-160}; S=${3:-5}
D=/verif/coq/gen/$P; mkdir -p $D
/verif/tools/vh.sh $P --out $D --n $N --seed $S --shards 16 | tail -1
cd $D && for i in $(seq 0 15); do (coqc -noglob -Q /verif/coq/theories Verif cases_$i.v 2>&1 | tr -d '\n' ; echo) & done | sort | uniq -c; wait
