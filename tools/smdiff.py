#!/usr/bin/env python3
"""smdiff.py GENDIR CASEIDX [ACTIONIDX] — show model vs implementation action at the first differing index"""
import sys, re, json, subprocess, os, glob
gendir, idx = sys.argv[1], int(sys.argv[2])
side = json.load(open(os.path.join(gendir, "cases.json")))
shards = side["shards"]
f = os.path.join(gendir, "cases_%d.v" % (idx % shards))
src = open(f).read()
# extract the case text: "(idx, KSm ... )" up to next ";\n(" or "\n]."
m = re.search(r"^\(%d, (KSm.*?)\)(?=;\n\(|\n\]\.)" % idx, src, flags=re.S | re.M)
case = m.group(1)
ai = sys.argv[3] if len(sys.argv) > 3 else None
hdr = src.split("Definition cases")[0]
out = hdr + "Definition c := %s.\n" % case
if ai is None:
    out += "Eval vm_compute in (sm_check proj_all mon_true c).\n"
    out += "Eval vm_compute in (length (model_trace c), length (impl_trace c)).\n"
else:
    out += "Eval vm_compute in (nth_error (canon_trace (model_trace c)) %s).\n" % ai
    out += "Eval vm_compute in (nth_error (canon_trace (impl_trace c)) %s).\n" % ai
open(os.path.join(gendir, "dbg.v"), "w").write(out)
r = subprocess.run(["coqc", "-noglob", "-Q", "/verif/coq/theories", "Verif", "dbg.v"], cwd=gendir, capture_output=True, text=True)
def render(m):
    nums=[int(x) for x in re.findall(r"\d+", m.group(0))]
    if nums and all(n<256 for n in nums):
        return repr(bytes(nums).decode("utf8","replace"))
    return m.group(0)
txt=re.sub(r"\[\s*\d+(?:;\s*\d+)*\s*\]", render, r.stdout)
txt=" ".join(txt.split())
txt=txt.replace("= Some","\n= Some")
print(txt[-9000:], r.stderr[-2000:])
print("--- impl trace (json) ---")
for i, l in enumerate(side["cases"][idx]["impl_trace"]):
    print(i, l[:300])
if "impl_panic" in side["cases"][idx]: print("PANIC:", side["cases"][idx]["impl_panic"])
