(* Props/C18.v — Update-attempt bookkeeping spans attempts and reboots.
   Proved: the waited-for-reboot computation, the saturating counter, and
   C18_bookkeeping_monitor_accepts_every_model_trace: every trace of the model is accepted by the executable monitor
   step18 (Model/Monitors18.v), for every app set whose ids do not collide with the five bookkeeping keys.  The monitor
   keeps a ghost copy of the storage view the machine reads (a refused write changes nothing) and the proof links it to
   the model's store (Proofs/MonitorL.v), so values read back from storage are covered too.
   Restart ("survives restarts", "the first state machine started on that target version"): the monitor starts from the
   store the machine is built on, so a history of runs is a sequence of accepted traces each starting from the
   previous run's store; that the store survives is the Storage contract (trusted base). *)
Require Import Verif.Model.Time Verif.Base.Bytes Verif.Model.Env Verif.Model.SM Verif.Proofs.SMPure.
Open Scope Z_scope.

(* reported duration = finish -> start of this state machine, and only with consistent clocks *)
Theorem C18_waited_for_reboot_value :
  forall finish start n d, waited_for_reboot finish start n = Some d <->
    finish <= wall n /\ start <= mono n /\ d = (wall n - finish) - (mono n - start) /\ 0 <= d.
Proof. exact waited_for_reboot_some. Qed.

Theorem C18_waited_for_reboot_none_iff_inconsistent :
  forall finish start n, waited_for_reboot finish start n = None <->
    wall n < finish \/ mono n < start \/ (wall n - finish) - (mono n - start) < 0.
Proof. exact waited_for_reboot_none. Qed.

(* unaffected by later delays: reporting later (both clocks advanced by the same delay) gives the same value *)
Theorem C18_unaffected_by_report_delay :
  forall finish start n delay d, 0 <= delay -> waited_for_reboot finish start n = Some d ->
    waited_for_reboot finish start {| wall := wall n + delay; mono := mono n + delay |} = Some d.
Proof.
  intros finish start n delay d Hd H. rewrite waited_for_reboot_delay_independent by exact Hd. rewrite H. reflexivity.
Qed.

(* the install-attempt counter saturates instead of overflowing *)
Theorem C18_counter_saturates : forall z, i64_min <= z <= i64_max -> z <= sat_inc_i64 z <= i64_max.
Proof. intros z H. unfold sat_inc_i64. destruct (z <? i64_max) eqn:E; [apply Z.ltb_lt in E|apply Z.ltb_ge in E]; unfold i64_max, i64_min in *; lia. Qed.

Print Assumptions C18_waited_for_reboot_value.

(* ---- the monitor (Model/Monitors18.v step18) accepts every trace of the model ----
   step18 demands, against its ghost copy of the stored values:
     - the install-plan id is rewritten only for a different plan, and the first-seen time is written only together with
       it, as the current time; the plan handed to the installer is the one on record (or has just been written);
     - the successful-update-from-first-seen metric is the finish time minus the first-seen time on record for this plan;
     - the attempts metric carries the stored failure count + 1 (saturating, as u64), is reported at most once per check
       and exactly for installs in which an app failed (verdict: failure) or else an app was updated (verdict: success),
       and is followed by the matching counter write (the new count) or removal (on success) before the result;
     - after an install without a failed app, the finish time (the current time, microseconds) and the version the response
       offers the system app are written and committed before the reboot-needed question is even asked;
     - the waited-for-reboot duration is reported at most once, only if this machine was started on the recorded target
       version, with exactly the value of C18_waited_for_reboot_value for the recorded finish time, the first clock
       reading of this machine and the current reading, and is followed by the removal of both keys and a commit; the two
       keys are removed on no other occasion. *)
Require Import Verif.Model.Monitors Verif.Model.Monitors18 Verif.Proofs.Monitor Verif.Model.Proto Verif.Proofs.C18Proof.

Theorem C18_bookkeeping_monitor_accepts_every_model_trace :
  forall ep cfg url cup apps e, e_trace e = [] -> apps_free apps = true ->
    accepts step18 (init18 cfg apps (e_store e)) (run_case ep cfg url cup apps e) = true.
Proof. exact model_accepted_c18. Qed.

(* the monitor is not vacuous: it accepts a correct failed-then-counted install and rejects the variants *)
Section Examples.
  Let q0 : q18 := {| m18 := [(K_FAILED_INSTALLS, VInt 2)]; osver18 := s2b "1.0"; sysid18 := s2b "a"; clk18 := None; should18 := false; fin018 := 0;
                     start18 := None; rep18 := false; todo18 := []; doc18 := None; planw18 := false; fs18 := None; perf18 := false; fin18 := 0%N;
                     attm18 := None; attw18 := None |}.
  Let failed := [{| ar_id := s2b "a"; ar_cohort := cohort_none; ar_uc := None; ar_result := AInstallPlanExecutionError |};
                 {| ar_id := s2b "b"; ar_cohort := cohort_none; ar_uc := None; ar_result := AUpdated |}].
  Example C18_monitor_accepts :
    accepts step18 q0 [AEvent (EvState (CheckingForUpdates ScheduledTask)); AMetric (MAttemptsToSuccessfulInstall 3 false);
                       AStore (SSetInt K_FAILED_INSTALLS 3) true; AEvent (EvResult (inr failed))] = true.
  Proof. vm_compute. reflexivity. Qed.
  (* a failed app followed by an installed one counted as a success; the wrong count; the counter not written; not reported at all *)
  Example C18_monitor_rejects :
    accepts step18 q0 [AEvent (EvState (CheckingForUpdates ScheduledTask)); AMetric (MAttemptsToSuccessfulInstall 3 true);
                       AStore (SRemove K_FAILED_INSTALLS) true; AEvent (EvResult (inr failed))] = false
    /\ accepts step18 q0 [AEvent (EvState (CheckingForUpdates ScheduledTask)); AMetric (MAttemptsToSuccessfulInstall 1 false)] = false
    /\ accepts step18 q0 [AEvent (EvState (CheckingForUpdates ScheduledTask)); AMetric (MAttemptsToSuccessfulInstall 3 false);
                          AEvent (EvResult (inr failed))] = false
    /\ accepts step18 q0 [AEvent (EvState (CheckingForUpdates ScheduledTask)); AEvent (EvResult (inr failed))] = false.
  Proof. vm_compute. repeat split; reflexivity. Qed.
End Examples.

Print Assumptions C18_bookkeeping_monitor_accepts_every_model_trace.
