(* Props/C18.v — Update-attempt bookkeeping spans attempts and reboots.
   PARTIAL at the level of theorems: the waited-for-reboot computation is proved below; first-seen time, the
   install-attempt counter, "finish time committed before reboot" and "reported exactly once" are decided by trace
   equality between model and implementation on the storage/metric/installer projection (proj_c18). *)
Require Import Verif.Model.Time Verif.Base.Bytes Verif.Model.Env Verif.Model.SM Verif.Proofs.SMPure.
Open Scope Z_scope.

(* reported duration = finish -> start of this state machine, and only with consistent clocks *)
Theorem C18_waited_for_reboot_value :
  forall finish start n d, waited_for_reboot finish start n = Some d <->
    finish <= wall n /\ start <= mono n /\ d = (wall n - finish) - (mono n - start) /\ 0 <= d.
Proof. exact waited_for_reboot_some. Qed.

Theorem C18_waited_for_reboot_none_iff_inconsistent :
  forall finish start n, waited_for_reboot finish start n = None <->
    wall n < finish \/ mono n < start \/ (wall n - finish) - (mono n - start) < 0.
Proof. exact waited_for_reboot_none. Qed.

(* unaffected by later delays: reporting later (both clocks advanced by the same delay) gives the same value *)
Theorem C18_unaffected_by_report_delay :
  forall finish start n delay d, 0 <= delay -> waited_for_reboot finish start n = Some d ->
    waited_for_reboot finish start {| wall := wall n + delay; mono := mono n + delay |} = Some d.
Proof.
  intros finish start n delay d Hd H. rewrite waited_for_reboot_delay_independent by exact Hd. rewrite H. reflexivity.
Qed.

(* the install-attempt counter saturates instead of overflowing *)
Theorem C18_counter_saturates : forall z, i64_min <= z <= i64_max -> z <= sat_inc_i64 z <= i64_max.
Proof. intros z H. unfold sat_inc_i64. destruct (z <? i64_max) eqn:E; [apply Z.ltb_lt in E|apply Z.ltb_ge in E]; unfold i64_max, i64_min in *; lia. Qed.

Print Assumptions C18_waited_for_reboot_value.
