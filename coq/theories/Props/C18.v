(* Props/C18.v — Update-attempt bookkeeping spans attempts and reboots.
   PARTIAL at the level of theorems: the waited-for-reboot computation and the saturating counter are proved below.
   The rules about first-seen time, the install-attempt counter, "finish time committed before the reboot question" and
   "reported exactly once, then cleared" are checked on every implementation trace by the executable monitor step18
   (Model/Monitors18.v), which simulates the storage view the machine reads, and by trace equality between model and
   implementation on the storage / metric / installer projection.  That every MODEL trace is accepted by step18 is not
   proved: the monitor's rules depend on values read back from storage, and the trace-Hoare framework (Proofs/Monitor.v)
   speaks about the monitor's state only, not about the environment's store (DESIGN.md, "what is not proved"). *)
Require Import Verif.Model.Time Verif.Base.Bytes Verif.Model.Env Verif.Model.SM Verif.Proofs.SMPure.
Open Scope Z_scope.

(* reported duration = finish -> start of this state machine, and only with consistent clocks *)
Theorem C18_waited_for_reboot_value :
  forall finish start n d, waited_for_reboot finish start n = Some d <->
    finish <= wall n /\ start <= mono n /\ d = (wall n - finish) - (mono n - start) /\ 0 <= d.
Proof. exact waited_for_reboot_some. Qed.

Theorem C18_waited_for_reboot_none_iff_inconsistent :
  forall finish start n, waited_for_reboot finish start n = None <->
    wall n < finish \/ mono n < start \/ (wall n - finish) - (mono n - start) < 0.
Proof. exact waited_for_reboot_none. Qed.

(* unaffected by later delays: reporting later (both clocks advanced by the same delay) gives the same value *)
Theorem C18_unaffected_by_report_delay :
  forall finish start n delay d, 0 <= delay -> waited_for_reboot finish start n = Some d ->
    waited_for_reboot finish start {| wall := wall n + delay; mono := mono n + delay |} = Some d.
Proof.
  intros finish start n delay d Hd H. rewrite waited_for_reboot_delay_independent by exact Hd. rewrite H. reflexivity.
Qed.

(* the install-attempt counter saturates instead of overflowing *)
Theorem C18_counter_saturates : forall z, i64_min <= z <= i64_max -> z <= sat_inc_i64 z <= i64_max.
Proof. intros z H. unfold sat_inc_i64. destruct (z <? i64_max) eqn:E; [apply Z.ltb_lt in E|apply Z.ltb_ge in E]; unfold i64_max, i64_min in *; lia. Qed.

Print Assumptions C18_waited_for_reboot_value.

(* the run-time monitor is not vacuous: it accepts a correct failed-then-counted install and rejects the variants *)
Require Import Verif.Model.Monitors Verif.Model.Monitors18 Verif.Proofs.Monitor Verif.Model.Proto.
Section Examples.
  Let q0 : q18 := {| m18 := [(K_FAILED_INSTALLS, VInt 2)]; osver18 := s2b "1.0"; sysid18 := Some (s2b "a"); clk18 := None; should18 := false; fin018 := 0;
                     start18 := None; rep18 := false; todo18 := []; doc18 := None; planw18 := false; fs18 := None; perf18 := false; fin18 := 0%N;
                     attm18 := None; attw18 := None |}.
  Let failed := [{| ar_id := s2b "a"; ar_cohort := cohort_none; ar_uc := None; ar_result := AInstallPlanExecutionError |};
                 {| ar_id := s2b "b"; ar_cohort := cohort_none; ar_uc := None; ar_result := AUpdated |}].
  Example C18_monitor_accepts :
    accepts step18 q0 [AEvent (EvState (CheckingForUpdates ScheduledTask)); AMetric (MAttemptsToSuccessfulInstall 3 false);
                       AStore (SSetInt K_FAILED_INSTALLS 3) true; AEvent (EvResult (inr failed))] = true.
  Proof. vm_compute. reflexivity. Qed.
  (* a failed app followed by an installed one counted as a success; the wrong count; the counter not written; not reported at all *)
  Example C18_monitor_rejects :
    accepts step18 q0 [AEvent (EvState (CheckingForUpdates ScheduledTask)); AMetric (MAttemptsToSuccessfulInstall 3 true);
                       AStore (SRemove K_FAILED_INSTALLS) true; AEvent (EvResult (inr failed))] = false
    /\ accepts step18 q0 [AEvent (EvState (CheckingForUpdates ScheduledTask)); AMetric (MAttemptsToSuccessfulInstall 1 false)] = false
    /\ accepts step18 q0 [AEvent (EvState (CheckingForUpdates ScheduledTask)); AMetric (MAttemptsToSuccessfulInstall 3 false);
                          AEvent (EvResult (inr failed))] = false
    /\ accepts step18 q0 [AEvent (EvState (CheckingForUpdates ScheduledTask)); AEvent (EvResult (inr failed))] = false.
  Proof. vm_compute. repeat split; reflexivity. Qed.
End Examples.
