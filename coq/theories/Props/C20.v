(* Props/C20.v — Versions parse, print and order numerically.
   Only statements; each is closed by a lemma from Proofs/VersionFacts.v. *)
Require Import Verif.Base.Bytes Verif.Proofs.BytesFacts Verif.Model.Version Verif.Proofs.VersionFacts.
Open Scope N_scope.

(* A part is accepted iff it is `+?digits` with value < 2^32 (part_ok = numeral (2^32)). *)

(* every string of 1..4 dot-separated numerals parses to their zero-fill *)
Theorem C20_parse_accepts :
  forall parts ns, (1 <= length parts <= 4)%nat -> Forall2 part_ok parts ns ->
    parse (join_with dot parts) = Some (fill ns).
Proof. exact parse_accepts. Qed.

(* ... and nothing else parses *)
Theorem C20_parse_only :
  forall s v, parse s = Some v ->
    exists parts ns, s = join_with dot parts /\ (1 <= length parts <= 4)%nat /\
                     Forall2 part_ok parts ns /\ v = fill ns.
Proof. exact parse_only. Qed.

(* rejection, exactly: more than four parts, or some part that is not a u32 numeral
   (empty, non-numeric, overflowing) *)
Theorem C20_reject_iff :
  forall s, parse s = None <->
    (4 < length (split_on dot s))%nat \/ exists p, In p (split_on dot s) /\ parse_u32 p = None.
Proof. exact parse_none_iff. Qed.

Theorem C20_part_empty : parse_u32 [] = None.
Proof. exact (parse_unsigned_empty (2 ^ 32)). Qed.

Theorem C20_part_overflow :
  forall s ds, (s = ds \/ s = 43 :: ds) -> all_digits ds = true -> 2 ^ 32 <= dec_value ds ->
    parse_u32 s = None.
Proof. exact (parse_unsigned_overflow (2 ^ 32)). Qed.

Theorem C20_part_nonnumeric :
  forall s c, In c s -> is_digit c = false -> c <> 43 -> parse_u32 s = None.
Proof. exact (parse_unsigned_nondigit (2 ^ 32)). Qed.

(* printing: always four canonical decimals joined by dots *)
Theorem C20_print_canonical :
  forall a b c d,
    print (a, b, c, d) = join_with dot [print_dec a; print_dec b; print_dec c; print_dec d] /\
    canonical_dec a (print_dec a) /\ canonical_dec b (print_dec b) /\
    canonical_dec c (print_dec c) /\ canonical_dec d (print_dec d).
Proof.
  intros a b c d. split; [exact (print_is_join (a, b, c, d))|].
  repeat split; apply print_dec_canonical.
Qed.

Theorem C20_parse_print : forall v, wf v -> parse (print v) = Some v.
Proof. exact parse_print. Qed.

Theorem C20_from_array :
  forall a b c d,
    from_array [a] = (a, 0, 0, 0) /\ from_array [a; b] = (a, b, 0, 0) /\
    from_array [a; b; c] = (a, b, c, 0) /\ from_array [a; b; c; d] = (a, b, c, d).
Proof. intros; repeat split; reflexivity. Qed.

(* ordering is numeric, component-wise, left to right; a total order *)
Theorem C20_order_lt : forall x y, cmp x y = Lt <-> lex_lt x y.
Proof. exact cmp_lt_iff. Qed.
Theorem C20_order_eq : forall x y, cmp x y = Eq <-> x = y.
Proof. exact cmp_eq_iff. Qed.
Theorem C20_order_antisym : forall x y, cmp y x = CompOpp (cmp x y).
Proof. exact cmp_antisym. Qed.
Theorem C20_order_trans : forall x y z, lex_lt x y -> lex_lt y z -> lex_lt x z.
Proof. exact lex_lt_trans. Qed.
Theorem C20_order_total : forall x y, lex_lt x y \/ x = y \/ lex_lt y x.
Proof. exact lex_total. Qed.

(* JSON uses exactly the canonical string *)
Theorem C20_json_roundtrip : forall v, wf v -> of_json (to_json v) = Some v.
Proof. exact of_to_json. Qed.
Theorem C20_json_form : forall v, to_json v = quote :: print v ++ [quote].
Proof. reflexivity. Qed.

(* non-vacuity *)
Example C20_ex_parse : parse (s2b "1.2.0.4") = Some (1, 2, 0, 4) /\ parse (s2b "7") = Some (7, 0, 0, 0)
  /\ parse (s2b "1..2") = None /\ parse (s2b "1.2.3.4.5") = None /\ parse (s2b "4294967296") = None
  /\ parse (s2b "4294967295.0") = Some (4294967295, 0, 0, 0) /\ parse (s2b "") = None.
Proof. vm_compute. repeat split. Qed.
Example C20_ex_wf : wf (4294967295, 0, 10, 9).
Proof. vm_compute. repeat split. Qed.

Print Assumptions C20_parse_accepts.
Print Assumptions C20_parse_only.
Print Assumptions C20_reject_iff.
Print Assumptions C20_part_empty.
Print Assumptions C20_part_overflow.
Print Assumptions C20_part_nonnumeric.
Print Assumptions C20_print_canonical.
Print Assumptions C20_parse_print.
Print Assumptions C20_from_array.
Print Assumptions C20_order_lt.
Print Assumptions C20_order_eq.
Print Assumptions C20_order_antisym.
Print Assumptions C20_order_trans.
Print Assumptions C20_order_total.
Print Assumptions C20_json_roundtrip.
Print Assumptions C20_json_form.
