(* Props/C05.v — Policy consent gates every network, install and reboot action. *)
Require Import Verif.Model.Time Verif.Base.Bytes Verif.Model.Proto Verif.Model.Env Verif.Model.SM Verif.Proofs.SMPure.
Open Scope Z_scope.

(* never starts at all if any app has an empty id or version 0: the run emits nothing, asks nothing *)
Theorem C05_invalid_app_set_inert :
  forall iters fuel m e, forallb app_valid (m_apps m) = false -> run iters fuel m e = (Some m, e).
Proof. exact run_invalid_inert. Qed.

Theorem C05_app_valid_iff : forall a, app_valid a = true <-> a_id a <> [] /\ a_ver a <> (0, 0, 0, 0)%N.
Proof. exact app_valid_iff. Qed.

(* ... whatever is stored for the apps: loading fills in cohort and dates, never id or version.  So the trace of a
   machine started on an app set with an invalid app is empty (the rule the check applies to implementation traces) *)
Lemma app_load_valid s a : app_valid (app_load s a) = app_valid a.
Proof.
  unfold app_load. destruct (sm_get s (a_id a)) as [[z|js|b]|]; try reflexivity. destruct (decode_persisted js) as [[c u]|]; reflexivity.
Qed.
Theorem C05_invalid_app_set_trace_is_empty :
  forall cfg url cup apps e, e_trace e = [] -> forallb app_valid apps = false -> run_case EStart cfg url cup apps e = [].
Proof.
  intros cfg url cup apps e Ht Hv. unfold run_case.
  assert (Hb : forallb app_valid (m_apps (build cfg url cup apps (e_store e))) = false).
  { unfold build. destruct (ctx_load (pend (e_store e))). cbn [m_apps]. rewrite <- Hv. clear Hv. induction apps as [|a l IH]; [reflexivity|]. cbn [map forallb]. rewrite app_load_valid, IH. reflexivity. }
  rewrite (run_invalid_inert _ _ _ e Hb). rewrite Ht. reflexivity.
Qed.

Print Assumptions C05_invalid_app_set_inert.
Print Assumptions C05_invalid_app_set_trace_is_empty.

(* ---- the consent monitor (Model/Monitors.v step5) accepts every trace of the model ----
   step5 rejects: a request or installer call outside a check the policy allowed; a request inside a check whose
   install source / interactivity header / updatedisabled / sameversionupdate differ from the parameters the policy
   returned for that very check; perform_install for a plan update_can_start did not approve (deferred and denied
   included); WaitingForReboot unless the install had no failed app and reboot_needed answered yes; a reboot unless
   the most recent reboot_allowed answer was yes; pings while waiting to reboot that are not plain scheduled-task
   pings.  The theorem quantifies over every script (all policy / HTTP / installer / clock / storage answers and
   stimuli), every configuration and app set, and both entry points. *)
Require Import Verif.Model.Monitors Verif.Proofs.Monitor Verif.Proofs.C05Proof.

Theorem C05_consent_monitor_accepts_every_model_trace :
  forall ep cfg url cup apps e, e_trace e = [] ->
    accepts step5 (init5 ep) (run_case ep cfg url cup apps e) = true.
Proof. exact model_accepted_c05. Qed.

(* non-vacuity: the monitor does reject (it is not the trivial one) *)
Example C05_monitor_rejects_unconsented_request :
  accepts step5 P5Idle [AHttp {| w_uri := []; w_headers := []; w_body := [];
                                 w_sum := {| ws_source := ScheduledTask; ws_session := None; ws_request := None; ws_apps := [] |} |}
                              (HErr TTransport)] = false
  /\ accepts step5 (P5Check params_default NoPlan) [AInstaller (IPerform (s2b "p")) (IPerformed {| pa_progress := []; pa_results := [] |})] = false
  /\ accepts step5 (P5Reboot (Some false)) [AInstaller IReboot (IRebooted true)] = false.
Proof. vm_compute. repeat split. Qed.

Print Assumptions C05_consent_monitor_accepts_every_model_trace.

(* ---- "reboots only after an install with no failed app", by the installer's own answer (Model/Monitors5b.v step5b) ----
   step5 above learns of failed apps from the InstallerError events the machine itself emits; step5b looks at what the
   installer answered instead: the reboot-needed question and the wait for the reboot are accepted only after a
   perform_install whose answer has no failure among its first n results, n = the number of apps the latest response
   offered an update (a failure the machine attributes to the wrong app, or drops, is therefore seen). *)
Require Import Verif.Model.Monitors5b Verif.Proofs.C05bProof Verif.Model.Json.
Theorem C05_reboot_only_after_an_install_with_no_failed_app :
  forall ep cfg url cup apps e, e_trace e = [] ->
    accepts step5b init5b (run_case ep cfg url cup apps e) = true.
Proof. exact model_accepted_c05b. Qed.
Section Examples5b.
  Let d2 : doc := {| d_daystart := None;
                     d_apps := [{| r_id := s2b "a"; r_cohort := cohort_none; r_uc := Some (false, None) |};
                                {| r_id := s2b "b"; r_cohort := cohort_none; r_uc := Some (true, Some (s2b "2.0")) |}] |}.
  Let perf (rs : list ares) := AInstaller (IPerform (s2b "p")) (IPerformed {| pa_progress := []; pa_results := rs |}).
  Example C05_reboot_monitor :
    (* one app offered; it failed: no reboot may be considered *)
    accepts step5b init5b [AEvent (EvServerResponse d2); perf [RFailed; RInstalled]; APolicy (QRebootNeeded (s2b "p")) (PBool true)] = false
    /\ accepts step5b init5b [AEvent (EvServerResponse d2); perf [RFailed; RInstalled]; AEvent (EvState WaitingForReboot)] = false
    (* no install at all *)
    /\ accepts step5b init5b [AEvent (EvServerResponse d2); AEvent (EvState WaitingForReboot)] = false
    (* it installed (results beyond the offered apps do not count) *)
    /\ accepts step5b init5b [AEvent (EvServerResponse d2); perf [RInstalled; RFailed]; APolicy (QRebootNeeded (s2b "p")) (PBool true);
                               AEvent (EvState WaitingForReboot)] = true.
  Proof. vm_compute. repeat split. Qed.
End Examples5b.
Print Assumptions C05_reboot_only_after_an_install_with_no_failed_app.
