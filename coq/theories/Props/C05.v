(* Props/C05.v — Policy consent gates every network, install and reboot action. *)
Require Import Verif.Model.Time Verif.Base.Bytes Verif.Model.Proto Verif.Model.Env Verif.Model.SM Verif.Proofs.SMPure.
Open Scope Z_scope.

(* never starts at all if any app has an empty id or version 0: the run emits nothing, asks nothing *)
Theorem C05_invalid_app_set_inert :
  forall iters fuel m e, forallb app_valid (m_apps m) = false -> run iters fuel m e = (Some m, e).
Proof. exact run_invalid_inert. Qed.

Theorem C05_app_valid_iff : forall a, app_valid a = true <-> a_id a <> [] /\ a_ver a <> (0, 0, 0, 0)%N.
Proof. exact app_valid_iff. Qed.

Print Assumptions C05_invalid_app_set_inert.
