(* Props/C05.v — Policy consent gates every network, install and reboot action. *)
Require Import Verif.Model.Time Verif.Base.Bytes Verif.Model.Proto Verif.Model.Env Verif.Model.SM Verif.Proofs.SMPure.
Open Scope Z_scope.

(* never starts at all if any app has an empty id or version 0: the run emits nothing, asks nothing *)
Theorem C05_invalid_app_set_inert :
  forall iters fuel m e, forallb app_valid (m_apps m) = false -> run iters fuel m e = (Some m, e).
Proof. exact run_invalid_inert. Qed.

Theorem C05_app_valid_iff : forall a, app_valid a = true <-> a_id a <> [] /\ a_ver a <> (0, 0, 0, 0)%N.
Proof. exact app_valid_iff. Qed.

Print Assumptions C05_invalid_app_set_inert.

(* ---- the consent monitor (Model/Monitors.v step5) accepts every trace of the model ----
   step5 rejects: a request or installer call outside a check the policy allowed; a request inside a check whose
   install source / interactivity header / updatedisabled / sameversionupdate differ from the parameters the policy
   returned for that very check; perform_install for a plan update_can_start did not approve (deferred and denied
   included); WaitingForReboot unless the install had no failed app and reboot_needed answered yes; a reboot unless
   the most recent reboot_allowed answer was yes; pings while waiting to reboot that are not plain scheduled-task
   pings.  The theorem quantifies over every script (all policy / HTTP / installer / clock / storage answers and
   stimuli), every configuration and app set, and both entry points. *)
Require Import Verif.Model.Monitors Verif.Proofs.Monitor Verif.Proofs.C05Proof.

Theorem C05_consent_monitor_accepts_every_model_trace :
  forall ep cfg url cup apps e, e_trace e = [] ->
    accepts step5 (init5 ep) (run_case ep cfg url cup apps e) = true.
Proof. exact model_accepted_c05. Qed.

(* non-vacuity: the monitor does reject (it is not the trivial one) *)
Example C05_monitor_rejects_unconsented_request :
  accepts step5 P5Idle [AHttp {| w_uri := []; w_headers := []; w_body := [];
                                 w_sum := {| ws_source := ScheduledTask; ws_session := None; ws_request := None; ws_apps := [] |} |}
                              (HErr TTransport)] = false
  /\ accepts step5 (P5Check params_default NoPlan) [AInstaller (IPerform (s2b "p")) (IPerformed {| pa_progress := []; pa_results := [] |})] = false
  /\ accepts step5 (P5Reboot (Some false)) [AInstaller IReboot (IRebooted true)] = false.
Proof. vm_compute. repeat split. Qed.

Print Assumptions C05_consent_monitor_accepts_every_model_trace.
