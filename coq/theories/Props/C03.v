(* Props/C03.v — Every CUP request is freshly and faithfully decorated.
   PARTIAL at the level of theorems: the URI rewriting and the injectivity of the model's nonce texts are proved
   below; "every request of every history is so decorated, the retained metadata is what was sent, and no nonce is
   used twice" is decided by (a) the byte-exact comparison of the real RequestBuilder + StandardCupv2Handler with the
   model on a URL corpus (wire body = metadata body, key id, nonce <-> URL, two builds give different nonces), and
   (b) the run-time monitor step3 on every implementation trace of scripted state-machine histories (all requests
   decorated with the latest key id, nonces pairwise distinct over the whole history, metadata handed to the installer
   equal to the wire) together with trace equality with the model.  Uniqueness of 256-bit random nonces is probabilistic. *)
Require Import Verif.Model.Time Verif.Base.Bytes Verif.Proofs.BytesFacts Verif.Model.Env Verif.Model.SM Verif.Proofs.UriFacts.
Open Scope N_scope.

(* scheme, authority and path are untouched; the query is the old query with one parameter appended *)
Theorem C03_uri_preserved :
  forall prefix path query k v,
    prefix ++ append_query path query k v = (prefix ++ path) ++ qmark :: new_query query k v /\
    new_query query k v = match query with Some q => q ++ amp :: k ++ eqs :: v | None => k ++ eqs :: v end.
Proof. intros. rewrite append_query_shape, <- app_assoc. split; reflexivity. Qed.

(* an empty existing query gives "?&k=v", exactly as the code builds it *)
Theorem C03_empty_query : forall path k v, append_query path (Some []) k v = path ++ qmark :: amp :: k ++ eqs :: v.
Proof. reflexivity. Qed.

(* the number of `k=` parameters grows by exactly one *)
Theorem C03_exactly_one_more_parameter :
  forall q k v, no_sep amp k -> no_sep amp v -> count_param k (new_query (Some q) k v) = S (count_param k q).
Proof. exact count_param_append_some. Qed.
Theorem C03_exactly_one_parameter_when_no_query :
  forall k v, no_sep amp k -> no_sep amp v -> count_param k (new_query None k v) = 1%nat.
Proof. exact count_param_append_none. Qed.

(* the cup2key value "<dec id>:<64 hex>" never contains '&' *)
Theorem C03_value_has_no_ampersand :
  forall kid nonce, forallb (fun c => ((48 <=? c) && (c <=? 57)) || ((97 <=? c) && (c <=? 102))) nonce = true ->
    no_sep amp (print_dec kid ++ 58 :: nonce).
Proof.
  intros kid nonce H Hin. apply in_app_or in Hin as [Hd|[Hc|Hn]].
  - destruct (print_dec_canonical kid) as (_ & Had & _). eapply (all_digits_no_sep amp); [reflexivity|exact Had|exact Hd].
  - discriminate Hc.
  - rewrite forallb_forall in H. specialize (H _ Hn). cbn in H. discriminate.
Qed.

(* distinct draws give distinct nonces in the model's canonical numbering *)
Theorem C03_nonce_text_injective : forall i j, nonce_text i = nonce_text j -> i = j.
Proof. exact nonce_text_injective. Qed.

Example C03_ex :
  append_query (s2b "/p") (Some (s2b "a=b")) (s2b "cup2key") (s2b "7:ff") = s2b "/p?a=b&cup2key=7:ff" /\
  append_query (s2b "/") None (s2b "cup2key") (s2b "7:ff") = s2b "/?cup2key=7:ff" /\
  count_param (s2b "cup2key") (s2b "cup2key=1:00&x=cup2key=3") = 1%nat.
Proof. vm_compute. repeat split. Qed.

Print Assumptions C03_exactly_one_more_parameter.
