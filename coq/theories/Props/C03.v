(* Props/C03.v — Every CUP request is freshly and faithfully decorated.
   Proved: the URI rewriting laws; and C03_decoration_monitor_accepts_every_model_trace: every request the model puts
   on the wire in any history - update check, retry, event report, ping - targets the configured URL with scheme,
   authority, path and old query intact and exactly the added cup2key=<latest key id>:<nonce of at least 64 hex
   digits>, and the installer is handed metadata with a signature exactly when CUP is configured.
   PARTIAL: "exactly 64 digits", "the retained metadata holds the bytes sent, the same key id and nonce" and "no nonce is
   ever used twice" are decided (a) by the byte-exact comparison of the real RequestBuilder + StandardCupv2Handler with
   the model on a URL corpus (wire body = metadata body, key id, nonce <-> URL, two builds give different nonces) and (b)
   by the run-time monitor step3 on every implementation trace (every request decorated with the latest key id, a
   64-digit nonce, nonces pairwise distinct over the whole history, metadata handed to the installer equal to the wire),
   together with trace equality with the model.  Freshness of 256-bit random nonces is probabilistic in the real code;
   the model idealises the generator as a counter, so a freshness theorem about the model would say nothing about it. *)
Require Import Verif.Model.Time Verif.Base.Bytes Verif.Proofs.BytesFacts Verif.Model.Env Verif.Model.SM Verif.Proofs.UriFacts.
Open Scope N_scope.

(* scheme, authority and path are untouched; the query is the old query with one parameter appended *)
Theorem C03_uri_preserved :
  forall prefix path query k v,
    prefix ++ append_query path query k v = (prefix ++ path) ++ qmark :: new_query query k v /\
    new_query query k v = match query with Some q => q ++ amp :: k ++ eqs :: v | None => k ++ eqs :: v end.
Proof. intros. rewrite append_query_shape, <- app_assoc. split; reflexivity. Qed.

(* an empty existing query gives "?&k=v", exactly as the code builds it *)
Theorem C03_empty_query : forall path k v, append_query path (Some []) k v = path ++ qmark :: amp :: k ++ eqs :: v.
Proof. reflexivity. Qed.

(* the number of `k=` parameters grows by exactly one *)
Theorem C03_exactly_one_more_parameter :
  forall q k v, no_sep amp k -> no_sep amp v -> count_param k (new_query (Some q) k v) = S (count_param k q).
Proof. exact count_param_append_some. Qed.
Theorem C03_exactly_one_parameter_when_no_query :
  forall k v, no_sep amp k -> no_sep amp v -> count_param k (new_query None k v) = 1%nat.
Proof. exact count_param_append_none. Qed.

(* the cup2key value "<dec id>:<64 hex>" never contains '&' *)
Theorem C03_value_has_no_ampersand :
  forall kid nonce, forallb (fun c => ((48 <=? c) && (c <=? 57)) || ((97 <=? c) && (c <=? 102))) nonce = true ->
    no_sep amp (print_dec kid ++ 58 :: nonce).
Proof.
  intros kid nonce H Hin. apply in_app_or in Hin as [Hd|[Hc|Hn]].
  - destruct (print_dec_canonical kid) as (_ & Had & _). eapply (all_digits_no_sep amp); [reflexivity|exact Had|exact Hd].
  - discriminate Hc.
  - rewrite forallb_forall in H. specialize (H _ Hn). cbn in H. discriminate.
Qed.

(* distinct draws give distinct nonces in the model's canonical numbering *)
Theorem C03_nonce_text_injective : forall i j, nonce_text i = nonce_text j -> i = j.
Proof. exact nonce_text_injective. Qed.

Example C03_ex :
  append_query (s2b "/p") (Some (s2b "a=b")) (s2b "cup2key") (s2b "7:ff") = s2b "/p?a=b&cup2key=7:ff" /\
  append_query (s2b "/") None (s2b "cup2key") (s2b "7:ff") = s2b "/?cup2key=7:ff" /\
  count_param (s2b "cup2key") (s2b "cup2key=1:00&x=cup2key=3") = 1%nat.
Proof. vm_compute. repeat split. Qed.

Print Assumptions C03_exactly_one_more_parameter.

Require Import Verif.Model.Monitors3 Verif.Proofs.Monitor Verif.Proofs.C03Proof Verif.Model.Proto.

Theorem C03_decoration_monitor_accepts_every_model_trace :
  forall ep cfg url cup apps e, e_trace e = [] ->
    accepts step3a (init3a url cup) (run_case ep cfg url cup apps e) = true.
Proof. exact model_accepted_c03. Qed.

(* the canonical nonce text of the model: hex digits, at least 64 of them *)
Theorem C03_nonce_text_shape : forall n, (64 <= length (nonce_text n))%nat /\ forallb is_hex (nonce_text n) = true.
Proof. intro n. split; [apply nonce_text_long|apply nonce_text_hex]. Qed.

Section Examples.
  Let u : urlparts := {| u_valid := true; u_prefix := s2b "http://h"; u_path := s2b "/p"; u_query := Some (s2b "a=b") |}.
  Let w (uri : bytes) : wire := {| w_uri := uri; w_headers := []; w_body := [];
                                   w_sum := {| ws_source := ScheduledTask; ws_session := None; ws_request := None; ws_apps := [] |} |}.
  Let n64 := s2b "0000000000000000000000000000000000000000000000000000000000000007".
  Example C03_monitor_accepts :
    accepts step3a (init3a u (Some 42)) [AHttp (w (s2b "http://h/p?a=b&cup2key=42:" ++ n64)) (HErr TTransport)] = true.
  Proof. vm_compute. reflexivity. Qed.
  (* undecorated; an older key id; the old query dropped; a short nonce; decorated although no CUP handler *)
  Example C03_monitor_rejects :
    accepts step3a (init3a u (Some 42)) [AHttp (w (s2b "http://h/p?a=b")) (HErr TTransport)] = false
    /\ accepts step3a (init3a u (Some 42)) [AHttp (w (s2b "http://h/p?a=b&cup2key=41:" ++ n64)) (HErr TTransport)] = false
    /\ accepts step3a (init3a u (Some 42)) [AHttp (w (s2b "http://h/p?cup2key=42:" ++ n64)) (HErr TTransport)] = false
    /\ accepts step3a (init3a u (Some 42)) [AHttp (w (s2b "http://h/p?a=b&cup2key=42:07")) (HErr TTransport)] = false
    /\ accepts step3a (init3a u None) [AHttp (w (s2b "http://h/p?a=b&cup2key=42:" ++ n64)) (HErr TTransport)] = false.
  Proof. vm_compute. repeat split; reflexivity. Qed.
End Examples.

Print Assumptions C03_decoration_monitor_accepts_every_model_trace.

(* ---- no nonce is ever used twice: step3f (Model/Monitors3.v) = step3a + the nonce of every request differs from the
   nonce of every earlier request of the history ----
   Nonces are draws from the environment's counter (the random generator is idealised: two draws never collide); what the
   theorem shows is that the machine draws afresh for every request it puts on the wire - update check, each retry,
   event report, ping - and never sends a drawn nonce twice. *)
Require Import Verif.Proofs.C03fProof.
Theorem C03_no_nonce_is_ever_used_twice :
  forall ep cfg url cup apps e, e_trace e = [] ->
    accepts step3f (init3f url cup) (run_case ep cfg url cup apps e) = true.
Proof. exact model_accepted_c03f. Qed.
Section Examples3f.
  Let u : urlparts := {| u_valid := true; u_prefix := s2b "http://h"; u_path := s2b "/p"; u_query := None |}.
  Let w (uri : bytes) : wire := {| w_uri := uri; w_headers := []; w_body := [];
                                   w_sum := {| ws_source := ScheduledTask; ws_session := None; ws_request := None; ws_apps := [] |} |}.
  Let n7 := s2b "0000000000000000000000000000000000000000000000000000000000000007".
  Let n8 := s2b "0000000000000000000000000000000000000000000000000000000000000008".
  Example C03_freshness_monitor :
    accepts step3f (init3f u (Some 42)) [AHttp (w (s2b "http://h/p?cup2key=42:" ++ n7)) (HErr TTransport);
                                         AHttp (w (s2b "http://h/p?cup2key=42:" ++ n7)) (HErr TTransport)] = false
    /\ accepts step3f (init3f u (Some 42)) [AHttp (w (s2b "http://h/p?cup2key=42:" ++ n7)) (HErr TTransport);
                                            AHttp (w (s2b "http://h/p?cup2key=42:" ++ n8)) (HErr TTransport)] = true.
  Proof. vm_compute. split; reflexivity. Qed.
End Examples3f.
Print Assumptions C03_no_nonce_is_ever_used_twice.
