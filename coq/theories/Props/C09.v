(* Props/C09.v — Cohort and user-counting data follow the server and persist. *)
Require Import Verif.Model.Time Verif.Base.Bytes Verif.Model.Proto Verif.Model.Env Verif.Model.SM Verif.Proofs.SMPure.
Open Scope Z_scope.

(* each cohort field the response carries (even empty) replaces the app's value, absent fields are kept *)
Theorem C09_merge_fieldwise :
  forall mine omaha,
    c_id (merge_cohort mine omaha) = (match c_id omaha with Some x => Some x | None => c_id mine end) /\
    c_hint (merge_cohort mine omaha) = (match c_hint omaha with Some x => Some x | None => c_hint mine end) /\
    c_name (merge_cohort mine omaha) = (match c_name omaha with Some x => Some x | None => c_name mine end).
Proof. exact merge_cohort_fieldwise. Qed.

(* apps not named in the response are unchanged *)
Theorem C09_not_named_unchanged :
  forall rs a, (forall r, In r rs -> bytes_eqb (a_id a) (ar_id r) = false) -> update_app rs a = a.
Proof. exact update_app_not_named. Qed.

(* a named app takes the merged cohort and the response's day number (or none) from the first response naming it *)
Theorem C09_named_updated :
  forall rs a r, find (fun r => bytes_eqb (a_id a) (ar_id r)) rs = Some r ->
    update_app rs a = {| a_id := a_id a; a_ver := a_ver a; a_fp := a_fp a;
                         a_cohort := merge_cohort (a_cohort a) (ar_cohort r); a_uc := ar_uc r; a_extra := a_extra a |}.
Proof. exact update_app_named. Qed.

Theorem C09_ids_stable : forall apps rs, map a_id (update_from_omaha apps rs) = map a_id apps.
Proof. exact update_from_omaha_ids. Qed.

Theorem C09_no_response_no_change : forall apps, update_from_omaha apps [] = apps.
Proof. exact update_from_omaha_nil. Qed.

Print Assumptions C09_merge_fieldwise.
