(* Props/C09.v — Cohort and user-counting data follow the server and persist. *)
Require Import Verif.Model.Time Verif.Base.Bytes Verif.Model.Proto Verif.Model.Env Verif.Model.SM Verif.Proofs.SMPure.
Open Scope Z_scope.

(* each cohort field the response carries (even empty) replaces the app's value, absent fields are kept *)
Theorem C09_merge_fieldwise :
  forall mine omaha,
    c_id (merge_cohort mine omaha) = (match c_id omaha with Some x => Some x | None => c_id mine end) /\
    c_hint (merge_cohort mine omaha) = (match c_hint omaha with Some x => Some x | None => c_hint mine end) /\
    c_name (merge_cohort mine omaha) = (match c_name omaha with Some x => Some x | None => c_name mine end).
Proof. exact merge_cohort_fieldwise. Qed.

(* apps not named in the response are unchanged *)
Theorem C09_not_named_unchanged :
  forall rs a, (forall r, In r rs -> bytes_eqb (a_id a) (ar_id r) = false) -> update_app rs a = a.
Proof. exact update_app_not_named. Qed.

(* a named app takes the merged cohort and the response's day number (or none) from the first response naming it *)
Theorem C09_named_updated :
  forall rs a r, find (fun r => bytes_eqb (a_id a) (ar_id r)) rs = Some r ->
    update_app rs a = {| a_id := a_id a; a_ver := a_ver a; a_fp := a_fp a;
                         a_cohort := merge_cohort (a_cohort a) (ar_cohort r); a_uc := ar_uc r; a_extra := a_extra a |}.
Proof. exact update_app_named. Qed.

Theorem C09_ids_stable : forall apps rs, map a_id (update_from_omaha apps rs) = map a_id apps.
Proof. exact update_from_omaha_ids. Qed.

Theorem C09_no_response_no_change : forall apps, update_from_omaha apps [] = apps.
Proof. exact update_from_omaha_nil. Qed.

Print Assumptions C09_merge_fieldwise.

(* ---- restart: what is written for an app is what App::load reads back into the fields the embedder left unset ---- *)
Require Import Verif.Model.Json Verif.Proofs.C09Restart.

(* the value written for an app (persist_data) is the printed form of its cohort and date ... *)
Theorem C09_what_is_written : forall a, persisted_json a = print_json (persisted_value (a_cohort a) (a_uc a)).
Proof. exact persisted_json_value. Qed.
(* ... and reading it back gives exactly those, for every cohort of Rust strings and every u32 date *)
Theorem C09_stored_value_reads_back :
  forall c u, persistable c u = true -> decode_persisted (print_json (persisted_value c u)) = Some (c, u).
Proof. exact decode_persisted_roundtrip. Qed.
Theorem C09_restart_fills_unset_fields :
  forall s a c u, sm_get s (a_id a) = Some (VStr (print_json (persisted_value c u))) -> persistable c u = true ->
    app_load s a = {| a_id := a_id a; a_ver := a_ver a; a_fp := a_fp a;
                      a_cohort := {| c_id := orelse (c_id (a_cohort a)) (c_id c);
                                     c_hint := orelse (c_hint (a_cohort a)) (c_hint c);
                                     c_name := orelse (c_name (a_cohort a)) (c_name c) |};
                      a_uc := match a_uc a with None => u | Some d => Some d end;
                      a_extra := a_extra a |}.
Proof. exact app_load_restores. Qed.
Theorem C09_restart_nothing_stored : forall s a, sm_get s (a_id a) = None -> app_load s a = a.
Proof. exact app_load_nothing_stored. Qed.

Print Assumptions C09_restart_fills_unset_fields.

(* ---- the monitor (Model/Monitors.v step9) accepts every trace of the model ----
   step9 keeps the app set as it must currently be: what the machine was built with (init9: app_load over the given
   apps, characterised above), changed only by update_from_omaha (characterised above) with the result of a successful
   check - at the moment the result is announced - and with the document of a successful ping - at the moment it
   arrives; failed checks, failed pings and plan errors change nothing.  Against this it demands:
     - every request (update check, retry, event report, ping) carries for each of its apps the current cohort of an
       app of the set with that id, and, where it pings, the current date as both ping dates;
     - every next-time and check-allowed question shows the policy exactly the current app set;
     - right after a check's result, and after a successful ping (once its new last-contact time has been announced),
       every app is written under its id with exactly its current persisted form, in app-set order, followed by a
       commit - before any other request, event or policy question. *)
Require Import Verif.Model.Monitors Verif.Proofs.Monitor Verif.Proofs.C09Proof.

Theorem C09_monitor_accepts_every_model_trace :
  forall ep cfg url cup apps e, e_trace e = [] ->
    accepts step9 (init9 cup apps (e_store e)) (run_case ep cfg url cup apps e) = true.
Proof. exact model_accepted_c09. Qed.

Section Examples.
  Let a0 : app := {| a_id := s2b "a"; a_ver := (1, 0, 0, 0)%N; a_fp := None; a_cohort := {| c_id := Some (s2b "c1"); c_hint := None; c_name := None |};
                     a_uc := Some 5%N; a_extra := [] |}.
  Let wa (c : cohort) (d : option N) : wapp := {| wa_id := s2b "a"; wa_cohort := c; wa_uc := None; wa_ping := Some (d, d); wa_events := [] |}.
  Let w (c : cohort) (d : option N) : wire :=
    {| w_uri := []; w_headers := []; w_body := []; w_sum := {| ws_source := ScheduledTask; ws_session := None; ws_request := None; ws_apps := [wa c d] |} |}.
  Let q0 := {| cup9 := false; in9 := false; apps9 := [a0]; todo9 := [] |}.
  Let c2 := {| c_id := Some (s2b "c2"); c_hint := None; c_name := None |}.
  Let rs := [{| ar_id := s2b "a"; ar_cohort := c2; ar_uc := Some 9%N; ar_result := ANoUpdate |}].
  Let a1 : app := {| a_id := s2b "a"; a_ver := (1, 0, 0, 0)%N; a_fp := None; a_cohort := c2; a_uc := Some 9%N; a_extra := [] |}.
  Let chk := [AEvent (EvState (CheckingForUpdates ScheduledTask)); AHttp (w (a_cohort a0) (Some 5%N)) (HErr TTransport)].
  Example C09_monitor_accepts :
    accepts step9 q0 (chk ++ [AEvent (EvResult (inr rs)); AStore (SSetStr (s2b "a") (persisted_json a1)) true; AStore SCommit true;
                              AEvent (EvState (CheckingForUpdates ScheduledTask)); AHttp (w c2 (Some 9%N)) (HErr TTransport)]) = true.
  Proof. vm_compute. reflexivity. Qed.
  (* a request with a stale cohort; with a stale date; the new values not stored; stored with the old values; not committed before going on *)
  Example C09_monitor_rejects :
    accepts step9 q0 (chk ++ [AEvent (EvResult (inr rs)); AStore (SSetStr (s2b "a") (persisted_json a1)) true; AStore SCommit true;
                              AEvent (EvState (CheckingForUpdates ScheduledTask)); AHttp (w (a_cohort a0) (Some 9%N)) (HErr TTransport)]) = false
    /\ accepts step9 q0 (chk ++ [AEvent (EvResult (inr rs)); AStore (SSetStr (s2b "a") (persisted_json a1)) true; AStore SCommit true;
                              AEvent (EvState (CheckingForUpdates ScheduledTask)); AHttp (w c2 (Some 5%N)) (HErr TTransport)]) = false
    /\ accepts step9 q0 (chk ++ [AEvent (EvResult (inr rs)); AStore SCommit true]) = false
    /\ accepts step9 q0 (chk ++ [AEvent (EvResult (inr rs)); AStore (SSetStr (s2b "a") (persisted_json a0)) true]) = false
    /\ accepts step9 q0 (chk ++ [AEvent (EvResult (inr rs)); AStore (SSetStr (s2b "a") (persisted_json a1)) true; AEvent (EvState Idle)]) = false.
  Proof. vm_compute. repeat split; reflexivity. Qed.
End Examples.

Print Assumptions C09_monitor_accepts_every_model_trace.
