(* Props/C19.v — Times survive persistence and compare consistently. *)
Require Import Verif.Model.Time Verif.Proofs.TimeFacts.
From Coq Require Import ZArith.
Open Scope Z_scope.

(* micros -> SystemTime -> micros is the identity on the whole i64 range *)
Theorem C19_from_to_id : forall m, i64 m -> to_micros (from_micros m) = Some m.
Proof. exact from_to_id. Qed.

(* SystemTime -> micros truncates toward the epoch ... *)
Theorem C19_to_micros_truncates_toward_epoch :
  forall t m, to_micros t = Some m ->
    (0 <= t -> 0 <= m /\ m * 1000 <= t < m * 1000 + 1000) /\
    (t <= 0 -> m <= 0 /\ m * 1000 - 1000 < t <= m * 1000).
Proof. intros t m H. apply quot_toward_epoch. apply (to_micros_some _ _ H). Qed.

(* ... returns none exactly when the truncated value does not fit i64 (the model has no other outcome: never panics) *)
Theorem C19_to_micros_none_iff_unrepresentable :
  forall t, to_micros t = None <-> ~ i64 (Z.quot t 1000).
Proof. exact to_micros_none_iff. Qed.

Theorem C19_to_micros_value :
  forall t m, to_micros t = Some m -> m = Z.quot t 1000 /\ i64 m.
Proof. exact to_micros_some. Qed.

(* storing and reloading yields the same instant at microsecond precision,
   and the truncation helper agrees with that round trip *)
Theorem C19_store_reload :
  forall t m, store_time t = Some m -> load_time (Some m) = Some (truncate_wall t).
Proof. exact load_store. Qed.

Theorem C19_truncate_agrees :
  forall t m, to_micros t = Some m -> truncate_wall t = from_micros m.
Proof. intros t m H. symmetry. apply store_reload. exact H. Qed.

Theorem C19_truncate_toward_epoch : forall t, truncate_wall t = Z.quot t 1000 * 1000.
Proof. exact truncate_wall_quot. Qed.

Theorem C19_truncate_idempotent : forall c, truncate (truncate c) = truncate c.
Proof. exact truncate_idem. Qed.

Theorem C19_truncate_keeps_mono : forall c, mono (truncate c) = mono c.
Proof. exact truncate_mono. Qed.

Theorem C19_reload_is_fixed_point :
  forall t m, store_time t = Some m -> store_time (truncate_wall t) = Some m.
Proof. exact store_load_store. Qed.

(* partial / complete two-clock times keep exactly their components *)
Theorem C19_pct_add :
  forall p d, destructure (pct_add p d) =
    (omap (fun x => x + d) (fst (destructure p)), omap (fun x => x + d) (snd (destructure p))).
Proof. exact destructure_add. Qed.

Theorem C19_pct_sub :
  forall p d, destructure (pct_sub p d) =
    (omap (fun x => x - d) (fst (destructure p)), omap (fun x => x - d) (snd (destructure p))).
Proof. exact destructure_sub. Qed.

Theorem C19_pct_add_sub : forall p d, pct_sub (pct_add p d) d = p.
Proof. exact pct_add_sub. Qed.

Theorem C19_complete_with :
  forall p c,
    wall (complete_with p c) = match fst (destructure p) with Some w => w | None => wall c end /\
    mono (complete_with p c) = match snd (destructure p) with Some m => m | None => mono c end.
Proof. exact complete_with_spec. Qed.

Theorem C19_destructure :
  forall w m, destructure (PWall w) = (Some w, None) /\ destructure (PMono m) = (None, Some m) /\
              destructure (PComplex {| wall := w; mono := m |}) = (Some w, Some m).
Proof. intros; repeat split; reflexivity. Qed.

Theorem C19_after_or_eq_any_iff :
  forall c p, after_or_eq_any c p = true <->
    (exists w, fst (destructure p) = Some w /\ w <= wall c) \/
    (exists m, snd (destructure p) = Some m /\ m <= mono c).
Proof. exact after_or_eq_any_iff. Qed.

Theorem C19_pct_micros_roundtrip : forall m, i64 m -> pct_to_micros (pct_from_micros m) = Some m.
Proof. exact pct_micros_roundtrip. Qed.

(* non-vacuity / boundary examples, including the two repaired defects *)
Example C19_ex_min : to_micros (from_micros i64_min) = Some i64_min /\ i64 i64_min /\ i64 i64_max.
Proof. vm_compute. repeat split; discriminate. Qed.
Example C19_ex_pre_epoch : truncate_wall (-1500) = -1000 /\ truncate_wall (-2000) = -2000
  /\ to_micros (-1500) = Some (-1) /\ truncate_wall 1999 = 1000.
Proof. vm_compute. repeat split. Qed.

Print Assumptions C19_from_to_id.
Print Assumptions C19_to_micros_truncates_toward_epoch.
Print Assumptions C19_store_reload.
Print Assumptions C19_truncate_idempotent.
Print Assumptions C19_after_or_eq_any_iff.
