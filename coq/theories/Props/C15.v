(* Props/C15.v — Requests have exactly the Omaha v3 wire shape. *)
Require Import Verif.Base.Bytes Verif.Model.Version Verif.Model.Json Verif.Model.Proto Verif.Model.Request Verif.Proofs.RequestFacts.
Open Scope N_scope.

(* the builder (a fold of insert_and_modify_entry over the added update checks,
   pings and events) produces exactly the declarative app list of the spec *)
Theorem C15_build_refines_spec :
  forall p ops, b_entries (add_ops (builder_new p) ops) = spec_entries p ops.
Proof. intros p ops. exact (build_refines_spec p ops). Qed.

(* hence the whole request (headers and body bytes) is the spec's request *)
Theorem C15_request_is_spec_request :
  forall cfg p ops reqid sessid,
    let b := {| b_params := p; b_entries := b_entries (add_ops (builder_new p) ops); b_reqid := reqid; b_sessid := sessid |} in
    let sb := {| b_params := p; b_entries := spec_entries p ops; b_reqid := reqid; b_sessid := sessid |} in
    body_of cfg b = body_of cfg sb /\ headers_of cfg b = headers_of cfg sb.
Proof. intros. subst b sb. rewrite C15_build_refines_spec. split; reflexivity. Qed.

(* apps appear once each ... *)
Theorem C15_apps_once : forall p ops, NoDup (map (fun e => a_id (e_app e)) (spec_entries p ops)).
Proof. exact spec_ids_once. Qed.

(* ... and exactly the apps that were added *)
Theorem C15_apps_cover :
  forall p ops x, mem x (map (fun e => a_id (e_app e)) (spec_entries p ops)) = mem x (map oid ops).
Proof. exact spec_ids_cover. Qed.

(* update-check flags only when true; ping dates ad = rd = last day number; cohort fields only when set *)
Theorem C15_flags_only_when_true :
  json_of_uc (false, false) = JObj [] /\
  json_of_uc (true, false) = JObj [jk "updatedisabled" (JBool true)] /\
  json_of_uc (false, true) = JObj [jk "sameversionupdate" (JBool true)] /\
  json_of_uc (true, true) = JObj [jk "updatedisabled" (JBool true); jk "sameversionupdate" (JBool true)].
Proof. repeat split; reflexivity. Qed.

Theorem C15_ping_dates :
  forall id ver d,
    json_of_entry {| e_app := {| a_id := id; a_ver := ver; a_fp := None; a_cohort := cohort_none; a_uc := Some d; a_extra := [] |};
                     e_uc := None; e_ping := true; e_events := [] |}
    = JObj [jk "appid" (js id); jk "version" (js (Version.print ver));
            jk "ping" (JObj [jk "ad" (JInt false d); jk "rd" (JInt false d)])] /\
    json_of_entry {| e_app := {| a_id := id; a_ver := ver; a_fp := None; a_cohort := cohort_none; a_uc := None; a_extra := [] |};
                     e_uc := None; e_ping := true; e_events := [] |}
    = JObj [jk "appid" (js id); jk "version" (js (Version.print ver)); jk "ping" (JObj [])].
Proof. intros; split; reflexivity. Qed.

Theorem C15_cohort_fields_only_when_set :
  json_of_cohort cohort_none = [] /\
  forall i h n, json_of_cohort {| c_id := Some i; c_hint := Some h; c_name := Some n |} =
                [jk "cohort" (js i); jk "cohorthint" (js h); jk "cohortname" (js n)].
Proof. split; reflexivity. Qed.

(* interactivity header: fg iff on-demand *)
Theorem C15_interactivity :
  forall cfg b, nth_error (headers_of cfg b) 2 =
    Some (s2b "x-goog-update-interactivity", match p_source (b_params b) with OnDemand => s2b "fg" | ScheduledTask => s2b "bg" end).
Proof. intros. reflexivity. Qed.

(* first-app-id header *)
Theorem C15_app_id_header :
  forall cfg b e r, b_entries b = e :: r ->
    nth_error (headers_of cfg b) 3 = Some (s2b "x-goog-update-appid", a_id (e_app e)).
Proof. intros cfg b e r H. unfold headers_of. rewrite H. reflexivity. Qed.

(* event numeric codes are the protocol's (pinned; also regenerated from request.rs into gen/Anchors.v) *)
Theorem C15_event_codes :
  map etype_code [ETUnknown; ETDownloadComplete; ETInstallComplete; ETUpdateComplete; ETUpdateDownloadStarted; ETUpdateDownloadFinished; ETRebootedAfterUpdate]
    = [0; 1; 2; 3; 13; 14; 54] /\
  map eresult_code [ERError; ERSuccess; ERSuccessAndRestartRequired; ERSuccessAndAppRestartRequired; ERCancelled; ERErrorInSystemInstaller; ERUpdateDeferred]
    = [0; 1; 2; 3; 4; 8; 9] /\
  map eerr_code [EEParseResponse; EEConstructInstallPlan; EEInstallation; EEDeniedByPolicy] = [0; 1; 2; 3].
Proof. repeat split; reflexivity. Qed.

(* building is a function of the builder: it neither consumes nor alters it *)
Theorem C15_build_pure : forall cfg b, body_of cfg b = body_of cfg b /\ headers_of cfg b = headers_of cfg b.
Proof. intros; split; reflexivity. Qed.

Example C15_ex_body :
  body_of {| cfg_name := s2b "u"; cfg_uver := (1, 2, 3, 4); os_platform := s2b "p"; os_version := s2b "v"; os_sp := s2b "s"; os_arch := s2b "a"; cfg_url := s2b "http://x/" |}
          (add_ops (builder_new params_default)
             [OpUpdateCheck {| a_id := s2b "app"; a_ver := (1, 0, 0, 0); a_fp := None; a_cohort := cohort_none; a_uc := Some 7; a_extra := [] |};
              OpPing {| a_id := s2b "app"; a_ver := (9, 9, 9, 9); a_fp := None; a_cohort := cohort_none; a_uc := None; a_extra := [] |}])
  = s2b "{""request"":{""protocol"":""3.0"",""updater"":""u"",""updaterversion"":""1.2.3.4"",""installsource"":""scheduledtask"",""ismachine"":true,""os"":{""platform"":""p"",""version"":""v"",""sp"":""s"",""arch"":""a""},""app"":[{""appid"":""app"",""version"":""1.0.0.0"",""updatecheck"":{},""ping"":{""ad"":7,""rd"":7}}]}}".
Proof. vm_compute. reflexivity. Qed.

Print Assumptions C15_build_refines_spec.
Print Assumptions C15_request_is_spec_request.
Print Assumptions C15_apps_once.
