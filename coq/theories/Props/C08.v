(* Props/C08.v — Protocol bookkeeping is exact, durable and crash-consistent.
   Three parts.  (1) The counting rules, "what the policy is shown" and "written and committed right after the result"
   are the monitor theorem C08_bookkeeping_monitor_accepts_every_model_trace.  (2) Durability: what a rebuilt state machine presents
   after the context writes is exactly what was written, times at microsecond precision (C08_rebuilt_state_is_last_persisted).
   (3) NOT a theorem: crash at every interaction.  Atomicity of commit is the Storage trait's contract (an assumption about
   the embedder's storage, recorded in the trusted base); given it, "never a mixture of two commits" follows from (1)
   (every write block ends in a commit before anything else happens) and (2).  The persist after a ping (as opposed
   to after a check) is compared by trace equality only. *)
Require Import Verif.Model.Time Verif.Base.Bytes Verif.Model.Env Verif.Model.SM Verif.Proofs.SMPure Verif.Proofs.TimeFacts.
Open Scope Z_scope.

(* storage written by Context::persist (fault-free) loads back to exactly the persisted failure count, the poll
   interval and the last-contact time at microsecond precision (as a wall time), never a mixture *)
Theorem C08_rebuilt_state_is_last_persisted :
  forall sc ps s,
    0 <= ps_fails ps <= u32_max ->
    (forall ns, ps_poll ps = Some ns -> 0 <= ns /\ ns / 1000 <= i64_max) ->
    ctx_load (fold_left (fun m op => apply_store_op op m) (ctx_persist_ops sc ps) s) =
    (let lut := match (match s_last_update sc with Some p => pct_to_micros p | None => None end) with
                | Some m => Some (PWall (from_micros m)) | None => None end in
     {| s_last_update := lut; s_last_check := lut; s_next := None |},
     {| ps_poll := match ps_poll ps with Some ns => Some (ns / 1000 * 1000) | None => None end;
        ps_fails := ps_fails ps; ps_proxied := 0 |}).
Proof. exact ctx_load_persist. Qed.

(* the reloaded last-contact time is the persisted one truncated toward the epoch to microseconds (C19) *)
Theorem C08_time_precision :
  forall t m, to_micros t = Some m -> from_micros m = truncate_wall t.
Proof. exact store_reload. Qed.

(* the failure count is the number of failed checks since the last success, saturating at u32::MAX *)
Theorem C08_counter_step :
  forall z, 0 <= z <= u32_max -> sat_inc_u32 z = Z.min (z + 1) u32_max.
Proof. exact sat_inc_u32_spec. Qed.

(* stored values of the wrong type or out of range load as absent / zero (defensive load) *)
Example C08_ex_defensive_load :
  ctx_load [(K_FAILED_CHECKS, VInt 4294967296); (K_POLL_INTERVAL, VInt (-5)); (K_LAST_UPDATE_TIME, VStr [])]
  = ({| s_last_update := None; s_last_check := None; s_next := None |}, {| ps_poll := None; ps_fails := 0; ps_proxied := 0 |}).
Proof. vm_compute. reflexivity. Qed.

Print Assumptions C08_rebuilt_state_is_last_persisted.

(* ---- the bookkeeping monitor (Model/Monitors.v step8) accepts every trace of the model ----
   step8 keeps the two values as they must be, starting from what the stored context loads to:
     - the failure count: after a check, 0 if its result is a success, else the saturating successor (every failed
       check counts: request errors, unparseable body, unusable plan); after a ping, 0 if it got a usable document, else
       the saturating successor;
     - the last-contact time: the clock reading taken at the end of a check whose result is a success, a parser error
       or an install-plan error, or taken after a ping that got a usable document; unchanged by every other outcome
       (transport, HTTP status, request construction, failed authentication, failed ping).
   It demands: the schedule and protocol state announced just before each result carry exactly these values; every
   protocol state announced in between carries the old count; the policy (next-time and check-allowed questions) is
   always shown exactly these values; and immediately after a result the last-contact time (microseconds, or its
   removal), the poll interval, the count (removed when zero) and the apps are written and committed before
   anything else happens.  (pw8: when no ping can be put on the wire at all - invalid service URL or header value -
   failed pings leave no trace and the count shown to the policy is taken on trust.) *)
Require Import Verif.Model.Monitors Verif.Proofs.Monitor Verif.Proofs.C08Proof Verif.Model.Proto Verif.Model.Request.

Theorem C08_bookkeeping_monitor_accepts_every_model_trace :
  forall ep cfg url cup apps e, e_trace e = [] ->
    accepts step8 (init8 cfg url cup apps (e_store e)) (run_case ep cfg url cup apps e) = true.
Proof. exact model_accepted_c08. Qed.

Section Examples.
  Let w0 : wire := {| w_uri := []; w_headers := []; w_body := [];
                      w_sum := {| ws_source := ScheduledTask; ws_session := None; ws_request := None; ws_apps := [] |} |}.
  Let c1 : ctime := {| wall := 5000; mono := 7 |}.
  Let q0 : q8 := {| cup8 := false; pw8 := true; in8 := false; fails8 := 2; lu8 := None; clk8 := None; tsched8 := None; tps8 := None;
                    pfail8 := None; await8 := false; todo8 := [] |}.
  Let sc (lu : option pct) : sched := {| s_last_update := lu; s_last_check := None; s_next := None |}.
  Let ps (f : Z) : Env.pstate := {| ps_poll := None; ps_fails := f; ps_proxied := 0 |}.
  Let chk := [AEvent (EvState (CheckingForUpdates ScheduledTask)); AClock c1; AHttp w0 (HErr TTransport)].
  Let fail_res : check_err + list app_response := inl (CEOmahaRequest (REHttpTransport TTransport)).
  (* a failed check: count 2 -> 3, last contact untouched, then written and committed *)
  Example C08_monitor_accepts :
    accepts step8 q0 (chk ++ [AEvent (EvSchedule (sc None)); AEvent (EvProtocol (ps 3)); AEvent (EvResult fail_res);
                              AStore (SRemove K_LAST_UPDATE_TIME) true; AStore (SRemove K_POLL_INTERVAL) true;
                              AStore (SSetInt K_FAILED_CHECKS 3) true; AStore SCommit true;
                              APolicy (QNextTime [] (sc None) (ps 3)) (PTiming default_timing)]) = true.
  Proof. vm_compute. reflexivity. Qed.
  (* count not incremented; last contact touched by a transport failure; a parser error that does not touch it;
     the count not written; the policy shown a stale count *)
  Example C08_monitor_rejects :
    accepts step8 q0 (chk ++ [AEvent (EvSchedule (sc None)); AEvent (EvProtocol (ps 2)); AEvent (EvResult fail_res)]) = false
    /\ accepts step8 q0 (chk ++ [AEvent (EvSchedule (sc (Some (PComplex c1)))); AEvent (EvProtocol (ps 3)); AEvent (EvResult fail_res)]) = false
    /\ accepts step8 q0 (chk ++ [AEvent (EvSchedule (sc None)); AEvent (EvProtocol (ps 3)); AEvent (EvResult (inl CEInstallPlan))]) = false
    /\ accepts step8 q0 (chk ++ [AEvent (EvSchedule (sc None)); AEvent (EvProtocol (ps 3)); AEvent (EvResult fail_res);
                                 AStore (SRemove K_LAST_UPDATE_TIME) true; AStore (SRemove K_POLL_INTERVAL) true;
                                 AStore (SSetInt K_FAILED_CHECKS 2) true]) = false
    /\ accepts step8 q0 [APolicy (QNextTime [] (sc None) (ps 1)) (PTiming default_timing)] = false.
  Proof. vm_compute. repeat split; reflexivity. Qed.
End Examples.

Print Assumptions C08_bookkeeping_monitor_accepts_every_model_trace.

(* ---- never a mixture of two commits (Model/Monitors8m.v step8m) ----
   A check may store and commit the bookkeeping keys before it is finished (a changed poll interval is persisted at
   once).  step8m rejects, while a check is under way, any write to the last-contact-time key or the failure-count key
   that is not the value the machine last announced (schedule / protocol-state event): a crash after such a commit then
   leaves a state that was announced - the last finished check's or ping's - never values of the running check. *)
Require Import Verif.Model.Monitors8m Verif.Proofs.C08mProof.
Theorem C08_a_running_check_writes_only_what_was_announced :
  forall ep cfg url cup apps e, e_trace e = [] ->
    accepts step8m init8m (run_case ep cfg url cup apps e) = true.
Proof. exact model_accepted_c08m. Qed.
Section Examples8m.
  Let sc (t : option pct) : sched := {| s_last_update := t; s_last_check := None; s_next := None |}.
  Let ps (f : Z) : Env.pstate := {| ps_poll := None; ps_fails := f; ps_proxied := 0 |}.
  Let chk := AEvent (EvState (CheckingForUpdates ScheduledTask)).
  Example C08_mixture_monitor :
    (* the running check stores a last-contact time it has not announced; a failure count it has not announced *)
    accepts step8m init8m [AEvent (EvSchedule (sc (Some (PWall 1000000)))); chk; AStore (SSetInt K_LAST_UPDATE_TIME 2000) true] = false
    /\ accepts step8m init8m [AEvent (EvProtocol (ps 2)); chk; AStore (SRemove K_FAILED_CHECKS) true] = false
    (* it stores what was announced *)
    /\ accepts step8m init8m [AEvent (EvSchedule (sc (Some (PWall 1000000)))); AEvent (EvProtocol (ps 2)); chk;
                               AStore (SSetInt K_LAST_UPDATE_TIME 1000) true; AStore (SSetInt K_FAILED_CHECKS 2) true; AStore SCommit true] = true
    (* after the result the new values are written (they were announced just before) *)
    /\ accepts step8m init8m [chk; AEvent (EvSchedule (sc (Some (PWall 5000000)))); AEvent (EvProtocol (ps 0)); AEvent (EvResult (inl CEResponseParser));
                               AStore (SSetInt K_LAST_UPDATE_TIME 5000) true; AStore (SRemove K_FAILED_CHECKS) true] = true.
  Proof. vm_compute. repeat split. Qed.
End Examples8m.
Print Assumptions C08_a_running_check_writes_only_what_was_announced.
