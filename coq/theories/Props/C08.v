(* Props/C08.v — Protocol bookkeeping is exact, durable and crash-consistent.
   PARTIAL at the level of theorems: the durability round trip (what a rebuilt state machine presents to its policy
   after the three context writes) and the saturating failure counter are proved below; the counting rules
   (which outcomes count, which set last-contact), "committed when idle" and crash consistency at every interaction are
   decided by trace equality between model and implementation on the storage / policy-argument / event projection
   (proj_c08) and by the harness's crash-and-rebuild runs at every environment interaction. *)
Require Import Verif.Model.Time Verif.Base.Bytes Verif.Model.Env Verif.Model.SM Verif.Proofs.SMPure Verif.Proofs.TimeFacts.
Open Scope Z_scope.

(* storage written by Context::persist (fault-free) loads back to exactly the persisted failure count, the poll
   interval and the last-contact time at microsecond precision (as a wall time), never a mixture *)
Theorem C08_rebuilt_state_is_last_persisted :
  forall sc ps s,
    0 <= ps_fails ps <= u32_max ->
    (forall ns, ps_poll ps = Some ns -> 0 <= ns /\ ns / 1000 <= i64_max) ->
    ctx_load (fold_left (fun m op => apply_store_op op m) (ctx_persist_ops sc ps) s) =
    (let lut := match (match s_last_update sc with Some p => pct_to_micros p | None => None end) with
                | Some m => Some (PWall (from_micros m)) | None => None end in
     {| s_last_update := lut; s_last_check := lut; s_next := None |},
     {| ps_poll := match ps_poll ps with Some ns => Some (ns / 1000 * 1000) | None => None end;
        ps_fails := ps_fails ps; ps_proxied := 0 |}).
Proof. exact ctx_load_persist. Qed.

(* the reloaded last-contact time is the persisted one truncated toward the epoch to microseconds (C19) *)
Theorem C08_time_precision :
  forall t m, to_micros t = Some m -> from_micros m = truncate_wall t.
Proof. exact store_reload. Qed.

(* the failure count is the number of failed checks since the last success, saturating at u32::MAX *)
Theorem C08_counter_step :
  forall z, 0 <= z <= u32_max -> sat_inc_u32 z = Z.min (z + 1) u32_max.
Proof. exact sat_inc_u32_spec. Qed.

(* stored values of the wrong type or out of range load as absent / zero (defensive load) *)
Example C08_ex_defensive_load :
  ctx_load [(K_FAILED_CHECKS, VInt 4294967296); (K_POLL_INTERVAL, VInt (-5)); (K_LAST_UPDATE_TIME, VStr [])]
  = ({| s_last_update := None; s_last_check := None; s_next := None |}, {| ps_poll := None; ps_fails := 0; ps_proxied := 0 |}).
Proof. vm_compute. reflexivity. Qed.

Print Assumptions C08_rebuilt_state_is_last_persisted.
