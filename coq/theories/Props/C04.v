(* Props/C04.v — Update-check flow: announced states and result match what happened.
   PARTIAL at the level of theorems: the result-alignment clause is proved below for the model's pure core; the
   event-shape clauses (first/last events, the iff's for each state, Idle/WaitingForReboot) are decided by trace
   equality between the model and the implementation on the event projection (Run/EvalProps.v proj_c04) — the
   monitor proof in the style of C02/C05/C06/C07 is future work for this property. *)
Require Import Verif.Model.Time Verif.Base.Bytes Verif.Model.Proto Verif.Model.Env Verif.Model.SM Verif.Proofs.SMPure.
Open Scope Z_scope.

(* the result lists the response's apps in order ... *)
Theorem C04_result_lists_response_apps_in_order :
  forall apps rs ds, map ar_id (assign_results apps rs ds) = map r_id apps.
Proof. exact assign_results_ids. Qed.
Theorem C04_not_updated_result_lists_response_apps_in_order :
  forall d act, map ar_id (make_app_responses d act) = map r_id (d_apps d) /\ Forall (fun r => ar_result r = act) (make_app_responses d act).
Proof. intros. split; [apply make_app_responses_ids|apply make_app_responses_actions]. Qed.

(* ... with the action each actually received: the i-th offered app carries the i-th installer result, all others NoUpdate *)
Theorem C04_result_alignment :
  forall apps rs ds, map ar_result (assign_results apps rs ds) = offered_actions apps rs.
Proof. exact assign_results_actions. Qed.

Theorem C04_result_carries_response_data :
  forall apps rs ds, Forall2 (fun a r => ar_cohort r = r_cohort a /\ ar_uc r = ds) apps (assign_results apps rs ds).
Proof. exact assign_results_data. Qed.

Example C04_ex_alignment :
  offered_actions [ {| r_id := s2b "a"; r_cohort := cohort_none; r_uc := Some (false, None) |};
                    {| r_id := s2b "b"; r_cohort := cohort_none; r_uc := Some (true, None) |};
                    {| r_id := s2b "c"; r_cohort := cohort_none; r_uc := None |};
                    {| r_id := s2b "d"; r_cohort := cohort_none; r_uc := Some (true, None) |} ]
                  [RFailed; RInstalled]
  = [ANoUpdate; AInstallPlanExecutionError; ANoUpdate; AUpdated].
Proof. reflexivity. Qed.

Print Assumptions C04_result_alignment.
