(* Props/C04.v — Update-check flow: announced states and result match what happened.
   The main theorem is C04_event_monitor_accepts_every_model_trace (below); the theorems before it characterise the
   two pure functions (assign_results, make_app_responses) the monitor uses to say what the result must list. *)
Require Import Verif.Model.Time Verif.Base.Bytes Verif.Model.Proto Verif.Model.Env Verif.Model.SM Verif.Proofs.SMPure.
Open Scope Z_scope.

(* the result lists the response's apps in order ... *)
Theorem C04_result_lists_response_apps_in_order :
  forall apps rs ds, map ar_id (assign_results apps rs ds) = map r_id apps.
Proof. exact assign_results_ids. Qed.
Theorem C04_not_updated_result_lists_response_apps_in_order :
  forall d act, map ar_id (make_app_responses d act) = map r_id (d_apps d) /\ Forall (fun r => ar_result r = act) (make_app_responses d act).
Proof. intros. split; [apply make_app_responses_ids|apply make_app_responses_actions]. Qed.

(* ... with the action each actually received: the i-th offered app carries the i-th installer result, all others NoUpdate *)
Theorem C04_result_alignment :
  forall apps rs ds, map ar_result (assign_results apps rs ds) = offered_actions apps rs.
Proof. exact assign_results_actions. Qed.

Theorem C04_result_carries_response_data :
  forall apps rs ds, Forall2 (fun a r => ar_cohort r = r_cohort a /\ ar_uc r = ds) apps (assign_results apps rs ds).
Proof. exact assign_results_data. Qed.

Example C04_ex_alignment :
  offered_actions [ {| r_id := s2b "a"; r_cohort := cohort_none; r_uc := Some (false, None) |};
                    {| r_id := s2b "b"; r_cohort := cohort_none; r_uc := Some (true, None) |};
                    {| r_id := s2b "c"; r_cohort := cohort_none; r_uc := None |};
                    {| r_id := s2b "d"; r_cohort := cohort_none; r_uc := Some (true, None) |} ]
                  [RFailed; RInstalled]
  = [ANoUpdate; AInstallPlanExecutionError; ANoUpdate; AUpdated].
Proof. reflexivity. Qed.

Print Assumptions C04_result_alignment.

(* ---- the event-stream monitor (Model/Monitors.v step4) accepts every trace of the model ----
   step4 reads the facts from the trace itself (outcome of the last update-check attempt, the document, the
   installer's plan and per-app results, the policy's decisions) and dictates the events:
     - outside a check only CheckingForUpdates may start one (schedule / protocol announcements are free);
     - ErrorCheckingForUpdate is accepted exactly when the last attempt gave no usable response (none on the wire,
       transport error, non-2xx, failed authentication) or an unparseable one; the server response is accepted exactly
       when the last attempt was authenticated, 2xx and parsed, and it must be that document;
     - a response offering nothing must be followed by NoUpdateAvailable; a refused plan by InstallingUpdate,
       InstallationError; a deferred install by InstallationDeferredByPolicy; a denied one by nothing; an approved one by
       InstallingUpdate before the installer is called, then (progress aside) one InstallerError per failed app followed by
       InstallationError iff some app failed, else the reboot-needed question;
     - then, and only then, the schedule, the protocol state and exactly one result: the request error, the parser
       error, the plan error, or the response's apps in order with cohort, day number and the action each received
       (assign_results / make_app_responses, characterised above); these two announcements are what the policy is shown
       at its next next-time question unless a request intervenes (the "final" schedule and protocol state);
     - after the result WaitingForReboot comes iff the policy said a reboot is needed, and Idle closes the check (after
       the reboot, when one was pending).  Any other state event, a second result, a result without its
       announcements, or an event of another path is rejected. *)
Require Import Verif.Model.Monitors Verif.Proofs.Monitor Verif.Proofs.C04Proof Verif.Model.Json Verif.Model.Request.

Theorem C04_event_monitor_accepts_every_model_trace :
  forall ep cfg url cup apps e, e_trace e = [] ->
    accepts step4 (init4 cup) (run_case ep cfg url cup apps e) = true.
Proof. exact model_accepted_c04. Qed.

Section Examples.
  Let w0 : wire := {| w_uri := []; w_headers := []; w_body := [];
                      w_sum := {| ws_source := ScheduledTask; ws_session := None; ws_request := None; ws_apps := [] |} |}.
  Let d1 : doc := {| d_daystart := None; d_apps := [{| r_id := s2b "a"; r_cohort := cohort_none; r_uc := Some (true, Some (s2b "2.0")) |};
                                                      {| r_id := s2b "b"; r_cohort := cohort_none; r_uc := Some (true, None) |}] |}.
  Let sc : sched := {| s_last_update := None; s_last_check := None; s_next := None |}.
  Let ps : Env.pstate := {| ps_poll := None; ps_fails := 0; ps_proxied := 0 |}.
  Let q0 := init4 None.
  Let pre := [AEvent (EvState (CheckingForUpdates ScheduledTask)); AHttp w0 (HResp 200%N None true (BDoc d1)); AEvent (EvServerResponse d1);
              AInstaller (ICreatePlan params_default None d1 false) (IPlan (Some (s2b "p")));
              APolicy (QCanStart (s2b "p")) (PUDecision UOk); AEvent (EvState InstallingUpdate);
              AInstaller (IPerform (s2b "p")) (IPerformed {| pa_progress := []; pa_results := [RInstalled; RFailed] |})].
  Let tl (r : list app_response) := [AEvent (EvSchedule sc); AEvent (EvProtocol ps); AEvent (EvResult (inr r))].
  Let good := [{| ar_id := s2b "a"; ar_cohort := cohort_none; ar_uc := None; ar_result := AUpdated |};
               {| ar_id := s2b "b"; ar_cohort := cohort_none; ar_uc := None; ar_result := AInstallPlanExecutionError |}].
  Let swapped := [{| ar_id := s2b "a"; ar_cohort := cohort_none; ar_uc := None; ar_result := AInstallPlanExecutionError |};
                  {| ar_id := s2b "b"; ar_cohort := cohort_none; ar_uc := None; ar_result := AUpdated |}].

  Example C04_monitor_accepts :
    accepts step4 q0 (pre ++ [AEvent EvInstallerError; AEvent (EvState InstallationError)] ++ tl good ++ [AEvent (EvState Idle)]) = true.
  Proof. vm_compute. reflexivity. Qed.
  (* results attributed to the wrong apps; the installer error not announced; no InstallationError; the result before its
     announcements; WaitingForReboot without a pending reboot; an error state after a usable response *)
  Example C04_monitor_rejects :
    accepts step4 q0 (pre ++ [AEvent EvInstallerError; AEvent (EvState InstallationError)] ++ tl swapped) = false
    /\ accepts step4 q0 (pre ++ [AEvent (EvState InstallationError)]) = false
    /\ accepts step4 q0 (pre ++ [AEvent EvInstallerError] ++ tl good) = false
    /\ accepts step4 q0 (pre ++ [AEvent EvInstallerError; AEvent (EvState InstallationError); AEvent (EvResult (inr good))]) = false
    /\ accepts step4 q0 (pre ++ [AEvent EvInstallerError; AEvent (EvState InstallationError)] ++ tl good ++ [AEvent (EvState WaitingForReboot)]) = false
    /\ accepts step4 q0 [AEvent (EvState (CheckingForUpdates ScheduledTask)); AHttp w0 (HResp 200%N None true (BDoc d1));
                         AEvent (EvState ErrorCheckingForUpdate)] = false.
  Proof. vm_compute. repeat split; reflexivity. Qed.
End Examples.

Print Assumptions C04_event_monitor_accepts_every_model_trace.
