(* Props/C07.v — Server-dictated poll interval (X-Retry-After) is honoured. *)
Require Import Verif.Model.Time Verif.Base.Bytes Verif.Proofs.BytesFacts Verif.Model.Env Verif.Model.SM Verif.Proofs.SMPure.
Open Scope Z_scope.

(* a header whose (first) value is a plain decimal u64 N gives min(N, 86400) seconds *)
Theorem C07_parse_digits :
  forall ds, ds <> [] -> all_digits ds = true -> (dec_value ds < 2 ^ 64)%N ->
    parse_retry_after (Some ds) = Some (Z.min (Z.of_N (dec_value ds)) 86400 * 1000000000).
Proof. exact parse_retry_after_digits. Qed.

(* no header: absent *)
Theorem C07_parse_absent : parse_retry_after None = None.
Proof. exact parse_retry_after_none_header. Qed.

(* overflowing digit strings, values with a non-digit other than one leading '+', non-ASCII / control bytes: absent *)
Theorem C07_parse_overflow :
  forall ds, all_digits ds = true -> (2 ^ 64 <= dec_value ds)%N -> parse_retry_after (Some ds) = None.
Proof. exact parse_retry_after_overflow. Qed.
Theorem C07_parse_nondigit :
  forall v c, In c v -> is_digit c = false -> c <> 43%N -> parse_retry_after (Some v) = None.
Proof. exact parse_retry_after_nondigit. Qed.
Theorem C07_parse_not_text :
  forall v, to_str_ok v = false -> parse_retry_after (Some v) = None.
Proof. intros v H. apply parse_retry_after_bad. left. exact H. Qed.

(* the accepted language exactly: +?digits with value < 2^64 (see DESIGN.md section 6 for the '+' reading) *)
Theorem C07_parse_exact :
  forall v x, parse_retry_after (Some v) = Some x <->
    to_str_ok v = true /\ exists n, numeral (2 ^ 64) v n /\ x = Z.min (Z.of_N n) 86400 * 1000000000.
Proof.
  intros v x. unfold parse_retry_after. split.
  - destruct (to_str_ok v); [|discriminate]. destruct (parse_u64 v) as [n|] eqn:E; [|discriminate].
    intro H. inversion H. split; [reflexivity|]. exists n. split; [apply parse_unsigned_iff; exact E|reflexivity].
  - intros [H1 (n & H2 & ->)]. rewrite H1. apply parse_unsigned_iff in H2. unfold parse_u64. rewrite H2. reflexivity.
Qed.

Theorem C07_capped : forall h x, parse_retry_after h = Some x -> 0 <= x <= 86400 * 1000000000.
Proof. exact parse_retry_after_range. Qed.

Example C07_ex : parse_retry_after (Some (s2b "4294967296")) = Some (86400 * 1000000000)
  /\ parse_retry_after (Some (s2b "12")) = Some 12000000000 /\ parse_retry_after (Some (s2b " 7")) = None
  /\ parse_retry_after (Some (s2b "18446744073709551616")) = None /\ parse_retry_after (Some (s2b "")) = None.
Proof. vm_compute. repeat split. Qed.

Print Assumptions C07_parse_exact.

(* ---- the poll-interval monitor (Model/Monitors.v step7) accepts every trace of the model ----
   step7 tracks the interval in force.  After every response that passed authentication (every response when no CUP
   handler is configured), of any status and for any request kind, the interval in force becomes
   parse_retry_after(first X-Retry-After value); if that is a change, the very next actions must be the
   ProtocolStateChange announcing it, the three context writes (the interval's own write carrying exactly the new
   value in microseconds, or its removal) and a commit — nothing else may come in between.  Exchanges without a response and
   unauthenticated responses leave it unchanged.  Every protocol state shown to the policy (next-time and
   check-allowed questions) and to observers carries the interval in force.  The monitor starts from the stored value. *)
Require Import Verif.Model.Monitors Verif.Proofs.Monitor Verif.Proofs.C07Proof Verif.Model.Proto.

Theorem C07_poll_monitor_accepts_every_model_trace :
  forall ep cfg url cup apps e, e_trace e = [] ->
    accepts step7 (init7 cup (e_store e)) (run_case ep cfg url cup apps e) = true.
Proof. exact model_accepted_c07. Qed.

(* restart: what the committed write stores is what a rebuilt state machine loads *)
Theorem C07_restart :
  forall h s, ps_poll (snd (ctx_load (apply_store_op (poll_store_op (parse_retry_after h)) s))) = parse_retry_after h.
Proof. exact poll_restart. Qed.

Example C07_monitor_rejects :
  (* a changed interval that is not announced before the flow continues *)
  accepts step7 {| cup7 := false; p7 := None; todo7 := [] |}
    [AHttp {| w_uri := []; w_headers := []; w_body := []; w_sum := {| ws_source := ScheduledTask; ws_session := None; ws_request := None; ws_apps := [] |} |}
           (HResp 200%N (Some (s2b "5")) true BBad);
     AMetric (MRequestsPerCheck 1 true)] = false
  /\ (* the policy being shown a stale interval *)
  accepts step7 {| cup7 := false; p7 := Some 5000000000%Z; todo7 := [] |}
    [APolicy (QNextTime [] {| s_last_update := None; s_last_check := None; s_next := None |} {| ps_poll := None; ps_fails := 0; ps_proxied := 0 |})
             (PTiming default_timing)] = false.
Proof. vm_compute. split; reflexivity. Qed.

Print Assumptions C07_poll_monitor_accepts_every_model_trace.
Print Assumptions C07_restart.
