(* Props/C07.v — Server-dictated poll interval (X-Retry-After) is honoured. *)
Require Import Verif.Model.Time Verif.Base.Bytes Verif.Proofs.BytesFacts Verif.Model.Env Verif.Model.SM Verif.Proofs.SMPure.
Open Scope Z_scope.

(* a header whose (first) value is a plain decimal u64 N gives min(N, 86400) seconds *)
Theorem C07_parse_digits :
  forall ds, ds <> [] -> all_digits ds = true -> (dec_value ds < 2 ^ 64)%N ->
    parse_retry_after (Some ds) = Some (Z.min (Z.of_N (dec_value ds)) 86400 * 1000000000).
Proof. exact parse_retry_after_digits. Qed.

(* no header: absent *)
Theorem C07_parse_absent : parse_retry_after None = None.
Proof. exact parse_retry_after_none_header. Qed.

(* overflowing digit strings, values with a non-digit other than one leading '+', non-ASCII / control bytes: absent *)
Theorem C07_parse_overflow :
  forall ds, all_digits ds = true -> (2 ^ 64 <= dec_value ds)%N -> parse_retry_after (Some ds) = None.
Proof. exact parse_retry_after_overflow. Qed.
Theorem C07_parse_nondigit :
  forall v c, In c v -> is_digit c = false -> c <> 43%N -> parse_retry_after (Some v) = None.
Proof. exact parse_retry_after_nondigit. Qed.
Theorem C07_parse_not_text :
  forall v, to_str_ok v = false -> parse_retry_after (Some v) = None.
Proof. intros v H. apply parse_retry_after_bad. left. exact H. Qed.

(* the accepted language exactly: +?digits with value < 2^64 (see DESIGN.md section 6 for the '+' reading) *)
Theorem C07_parse_exact :
  forall v x, parse_retry_after (Some v) = Some x <->
    to_str_ok v = true /\ exists n, numeral (2 ^ 64) v n /\ x = Z.min (Z.of_N n) 86400 * 1000000000.
Proof.
  intros v x. unfold parse_retry_after. split.
  - destruct (to_str_ok v); [|discriminate]. destruct (parse_u64 v) as [n|] eqn:E; [|discriminate].
    intro H. inversion H. split; [reflexivity|]. exists n. split; [apply parse_unsigned_iff; exact E|reflexivity].
  - intros [H1 (n & H2 & ->)]. rewrite H1. apply parse_unsigned_iff in H2. unfold parse_u64. rewrite H2. reflexivity.
Qed.

Theorem C07_capped : forall h x, parse_retry_after h = Some x -> 0 <= x <= 86400 * 1000000000.
Proof. exact parse_retry_after_range. Qed.

Example C07_ex : parse_retry_after (Some (s2b "4294967296")) = Some (86400 * 1000000000)
  /\ parse_retry_after (Some (s2b "12")) = Some 12000000000 /\ parse_retry_after (Some (s2b " 7")) = None
  /\ parse_retry_after (Some (s2b "18446744073709551616")) = None /\ parse_retry_after (Some (s2b "")) = None.
Proof. vm_compute. repeat split. Qed.

Print Assumptions C07_parse_exact.
