(* Props/C12.v — Scheduled checks wait for the policy's time and minimum wait.
   PARTIAL at the level of theorems: the join semantics of the wait is proved below for the model's select function;
   "ask, announce, arm exactly" and the reboot-wait rules are decided by trace equality on the policy/schedule/timer
   projection (proj_c12) with all orders and subsets of firings in the generated scripts. *)
Require Import Verif.Model.Time Verif.Base.Bytes Verif.Model.Env Verif.Model.SM Verif.Proofs.SMPure.
Open Scope Z_scope.

(* a scheduled (unrequested) check begins only after every timer armed for this wait has fired, in any order:
   the timer branch of the outer wait consumes at least as many firings as there are armed timers, and no control request *)
Theorem C12_scheduled_needs_all_timers :
  forall stim pending ctl rest c, outer_select stim pending ctl = Some (None, rest, c) -> pending <> [] ->
    exists used, stim = used ++ rest /\ (length pending <= fires used)%nat.
Proof. exact outer_select_timer. Qed.

(* a control request wakes the waiting machine without any timer firing *)
Theorem C12_request_wakes_without_timer :
  forall src rest pending ctl, outer_select (Control src :: rest) pending ctl = Some (Some (src, ctl), rest, (ctl + 1)%N).
Proof. reflexivity. Qed.

(* a proper subset of firings leaves the machine waiting (both timers armed, only one fired, script ends) *)
Example C12_ex_partial_firing :
  outer_select [Fire 0] [RMin; RUntil] 0 = None /\ outer_select [Fire 1] [RMin; RUntil] 0 = None
  /\ outer_select [Fire 1; Fire 0] [RMin; RUntil] 0 = Some (None, [], 0%N)
  /\ outer_select [Fire 0; Fire 0] [RMin; RUntil] 0 = Some (None, [], 0%N).
Proof. repeat split; reflexivity. Qed.

Print Assumptions C12_scheduled_needs_all_timers.
