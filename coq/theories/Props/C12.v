(* Props/C12.v — Scheduled checks wait for the policy's time and minimum wait.
   Two parts.  (1) Which timers must have fired before the machine leaves a wait is a theorem about the model's select
   function (firings are inputs of the environment, not actions, so no trace monitor can see them).  (2) "Ask, announce,
   arm exactly" is the monitor theorem C12_arming_monitor_accepts_every_model_trace.  Not a theorem: that the reboot
   question is re-asked only on its own timer or an on-demand request (decided by trace equality on the policy / timer
   projection and, for the on-demand half, by the run-time rule of C11's monitor). *)
Require Import Verif.Model.Time Verif.Base.Bytes Verif.Model.Env Verif.Model.SM Verif.Proofs.SMPure.
Open Scope Z_scope.

(* a scheduled (unrequested) check begins only after every timer armed for this wait has fired, in any order:
   the timer branch of the outer wait consumes at least as many firings as there are armed timers, and no control request *)
Theorem C12_scheduled_needs_all_timers :
  forall stim pending ctl rest c, outer_select stim pending ctl = Some (None, rest, c) -> pending <> [] ->
    exists used, stim = used ++ rest /\ (length pending <= fires used)%nat.
Proof. exact outer_select_timer. Qed.

(* a control request wakes the waiting machine without any timer firing *)
Theorem C12_request_wakes_without_timer :
  forall src rest pending ctl, outer_select (Control src :: rest) pending ctl = Some (Some (src, ctl), rest, (ctl + 1)%N).
Proof. reflexivity. Qed.

(* a proper subset of firings leaves the machine waiting (both timers armed, only one fired, script ends) *)
Example C12_ex_partial_firing :
  outer_select [Fire 0] [RMin; RUntil] 0 = None /\ outer_select [Fire 1] [RMin; RUntil] 0 = None
  /\ outer_select [Fire 1; Fire 0] [RMin; RUntil] 0 = Some (None, [], 0%N)
  /\ outer_select [Fire 0; Fire 0] [RMin; RUntil] 0 = Some (None, [], 0%N).
Proof. repeat split; reflexivity. Qed.

Print Assumptions C12_scheduled_needs_all_timers.

(* ---- the arming monitor (Model/Monitors.v step12) accepts every trace of the model ----
   After every answer t of the policy to the next-time question the very next actions (control traffic aside) must be:
   the schedule announcement with next update time = t, then - if t has a minimum wait - a timer for exactly that
   duration, then a timer for exactly t's time bound; nothing else may happen until they are armed, and no second
   question may be asked meanwhile.  A time-bound timer is never armed on any other occasion (duration timers also serve
   the retry back-off and the reboot interval), and every schedule announced later still carries t until the next answer.
   This covers the waits of scheduled operation and the ping waits while waiting for the reboot alike. *)
Require Import Verif.Model.Monitors Verif.Proofs.Monitor Verif.Proofs.C12Proof Verif.Model.Proto.
Open Scope Z_scope.

Theorem C12_arming_monitor_accepts_every_model_trace :
  forall ep cfg url cup apps e, e_trace e = [] ->
    accepts step12 init12 (run_case ep cfg url cup apps e) = true.
Proof. exact model_accepted_c12. Qed.

Section Examples.
  Let t1 : timing := {| t_time := PWall 100; t_min := Some 7 |}.
  Let sc (t : option timing) : sched := {| s_last_update := None; s_last_check := None; s_next := t |}.
  Let ps : Env.pstate := {| ps_poll := None; ps_fails := 0; ps_proxied := 0 |}.
  Let ask := APolicy (QNextTime [] (sc None) ps) (PTiming t1).
  Example C12_monitor_accepts :
    accepts step12 init12 [ask; AEvent (EvSchedule (sc (Some t1))); ATimer (WFor 7); ATimer (WUntil (PWall 100))] = true.
  Proof. vm_compute. reflexivity. Qed.
  (* minimum wait not armed; armed for another duration; announcement missing; another time bound; a time-bound timer out of the blue *)
  Example C12_monitor_rejects :
    accepts step12 init12 [ask; AEvent (EvSchedule (sc (Some t1))); ATimer (WUntil (PWall 100))] = false
    /\ accepts step12 init12 [ask; AEvent (EvSchedule (sc (Some t1))); ATimer (WFor 8)] = false
    /\ accepts step12 init12 [ask; ATimer (WFor 7)] = false
    /\ accepts step12 init12 [ask; AEvent (EvSchedule (sc (Some t1))); ATimer (WFor 7); ATimer (WUntil (PWall 101))] = false
    /\ accepts step12 init12 [ATimer (WUntil (PWall 100))] = false.
  Proof. vm_compute. repeat split; reflexivity. Qed.
End Examples.

Print Assumptions C12_arming_monitor_accepts_every_model_trace.
