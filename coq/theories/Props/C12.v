(* Props/C12.v — Scheduled checks wait for the policy's time and minimum wait.
   Two parts.  (1) Which timers must have fired before the machine leaves a wait is a theorem about the model's select
   function (firings are inputs of the environment, not actions, so no trace monitor can see them).  (2) "Ask, announce,
   arm exactly" is the monitor theorem C12_arming_monitor_accepts_every_model_trace.  (3) That the reboot question is
   re-asked only on its own timer or an on-demand request is again about firings: the theorems C12_reboot_wait_* (end of
   file) give what one turn of the model's wait loop does for every kind of stimulus, and C12_ping_turn_never_asks shows
   that the code run by the turns that must not ask (the ping, re-arming its timers) never asks the question.
   (C11's monitor adds the trace-visible half: an on-demand request is followed by the question before the next ping.) *)
Require Import Verif.Model.Time Verif.Base.Bytes Verif.Model.Env Verif.Model.SM Verif.Proofs.SMPure.
Open Scope Z_scope.

(* a scheduled (unrequested) check begins only after every timer armed for this wait has fired, in any order:
   the timer branch of the outer wait consumes at least as many firings as there are armed timers, and no control request *)
Theorem C12_scheduled_needs_all_timers :
  forall stim pending ctl rest c, outer_select stim pending ctl = Some (None, rest, c) -> pending <> [] ->
    exists used, stim = used ++ rest /\ (length pending <= fires used)%nat.
Proof. exact outer_select_timer. Qed.

(* a control request wakes the waiting machine without any timer firing *)
Theorem C12_request_wakes_without_timer :
  forall src rest pending ctl, outer_select (Control src :: rest) pending ctl = Some (Some (src, ctl), rest, (ctl + 1)%N).
Proof. reflexivity. Qed.

(* a proper subset of firings leaves the machine waiting (both timers armed, only one fired, script ends) *)
Example C12_ex_partial_firing :
  outer_select [Fire 0] [RMin; RUntil] 0 = None /\ outer_select [Fire 1] [RMin; RUntil] 0 = None
  /\ outer_select [Fire 1; Fire 0] [RMin; RUntil] 0 = Some (None, [], 0%N)
  /\ outer_select [Fire 0; Fire 0] [RMin; RUntil] 0 = Some (None, [], 0%N).
Proof. repeat split; reflexivity. Qed.

Print Assumptions C12_scheduled_needs_all_timers.

(* ---- the arming monitor (Model/Monitors.v step12) accepts every trace of the model ----
   After every answer t of the policy to the next-time question the very next actions (control traffic aside) must be:
   the schedule announcement with next update time = t, then - if t has a minimum wait - a timer for exactly that
   duration, then a timer for exactly t's time bound; nothing else may happen until they are armed, and no second
   question may be asked meanwhile.  A time-bound timer is never armed on any other occasion (duration timers also serve
   the retry back-off and the reboot interval), and every schedule announced later still carries t until the next answer.
   This covers the waits of scheduled operation and the ping waits while waiting for the reboot alike. *)
Require Import Verif.Model.Monitors Verif.Proofs.Monitor Verif.Proofs.C12Proof Verif.Model.Proto.
Open Scope Z_scope.

Theorem C12_arming_monitor_accepts_every_model_trace :
  forall ep cfg url cup apps e, e_trace e = [] ->
    accepts step12 init12 (run_case ep cfg url cup apps e) = true.
Proof. exact model_accepted_c12. Qed.

Section Examples.
  Let t1 : timing := {| t_time := PWall 100; t_min := Some 7 |}.
  Let sc (t : option timing) : sched := {| s_last_update := None; s_last_check := None; s_next := t |}.
  Let ps : Env.pstate := {| ps_poll := None; ps_fails := 0; ps_proxied := 0 |}.
  Let ask := APolicy (QNextTime [] (sc None) ps) (PTiming t1).
  Example C12_monitor_accepts :
    accepts step12 init12 [ask; AEvent (EvSchedule (sc (Some t1))); ATimer (WFor 7); ATimer (WUntil (PWall 100))] = true.
  Proof. vm_compute. reflexivity. Qed.
  (* minimum wait not armed; armed for another duration; announcement missing; another time bound; a time-bound timer out of the blue *)
  Example C12_monitor_rejects :
    accepts step12 init12 [ask; AEvent (EvSchedule (sc (Some t1))); ATimer (WUntil (PWall 100))] = false
    /\ accepts step12 init12 [ask; AEvent (EvSchedule (sc (Some t1))); ATimer (WFor 8)] = false
    /\ accepts step12 init12 [ask; ATimer (WFor 7)] = false
    /\ accepts step12 init12 [ask; AEvent (EvSchedule (sc (Some t1))); ATimer (WFor 7); ATimer (WUntil (PWall 101))] = false
    /\ accepts step12 init12 [ATimer (WUntil (PWall 100))] = false.
  Proof. vm_compute. repeat split; reflexivity. Qed.
End Examples.

Print Assumptions C12_arming_monitor_accepts_every_model_trace.

(* ---- (3) while waiting for the reboot, the question is asked only when the reboot timer fires or an on-demand request is seen ----
   One turn of the wait loop consumes one queued request, else one stimulus.  What each kind of turn does before the loop goes on: *)
Require Import Verif.Proofs.C12Reask.
Open Scope N_scope.

(* a ping timer fires: it is consumed; when it was the last one the ping goes out and the ping timers are re-armed *)
Theorem C12_reboot_wait_ping_timer :
  forall f src pending m e i k r,
    c_inq (e_cs e) = [] -> e_stim e = Fire i :: r -> nth_error pending i = Some k -> k <> RReboot ->
    reboot_loop (S f) src pending m e =
    (if has_ping_roles (remove_nth i pending) then reboot_loop f src (remove_nth i pending) m
     else m1 <- ping_omaha m;; mt <- update_next_update_time m1;;
          (let '(m2, t) := mt in roles <- make_wait t;; reboot_loop f src (remove_nth i pending ++ roles) m2))
      (set_stim e r (e_ctl e)).
Proof. exact turn_ping_timer. Qed.
(* ... and none of that code asks the reboot question: if it was not asked before, it was not asked after *)
Theorem C12_ping_turn_never_asks :
  (forall m e, accepts step_noask tt (rev (e_trace e)) = true -> accepts step_noask tt (rev (e_trace (snd (ping_omaha m e)))) = true) /\
  (forall m e, accepts step_noask tt (rev (e_trace e)) = true -> accepts step_noask tt (rev (e_trace (snd (update_next_update_time m e)))) = true) /\
  (forall t e, accepts step_noask tt (rev (e_trace e)) = true -> accepts step_noask tt (rev (e_trace (snd (make_wait t e)))) = true).
Proof.
  split; [|split]; intros x e; [apply (NM_no_ask _ (NM_ping x))|apply (NM_no_ask _ (NM_update_next x))|apply (NM_no_ask _ (NM_make_wait x))].
Qed.
(* a timer that is no longer armed, or the handles being dropped: nothing *)
Theorem C12_reboot_wait_stale_timer :
  forall f src pending m e i r, c_inq (e_cs e) = [] -> e_stim e = Fire i :: r -> nth_error pending i = None ->
    reboot_loop (S f) src pending m e = reboot_loop f src pending m (set_stim e r (e_ctl e)).
Proof. exact turn_stale_timer. Qed.
Theorem C12_reboot_wait_drop_handles :
  forall f src pending m e r, c_inq (e_cs e) = [] -> e_stim e = DropHandles :: r ->
    reboot_loop (S f) src pending m e = reboot_loop f src pending m (set_stim e r (e_ctl e)).
Proof. exact turn_drop_handles. Qed.
(* the reboot timer fires: the question is asked; a refusal re-arms the 30-minute timer *)
Theorem C12_reboot_wait_reboot_timer :
  forall f src pending m e i r, c_inq (e_cs e) = [] -> e_stim e = Fire i :: r -> nth_error pending i = Some RReboot ->
    reboot_loop (S f) src pending m e =
    (ok <- ask_reboot_allowed src;;
     if ok then ret m else emit (ATimer (WFor REBOOT_INTERVAL_NS));;; reboot_loop f src (remove_nth i pending ++ [RReboot]) m)
      (set_stim e r (e_ctl e)).
Proof. exact turn_reboot_timer. Qed.
(* a request (arriving now, or sent earlier and still queued): answered AlreadyRunning; only an on-demand one asks *)
Theorem C12_reboot_wait_request :
  forall f src pending m e sc r, c_inq (e_cs e) = [] -> e_stim e = Control sc :: r ->
    reboot_loop (S f) src pending m e =
    (emit (ARequest (e_ctl e) sc);;; emit (AReply (e_ctl e) AlreadyRunning);;;
     match sc with
     | OnDemand => go <- ask_reboot_allowed OnDemand;; if go then ret m else reboot_loop f OnDemand pending m
     | ScheduledTask => reboot_loop f src pending m
     end) (set_stim e r (e_ctl e + 1)).
Proof. exact turn_request. Qed.
Theorem C12_reboot_wait_queued_request :
  forall f src pending m e id sc rq, c_inq (e_cs e) = (id, sc) :: rq ->
    reboot_loop (S f) src pending m e =
    (emit (AReply id AlreadyRunning);;;
     match sc with
     | OnDemand => go <- ask_reboot_allowed OnDemand;; if go then ret m else reboot_loop f OnDemand pending m
     | ScheduledTask => reboot_loop f src pending m
     end)
      (set_cs e {| c_inject := c_inject (e_cs e); c_evn := c_evn (e_cs e); c_inq := rq; c_incheck := c_incheck (e_cs e); c_upg := c_upg (e_cs e) |} (e_ctl e)).
Proof. exact turn_queued_request. Qed.
(* the 30-minute interval *)
Example C12_reboot_interval : REBOOT_INTERVAL_NS = (30 * 60 * 1000000000)%Z. Proof. reflexivity. Qed.

Print Assumptions C12_reboot_wait_ping_timer.
Print Assumptions C12_ping_turn_never_asks.
Print Assumptions C12_reboot_wait_request.
