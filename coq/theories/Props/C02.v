(* Props/C02.v — Unauthenticated responses never influence the updater. *)
Require Import Verif.Model.Time Verif.Base.Bytes Verif.Model.Proto Verif.Model.Env Verif.Model.SM
               Verif.Model.Monitors Verif.Proofs.Monitor Verif.Proofs.C02Proof.
Open Scope Z_scope.

(* ---- the authentication monitor (Model/Monitors.v step2) accepts every trace of the model ----
   With a CUP handler configured, after a response that fails authentication (forged, tampered, unsigned, other key,
   replay — anything the verifier rejects):
   * as an update-check attempt: until the result is announced there is no further request (no retry, no event report),
     no installer call, no server-response event and no back-off wait; the failure reason reported is Internal; the
     schedule announced with the result carries the last-contact time the policy was shown when it allowed the check;
     the result is Err(OmahaRequest(CupValidation)); and the next question to the policy shows exactly the apps
     (cohorts, user counting) it was shown before the check;
   * as an event report: the next metric is the lost event, before anything else is sent or reported;
   * as a ping while waiting to reboot: no schedule (last-contact) announcement before the next timing question.
   No server-response event is ever announced while a forgery is pending.  (That a forged response cannot change the
   poll interval is part of C07's monitor; that it is never retried is also part of C06's.) *)
Theorem C02_auth_monitor_accepts_every_model_trace :
  forall ep cfg url cup apps e, e_trace e = [] ->
    accepts step2 (init2 cup) (run_case ep cfg url cup apps e) = true.
Proof. exact model_accepted_c02. Qed.

Example C02_monitor_rejects :
  let w := {| w_uri := []; w_headers := []; w_body := []; w_sum := {| ws_source := ScheduledTask; ws_session := None; ws_request := None; ws_apps := [] |} |} in
  let forged_resp := HResp 200%N (Some (s2b "5")) false (BDoc {| d_daystart := None; d_apps := [] |}) in
  let q := {| cup2 := true; in2_ := I2Att; f2_ := F2None; lu2 := None; apps2 := None; same2 := false; reason2 := false |} in
  (* retry after a forged response *)
  accepts step2 q [AHttp w forged_resp; AHttp w (HErr TTransport)] = false /\
  (* acting on its content *)
  accepts step2 q [AHttp w forged_resp; AEvent (EvServerResponse {| d_daystart := None; d_apps := [] |})] = false /\
  accepts step2 q [AHttp w forged_resp; AInstaller (IPerform []) (IPerformed {| pa_progress := []; pa_results := [] |})] = false /\
  (* wrong result *)
  accepts step2 q [AHttp w forged_resp; AMetric (MFailureReason 4); AEvent (EvResult (inl (CEOmahaRequest (REHttpStatus 200%N))))] = false /\
  (* the legitimate end *)
  accepts step2 q [AHttp w forged_resp; AMetric (MFailureReason 4); AEvent (EvResult (inl (CEOmahaRequest RECupValidation)))] = true.
Proof. vm_compute. repeat split. Qed.

Print Assumptions C02_auth_monitor_accepts_every_model_trace.

(* ---- second monitor (Model/Monitors2b.v step2b): an unauthenticated response never changes the announced protocol state ----
   Between a response that fails authentication and the next schedule announcement (the tail of the check, or the policy's
   next timing) no protocol-state change is announced: in particular the poll interval an attacker put into an
   X-Retry-After header of a forged response - or the absence of the header - is not adopted.  (What is stored is C07's
   monitor, which runs beside it.) *)
Require Import Verif.Model.Monitors2b Verif.Proofs.C02bProof.

Theorem C02_forged_response_changes_no_protocol_state :
  forall ep cfg url cup apps e, e_trace e = [] ->
    accepts step2b (init2b cup) (run_case ep cfg url cup apps e) = true.
Proof. exact model_accepted_c02b. Qed.

Example C02b_monitor_rejects :
  let w := {| w_uri := []; w_headers := []; w_body := []; w_sum := {| ws_source := ScheduledTask; ws_session := None; ws_request := None; ws_apps := [] |} |} in
  let ps := {| ps_poll := Some 5000000000; ps_fails := 0; ps_proxied := 0 |} in
  let sc := {| s_last_update := None; s_last_check := None; s_next := None |} in
  accepts step2b (init2b (Some 1%N)) [AHttp w (HResp 200%N (Some (s2b "5")) false BBad); AEvent (EvProtocol ps)] = false
  /\ accepts step2b (init2b (Some 1%N)) [AHttp w (HResp 200%N (Some (s2b "5")) true BBad); AEvent (EvProtocol ps)] = true
  /\ accepts step2b (init2b (Some 1%N)) [AHttp w (HResp 200%N (Some (s2b "5")) false BBad); AEvent (EvSchedule sc); AEvent (EvProtocol ps)] = true.
Proof. vm_compute. repeat split. Qed.

Print Assumptions C02_forged_response_changes_no_protocol_state.

(* ---- the property as a statement about two runs (Proofs/C02Rel.v) ----
   With a CUP handler, take any script and change, in any of the responses that fail authentication, what the response
   says - its status, its X-Retry-After header, its body (an update offer, a cohort, a day number, garbage, nothing): the
   two runs of the machine are the same action for action - same requests with the same bytes, same events, policy
   questions and the state shown in them, installer calls, storage operations, metrics, timers, replies - and differ only
   in the outcome each request records as received.  So nothing in an unauthenticated response is acted upon, stored,
   announced or sent: it is interchangeable with any other unauthenticated response.  (`oeq`: equal, or both failing
   authentication; `aeq`: equal, or the same request with interchangeable outcomes.) *)
Require Import Verif.Proofs.C02Rel.
Theorem C02_what_an_unauthenticated_response_says_changes_nothing :
  forall ep cfg url kid apps e responses responses',
    Forall2 oeq responses responses' ->
    Forall2 aeq (run_case ep cfg url (Some kid) apps (seth e responses))
                (run_case ep cfg url (Some kid) apps (seth e responses')).
Proof. exact unauthenticated_content_is_inert. Qed.
Print Assumptions C02_what_an_unauthenticated_response_says_changes_nothing.
(* the relation is not trivial: a forged update offer with a poll interval is interchangeable with a forged error page, a
   genuine response is interchangeable with nothing but itself, and two different events are never related *)
Example C02_interchangeable_outcomes :
  let d := {| d_daystart := Some (Some 5000%N); d_apps := [] |} in
  oeq (HResp 200%N (Some (s2b "3600")) false (BDoc d)) (HResp 503%N None false BBad)
  /\ ~ oeq (HResp 200%N None true (BDoc d)) (HResp 200%N None true BBad)
  /\ ~ oeq (HResp 200%N None true BBad) (HResp 200%N None false BBad)
  /\ ~ aeq (AEvent (EvState Idle)) (AEvent (EvState NoUpdateAvailable)).
Proof.
  cbv zeta. repeat split.
  - right. repeat eexists.
  - intros [H|(s1 & r1 & b1 & s2 & r2 & b2 & H1 & H2)]; discriminate.
  - intros [H|(s1 & r1 & b1 & s2 & r2 & b2 & H1 & H2)]; discriminate.
  - intros [H|(w & o1 & o2 & H1 & H2 & _)]; discriminate.
Qed.
