(* Props/C17.v — Mock Omaha server conforms to the client it doubles for.

   Models: Model/MockServer.v (mock-omaha-server/src/lib.rs: per-app reply
   assembly, make_etag in its REPAIRED reading, etag_override, require_cup,
   set_responses), against the client's own models: Model/Request.v (the
   request encoder), Model/Response.v (parse_response), Model/Cup.v (verify).
   sha256 / der_ok / ecdsa_verify / sign are arbitrary functions (explicit
   arguments); what is assumed of them is a premise of the theorem that needs
   it.  63 is '?', 38 '&', 61 '=', 58 ':'.

   Reading the hypotheses.
   - request_served m cfg b: the request tree is well-formed (every string a
     Rust String: C17_request_wellformed), every requested app is configured
     in m and passes the mock's own assertions (version, updatedisabled vs the
     check assertion, cohort assertion; an app without update check carries an
     event; extension attributes do not shadow the keys the mock reads), and a
     request with update checks checks as many apps as are configured
     (lib.rs:469-477).  Outside it the mock panics by design.
   - find_cup2key base = None: the service URL does not itself carry a
     cup2key parameter.

   D5.  On the pinned tree make_etag panics on every URI of [d5_class]
   (C17_d5_class); the theorems below are about the repaired reading, and
   ./check C17 reports such inputs with code 5 until the repair is applied. *)
Require Import Verif.Base.Bytes Verif.Proofs.BytesFacts Verif.Model.Version Verif.Model.Json Verif.Model.Proto
               Verif.Model.Request Verif.Model.Response Verif.Model.Cup Verif.Model.MockServer
               Verif.Proofs.CupFacts Verif.Proofs.MockServerFacts.
Open Scope N_scope.

(* ------------------------------------------------------------------ *)
(* the reply parses, and says what was configured, in request order     *)

(* For every request of the client (any builder state) that the mock serves,
   the mock replies, and the client's parser makes of the reply exactly
   [expected_response]: Some document listing the requested apps in request
   order with the configured decision — or None when a requested check is
   configured InvalidResponse (the configured outcome "invalid response"). *)
Theorem C17_reply_parses :
  forall m cfg b,
    wf_rmap m = true -> request_served m cfg b = true ->
    exists body,
      server_body m (body_of cfg b) = Some body /\
      parse_response body = expected_response m (b_entries b).
Proof. exact reply_parses. Qed.

(* the same for a request assembled with the builder operations (update checks,
   pings, events for 1..n apps in any order) *)
Theorem C17_reply_parses_built :
  forall m cfg p ops reqid sessid,
    let b := {| b_params := p; b_entries := b_entries (add_ops (builder_new p) ops);
                b_reqid := reqid; b_sessid := sessid |} in
    wf_rmap m = true -> request_served m cfg b = true ->
    exists body,
      server_body m (body_of cfg b) = Some body /\
      parse_response body = expected_response m (b_entries b).
Proof. exact reply_parses_built. Qed.

(* the body the mock sends, explicitly *)
Theorem C17_reply_body :
  forall m cfg b,
    request_served m cfg b = true ->
    server_body m (body_of cfg b) = Some (print_json (response_json (map (entry_reply m) (b_entries b)))).
Proof. exact server_body_served. Qed.

(* expected_response, unfolded: protocol 3.0; one app per requested app, same
   order, same id, status ok, the mock's fixed cohort, no ping/event acks, no
   extension attributes, and the update check = the configured decision (none
   for an app that only reported events) *)
Theorem C17_expected_apps :
  forall m es r,
    expected_response m es = Some r ->
    r_protocol r = s2b "3.0" /\
    Forall2 (fun e a => ra_id a = a_id (e_app e) /\ ra_status a = SOk /\ ra_cohort a = mock_cohort /\
                        ra_ping a = None /\ ra_events a = None /\ ra_extra a = [] /\
                        ra_update_check a = configured_check m e) es (r_apps r).
Proof. exact expected_apps. Qed.

Theorem C17_request_order :
  forall m es r, expected_response m es = Some r -> map ra_id (r_apps r) = map (fun e => a_id (e_app e)) es.
Proof. exact expected_request_order. Qed.

(* the configured decisions as the client reads them *)
Theorem C17_decisions :
  forall c,
    expected_update_check c =
    match rm_response c with
    | NoUpdate => Some {| uc_status := SNoUpdate; uc_info := None; uc_urls := None; uc_manifest := None; uc_extra := [] |}
    | Update => Some {| uc_status := SOk; uc_info := None; uc_urls := Some [rm_codebase c];
                        uc_manifest := Some (expected_manifest (rm_package c)); uc_extra := [] |}
    | UrgentUpdate => Some {| uc_status := SOk; uc_info := None; uc_urls := Some [rm_codebase c];
                              uc_manifest := Some (expected_manifest (rm_package c));
                              uc_extra := [(s2b "_urgent_update", JBool true)] |}
    | InvalidURL => Some {| uc_status := SOk; uc_info := None; uc_urls := Some [s2b "http://integration.test.fuchsia.com/"];
                            uc_manifest := Some (expected_manifest (rm_package c)); uc_extra := [] |}
    | InvalidResponse => None
    end.
Proof. exact expected_update_check_cases. Qed.

(* "invalid response": one requested check configured InvalidResponse and the parser refuses the reply ... *)
Theorem C17_invalid_response_refused :
  forall m es e c,
    In e es -> e_uc e <> None -> rmap_get (a_id (e_app e)) m = Some c -> rm_response c = InvalidResponse ->
    expected_response m es = None.
Proof. exact expected_invalid. Qed.

(* ... and that is the only way a served request gets a reply the parser refuses *)
Theorem C17_otherwise_accepted :
  forall m es,
    forallb (entry_served m) es = true ->
    (forall e c, In e es -> e_uc e <> None -> rmap_get (a_id (e_app e)) m = Some c -> rm_response c <> InvalidResponse) ->
    exists r, expected_response m es = Some r.
Proof. exact expected_valid. Qed.

(* the well-formedness premise holds for every request whose strings are valid UTF-8 (Rust Strings) *)
Theorem C17_request_wellformed :
  forall cfg b, wf_request_strings cfg b = true -> wf_json (json_of_request cfg b) = true.
Proof. exact wf_request. Qed.

(* ------------------------------------------------------------------ *)
(* the ETag: accepted for this exchange                                 *)

(* the server finds the client's decoration wherever the service URL's own query puts it *)
Theorem C17_decoration_found :
  forall base id nonce,
    is_bytes nonce -> find_cup2key base = None ->
    find_cup2key (decorate base id nonce) = Some (cup2_urlparam id nonce).
Proof. exact find_cup2key_decorate. Qed.

(* The request was decorated under key id `id` (any service URL path and query),
   the server holds a key sk for that id (latest or historical, first match),
   the client's map holds pk for it, nothing forces the ETag, the request is
   one the mock answers with `body`: then the reply is 200 with that body and
   an ETag, and the client's verifier accepts it for (request, body, nonce, id)
   — provided pk verifies what sk signs for this digest, the signature passes
   the DER check, and signatures and digests are byte strings. *)
Theorem C17_etag_verifies :
  forall sha256 der_ok ecdsa_verify sign s ckeys base id nonce sk pk req body,
    is_bytes nonce -> find_cup2key base = None -> id < 2 ^ 64 ->
    find_key (s_keys s) id = Some sk ->
    map_get id (build_map ckeys) = Some pk ->
    s_etag_override s = None ->
    s_responses s <> [] ->
    server_body (s_responses s) req = Some body ->
    let d := tx_digest sha256 req body id nonce in
    ecdsa_verify pk d (sign sk d) = true -> der_ok (sign sk d) = true ->
    is_bytes (sign sk d) -> is_bytes (sha256 req) ->
    exists etag,
      handle_omaha_request sha256 sign s true (decorate base id nonce) req = Reply 200 (Some etag) body /\
      verify sha256 der_ok ecdsa_verify ckeys req body nonce id [etag] = inr (sign sk d).
Proof. exact etag_verifies. Qed.

(* the ETag, explicitly: hex(sign sk digest) ":" hex(SHA-256 request), the digest
   being the client's transaction digest (request hash, response hash, raw cup2key value) *)
Theorem C17_etag_shape :
  forall sha256 sign req base id nonce ks resp sk,
    is_bytes nonce -> find_cup2key base = None -> id < 2 ^ 64 ->
    find_key ks id = Some sk ->
    make_etag sha256 sign req (decorate base id nonce) ks resp =
    EtagSome (hex_encode (sign sk (tx_digest sha256 req resp id nonce)) ++ [58] ++ hex_encode (sha256 req)).
Proof. exact make_etag_decorated. Qed.

(* key lookup on the server: latest first, then historical in order *)
Theorem C17_key_lookup :
  forall ks id,
    find_key ks id =
    if fst (keys_latest ks) =? id then Some (snd (keys_latest ks)) else find_in id (keys_historical ks).
Proof. exact find_key_cases. Qed.

(* ------------------------------------------------------------------ *)
(* ... and for no other exchange                                        *)

(* An ETag the verifier accepts for (req, resp, nonce, id) is refused for any
   exchange that differs in the request body, the response body, the nonce or
   the key id.  Idealisations, as in C01: no SHA-256 collision on the bodies
   and on the two digest preimages compared, digests of fixed length, and the
   signature verifies for at most one message under the keys of the client's
   map ([sig_exclusive]). *)
Theorem C17_etag_only_this_exchange :
  forall sha256 der_ok ecdsa_verify ckeys req resp nonce id etags sg req' resp' nonce' id',
    verify sha256 der_ok ecdsa_verify ckeys req resp nonce id etags = inr sg ->
    (req', resp', nonce', id') <> (req, resp, nonce, id) ->
    fixed_len sha256 -> is_bytes nonce -> is_bytes nonce' ->
    no_collision sha256 req' req -> no_collision sha256 resp' resp ->
    no_collision sha256 (digest_preimage sha256 req' resp' id' nonce') (digest_preimage sha256 req resp id nonce) ->
    sig_exclusive ecdsa_verify ckeys sg ->
    forall sg', verify sha256 der_ok ecdsa_verify ckeys req' resp' nonce' id' etags <> inr sg'.
Proof. exact etag_only_this_exchange. Qed.

(* ------------------------------------------------------------------ *)
(* no CUP, unknown key, forced ETag                                     *)

(* a request without cup2key (whatever its path and query) gets no ETag of the
   server's making: the forced one if configured, a panic if CUP is required *)
Theorem C17_no_cup_no_etag :
  forall sha256 sign s uri req body,
    find_cup2key uri = None ->
    s_responses s <> [] -> server_body (s_responses s) req = Some body ->
    handle_omaha_request sha256 sign s true uri req =
    if s_require_cup s then SrvPanic else
    match s_etag_override s with
    | Some o => if header_value_ok o then Reply 200 (Some o) body else SrvPanic
    | None => Reply 200 None body
    end.
Proof. exact no_cup_no_etag. Qed.

(* the same when the key id is one the server does not hold *)
Theorem C17_unknown_key_no_etag :
  forall sha256 sign s base id nonce req body,
    is_bytes nonce -> find_cup2key base = None -> id < 2 ^ 64 ->
    find_key (s_keys s) id = None ->
    s_responses s <> [] -> server_body (s_responses s) req = Some body ->
    handle_omaha_request sha256 sign s true (decorate base id nonce) req =
    if s_require_cup s then SrvPanic else
    match s_etag_override s with
    | Some o => if header_value_ok o then Reply 200 (Some o) body else SrvPanic
    | None => Reply 200 None body
    end.
Proof. exact unknown_key_no_etag. Qed.

(* and a reply without ETag is refused by the client's verifier *)
Theorem C17_no_etag_refused :
  forall sha256 der_ok ecdsa_verify keys req resp nonce id,
    verify sha256 der_ok ecdsa_verify keys req resp nonce id [] = inl EtagHeaderMissing.
Proof. exact reject_missing. Qed.

(* forced ETag: sent as is, whatever the request carried *)
Theorem C17_forced_etag :
  forall sha256 sign s uri req body o,
    s_etag_override s = Some o -> header_value_ok o = true -> s_require_cup s = false ->
    s_responses s <> [] -> server_body (s_responses s) req = Some body ->
    make_etag sha256 sign req uri (s_keys s) body <> EtagPanic ->
    handle_omaha_request sha256 sign s true uri req = Reply 200 (Some o) body.
Proof. exact forced_etag. Qed.

(* ------------------------------------------------------------------ *)
(* reconfiguration                                                      *)

(* After POST /set_responses_by_appid with a body that decodes to m, every later
   reply (until the next reconfiguration) is the reply of a server configured
   with m: nothing of the old map survives; keys, forced ETag and require_cup
   are untouched; Omaha requests do not change the state. *)
Theorem C17_reconfigure :
  forall sha256 sign s set m rs,
    is_set_responses set = true -> hq_post set = true -> decode_response_map (hq_body set) = Some m ->
    Forall (fun r => is_set_responses r = false) rs ->
    run sha256 sign s (set :: rs) =
    Reply 200 None [] ::
    map (fun r => handle_omaha_request sha256 sign (with_responses s m) (hq_post r) (hq_uri r) (hq_body r)) rs.
Proof. exact reconfigure. Qed.

Theorem C17_reconfigure_keeps_rest :
  forall s m,
    s_responses (with_responses s m) = m /\ s_keys (with_responses s m) = s_keys s /\
    s_etag_override (with_responses s m) = s_etag_override s /\ s_require_cup (with_responses s m) = s_require_cup s.
Proof. exact with_responses_fields. Qed.

(* a body the handler cannot decode leaves the server as it was *)
Theorem C17_reconfigure_refused :
  forall sha256 sign s r,
    is_set_responses r = true -> hq_post r = true -> decode_response_map (hq_body r) = None ->
    handle_request sha256 sign s r = (SrvPanic, s).
Proof. exact set_responses_refused. Qed.

(* end to end: reconfigure, then a served request: the new map's decisions *)
Theorem C17_reconfigure_reply_parses :
  forall sha256 sign s set m cfg b uri,
    is_set_responses set = true -> hq_post set = true -> decode_response_map (hq_body set) = Some m ->
    wf_rmap m = true -> request_served m cfg b = true -> m <> [] ->
    bytes_eqb (uri_path uri) set_responses_path = false ->
    find_cup2key uri = None -> s_require_cup s = false -> s_etag_override s = None ->
    exists body,
      run sha256 sign s [set; {| hq_post := true; hq_uri := uri; hq_body := body_of cfg b |}] =
        [Reply 200 None []; Reply 200 None body] /\
      parse_response body = expected_response m (b_entries b).
Proof. exact reconfigure_reply_parses. Qed.

(* ------------------------------------------------------------------ *)
(* D5: the input class on which the pinned make_etag panics             *)
Theorem C17_d5_class :
  d5_class (s2b "/service/update") = true /\
  d5_class (s2b "/?foo=bar&cup2key=1:00") = true /\
  d5_class (s2b "/service/update?foo=bar") = true /\
  d5_class (s2b "/") = false /\
  d5_class (s2b "/?cup2key=1:00") = false /\
  d5_class (s2b "/service/update?cup2key=1:00&foo=bar") = false.
Proof. exact d5_examples. Qed.

(* the client's own decoration of a service URL with a query lands in the class,
   while the repaired lookup finds the parameter *)
Theorem C17_d5_decorated :
  d5_class (decorate (s2b "/service/update?foo=bar") 42 (repeat 171 32)) = true /\
  find_cup2key (decorate (s2b "/service/update?foo=bar") 42 (repeat 171 32)) = Some (cup2_urlparam 42 (repeat 171 32)).
Proof. exact decorated_query_in_d5. Qed.

(* ------------------------------------------------------------------ *)
(* non-vacuity: one history computed with toy primitives               *)
Definition toy_sign (sk : N) (d : bytes) : bytes := sk :: d.
Definition accepted_by {A B} (r : A + B) : bool := match r with inr _ => true | inl _ => false end.

Definition ex_cfg : config :=
  {| cfg_name := s2b "updater"; cfg_uver := (1, 0, 0, 0); os_platform := s2b "p"; os_version := s2b "v";
     os_sp := s2b ""; os_arch := s2b "a"; cfg_url := s2b "http://mock.example/service/update?foo=bar" |}.
Definition ex_app1 : Proto.app :=
  {| a_id := s2b "app-1"; a_ver := (0, 1, 2, 3); a_fp := None;
     a_cohort := {| c_id := Some (s2b "stable"); c_hint := None; c_name := None |}; a_uc := Some 5; a_extra := [] |}.
Definition ex_app2 : Proto.app :=
  {| a_id := s2b "app-2"; a_ver := (9, 9, 9, 9); a_fp := Some (s2b "fp"); a_cohort := cohort_none; a_uc := None;
     a_extra := [(s2b "x", s2b "y")] |}.
Definition ex_builder : builder :=
  set_request_id (add_ops (builder_new params_default) [OpUpdateCheck ex_app2; OpPing ex_app1; OpUpdateCheck ex_app1])
                 (s2b "{r}").
Definition ex_map : response_map :=
  [(s2b "app-1", {| rm_response := UrgentUpdate; rm_check := UpdatesEnabled; rm_version := Some (s2b "0.1.2.3");
                    rm_cohort := Some (s2b "stable"); rm_codebase := s2b "fuchsia-pkg://example/"; rm_package := s2b "update?hash=00" |});
   (s2b "app-2", {| rm_response := NoUpdate; rm_check := UpdatesEnabled; rm_version := None; rm_cohort := None;
                    rm_codebase := s2b "c"; rm_package := s2b "p" |})].
Definition ex_server : server :=
  {| s_responses := ex_map; s_keys := {| keys_latest := (7, 9); keys_historical := [(42, 5)] |};
     s_etag_override := None; s_require_cup := true |}.
Definition ex_uri : bytes := decorate (s2b "/service/update?foo=bar") 42 ex_nonce.
Definition ex_set_body : bytes :=
  s2b "{""app-1"":{""response"":""NoUpdate"",""check_assertion"":""UpdatesEnabled"",""codebase"":""c"",""package_name"":""p""}}".

Definition reply_status (o : outcome) : option N := match o with Reply st _ _ => Some st | SrvPanic => None end.
Definition reply_etags (o : outcome) : list bytes := match o with Reply _ (Some e) _ => [e] | _ => [] end.
Definition reply_body (o : outcome) : bytes := match o with Reply _ _ b => b | SrvPanic => [] end.
Definition decisions (body : bytes) : option (list (bytes * option omaha_status)) :=
  option_map (fun r => map (fun a => (ra_id a, option_map uc_status (ra_update_check a))) (r_apps r)) (parse_response body).

Definition ex_req17 : bytes := body_of ex_cfg ex_builder.
Definition ex_reply : outcome := handle_omaha_request toy_sha toy_sign ex_server true ex_uri ex_req17.
Definition ex_client (req body nonce : bytes) (id : N) : bool :=
  accepted_by (verify toy_sha toy_der toy_verify ex_keys req body nonce id (reply_etags ex_reply)).

Example C17_ex_exchange :
  request_served ex_map ex_cfg ex_builder = true /\ wf_rmap ex_map = true /\
  d5_class ex_uri = true /\
  reply_status ex_reply = Some 200 /\ length (reply_etags ex_reply) = 1%nat /\
  (* the client accepts, under its historical key 42 *)
  ex_client ex_req17 (reply_body ex_reply) ex_nonce 42 = true /\
  (* not under another nonce, key id, request or body *)
  ex_client ex_req17 (reply_body ex_reply) (repeat 172 32) 42 = false /\
  ex_client ex_req17 (reply_body ex_reply) ex_nonce 7 = false /\
  ex_client (body_of ex_cfg (set_request_id ex_builder (s2b "{q}"))) (reply_body ex_reply) ex_nonce 42 = false /\
  ex_client ex_req17 (reply_body ex_reply ++ [32]) ex_nonce 42 = false /\
  (* and the parser reads the requested apps in request order with the configured decisions *)
  decisions (reply_body ex_reply) = Some [(s2b "app-2", Some SNoUpdate); (s2b "app-1", Some SOk)].
Proof. vm_compute. repeat split; reflexivity. Qed.

Definition ex_one : bytes := body_of ex_cfg (add_ops (builder_new params_default) [OpUpdateCheck ex_app1]).
Definition ex_history : list outcome :=
  run toy_sha toy_sign ex_server
      [ {| hq_post := true; hq_uri := ex_uri; hq_body := ex_one |};
        {| hq_post := true; hq_uri := set_responses_path; hq_body := ex_set_body |};
        {| hq_post := true; hq_uri := ex_uri; hq_body := ex_one |} ].

(* before: two apps configured, a check of app-1 alone is refused; after the
   reconfiguration it is served with the new decision *)
Example C17_ex_reconfigure :
  decode_response_map ex_set_body =
    Some [(s2b "app-1", {| rm_response := NoUpdate; rm_check := UpdatesEnabled; rm_version := None; rm_cohort := None;
                           rm_codebase := s2b "c"; rm_package := s2b "p" |})] /\
  map reply_status ex_history = [None; Some 200; Some 200] /\
  map decisions (map reply_body ex_history) = [None; None; Some [(s2b "app-1", Some SNoUpdate)]].
Proof. vm_compute. repeat split; reflexivity. Qed.

Print Assumptions C17_reply_parses.
Print Assumptions C17_reply_parses_built.
Print Assumptions C17_expected_apps.
Print Assumptions C17_invalid_response_refused.
Print Assumptions C17_otherwise_accepted.
Print Assumptions C17_request_wellformed.
Print Assumptions C17_decoration_found.
Print Assumptions C17_etag_verifies.
Print Assumptions C17_etag_only_this_exchange.
Print Assumptions C17_no_cup_no_etag.
Print Assumptions C17_unknown_key_no_etag.
Print Assumptions C17_forced_etag.
Print Assumptions C17_reconfigure.
Print Assumptions C17_reconfigure_reply_parses.
