(* Props/C16.v — Response parser is total and faithful.

   Model: Model/Json.v (bytes -> tree) + Model/Response.v (tree -> Response
   with serde's derive rules).  Everything below is about that model, for all
   byte strings / all documents; model = code is the differential run of
   Run/EvalC16.v on every check. *)
Require Import Verif.Base.Bytes Verif.Model.Json Verif.Model.Proto Verif.Model.Response.
Require Import Verif.Proofs.JsonFacts Verif.Proofs.ResponseFacts.
Open Scope N_scope.

(* ---- totality: a value or an error, for every byte string (the model has no
        third outcome: no panic, no fuel exhaustion, see C16_no_fuel_error) ---- *)
Theorem C16_total : forall b, parse_response b = None \/ exists r, parse_response b = Some r.
Proof. exact parse_response_total. Qed.

(* the iterative JSON parser: one loop iteration consumes at least one input
   byte and pushes at most one frame, so the explicit stack is never higher than
   the input is long ... *)
Theorem C16_stack_bounded_by_input :
  forall s st stack rest, reach (PValue, [], s) (st, stack, rest) -> (length stack + length rest <= length s)%nat.
Proof. exact stack_never_exceeds_input. Qed.
(* ([reach] is the transition relation of [pstep], and parse_loop is the iteration of pstep:) *)
Theorem C16_loop_is_iterated_step :
  forall f st stack s,
    parse_loop (S f) st stack s =
    match pstep st stack s with PNext st' stack' s' => parse_loop f st' stack' s' | PDone r => r end.
Proof. exact parse_loop_step. Qed.
(* ... and the fuel of parse_json is never the reason for a None *)
Theorem C16_no_fuel_error :
  forall s extra, parse_loop (2 * length s + 4 + extra) PValue [] s = parse_loop (2 * length s + 4) PValue [] s.
Proof. exact fuel_never_exhausted. Qed.

(* serde_json's recursion limit, as the model has it: every JSON value that a
   parsed Response keeps (the extension maps of App, UpdateCheck, Action,
   Package) consists of decodable strings and closes within 127 open
   containers counted from the document root; deeper input in a kept position
   is an error, never a deeper recursion *)
Theorem C16_kept_values_within_limit : forall b r, parse_response b = Some r -> within_response r.
Proof. exact parse_response_within. Qed.
Theorem C16_within_means :
  forall lvl ex, extras_ok lvl ex = true <->
                 forall key v, In (key, v) ex -> strings_ok v = true /\ lvl + depth v <= max_open.
Proof. exact extras_ok_spec. Qed.

(* ---- the anti-XSSI prefix is accepted and changes nothing else ---- *)
(* exactly what holds: one prefix is removed whatever follows; an input that does
   not start with the prefix is parsed as it is; hence for b not itself starting
   with the prefix, prefix ++ b parses as b.  (For b starting with the prefix the
   two differ by design: only one prefix is removed, see C16_only_one_prefix.) *)
Theorem C16_prefix_removed : forall b, parse_response (xssi_prefix ++ b) = parse_body b.
Proof. exact parse_response_prefixed. Qed.
Theorem C16_no_prefix : forall b, starts_with xssi_prefix b = false -> parse_response b = parse_body b.
Proof. exact parse_response_unprefixed. Qed.
Theorem C16_prefix :
  forall b, starts_with xssi_prefix b = false -> parse_response (xssi_prefix ++ b) = parse_response b.
Proof. exact c16_prefix_proof. Qed.
Theorem C16_only_one_prefix : forall b, parse_response (xssi_prefix ++ xssi_prefix ++ b) = None.
Proof. exact parse_response_double_prefix. Qed.

(* ---- fidelity: every well-formed document is decoded field for field ---- *)
(* the JSON layer: the parser reads back the compact printer *)
Theorem C16_json_roundtrip : forall j, wf_json j = true -> parse_json (print_json j) = Some j.
Proof. exact parse_print. Qed.

(* documents: d ranges over all abstract documents = all values of the typed
   record (any number of apps, any field subset, any status, cohort fields
   absent/empty/non-empty, sizes up to 2^64-1, extension attributes of any
   printable JSON shape), with or without the prefix; wf_doc = strings are valid
   UTF-8, integers in range (day counts < 2^32, sizes < 2^64, integers inside
   extension values in u64 or negative i64 — what serde_json::Value stores
   exactly), no float placeholder, extension keys distinct from protocol keys,
   extension values within the nesting limit, Error statuses not spelled like a
   known status.  to_response d is d's body itself: equality of records is
   equality of every field. *)
Theorem C16_roundtrip : forall d, wf_doc d = true -> parse_response (print_doc d) = Some (to_response d).
Proof. exact roundtrip. Qed.

(* each struct on its own (decode after encode), usable for documents that embed them differently *)
Theorem C16_roundtrip_app : forall a, wf_app a = true -> decode_app (json_of_app a) = Some a.
Proof. exact app_roundtrip. Qed.
Theorem C16_roundtrip_update_check :
  forall u, wf_update_check u = true -> decode_update_check (json_of_update_check u) = Some u.
Proof. exact update_check_roundtrip. Qed.
Theorem C16_roundtrip_package : forall p, wf_package p = true -> decode_package (json_of_package p) = Some p.
Proof. exact package_roundtrip. Qed.

(* ---- statuses: unknown strings are preserved as errors ---- *)
Theorem C16_status :
  forall s, dec_status (JStr true s) = Some (status_of_string s) /\
            (known_status s = false -> status_of_string s = SError s).
Proof. exact c16_status_proof. Qed.
Theorem C16_status_error_iff : forall s, (exists e, status_of_string s = SError e) <-> known_status s = false.
Proof. exact status_error_iff. Qed.
Theorem C16_status_not_a_string :
  forall j, (forall s, j <> JStr true s) -> dec_status j = None.
Proof. exact c16_status_not_a_string_proof. Qed.

(* ---- full URLs: every codebase joined with every package name, codebase-major ---- *)
Theorem C16_full_urls :
  forall u,
    (forall x, In x (full_urls u) <-> exists c p, In c (codebases u) /\ In p (packages u) /\ x = c ++ pk_name p) /\
    length (full_urls u) = (length (codebases u) * length (packages u))%nat /\
    (forall i j c p, nth_error (codebases u) i = Some c -> nth_error (packages u) j = Some p ->
                     nth_error (full_urls u) (i * length (packages u) + j) = Some (c ++ pk_name p)).
Proof. exact c16_full_urls_proof. Qed.

(* ---- required fields and wrong types ---- *)
(* For ANY object kvs: deleting a required key, or giving it a value its
   decoder refuses, makes the struct's decoder fail.  One theorem per struct;
   the per-field lemmas (also for optional fields with a refused non-null
   value, and for duplicated keys) are X_field_f / X_dup in ResponseFacts. *)
Theorem C16_required_wrapper :
  forall kvs v,
    decode_wrapper (JObj (remove_key (nm "response") kvs)) = None /\
    (decode_response v = None -> decode_wrapper (JObj (retype (nm "response") v kvs)) = None).
Proof. exact c16_required_wrapper_proof. Qed.

Theorem C16_required_response :
  forall kvs v,
    decode_response (JObj (remove_key (nm "protocol") kvs)) = None /\
    decode_response (JObj (remove_key (nm "app") kvs)) = None /\
    (dec_string v = None -> decode_response (JObj (retype (nm "protocol") v kvs)) = None) /\
    (dec_list decode_app v = None -> decode_response (JObj (retype (nm "app") v kvs)) = None).
Proof. exact c16_required_response_proof. Qed.

Theorem C16_required_app :
  forall kvs v,
    decode_app (JObj (remove_key (nm "appid") kvs)) = None /\
    decode_app (JObj (remove_key (nm "status") kvs)) = None /\
    (dec_string v = None -> decode_app (JObj (retype (nm "appid") v kvs)) = None) /\
    (dec_status v = None -> decode_app (JObj (retype (nm "status") v kvs)) = None).
Proof. exact c16_required_app_proof. Qed.

Theorem C16_required_ping_event :
  forall kvs v,
    decode_status_struct (JObj (remove_key (nm "status") kvs)) = None /\
    (dec_status v = None -> decode_status_struct (JObj (retype (nm "status") v kvs)) = None).
Proof. exact c16_required_ping_event_proof. Qed.

Theorem C16_required_update_check :
  forall kvs v,
    decode_update_check (JObj (remove_key (nm "status") kvs)) = None /\
    (dec_status v = None -> decode_update_check (JObj (retype (nm "status") v kvs)) = None).
Proof. exact c16_required_update_check_proof. Qed.

Theorem C16_required_urls :
  forall kvs v,
    decode_urls (JObj (remove_key (nm "url") kvs)) = None /\
    decode_url (JObj (remove_key (nm "codebase") kvs)) = None /\
    (dec_list decode_url v = None -> decode_urls (JObj (retype (nm "url") v kvs)) = None) /\
    (dec_string v = None -> decode_url (JObj (retype (nm "codebase") v kvs)) = None).
Proof. exact c16_required_urls_proof. Qed.

Theorem C16_required_manifest :
  forall kvs v,
    decode_manifest (JObj (remove_key (nm "version") kvs)) = None /\
    decode_manifest (JObj (remove_key (nm "actions") kvs)) = None /\
    decode_manifest (JObj (remove_key (nm "packages") kvs)) = None /\
    (dec_string v = None -> decode_manifest (JObj (retype (nm "version") v kvs)) = None) /\
    (decode_actions v = None -> decode_manifest (JObj (retype (nm "actions") v kvs)) = None) /\
    (decode_packages v = None -> decode_manifest (JObj (retype (nm "packages") v kvs)) = None) /\
    decode_actions (JObj (remove_key (nm "action") kvs)) = None /\
    decode_packages (JObj (remove_key (nm "package") kvs)) = None /\
    (dec_list decode_action v = None -> decode_actions (JObj (retype (nm "action") v kvs)) = None) /\
    (dec_list decode_package v = None -> decode_packages (JObj (retype (nm "package") v kvs)) = None).
Proof. exact c16_required_manifest_proof. Qed.

Theorem C16_required_package :
  forall kvs v,
    decode_package (JObj (remove_key (nm "name") kvs)) = None /\
    decode_package (JObj (remove_key (nm "required") kvs)) = None /\
    decode_package (JObj (remove_key (nm "fp") kvs)) = None /\
    (dec_string v = None -> decode_package (JObj (retype (nm "name") v kvs)) = None) /\
    (dec_bool v = None -> decode_package (JObj (retype (nm "required") v kvs)) = None) /\
    (dec_string v = None -> decode_package (JObj (retype (nm "fp") v kvs)) = None).
Proof. exact c16_required_package_proof. Qed.

(* a refused (non-null) value of an optional field rejects as well: the 64-bit size *)
Theorem C16_size_is_u64 :
  forall kvs n,
    get_field (nm "size") kvs = Some (Some (JInt false n)) ->
    2 ^ 64 <= n -> decode_package (JObj kvs) = None.
Proof. exact c16_size_is_u64_proof. Qed.

(* a failing element fails the list; with the per-field lemmas this lifts a
   failure anywhere in the nesting to the whole document *)
Theorem C16_list_fails :
  forall A (dec : json -> option A) l x, In x l -> dec x = None -> dec_list dec (JArr l) = None.
Proof. exact c16_list_fails_proof. Qed.

(* bytes level: on the print of a well-formed tree, the parser is the decoder *)
Theorem C16_parse_print_is_decode :
  forall j, wf_json j = true -> parse_response (print_json j) = decode_wrapper j.
Proof. exact parse_response_print. Qed.

(* ---- examples (non-vacuity) ---- *)
Definition ex_doc : bytes :=
  s2b ")]}'" ++ [10] ++
  s2b "{""response"":{""protocol"":""3.0"",""daystart"":{""elapsed_days"":5000},""app"":[{""appid"":""a"",""status"":""OK"",""cohort"":"""",""urgent"":[1,{""x"":null}],""updatecheck"":{""status"":""ok"",""urls"":{""url"":[{""codebase"":""http://u/""},{""codebase"":""http://v/""}]},""manifest"":{""version"":""1.2"",""actions"":{""action"":[{""event"":""install"",""arguments"":""-q""}]},""packages"":{""package"":[{""name"":""p.bin"",""required"":true,""size"":4294967297,""fp"":""1.f""}]}}}}]}}".

Example C16_ex_parse :
  match parse_response ex_doc with
  | Some {| r_protocol := p; r_daystart := Some {| ds_days := Some 5000; ds_seconds := None |};
            r_apps := [ {| ra_status := SError e; ra_cohort := {| c_id := Some []; c_hint := None |};
                           ra_extra := [(x, JArr [JInt false 1; JObj [(_, true, JNull)]])];
                           ra_update_check := Some u |} ] |} =>
      p = s2b "3.0" /\ e = s2b "OK" /\ x = s2b "urgent" /\
      full_urls u = [s2b "http://u/p.bin"; s2b "http://v/p.bin"] /\
      map pk_size (packages u) = [Some 4294967297] /\
      map ac_extra (match uc_manifest u with Some m => mf_actions m | None => [] end)
        = [[(s2b "arguments", JStr true (s2b "-q"))]]
  | _ => False
  end.
Proof. vm_compute. repeat split. Qed.

Definition ex_abstract : doc :=
  {| d_xssi := true;
     d_body := {| r_protocol := s2b "3.0"; r_server := None;
                  r_daystart := Some {| ds_days := Some 4294967295; ds_seconds := None |};
                  r_apps := [ {| ra_id := s2b "a"; ra_status := SError (s2b "error-unknownApplication");
                                 ra_cohort := {| c_id := Some []; c_hint := None; c_name := Some (s2b "st""able") |};
                                 ra_ping := Some SOk; ra_events := Some [SNoUpdate];
                                 ra_update_check :=
                                   Some {| uc_status := SOk; uc_info := None; uc_urls := Some [s2b "http://u/"];
                                           uc_manifest :=
                                             Some {| mf_version := s2b "1"; mf_actions := [];
                                                     mf_packages :=
                                                       [ {| pk_name := s2b "p"; pk_required := false;
                                                            pk_size := Some 18446744073709551615; pk_hash := None;
                                                            pk_hash_sha256 := None; pk_fp := s2b "f";
                                                            pk_extra := [(s2b "x", JArr [JInt true 5; JNull])] |} ] |};
                                           uc_extra := [(s2b "urgent_update", JBool true)] |};
                                 ra_extra := [(s2b "k", JObj [(s2b "n", true, JStr true [195; 169])])] |} ] |} |}.
Example C16_ex_roundtrip :
  wf_doc ex_abstract = true /\ parse_response (print_doc ex_abstract) = Some (to_response ex_abstract).
Proof. vm_compute. split; reflexivity. Qed.

Example C16_ex_rejects :
  parse_response (s2b "{""response"":{""protocol"":""3.0""}}") = None /\                       (* app missing *)
  parse_response (s2b "{""response"":{""protocol"":3,""app"":[]}}") = None /\                     (* wrong type *)
  parse_response (s2b "{""response"":{""protocol"":""3.0"",""protocol"":""3.0"",""app"":[]}}") = None /\   (* duplicate *)
  parse_response (s2b "{""response"":{""protocol"":""3.0"",""app"":[{""appid"":""a"",""status"":0}]}}") = None /\
  parse_response (s2b "{""response"":{""protocol"":""3.0"",""app"":[]}}x") = None /\              (* trailing bytes *)
  parse_response (s2b "{""response"":{""protocol"":""3.0"",""daystart"":{""elapsed_days"":4294967296},""app"":[]}}") = None /\
  parse_response (s2b "{""response"":{""protocol"":""3.0"",""app"":[]}} ") <> None /\             (* trailing white space *)
  parse_response (s2b "[[""3.0"",null,null,[]]]") <> None.                                          (* serde: struct from sequence *)
Proof. vm_compute. repeat split; discriminate. Qed.

Print Assumptions C16_total.
Print Assumptions C16_stack_bounded_by_input.
Print Assumptions C16_no_fuel_error.
Print Assumptions C16_kept_values_within_limit.
Print Assumptions C16_prefix.
Print Assumptions C16_only_one_prefix.
Print Assumptions C16_json_roundtrip.
Print Assumptions C16_roundtrip.
Print Assumptions C16_status.
Print Assumptions C16_full_urls.
Print Assumptions C16_required_response.
Print Assumptions C16_required_app.
Print Assumptions C16_required_manifest.
Print Assumptions C16_required_package.
Print Assumptions C16_size_is_u64.
