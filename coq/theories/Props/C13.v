(* Props/C13.v — Event stream is ordered, lossless and back-pressured
   (generator part: omaha-client/src/async_generator.rs over futures-channel's
   bounded channel, modelled in Model/Gen.v).

   Every theorem quantifies over ALL generator programs (any list of Yield x,
   YieldAll xs, SelfWake, Wait k, DropHandle, then return r) and ALL consumer
   schedules (any list of Poll / Complete k); no bound on either length. *)
Require Import Verif.Model.Gen Verif.Model.GenMon Verif.Proofs.GenFacts.
From Coq Require Import Lia.
Open Scope N_scope.

(* Order / exactly once / one completion / None forever.
   The poll results of any run split as pre ++ post where pre contains only
   Pending and Yielded and
   - either post = [] and the yielded values are a prefix of the program's
     emissions, in emission order (nothing duplicated, reordered or invented),
   - or every emission has been yielded, post starts with exactly one
     Complete (p_ret p), and every later poll returns None.
   (emits stops at the first DropHandle: without the handle the closure cannot yield.) *)
Theorem C13_order_exactly_once :
  forall p s,
  exists pre post,
    results (run p s) = pre ++ post /\
    Forall running_result pre /\
    ((post = [] /\ exists later, emits (p_ops p) = yvals pre ++ later) \/
     (exists n, post = RComplete (p_ret p) :: repeat RStreamEnd n /\ yvals pre = emits (p_ops p))).
Proof. exact order_exactly_once. Qed.

(* Back-pressure.  When poll number i returns Yielded x, the task is not
   finished and its program counter is still at the operation that emitted x
   (a Yield x whose Send future waits in poll_flush, or a YieldAll whose j-th
   item is x and which has pushed exactly j+1 items); and no operation with that
   index or a later one has finished in this or any earlier poll: the code after
   the emission has not started.  (C13_done_log_exact: o_done lists exactly the
   operations the program counter moved past, so "finished" = "pc went past it";
   the operation after the yield therefore starts in a later poll.) *)
Theorem C13_back_pressure :
  forall p s i o st x,
    nth_error (run_full (init p) s) i = Some (o, st) -> o_res o = RYielded x ->
    let pc := t_pc (g_task st) in
    t_done (g_task st) = false /\
    ((nth_error (p_ops p) pc = Some (Yield x) /\ t_sub (g_task st) = SentWaitingFlush) \/
     (exists xs j, nth_error (p_ops p) pc = Some (YieldAll xs) /\
                   t_sent (g_task st) = S j /\ nth_error xs j = Some x)) /\
    (forall i' o' st', (i' <= i)%nat -> nth_error (run_full (init p) s) i' = Some (o', st') ->
       forall j, In j (o_done o') -> j < N.of_nat pc).
Proof. exact back_pressure. Qed.

Theorem C13_done_log_exact :
  forall p s, logs_ok 0 (run_full (init p) s).
Proof. intros p s. exact (run_full_logs s p (init p) (Binv_init p)). Qed.

(* No lost wake-up.  Every delivery wakes the root waker; and whenever a poll
   returns Pending, either the root waker was woken during that poll (so the
   consumer will poll again), or the task is parked on an external Wait k that
   has not been completed, the Wait future holds the root waker, and completing
   k wakes it.  (Pending is never returned once the stream has completed:
   C13_order_exactly_once.) *)
Theorem C13_no_lost_wakeup :
  forall p s i o st,
    nth_error (run_full (init p) s) i = Some (o, st) ->
    (forall x, o_res o = RYielded x -> o_wd o = true) /\
    (o_res o = RPendingP ->
       o_wd o = true \/
       exists k r, t_done (g_task st) = false /\ t_rest (g_task st) = Wait k :: r /\
         nth_error (p_ops p) (t_pc (g_task st)) = Some (Wait k) /\
         mem k (m_completed (g_m st)) = false /\ o_blocked o = Some k /\
         m_woken (g_m (with_m (complete_m k) (with_m (set_woken false) st))) = true).
Proof. exact no_lost_wakeup. Qed.

(* Liveness.  A consumer that polls only when entitled to (first poll; the
   previous poll returned Ready(Some _); or the root waker was woken since)
   makes at most wake_budget p + 2 polls, whatever the environment does, where
   wake_budget p = items + SelfWakes + Waits + 1 (measure: outstanding wake
   sources).  The bound is attained (Example c13_bound_tight). *)
Theorem C13_liveness_bound :
  forall p s, disciplined true (run p s) = true -> (length (run p s) <= wake_budget p + 2)%nat.
Proof. exact liveness_bound. Qed.

(* the same bound by program size (items = values passed to yield_/yield_all);
   for every non-empty program it is below DESIGN's 2*(ops+items)+2 *)
Theorem C13_liveness_bound_size :
  forall p s, disciplined true (run p s) = true ->
  (length (run p s) <= length (p_ops p) + item_count (p_ops p) + 3)%nat.
Proof. exact liveness_bound_size. Qed.

(* ... and it cannot get stuck: if at the end of the schedule the consumer has
   nothing left to react to (the last poll did not entitle it to another one
   and no wake-up is outstanding) and the environment has completed every
   event the program waits for, then the completion has been delivered. *)
Theorem C13_liveness_progress :
  forall p s,
    idle_end (init p) true s ->
    (forall k, In (Wait k) (p_ops p) -> In (Complete k) s) ->
    In (RComplete (p_ret p)) (results (run p s)).
Proof. exact liveness_progress. Qed.

Theorem C13_liveness :
  forall p s,
    disciplined true (run p s) = true ->
    idle_end (init p) true s ->
    (forall k, In (Wait k) (p_ops p) -> In (Complete k) s) ->
    In (RComplete (p_ret p)) (results (run p s)) /\
    (length (run p s) <= wake_budget p + 2)%nat.
Proof. intros p s D I W. split; [exact (liveness_progress p s I W)|exact (liveness_bound p s D)]. Qed.

(* The executable monitor used on the implementation's observations accepts
   every run of the model (so code 2 of the check can only come from the implementation). *)
Theorem C13_monitor_accepts_model :
  forall p s, c13_monitor p (run p s) = true.
Proof. exact monitor_accepts_model. Qed.

(* Soundness of the monitor, for ANY observation list (in particular the
   implementation's): acceptance implies the order / exactly-once / completion
   shape, the wake-up discipline, and back-pressure in terms of the observed
   finished-operation log: when poll i returns Yielded x, x is an emission of
   some operation j and no operation >= j has been reported finished in polls <= i. *)
Theorem C13_monitor_sound_order :
  forall p obs, c13_monitor p obs = true ->
  exists pre post,
    results obs = pre ++ post /\
    Forall running_result pre /\
    ((post = [] /\ exists later, emits (p_ops p) = yvals pre ++ later) \/
     (exists n, post = RComplete (p_ret p) :: repeat RStreamEnd n /\ yvals pre = emits (p_ops p))).
Proof. exact monitor_sound_order. Qed.

Theorem C13_monitor_sound_wakeup :
  forall p obs, c13_monitor p obs = true ->
  Forall (fun o => (forall x, o_res o = RYielded x -> o_wd o = true) /\
                   (o_res o = RPendingP -> o_wd o = true \/ exists k, o_blocked o = Some k)) obs.
Proof. exact monitor_sound_wakeup. Qed.

Theorem C13_monitor_sound_back_pressure :
  forall p obs i o x,
    c13_monitor p obs = true -> nth_error obs i = Some o -> o_res o = RYielded x ->
    exists j, In (x, j) (owners_from 0 (p_ops p)) /\
      forall i' o', (i' <= i)%nat -> nth_error obs i' = Some o' -> forall d, In d (o_done o') -> d < j.
Proof. exact monitor_sound_back_pressure. Qed.

(* The two wrappers the state machine uses (builder.rs: start / oneshot_check use
   .into_yielded(); state_machine.rs run_once-style helpers use .into_complete()),
   modelled as futures-util's filter_map over the stream above.
   run_mode MRaw is the plain run the theorems above speak about. *)
Theorem C13_run_mode_raw : forall p s, run_mode MRaw p s = run p s.
Proof. exact run_mode_raw. Qed.

(* into_yielded: only Pending and the emitted values, in order, each once; after the
   first None all of them have been delivered and every later poll returns None. *)
Theorem C13_into_yielded_order :
  forall p s,
  exists pre n,
    results (run_mode MYielded p s) = pre ++ repeat RStreamEnd n /\
    Forall running_result pre /\
    (exists later, emits (p_ops p) = yvals pre ++ later) /\
    (n <> 0%nat -> yvals pre = emits (p_ops p)).
Proof. exact into_yielded_order. Qed.

(* into_complete: Pending until it returns exactly the closure's result; the internal
   `next().await.unwrap()` never sees None and the model's loop fuel is never exhausted
   (both would show as RStreamEnd). *)
Theorem C13_into_complete_result :
  forall p s,
  exists n,
    results (run_mode MComplete p s) = repeat RPendingP n \/
    exists rest, results (run_mode MComplete p s) = repeat RPendingP n ++ RComplete (p_ret p) :: rest.
Proof. exact into_complete_result. Qed.

(* ---- non-vacuity ---- *)
Definition ex_prog : program :=
  {| p_ops := [Yield 1; SelfWake; YieldAll [2; 3]; Wait 0; DropHandle; Yield 9; Wait 1]; p_ret := 7 |}.
Definition ex_sched : schedule :=
  [Poll; Poll; Poll; Poll; Poll; Complete 0; Poll; Poll; Complete 1; Poll; Poll].

Example c13_run_results :
  results (run ex_prog ex_sched) =
  [RYielded 1; RPendingP; RYielded 2; RYielded 3; RPendingP; RPendingP; RPendingP; RComplete 7; RStreamEnd].
Proof. vm_compute. reflexivity. Qed.

Example c13_emits : emits (p_ops ex_prog) = [1; 2; 3].
Proof. vm_compute. reflexivity. Qed.

(* the yield is returned by the poll that runs it; the next operation finishes only in the next poll *)
Example c13_done_logs :
  map o_done (run ex_prog ex_sched) = [[]; [0]; [1]; []; [2]; [3; 4; 5]; []; [6]; []].
Proof. vm_compute. reflexivity. Qed.

(* a Pending without a wake: the task is parked on Wait 0; the spurious poll after
   the channel was closed by DropHandle finds it parked on Wait 1 *)
Example c13_wakes :
  map (fun o => (o_wb o, o_wd o, o_blocked o)) (run ex_prog ex_sched) =
  [(false, true, None); (false, true, None); (false, true, None); (false, true, None);
   (false, false, Some 0); (true, true, Some 1); (false, false, Some 1); (true, false, None); (false, false, None)].
Proof. vm_compute. reflexivity. Qed.

Example c13_disciplined_and_idle :
  disciplined true (run ex_prog ex_sched) = true /\ idle_end (init ex_prog) true ex_sched.
Proof. vm_compute. repeat split; reflexivity. Qed.

(* the bound of C13_liveness_bound is attained *)
Example c13_bound_tight :
  let p := {| p_ops := [Wait 0; DropHandle; Wait 1]; p_ret := 0 |} in
  let s := [Poll; Complete 0; Poll; Poll; Complete 1; Poll; Poll] in
  disciplined true (run p s) = true /\ length (run p s) = (wake_budget p + 2)%nat.
Proof. vm_compute. split; reflexivity. Qed.

(* an undisciplined, starving consumer: nothing is lost, the run is a prefix *)
Example c13_prefix :
  results (run ex_prog [Complete 1; Poll; Complete 0; Poll]) = [RYielded 1; RPendingP].
Proof. vm_compute. reflexivity. Qed.

Example c13_monitor_rejects_reorder :
  c13_monitor {| p_ops := [Yield 1; Yield 2]; p_ret := 0 |}
    [Ob false (RYielded 2) true [] None false] = false.
Proof. vm_compute. reflexivity. Qed.

Example c13_monitor_rejects_run_ahead :
  c13_monitor {| p_ops := [Yield 1; Yield 2]; p_ret := 0 |}
    [Ob false (RYielded 1) true [0] None false] = false.
Proof. vm_compute. reflexivity. Qed.

Example c13_monitor_rejects_lost_wakeup :
  c13_monitor {| p_ops := [SelfWake]; p_ret := 0 |}
    [Ob false RPendingP false [] None false] = false.
Proof. vm_compute. reflexivity. Qed.


Example c13_into_yielded :
  results (run_mode MYielded ex_prog ex_sched) =
  [RYielded 1; RPendingP; RYielded 2; RYielded 3; RPendingP; RPendingP; RPendingP; RStreamEnd; RStreamEnd].
Proof. vm_compute. reflexivity. Qed.

(* into_complete drives the generator through all its yields inside one poll *)
Example c13_into_complete :
  results (run_mode MComplete ex_prog [Poll; Poll; Complete 0; Poll; Complete 1; Poll]) =
  [RPendingP; RPendingP; RPendingP; RComplete 7] /\
  map o_done (run_mode MComplete ex_prog [Poll; Poll; Complete 0; Poll; Complete 1; Poll]) =
  [[0]; [1; 2]; [3; 4; 5]; [6]].
Proof. vm_compute. split; reflexivity. Qed.

Print Assumptions C13_order_exactly_once.
Print Assumptions C13_back_pressure.
Print Assumptions C13_done_log_exact.
Print Assumptions C13_no_lost_wakeup.
Print Assumptions C13_liveness_bound.
Print Assumptions C13_liveness_progress.
Print Assumptions C13_liveness.
Print Assumptions C13_monitor_accepts_model.
Print Assumptions C13_monitor_sound_order.
Print Assumptions C13_monitor_sound_wakeup.
Print Assumptions C13_monitor_sound_back_pressure.
Print Assumptions C13_run_mode_raw.
Print Assumptions C13_into_yielded_order.
Print Assumptions C13_into_complete_result.
Print Assumptions C13_liveness_bound_size.

(* ---- the state-machine clauses: every trace of the state-machine model is accepted by step13 (Model/Monitors13.v) ----
   step13 rejects: a progress event that is not the next value the installer reported, or any other action (control
   traffic aside) while a reported value is still undelivered - so all of them are delivered, in order, before the
   install's outcome is announced; a request while neither a check nor the wait for the reboot has announced itself; the
   installer asked for a plan outside a check or started before InstallingUpdate has been taken; the reboot performed
   before WaitingForReboot has been taken.  (An event is in a trace when the consumer takes it; a call when it is made.) *)
Require Import Verif.Model.Time Verif.Base.Bytes Verif.Model.Proto Verif.Model.Env Verif.Model.SM Verif.Model.Monitors13
               Verif.Proofs.Monitor Verif.Proofs.C13smProof.
Theorem C13_state_machine_delivers_progress_and_never_runs_ahead :
  forall ep cfg url cup apps e, e_trace e = [] ->
    accepts step13 init13 (run_case ep cfg url cup apps e) = true.
Proof. exact model_accepted_c13sm. Qed.
Section Examples13sm.
  Let perf (ps : list N) := AInstaller (IPerform (s2b "p")) (IPerformed {| pa_progress := ps; pa_results := [] |}).
  Let pre := [AEvent (EvState (CheckingForUpdates ScheduledTask)); AEvent (EvState InstallingUpdate)].
  Example C13_sm_monitor :
    (* a reported value dropped; values out of order; the outcome announced before the last value *)
    accepts step13 init13 (pre ++ [perf [1; 2; 3]; AEvent (EvProgress 1); AEvent (EvProgress 3)])%N = false
    /\ accepts step13 init13 (pre ++ [perf [1; 2]; AEvent (EvProgress 2); AEvent (EvProgress 1)])%N = false
    /\ accepts step13 init13 (pre ++ [perf [1; 2]; AEvent (EvProgress 1); AClock {| wall := 0; mono := 0 |}])%N = false
    (* the installer started before InstallingUpdate was taken; a reboot before WaitingForReboot was taken *)
    /\ accepts step13 init13 [AEvent (EvState (CheckingForUpdates ScheduledTask)); perf []] = false
    /\ accepts step13 init13 [AInstaller IReboot (IRebooted true)] = false
    (* the legitimate sequence *)
    /\ accepts step13 init13 (pre ++ [perf [1; 2]; AEvent (EvProgress 1); AEvent (EvProgress 2); AClock {| wall := 0; mono := 0 |}])%N = true.
  Proof. vm_compute. repeat split. Qed.
End Examples13sm.
Print Assumptions C13_state_machine_delivers_progress_and_never_runs_ahead.
