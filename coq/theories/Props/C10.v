(* Props/C10.v — Every update outcome is reported to Omaha exactly once.
   The main theorem is C10_report_monitor_accepts_every_model_trace (below).  Session and request ids of the reports
   (same session as the check, fresh request id) are the subject of C10_reports_stay_in_the_session_with_fresh_request_ids (end of file). *)
Require Import Verif.Model.Time Verif.Base.Bytes Verif.Model.Version Verif.Model.Proto Verif.Model.Request Verif.Model.Env Verif.Model.SM Verif.Proofs.SMPure.
Open Scope Z_scope.

(* a report carries one event for exactly the known apps that were offered an update, in app-set order *)
Theorem C10_report_for_exactly_the_offered_known_apps :
  forall ev apps nv dur,
    map op_app (report_ops ev apps nv dur) = filter (fun a => match nv_get nv (a_id a) with Some _ => true | None => false end) apps.
Proof. exact report_ops_apps. Qed.

(* each event is the template with the app's current version (canonical form) as previous version and the offered
   manifest version (if any) as next version *)
Theorem C10_event_versions :
  forall ev apps nv dur o, In o (report_ops ev apps nv dur) ->
    exists a next, In a apps /\ nv_get nv (a_id a) = Some next /\
      o = OpEvent a {| ev_type := ev_type ev; ev_result := ev_result ev; ev_err := ev_err ev;
                       ev_prev := Some (Version.print (a_ver a)); ev_next := next; ev_dl := dl_ms dur |}.
Proof. exact report_ops_events. Qed.

(* the event templates of the property text *)
Theorem C10_templates :
  event_error EEParseResponse = {| ev_type := ETUpdateComplete; ev_result := ERError; ev_err := Some EEParseResponse; ev_prev := None; ev_next := None; ev_dl := None |} /\
  event_success ETUpdateDownloadStarted = {| ev_type := ETUpdateDownloadStarted; ev_result := ERSuccess; ev_err := None; ev_prev := None; ev_next := None; ev_dl := None |} /\
  deferred_event = {| ev_type := ETUpdateComplete; ev_result := ERUpdateDeferred; ev_err := None; ev_prev := None; ev_next := None; ev_dl := None |}.
Proof. repeat split; reflexivity. Qed.

Print Assumptions C10_event_versions.

(* ---- the report monitor (Model/Monitors.v step10) accepts every trace of the model ----
   step10 follows a check from CheckingForUpdates to its result.  Update-check requests and pings carry no event.
   Once the attempts have produced a body, the path taken fixes what is owed:
     unparseable body            -> one report: a parse-error event for every app of the app set, no next version;
     install plan refused        -> one report: a construct-install-plan error event for exactly the known apps offered an update;
     policy deferred / denied    -> one report: the deferred / denied-by-policy event for exactly those apps;
     policy approved             -> a download-started report for exactly those apps before the installer is called, then after
                                    the installer's answer one report with, per (offered app, result) pair of a known app, the
                                    event of that result (finished / deferred / installation error), and, iff some app
                                    installed, an update-complete report for exactly the apps that installed.
   Every event carries the app's current version as previous version and a manifest version the response offered for
   that app as next version (the one of the pair for per-app events).  An obligation is discharged by exactly one
   request whose apps carry exactly the expected events and nothing else (report_ok), followed, if that request is not
   delivered (transport error, non-2xx, failed authentication), by one lost-event metric per event; a report that
   cannot be put on the wire at all is accounted by the lost-event metrics alone.  Any other request between the end of
   the attempts and the result is rejected (no retry, no duplicate), obligations must be discharged in order before
   the flow goes on, and the result may be announced only when nothing is owed (an empty report with no events may be skipped). *)
Require Import Verif.Model.Monitors Verif.Proofs.Monitor Verif.Proofs.C10Proof Verif.Model.Json.

Theorem C10_report_monitor_accepts_every_model_trace :
  forall ep cfg url cup apps e, e_trace e = [] ->
    accepts step10 (init10 cup apps) (run_case ep cfg url cup apps e) = true.
Proof. exact model_accepted_c10. Qed.

(* what a request satisfying an expectation looks like, in the property's words: no app twice, no update check or ping
   in a report, each app's events are exactly the expected events for that app in order, every expected event's app is present *)
Theorem C10_report_ok_meaning :
  forall exp w, report_ok exp w = true ->
    nodupb (map wa_id (ws_apps (w_sum w))) = true
    /\ (forall a, In a (ws_apps (w_sum w)) -> wa_uc a = None /\ wa_ping a = None
                  /\ evs_match (filter (fun x => bytes_eqb (x_id x) (wa_id a)) exp) (wa_events a) = true)
    /\ (forall x, In x exp -> exists a, In a (ws_apps (w_sum w)) /\ bytes_eqb (x_id x) (wa_id a) = true).
Proof.
  intros exp w H. unfold report_ok in H. apply andb_prop in H. destruct H as [H H3]. apply andb_prop in H. destruct H as [H1 H2].
  split; [exact H1|]. split.
  - intros a Ha. rewrite forallb_forall in H2. specialize (H2 a Ha). apply andb_prop in H2. destruct H2 as [Hu He].
    destruct (wa_uc a), (wa_ping a); try discriminate. auto.
  - intros x Hx. rewrite forallb_forall in H3. specialize (H3 x Hx). apply existsb_exists in H3. exact H3.
Qed.

Section Examples.
  Let w0 (evs : list (bytes * list wev)) : wire :=
    {| w_uri := []; w_headers := []; w_body := [];
       w_sum := {| ws_source := ScheduledTask; ws_session := None; ws_request := None;
                   ws_apps := map (fun x => {| wa_id := fst x; wa_cohort := cohort_none;
                                               wa_uc := None; wa_ping := None; wa_events := snd x |}) evs |} |}.
  Let ok : http_outcome := HResp 200%N None true BBad.
  Let d1 : doc := {| d_daystart := None; d_apps := [{| r_id := s2b "a"; r_cohort := cohort_none;
                                                      r_uc := Some (true, Some (s2b "2.0")) |}] |}.
  Let q0 := {| apps10 := [(s2b "a", s2b "1.0")]; cup10 := false; ph10_ := X0; todo10 := [] |}.
  Let started := w0 [(s2b "a", [(13%N, 1%N, None, Some (s2b "1.0"), Some (s2b "2.0"))])].
  Let finished := w0 [(s2b "a", [(14%N, 1%N, None, Some (s2b "1.0"), Some (s2b "2.0"))])].
  Let complete := w0 [(s2b "a", [(3%N, 1%N, None, Some (s2b "1.0"), Some (s2b "2.0"))])].
  Let pre := [AEvent (EvState (CheckingForUpdates ScheduledTask)); AHttp (w0 [(s2b "a", [])]) ok; AMetric (MRequestsPerCheck 1 true);
              AEvent (EvServerResponse d1);
              AInstaller (ICreatePlan params_default None d1 false) (IPlan (Some (s2b "p")));
              APolicy (QCanStart (s2b "p")) (PUDecision UOk)].
  Let perf := AInstaller (IPerform (s2b "p")) (IPerformed {| pa_progress := []; pa_results := [RInstalled] |}).
  Let res := AEvent (EvResult (inr [])).

  (* a complete successful install: accepted (the premises of the main theorem are met by real runs, see the harness) *)
  Example C10_monitor_accepts_install :
    accepts step10 q0 (pre ++ [AHttp started ok; perf; AHttp finished ok; AHttp complete ok; res]) = true.
  Proof. vm_compute. reflexivity. Qed.
  (* the update-complete report missing, a report sent twice, a lost report not counted, a report before its cause: rejected *)
  Example C10_monitor_rejects :
    accepts step10 q0 (pre ++ [AHttp started ok; perf; AHttp finished ok; res]) = false
    /\ accepts step10 q0 (pre ++ [AHttp started ok; AHttp started ok]) = false
    /\ accepts step10 q0 (pre ++ [AHttp started (HErr TTransport); perf]) = false
    /\ accepts step10 q0 (pre ++ [perf]) = false
    /\ accepts step10 q0 (pre ++ [AHttp started (HErr TTransport); AMetric (MOmahaEventLost (event_success ETUpdateDownloadStarted));
                                   perf; AHttp finished ok; AHttp complete ok; res]) = true.
  Proof. vm_compute. repeat split; reflexivity. Qed.
End Examples.

Print Assumptions C10_report_monitor_accepts_every_model_trace.
Print Assumptions C10_report_ok_meaning.

(* ---- session and request ids of the reports: every request of a check, event reports included, carries the session id
   of the check's first request, and no request id ever appears twice (Model/Monitors.v step6ids) ---- *)
Require Import Verif.Proofs.C06idsProof.
Theorem C10_reports_stay_in_the_session_with_fresh_request_ids :
  forall ep cfg url cup apps e, e_trace e = [] -> e_guids e = [] ->
    accepts step6ids {| i_in := false; i_sess := None; i_reqs := [] |} (run_case ep cfg url cup apps e) = true.
Proof. exact model_accepted_ids. Qed.
Print Assumptions C10_reports_stay_in_the_session_with_fresh_request_ids.

(* ---- no report is written off without having been attempted: when the configuration lets every request be built
   (valid service URL, updater name and app ids acceptable as header values), a lost-event metric only follows a request
   whose exchange failed (Model/Monitors10l.v step10l) ---- *)
Require Import Verif.Model.Monitors10l Verif.Proofs.C10lProof.
Theorem C10_a_lost_event_follows_a_failed_exchange :
  forall ep cfg url cup apps e, e_trace e = [] ->
    accepts step10l (init10l cfg url cup apps) (run_case ep cfg url cup apps e) = true.
Proof. exact model_accepted_c10l. Qed.
Print Assumptions C10_a_lost_event_follows_a_failed_exchange.
Section LossExamples.
  Variable w : wire.
  Let lost := AMetric (MOmahaEventLost (event_success ETUpdateDownloadStarted)).
  Let strict := {| strict10l := true; cup10l := true; armed10l := false |}.
  (* the strict mode is reachable, and in it: a loss after a delivered exchange or with no exchange at all is rejected, a
     loss after a transport error, an error status or an unauthenticated response is accepted *)
  Example C10_loss_monitor_is_strict_somewhere :
    buildable {| cfg_name := s2b "updater"; cfg_uver := (1, 2, 3, 4)%N; os_platform := s2b "p"; os_version := s2b "1.0"; os_sp := []; os_arch := s2b "x"; cfg_url := s2b "http://h/" |}
              {| u_valid := true; u_prefix := s2b "http://h"; u_path := s2b "/"; u_query := None |}
              [{| a_id := s2b "{app-1}"; a_ver := (1, 0, 0, 0)%N; a_fp := None; a_cohort := cohort_none; a_uc := None; a_extra := [] |}] = true.
  Proof. vm_compute. reflexivity. Qed.
  Example C10_loss_monitor_rejects_unattempted_losses :
    accepts step10l strict [lost] = false
    /\ accepts step10l strict [AHttp w (HResp 200%N None true BBad); lost] = false
    /\ accepts step10l strict [AHttp w (HErr TTransport); lost; lost] = true
    /\ accepts step10l strict [AHttp w (HResp 503%N None true BBad); lost] = true
    /\ accepts step10l strict [AHttp w (HResp 200%N None false BBad); lost] = true
    /\ accepts step10l strict [AHttp w (HErr TTransport); AHttp w (HResp 200%N None true BBad); lost] = false.
  Proof. vm_compute. repeat split; reflexivity. Qed.
End LossExamples.
