(* Props/C10.v — Every update outcome is reported to Omaha exactly once.
   PARTIAL at the level of theorems: the content of an event report is proved below; which reports are sent on which
   path, session/request ids, lost-event accounting and outcome independence are decided by trace equality between
   model and implementation on the request/lost-metric/result projection (proj_c10), and "no retry of a report" by C06's monitor. *)
Require Import Verif.Model.Time Verif.Base.Bytes Verif.Model.Version Verif.Model.Proto Verif.Model.Request Verif.Model.Env Verif.Model.SM Verif.Proofs.SMPure.
Open Scope Z_scope.

(* a report carries one event for exactly the known apps that were offered an update, in app-set order *)
Theorem C10_report_for_exactly_the_offered_known_apps :
  forall ev apps nv dur,
    map op_app (report_ops ev apps nv dur) = filter (fun a => match nv_get nv (a_id a) with Some _ => true | None => false end) apps.
Proof. exact report_ops_apps. Qed.

(* each event is the template with the app's current version (canonical form) as previous version and the offered
   manifest version (if any) as next version *)
Theorem C10_event_versions :
  forall ev apps nv dur o, In o (report_ops ev apps nv dur) ->
    exists a next, In a apps /\ nv_get nv (a_id a) = Some next /\
      o = OpEvent a {| ev_type := ev_type ev; ev_result := ev_result ev; ev_err := ev_err ev;
                       ev_prev := Some (Version.print (a_ver a)); ev_next := next; ev_dl := dl_ms dur |}.
Proof. exact report_ops_events. Qed.

(* the event templates of the property text *)
Theorem C10_templates :
  event_error EEParseResponse = {| ev_type := ETUpdateComplete; ev_result := ERError; ev_err := Some EEParseResponse; ev_prev := None; ev_next := None; ev_dl := None |} /\
  event_success ETUpdateDownloadStarted = {| ev_type := ETUpdateDownloadStarted; ev_result := ERSuccess; ev_err := None; ev_prev := None; ev_next := None; ev_dl := None |} /\
  deferred_event = {| ev_type := ETUpdateComplete; ev_result := ERUpdateDeferred; ev_err := None; ev_prev := None; ev_next := None; ev_dl := None |}.
Proof. repeat split; reflexivity. Qed.

Print Assumptions C10_event_versions.
