(* Props/C11.v — Every control request gets exactly one, truthful reply.
   Proved: C11_no_reply_without_request_and_never_two (below): in every model trace every reply answers a request that
   was sent and is still unanswered, no request is answered twice, and request ids are never reused; the invariant ties
   the monitor's outstanding set to the model's queue of requests in flight (Proofs/MonitorG.v: triples over monitor
   state and environment).  Also proved: the reply rules of the three places where the model answers a request.
   "At least one reply" is liveness (a finite trace may end with requests outstanding; the harness checks that those
   fail with StateMachineGone at once).
   PARTIAL: that every reply is the *truthful* one is decided by the run-time monitor
   step11 on every implementation trace (exactly one reply per request id; Started / Throttled only for the oldest
   outstanding request, right after the check-allowed question asked with that request's options and matching its
   answer; AlreadyRunning only during a check or reboot wait; an on-demand request upgrades the reboot question, and a
   positive answer is followed by the reboot) and by trace equality with the model, on scripts that inject requests
   after arbitrary events (during attempts, reports, installs, progress delivery, reboot waits, pings) and at every
   wait, drop all handles, and end the stream with requests outstanding (which must fail with StateMachineGone at once;
   a request made after the stream is gone must fail too — checked by the harness).  The real select!'s internal
   branch order and futures-channel internals are not modelled (DESIGN.md C11 'Partial'); the one racy point — a request
   sent right after the check's result event — is excluded from the deterministic scripts. *)
Require Import Verif.Model.Time Verif.Base.Bytes Verif.Model.Proto Verif.Model.Env Verif.Model.SM Verif.Proofs.SMPure.
Open Scope N_scope.

(* a request that arrives during a check is answered AlreadyRunning at once, exactly once; on-demand upgrades the options *)
Theorem C11_in_check_request :
  forall e k0 src rest,
    c_inject (e_cs e) = (k0, src) :: rest -> (k0 <=? c_evn (e_cs e)) = true -> c_incheck (e_cs e) = true ->
    let e' := snd (after_event false e) in
    e_trace e' = AReply (e_ctl e) AlreadyRunning :: ARequest (e_ctl e) src :: e_trace e /\
    e_ctl e' = e_ctl e + 1 /\ c_inq (e_cs e') = c_inq (e_cs e) /\ c_inject (e_cs e') = rest /\
    c_upg (e_cs e') = c_upg (e_cs e) || is_ondemand src.
Proof.
  intros e k0 src rest Hi Hk Hc. unfold after_event. rewrite Hi, Hk, Hc. cbn. repeat split; reflexivity.
Qed.

(* outside a check it is queued (FIFO) for the next select and not answered yet *)
Theorem C11_request_outside_check_is_queued :
  forall e k0 src rest,
    c_inject (e_cs e) = (k0, src) :: rest -> (k0 <=? c_evn (e_cs e)) = true -> c_incheck (e_cs e) = false ->
    let e' := snd (after_event false e) in
    e_trace e' = ARequest (e_ctl e) src :: e_trace e /\ c_inq (e_cs e') = c_inq (e_cs e) ++ [(e_ctl e, src)].
Proof.
  intros e k0 src rest Hi Hk Hc. unfold after_event. rewrite Hi, Hk, Hc. cbn. split; reflexivity.
Qed.

(* entering a check answers every queued request AlreadyRunning, once each, oldest first, and empties the queue *)
Theorem C11_enter_check_answers_the_queue :
  forall e, let e' := snd (enter_check e) in
    e_trace e' = rev (map (fun x => AReply (fst x) AlreadyRunning) (c_inq (e_cs e))) ++ e_trace e /\
    c_inq (e_cs e') = [] /\ c_incheck (e_cs e') = true.
Proof. intro e. unfold enter_check. cbn. repeat split; reflexivity. Qed.

(* a waiting machine sees a queued request before any timer: it wakes without a timer firing *)
Theorem C11_wait_takes_queued_request_first :
  forall pending e id src r, c_inq (e_cs e) = (id, src) :: r ->
    fst (do_outer_select pending e) = Some (Some (src, id)) /\ e_stim (snd (do_outer_select pending e)) = e_stim e.
Proof.
  intros pending e id src r H. unfold do_outer_select, bind, pop_queued, ret. rewrite H. cbn. split; reflexivity.
Qed.

(* dropping all handles is invisible to the wait: timers still decide *)
Theorem C11_dropped_handles_leave_timers :
  forall r pending ctl, outer_select (DropHandles :: r) pending ctl = outer_select r pending ctl.
Proof. reflexivity. Qed.

Print Assumptions C11_in_check_request.

(* ---- exactly one reply: the monitor (Model/Monitors11a.v step11a) accepts every trace of the model ---- *)
Require Import Verif.Model.Monitors11a Verif.Proofs.Monitor Verif.Proofs.C11aProof.

Theorem C11_no_reply_without_request_and_never_two :
  forall ep cfg url cup apps e, e_trace e = [] -> c_inq (e_cs e) = [] ->
    accepts step11a {| out11a := []; next11a := e_ctl e |} (run_case ep cfg url cup apps e) = true.
Proof. exact model_accepted_c11a. Qed.

Example C11a_monitor_rejects :
  accepts step11a init11a [ARequest 0 OnDemand; AReply 0 Started; AReply 0 AlreadyRunning] = false   (* two replies *)
  /\ accepts step11a init11a [AReply 0 Started] = false                                              (* a reply nobody asked for *)
  /\ accepts step11a init11a [ARequest 0 OnDemand; AReply 0 Started; ARequest 0 OnDemand] = false   (* an id reused *)
  /\ accepts step11a init11a [ARequest 0 OnDemand; ARequest 1 ScheduledTask; AReply 1 AlreadyRunning; AReply 0 Started] = true.
Proof. vm_compute. repeat split. Qed.

Print Assumptions C11_no_reply_without_request_and_never_two.
