(* Props/C11.v — Every control request gets exactly one, truthful reply.
   Proved: C11_no_reply_without_request_and_never_two (below): in every model trace every reply answers a request that
   was sent and is still unanswered, no request is answered twice, and request ids are never reused; the invariant ties
   the monitor's outstanding set to the model's queue of requests in flight (Proofs/MonitorG.v: triples over monitor
   state and environment).  Also proved: the reply rules of the three places where the model answers a request.
   "At least one reply" is liveness (a finite trace may end with requests outstanding; the harness checks that those
   fail with StateMachineGone at once).
   Proved as well: C11_every_reply_is_the_truthful_one (end of file): every model trace is accepted by the monitor step11x
   (Started / Throttled only for the oldest outstanding request, right after the check-allowed question asked with that
   request's options and matching its answer; AlreadyRunning only during a check or reboot wait; an on-demand request
   upgrades the reboot question, a positive answer is followed by the reboot before anything else, and an on-demand
   request during the wait for the reboot gets the question asked again before the next ping).
   Model = code by trace equality, on scripts that inject requests
   after arbitrary events (during attempts, reports, installs, progress delivery, reboot waits, pings) and at every
   wait, drop all handles, and end the stream with requests outstanding (which must fail with StateMachineGone at once;
   a request made after the stream is gone must fail too — checked by the harness).  The real select!'s internal
   branch order and futures-channel internals are not modelled (DESIGN.md C11 'Partial'); the one racy point — a request
   sent right after the check's result event — is excluded from the deterministic scripts. *)
Require Import Verif.Model.Time Verif.Base.Bytes Verif.Model.Proto Verif.Model.Env Verif.Model.SM Verif.Proofs.SMPure.
Open Scope N_scope.

(* a request that arrives during a check is answered AlreadyRunning at once, exactly once; on-demand upgrades the options *)
Theorem C11_in_check_request :
  forall e k0 src rest,
    c_inject (e_cs e) = (k0, src) :: rest -> (k0 <=? c_evn (e_cs e)) = true -> c_incheck (e_cs e) = true ->
    let e' := snd (after_event false e) in
    e_trace e' = AReply (e_ctl e) AlreadyRunning :: ARequest (e_ctl e) src :: e_trace e /\
    e_ctl e' = e_ctl e + 1 /\ c_inq (e_cs e') = c_inq (e_cs e) /\ c_inject (e_cs e') = rest /\
    c_upg (e_cs e') = c_upg (e_cs e) || is_ondemand src.
Proof.
  intros e k0 src rest Hi Hk Hc. unfold after_event. rewrite Hi, Hk, Hc. cbn. repeat split; reflexivity.
Qed.

(* outside a check it is queued (FIFO) for the next select and not answered yet *)
Theorem C11_request_outside_check_is_queued :
  forall e k0 src rest,
    c_inject (e_cs e) = (k0, src) :: rest -> (k0 <=? c_evn (e_cs e)) = true -> c_incheck (e_cs e) = false ->
    let e' := snd (after_event false e) in
    e_trace e' = ARequest (e_ctl e) src :: e_trace e /\ c_inq (e_cs e') = c_inq (e_cs e) ++ [(e_ctl e, src)].
Proof.
  intros e k0 src rest Hi Hk Hc. unfold after_event. rewrite Hi, Hk, Hc. cbn. split; reflexivity.
Qed.

(* entering a check answers every queued request AlreadyRunning, once each, oldest first, and empties the queue *)
Theorem C11_enter_check_answers_the_queue :
  forall e, let e' := snd (enter_check e) in
    e_trace e' = rev (map (fun x => AReply (fst x) AlreadyRunning) (c_inq (e_cs e))) ++ e_trace e /\
    c_inq (e_cs e') = [] /\ c_incheck (e_cs e') = true.
Proof. intro e. unfold enter_check. cbn. repeat split; reflexivity. Qed.

(* a waiting machine sees a queued request before any timer: it wakes without a timer firing *)
Theorem C11_wait_takes_queued_request_first :
  forall pending e id src r, c_inq (e_cs e) = (id, src) :: r ->
    fst (do_outer_select pending e) = Some (Some (src, id)) /\ e_stim (snd (do_outer_select pending e)) = e_stim e.
Proof.
  intros pending e id src r H. unfold do_outer_select, bind, pop_queued, ret. rewrite H. cbn. split; reflexivity.
Qed.

(* dropping all handles is invisible to the wait: timers still decide *)
Theorem C11_dropped_handles_leave_timers :
  forall r pending ctl, outer_select (DropHandles :: r) pending ctl = outer_select r pending ctl.
Proof. reflexivity. Qed.

Print Assumptions C11_in_check_request.

(* ---- exactly one reply: the monitor (Model/Monitors11a.v step11a) accepts every trace of the model ---- *)
Require Import Verif.Model.Monitors11a Verif.Proofs.Monitor Verif.Proofs.C11aProof.

Theorem C11_no_reply_without_request_and_never_two :
  forall ep cfg url cup apps e, e_trace e = [] -> c_inq (e_cs e) = [] ->
    accepts step11a {| out11a := []; next11a := e_ctl e |} (run_case ep cfg url cup apps e) = true.
Proof. exact model_accepted_c11a. Qed.

Example C11a_monitor_rejects :
  accepts step11a init11a [ARequest 0 OnDemand; AReply 0 Started; AReply 0 AlreadyRunning] = false   (* two replies *)
  /\ accepts step11a init11a [AReply 0 Started] = false                                              (* a reply nobody asked for *)
  /\ accepts step11a init11a [ARequest 0 OnDemand; AReply 0 Started; ARequest 0 OnDemand] = false   (* an id reused *)
  /\ accepts step11a init11a [ARequest 0 OnDemand; ARequest 1 ScheduledTask; AReply 1 AlreadyRunning; AReply 0 Started] = true.
Proof. vm_compute. repeat split. Qed.

Print Assumptions C11_no_reply_without_request_and_never_two.

(* ---- truthful replies: the monitor (Model/Monitors.v step11, with the ask-again rule step11x) accepts every trace of the model ----
   The premises say the script starts with no request in flight and outside any check (the harness starts every case so). *)
Require Import Verif.Model.Monitors Verif.Proofs.C11Proof.

Theorem C11_every_reply_is_the_truthful_one :
  forall cfg url cup apps e,
    e_trace e = [] -> c_inq (e_cs e) = [] -> c_incheck (e_cs e) = false -> c_upg (e_cs e) = false ->
    accepts step11x {| base11 := init11; askdue11 := false |} (run_case EStart cfg url cup apps e) = true.
Proof. exact model_accepted_c11. Qed.
(* the added rule only restricts: the same traces are accepted by step11 alone *)
Theorem C11_every_reply_is_the_truthful_one_base :
  forall cfg url cup apps e,
    e_trace e = [] -> c_inq (e_cs e) = [] -> c_incheck (e_cs e) = false -> c_upg (e_cs e) = false ->
    accepts step11 init11 (run_case EStart cfg url cup apps e) = true.
Proof. exact model_accepted_c11_base. Qed.

Section Examples11.
  Let ask (src : isource) (d : decision) := APolicy (QCheckAllowed [] {| s_last_update := None; s_last_check := None; s_next := None |} {| ps_poll := None; ps_fails := 0%Z; ps_proxied := 0%Z |} src) (PDecision d).
  Let q0 := {| base11 := init11; askdue11 := false |}.
  Example C11_monitor_rejects :
    (* Started although the policy refused *)
    accepts step11x q0 [ARequest 0 OnDemand; ask OnDemand DThrottled; AReply 0 Started] = false
    (* the check-allowed question asked with other options than the request's *)
    /\ accepts step11x q0 [ARequest 0 OnDemand; ask ScheduledTask (DOk params_default); AReply 0 Started] = false
    (* AlreadyRunning while the machine is waiting *)
    /\ accepts step11x q0 [ARequest 0 OnDemand; AReply 0 AlreadyRunning] = false
    (* the reboot is allowed but something else happens first *)
    /\ accepts step11x q0 [ask ScheduledTask (DOk params_default); AEvent (EvState WaitingForReboot);
                            APolicy (QRebootAllowed ScheduledTask) (PBool true); ATimer (WFor 1%Z)] = false
    (* an on-demand request during the wait for the reboot does not upgrade the question *)
    /\ accepts step11x q0 [ask ScheduledTask (DOk params_default); AEvent (EvState WaitingForReboot);
                            APolicy (QRebootAllowed ScheduledTask) (PBool false); ARequest 0 OnDemand; AReply 0 AlreadyRunning;
                            APolicy (QRebootAllowed ScheduledTask) (PBool false)] = false
    (* the legitimate sequences *)
    /\ accepts step11x q0 [ARequest 0 OnDemand; ask OnDemand DThrottled; AReply 0 Throttled] = true
    /\ accepts step11x q0 [ARequest 0 OnDemand; ask OnDemand (DOk params_default); AReply 0 Started;
                            ARequest 1 ScheduledTask; AReply 1 AlreadyRunning] = true
    /\ accepts step11x q0 [ask ScheduledTask (DOk params_default); AEvent (EvState WaitingForReboot);
                            APolicy (QRebootAllowed ScheduledTask) (PBool false); ARequest 0 OnDemand; AReply 0 AlreadyRunning;
                            APolicy (QRebootAllowed OnDemand) (PBool true); AInstaller IReboot (IRebooted true)] = true.
  Proof. vm_compute. repeat split. Qed.
End Examples11.

Print Assumptions C11_every_reply_is_the_truthful_one.
Print Assumptions C11_every_reply_is_the_truthful_one_base.
