(* Props/C01.v — CUP verification accepts exactly the authentic responses.

   Model: Model/Cup.v (verify = verify_response followed by
   verify_response_with_signature of omaha-client/src/cup_ecdsa.rs).
   sha256, der_ok and ecdsa_verify are arbitrary functions here (explicit
   arguments of every theorem): nothing is assumed about the primitives
   except where a tamper theorem lists a premise (no_collision on the two
   inputs compared, fixed_len, sig_binds), and those premises are hypotheses
   of that theorem only.  58 is the colon, 34 the double quote;
   quoted t = 34 :: t ++ [34], weak_quoted t = W / 34 :: t ++ [34]. *)
Require Import Verif.Base.Bytes Verif.Proofs.BytesFacts Verif.Model.Cup Verif.Proofs.CupFacts.
Open Scope N_scope.

(* Accepted  <=>  the first ETag header is printable, and after parse_etag it
   is sighex ":" hashhex where sighex is hex (either case) of s, hashhex is
   hex of SHA-256(request body), s passes the DER check, the key map has a key
   pk for the id and s verifies under pk for the transaction digest; the
   returned signature is the decoded one, unchanged. *)
Theorem C01_accept_iff :
  forall sha256 der_ok ecdsa_verify keys req resp nonce id etags s,
    verify sha256 der_ok ecdsa_verify keys req resp nonce id etags = inr s <->
    exists h rest sighex hashhex pk,
      etags = h :: rest /\
      to_str_ok h = true /\
      strip_etag h = sighex ++ [58] ++ hashhex /\
      hex_decode sighex = Some s /\
      hex_decode hashhex = Some (sha256 req) /\
      der_ok s = true /\
      map_get id (build_map keys) = Some pk /\
      ecdsa_verify pk (tx_digest sha256 req resp id nonce) s = true.
Proof. exact accept_iff. Qed.

(* the pieces of that statement, pinned down *)
Theorem C01_digest_composition :
  forall sha256 req resp id nonce,
    tx_digest sha256 req resp id nonce =
    sha256 (sha256 req ++ sha256 resp ++ print_dec id ++ [58] ++ hex_encode nonce).
Proof. exact digest_composition. Qed.

Theorem C01_hex_either_case : forall x, hex_decode (upper x) = hex_decode x.
Proof. exact hex_decode_upper. Qed.

Theorem C01_hex_of_bytes : forall s, is_bytes s -> hex_decode (hex_encode s) = Some s.
Proof. exact hex_decode_encode. Qed.

Theorem C01_printable_iff :
  forall h, to_str_ok h = true <-> Forall (fun b => 32 <= b < 127 \/ b = 9) h.
Proof. exact to_str_ok_iff. Qed.

(* key map: the last entry of latest :: historical with the id wins ... *)
Theorem C01_keymap_last_wins :
  forall keys id pk,
    map_get id (build_map keys) = Some pk <->
    exists l1 l2, keys = l1 ++ (id, pk) :: l2 /\ ~ In id (map fst l2).
Proof. exact key_lookup_last_wins. Qed.

(* ... so with pairwise distinct ids it is THE key registered for the id *)
Theorem C01_keymap_distinct :
  forall keys id pk, NoDup (map fst keys) ->
    (map_get id (build_map keys) = Some pk <-> In (id, pk) keys).
Proof. exact key_lookup_distinct. Qed.

Theorem C01_keymap_absent :
  forall keys id, map_get id (build_map keys) = None <-> ~ In id (map fst keys).
Proof. exact key_lookup_none. Qed.

(* ETag encodings.  parse_etag undoes both wrappings of any content ... *)
Theorem C01_strip_encodings :
  forall t, strip_etag (quoted t) = t /\ strip_etag (weak_quoted t) = t.
Proof. exact strip_encodings. Qed.

(* ... and leaves t itself alone exactly when t is not already wrapped *)
Theorem C01_strip_plain_iff : forall t, strip_etag t = t <-> plain_form t.
Proof. exact strip_fixed_iff. Qed.

Theorem C01_plain_sufficient :
  forall t, (forall r, t <> 34 :: r) -> (forall r, t <> 87 :: 47 :: 34 :: r) -> plain_form t.
Proof. exact plain_form_no_prefix. Qed.

(* plain, quoted and weak-quoted forms of the same content: same result.
   Side condition (exact, see C01_strip_plain_iff): the content is not itself
   of the form "..." or W/"...". *)
Theorem C01_encodings :
  forall sha256 der_ok ecdsa_verify keys req resp nonce id t rest,
    plain_form t ->
    verify sha256 der_ok ecdsa_verify keys req resp nonce id (quoted t :: rest) =
      verify sha256 der_ok ecdsa_verify keys req resp nonce id (t :: rest) /\
    verify sha256 der_ok ecdsa_verify keys req resp nonce id (weak_quoted t :: rest) =
      verify sha256 der_ok ecdsa_verify keys req resp nonce id (t :: rest).
Proof. exact encodings. Qed.

(* the two wrapped forms agree with each other for every content *)
Theorem C01_encodings_quoted_weak :
  forall sha256 der_ok ecdsa_verify keys req resp nonce id t rest,
    verify sha256 der_ok ecdsa_verify keys req resp nonce id (quoted t :: rest) =
    verify sha256 der_ok ecdsa_verify keys req resp nonce id (weak_quoted t :: rest).
Proof. exact encodings_quoted_weak. Qed.

Theorem C01_first_etag_only :
  forall sha256 der_ok ecdsa_verify keys req resp nonce id h rest,
    verify sha256 der_ok ecdsa_verify keys req resp nonce id (h :: rest) =
    verify sha256 der_ok ecdsa_verify keys req resp nonce id [h].
Proof. exact first_etag_only. Qed.

(* Every input yields Ok or one of the eight error variants; the model has no
   other outcome (in particular no panic). *)
Theorem C01_total :
  forall sha256 der_ok ecdsa_verify keys req resp nonce id etags,
    let r := verify sha256 der_ok ecdsa_verify keys req resp nonce id etags in
    (exists s, r = inr s) \/
    r = inl EtagHeaderMissing \/ r = inl EtagNotString \/ r = inl EtagMalformed \/
    r = inl RequestHashMalformed \/ r = inl RequestHashMismatch \/ r = inl SignatureMalformed \/
    r = inl SpecifiedPublicKeyIdMissing \/ r = inl SignatureError.
Proof. exact total. Qed.

Theorem C01_reject_missing :
  forall sha256 der_ok ecdsa_verify keys req resp nonce id,
    verify sha256 der_ok ecdsa_verify keys req resp nonce id [] = inl EtagHeaderMissing.
Proof. exact reject_missing. Qed.

Theorem C01_reject_not_string :
  forall sha256 der_ok ecdsa_verify keys req resp nonce id h rest,
    to_str_ok h = false ->
    verify sha256 der_ok ecdsa_verify keys req resp nonce id (h :: rest) = inl EtagNotString.
Proof. exact reject_not_string. Qed.

Theorem C01_reject_no_colon :
  forall sha256 der_ok ecdsa_verify keys req resp nonce id h rest,
    to_str_ok h = true -> ~ In 58 (strip_etag h) ->
    verify sha256 der_ok ecdsa_verify keys req resp nonce id (h :: rest) = inl EtagMalformed.
Proof. exact reject_no_colon. Qed.

(* The transaction digest binds all four components: equal digests force
   equal body hashes, key id and nonce, unless SHA-256 collides on the two
   preimages.  (The hashes have a fixed length, the decimal id ends at the
   colon, the nonce is hex.) *)
Theorem C01_digest_binds :
  forall sha256 req resp id nonce req' resp' id' nonce',
    fixed_len sha256 -> is_bytes nonce -> is_bytes nonce' ->
    no_collision sha256 (digest_preimage sha256 req resp id nonce)
                        (digest_preimage sha256 req' resp' id' nonce') ->
    tx_digest sha256 req resp id nonce = tx_digest sha256 req' resp' id' nonce' ->
    sha256 req = sha256 req' /\ sha256 resp = sha256 resp' /\ id = id' /\ nonce = nonce'.
Proof. exact digest_binds. Qed.

(* ---- tamper theorems: start from an accepted exchange, change one thing ---- *)

(* response body: the digest is a different one, and the outcome is exactly
   "does the old signature verify on the new digest" *)
Theorem C01_tamper_response_body :
  forall sha256 der_ok ecdsa_verify keys req resp nonce id etags s resp',
    verify sha256 der_ok ecdsa_verify keys req resp nonce id etags = inr s ->
    resp' <> resp ->
    fixed_len sha256 -> is_bytes nonce ->
    no_collision sha256 resp' resp ->
    no_collision sha256 (digest_preimage sha256 req resp' id nonce) (digest_preimage sha256 req resp id nonce) ->
    tx_digest sha256 req resp' id nonce <> tx_digest sha256 req resp id nonce /\
    exists pk, map_get id (build_map keys) = Some pk /\
      ecdsa_verify pk (tx_digest sha256 req resp id nonce) s = true /\
      verify sha256 der_ok ecdsa_verify keys req resp' nonce id etags =
        (if ecdsa_verify pk (tx_digest sha256 req resp' id nonce) s then inr s else inl SignatureError).
Proof. exact tamper_response_body. Qed.

(* ... hence an error if a signature verifies for at most one message under the key *)
Theorem C01_tamper_response_body_rejected :
  forall sha256 der_ok ecdsa_verify keys req resp nonce id etags s resp',
    verify sha256 der_ok ecdsa_verify keys req resp nonce id etags = inr s ->
    resp' <> resp ->
    fixed_len sha256 -> is_bytes nonce ->
    no_collision sha256 resp' resp ->
    no_collision sha256 (digest_preimage sha256 req resp' id nonce) (digest_preimage sha256 req resp id nonce) ->
    (forall pk, map_get id (build_map keys) = Some pk -> sig_binds ecdsa_verify pk s) ->
    verify sha256 der_ok ecdsa_verify keys req resp' nonce id etags = inl SignatureError.
Proof. exact tamper_response_body_rejected. Qed.

(* retained request body, ETag untouched: rejected by the hash half alone *)
Theorem C01_tamper_request_body :
  forall sha256 der_ok ecdsa_verify keys req resp nonce id etags s req',
    verify sha256 der_ok ecdsa_verify keys req resp nonce id etags = inr s ->
    req' <> req ->
    no_collision sha256 req' req ->
    verify sha256 der_ok ecdsa_verify keys req' resp nonce id etags = inl RequestHashMismatch.
Proof. exact tamper_request_body. Qed.

(* retained request body with any replacement ETag (e.g. hash half recomputed):
   the digest differs, and only a signature valid on the NEW digest is accepted *)
Theorem C01_tamper_request_body_any_etag :
  forall sha256 der_ok ecdsa_verify keys req resp nonce id etags s req' etags' s',
    verify sha256 der_ok ecdsa_verify keys req resp nonce id etags = inr s ->
    req' <> req ->
    fixed_len sha256 -> is_bytes nonce ->
    no_collision sha256 req' req ->
    no_collision sha256 (digest_preimage sha256 req' resp id nonce) (digest_preimage sha256 req resp id nonce) ->
    verify sha256 der_ok ecdsa_verify keys req' resp nonce id etags' = inr s' ->
    tx_digest sha256 req' resp id nonce <> tx_digest sha256 req resp id nonce /\
    exists pk, map_get id (build_map keys) = Some pk /\
      ecdsa_verify pk (tx_digest sha256 req resp id nonce) s = true /\
      ecdsa_verify pk (tx_digest sha256 req' resp id nonce) s' = true.
Proof. exact tamper_request_body_any_etag. Qed.

Theorem C01_tamper_nonce :
  forall sha256 der_ok ecdsa_verify keys req resp nonce id etags s nonce',
    verify sha256 der_ok ecdsa_verify keys req resp nonce id etags = inr s ->
    nonce' <> nonce ->
    fixed_len sha256 -> is_bytes nonce -> is_bytes nonce' ->
    no_collision sha256 (digest_preimage sha256 req resp id nonce') (digest_preimage sha256 req resp id nonce) ->
    tx_digest sha256 req resp id nonce' <> tx_digest sha256 req resp id nonce /\
    exists pk, map_get id (build_map keys) = Some pk /\
      ecdsa_verify pk (tx_digest sha256 req resp id nonce) s = true /\
      verify sha256 der_ok ecdsa_verify keys req resp nonce' id etags =
        (if ecdsa_verify pk (tx_digest sha256 req resp id nonce') s then inr s else inl SignatureError).
Proof. exact tamper_nonce. Qed.

Theorem C01_tamper_nonce_rejected :
  forall sha256 der_ok ecdsa_verify keys req resp nonce id etags s nonce',
    verify sha256 der_ok ecdsa_verify keys req resp nonce id etags = inr s ->
    nonce' <> nonce ->
    fixed_len sha256 -> is_bytes nonce -> is_bytes nonce' ->
    no_collision sha256 (digest_preimage sha256 req resp id nonce') (digest_preimage sha256 req resp id nonce) ->
    (forall pk, map_get id (build_map keys) = Some pk -> sig_binds ecdsa_verify pk s) ->
    verify sha256 der_ok ecdsa_verify keys req resp nonce' id etags = inl SignatureError.
Proof. exact tamper_nonce_rejected. Qed.

(* key id: the digest differs and the key is looked up afresh; unknown id =>
   SpecifiedPublicKeyIdMissing, otherwise one signature check on the new digest *)
Theorem C01_tamper_key_id :
  forall sha256 der_ok ecdsa_verify keys req resp nonce id etags s id',
    verify sha256 der_ok ecdsa_verify keys req resp nonce id etags = inr s ->
    id' <> id ->
    fixed_len sha256 -> is_bytes nonce ->
    no_collision sha256 (digest_preimage sha256 req resp id' nonce) (digest_preimage sha256 req resp id nonce) ->
    tx_digest sha256 req resp id' nonce <> tx_digest sha256 req resp id nonce /\
    verify sha256 der_ok ecdsa_verify keys req resp nonce id' etags =
      match map_get id' (build_map keys) with
      | None => inl SpecifiedPublicKeyIdMissing
      | Some pk' => if ecdsa_verify pk' (tx_digest sha256 req resp id' nonce) s
                    then inr s else inl SignatureError
      end.
Proof. exact tamper_key_id. Qed.

(* hash half: anything not decoding to SHA-256(request body) is rejected
   outright; no premise about the primitives *)
Theorem C01_tamper_hash_half :
  forall sha256 der_ok ecdsa_verify keys req resp nonce id h rest sighex hashhex,
    to_str_ok h = true ->
    strip_etag h = sighex ++ [58] ++ hashhex -> ~ In 58 sighex ->
    hex_decode hashhex <> Some (sha256 req) ->
    verify sha256 der_ok ecdsa_verify keys req resp nonce id (h :: rest) =
      match hex_decode hashhex with
      | None => inl RequestHashMalformed
      | Some _ => inl RequestHashMismatch
      end.
Proof. exact tamper_hash_half. Qed.

(* signature (or the entire ETag) replaced: accepted only if the new bytes are
   themselves a DER signature valid under the registered key for the specified
   digest.  Stated exactly so: ECDSA is malleable, uniqueness is not claimed. *)
Theorem C01_tamper_signature :
  forall sha256 der_ok ecdsa_verify keys req resp nonce id etags' s' pk,
    map_get id (build_map keys) = Some pk ->
    verify sha256 der_ok ecdsa_verify keys req resp nonce id etags' = inr s' ->
    der_ok s' = true /\ ecdsa_verify pk (tx_digest sha256 req resp id nonce) s' = true.
Proof. exact tamper_signature. Qed.

(* signing key changed: a signature not valid under the REGISTERED key is an
   error however well-formed the ETag is *)
Theorem C01_tamper_signing_key :
  forall sha256 der_ok ecdsa_verify keys req resp nonce id h rest sighex hashhex s' pk,
    to_str_ok h = true ->
    strip_etag h = sighex ++ [58] ++ hashhex ->
    hex_decode sighex = Some s' ->
    hex_decode hashhex = Some (sha256 req) ->
    map_get id (build_map keys) = Some pk ->
    ecdsa_verify pk (tx_digest sha256 req resp id nonce) s' = false ->
    verify sha256 der_ok ecdsa_verify keys req resp nonce id (h :: rest) = inl SignatureError.
Proof. exact tamper_signing_key. Qed.

(* ---- non-vacuity: a toy instantiation of the primitives (CupFacts.v) under
   which an authentic exchange is accepted in all three encodings, the premises
   of the tamper theorems hold, and the tampered exchanges are rejected ---- *)
Example C01_ex_accepts :
  ex_verify ex_req ex_resp ex_nonce 42 [ex_etag] = inr ex_sig /\
  ex_verify ex_req ex_resp ex_nonce 42 [quoted ex_etag] = inr ex_sig /\
  ex_verify ex_req ex_resp ex_nonce 42 [weak_quoted ex_etag; s2b "second"] = inr ex_sig /\
  ex_verify ex_req ex_resp ex_nonce 42 [upper ex_etag] = inr ex_sig.
Proof. vm_compute. repeat split. Qed.

Example C01_ex_premises :
  fixed_len toy_sha /\ is_bytes ex_nonce /\ (forall pk s, sig_binds toy_verify pk s) /\
  no_collision toy_sha ex_resp' ex_resp /\ ex_resp' <> ex_resp /\ plain_form ex_etag /\
  no_collision toy_sha (digest_preimage toy_sha ex_req ex_resp' 42 ex_nonce)
                       (digest_preimage toy_sha ex_req ex_resp 42 ex_nonce).
Proof.
  split; [exact toy_fixed_len|]. split; [repeat constructor|].
  split; [exact toy_sig_binds|].
  split; [apply no_collision_by_eqb; vm_compute; reflexivity|].
  split; [apply bytes_neq; vm_compute; reflexivity|].
  split; [apply strip_fixed_iff; vm_compute; reflexivity|].
  apply no_collision_by_eqb; vm_compute; reflexivity.
Qed.

Example C01_ex_rejects :
  ex_verify ex_req ex_resp' ex_nonce 42 [ex_etag] = inl SignatureError /\
  ex_verify ex_resp ex_resp ex_nonce 42 [ex_etag] = inl RequestHashMismatch /\
  ex_verify ex_req ex_resp (repeat 172 32) 42 [ex_etag] = inl SignatureError /\
  ex_verify ex_req ex_resp ex_nonce 7 [ex_etag] = inl SignatureError /\
  ex_verify ex_req ex_resp ex_nonce 8 [ex_etag] = inl SpecifiedPublicKeyIdMissing /\
  ex_verify ex_req ex_resp ex_nonce 42 [] = inl EtagHeaderMissing /\
  ex_verify ex_req ex_resp ex_nonce 42 [128 :: ex_etag] = inl EtagNotString /\
  ex_verify ex_req ex_resp ex_nonce 42 [hex_encode ex_sig] = inl EtagMalformed /\
  ex_verify ex_req ex_resp ex_nonce 42 [ex_etag ++ [48]] = inl RequestHashMalformed /\
  ex_verify ex_req ex_resp ex_nonce 42 [48 :: ex_etag] = inl SignatureMalformed /\
  ex_verify ex_req ex_resp ex_nonce 42 [58 :: hex_encode (toy_sha ex_req)] = inl SignatureError /\
  ex_verify ex_req ex_resp ex_nonce 42 [34 :: ex_etag] = inl SignatureMalformed.
Proof. vm_compute. repeat split. Qed.

Print Assumptions C01_accept_iff.
Print Assumptions C01_encodings.
Print Assumptions C01_total.
Print Assumptions C01_digest_binds.
Print Assumptions C01_keymap_last_wins.
Print Assumptions C01_tamper_response_body.
Print Assumptions C01_tamper_response_body_rejected.
Print Assumptions C01_tamper_request_body.
Print Assumptions C01_tamper_request_body_any_etag.
Print Assumptions C01_tamper_nonce.
Print Assumptions C01_tamper_key_id.
Print Assumptions C01_tamper_hash_half.
Print Assumptions C01_tamper_signature.
Print Assumptions C01_tamper_signing_key.
Print Assumptions C01_hex_either_case.
