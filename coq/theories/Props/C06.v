(* Props/C06.v — Retries are bounded, only for transient failures, and backed off. *)
Require Import Verif.Model.Time Verif.Base.Bytes Verif.Model.Env Verif.Model.SM Verif.Proofs.SMPure.
Open Scope Z_scope.

(* the randomised back-off stays within +/- 500 ms of its nominal value for every draw ... *)
Theorem C06_backoff_window : forall n r, 0 <= r -> n - 500 <= randomize n 1000 r < n + 500.
Proof. exact randomize_window. Qed.
(* ... and every value of the window is attained by some draw (it is randomised, not constant) *)
Theorem C06_backoff_onto : forall n d, n - 500 <= d < n + 500 -> exists r, 0 <= r < 1000 /\ randomize n 1000 r = d.
Proof. exact randomize_onto. Qed.
(* nominal values 1, 2, 4 s after the 1st, 2nd, 3rd failure *)
Theorem C06_backoff_nominal : map (fun k => Z.shiftl 1 (k - 1) * 1000) [1; 2; 3] = [1000; 2000; 4000].
Proof. reflexivity. Qed.

Print Assumptions C06_backoff_window.
