(* Props/C06.v — Retries are bounded, only for transient failures, and backed off. *)
Require Import Verif.Model.Time Verif.Base.Bytes Verif.Model.Env Verif.Model.SM Verif.Proofs.SMPure.
Open Scope Z_scope.

(* the randomised back-off stays within +/- 500 ms of its nominal value for every draw ... *)
Theorem C06_backoff_window : forall n r, 0 <= r -> n - 500 <= randomize n 1000 r < n + 500.
Proof. exact randomize_window. Qed.
(* ... and every value of the window is attained by some draw (it is randomised, not constant) *)
Theorem C06_backoff_onto : forall n d, n - 500 <= d < n + 500 -> exists r, 0 <= r < 1000 /\ randomize n 1000 r = d.
Proof. exact randomize_onto. Qed.
(* nominal values 1, 2, 4 s after the 1st, 2nd, 3rd failure *)
Theorem C06_backoff_nominal : map (fun k => Z.shiftl 1 (k - 1) * 1000) [1; 2; 3] = [1000; 2000; 4000].
Proof. reflexivity. Qed.

Print Assumptions C06_backoff_window.

(* ---- the retry monitor (Model/Monitors.v step6) accepts every trace of the model ----
   step6 rejects: a fourth update-check request in one check; a request not separated from the previous one by a wait;
   a back-off wait after an outcome that is not retryable (caller error, authentication failure, 2xx) or after the
   third attempt or while a server-dictated poll interval is in force (as established by the authenticated responses seen so far)
   or outside the window 2^(k-1) s +/- 500 ms after the k-th failure; two waits in a row; any wait among the event reports;
   a RequestsPerCheck metric whose count is not the number of attempts, whose success flag does not match the last outcome,
   or that is emitted although the last outcome was retryable, fewer than three attempts were made and no poll interval is in force
   (so the loop stops only when it must). *)
Require Import Verif.Model.Monitors Verif.Proofs.Monitor Verif.Proofs.C06Proof Verif.Model.Proto.

Theorem C06_retry_monitor_accepts_every_model_trace :
  forall ep cfg url cup apps e, e_trace e = [] ->
    accepts step6 (init6 ep cup (e_store e)) (run_case ep cfg url cup apps e) = true.
Proof. exact model_accepted_c06. Qed.

(* what the request returns is a function of the outcome the environment gave *)
Theorem C06_outcome_classes :
  forall cup, retryable cup (HErr TUser) = false /\ retryable cup (HErr TTransport) = true /\ retryable cup (HErr TTimeout) = true /\
    (forall st ra bd, retryable true (HResp st ra false bd) = false) /\
    (forall st ra bd au, (cup && negb au = false) -> retryable cup (HResp st ra au bd) = negb (is_2xx st)).
Proof.
  intro cup. repeat split; try reflexivity. intros st ra bd au H. unfold retryable. rewrite H. reflexivity.
Qed.

Example C06_monitor_rejects :
  let w := {| w_uri := []; w_headers := []; w_body := []; w_sum := {| ws_source := ScheduledTask; ws_session := None; ws_request := None; ws_apps := [] |} |} in
  let q := {| cup6 := false; poll6 := None; ph6_ := Q6Att 0 None true |} in
  (* a retry after a caller error *)
  accepts step6 q [AHttp w (HErr TUser); ATimer (WFor 1000000000)] = false /\
  (* a retry without a wait *)
  accepts step6 q [AHttp w (HErr TTransport); AHttp w (HErr TTransport)] = false /\
  (* a wait outside the window *)
  accepts step6 q [AHttp w (HErr TTransport); ATimer (WFor 1600000000)] = false /\
  (* giving up early *)
  accepts step6 q [AHttp w (HErr TTransport); AMetric (MRequestsPerCheck 1 false)] = false /\
  (* a retry although the server dictated a poll interval *)
  accepts step6 q [AHttp w (HResp 500%N (Some (s2b "60")) true BBad); ATimer (WFor 1000000000)] = false /\
  (* the legitimate sequence *)
  accepts step6 q [AHttp w (HErr TTransport); ATimer (WFor 1400000000); AHttp w (HResp 200%N None true BBad); AMetric (MRequestsPerCheck 2 true)] = true.
Proof. vm_compute. repeat split. Qed.

Print Assumptions C06_retry_monitor_accepts_every_model_trace.

(* ---- session and request ids (Model/Monitors.v step6ids) ----
   step6ids rejects a request whose request id has appeared on the wire before (in this check or any earlier one, pings and
   event reports included) and, inside a check, a request whose session id differs from that of the check's first request.
   The model's ids are draws from an unbounded counter, put on the wire in order of first appearance; the theorem is over every
   script, starting with no id drawn yet (the premise on e_guids: the harness starts every case that way). *)
Require Import Verif.Proofs.C06idsProof.
Theorem C06_every_attempt_keeps_the_session_id_with_a_fresh_request_id :
  forall ep cfg url cup apps e, e_trace e = [] -> e_guids e = [] ->
    accepts step6ids {| i_in := false; i_sess := None; i_reqs := [] |} (run_case ep cfg url cup apps e) = true.
Proof. exact model_accepted_ids. Qed.
Definition wids (s r : bytes) : wire :=
  {| w_uri := []; w_headers := []; w_body := [];
     w_sum := {| ws_source := ScheduledTask; ws_session := Some s; ws_request := Some r; ws_apps := [] |} |}.
Example C06_ids_monitor_rejects :
  let q := {| i_in := true; i_sess := None; i_reqs := [] |} in
  (accepts step6ids q [AHttp (wids [1%N] [1%N]) (HErr TTransport); AHttp (wids [1%N] [1%N]) (HErr TTransport)] = false) /\
  (accepts step6ids q [AHttp (wids [1%N] [1%N]) (HErr TTransport); AHttp (wids [2%N] [2%N]) (HErr TTransport)] = false) /\
  (accepts step6ids q [AHttp (wids [1%N] [1%N]) (HErr TTransport); AHttp (wids [1%N] [2%N]) (HErr TTransport)] = true).
Proof. vm_compute. repeat split. Qed.
Print Assumptions C06_every_attempt_keeps_the_session_id_with_a_fresh_request_id.

(* ---- the response-time metric accounts for exactly the attempts made (Model/Monitors6r.v step6r) ----
   step6r rejects: a response-time metric that does not directly follow the clock reading that ends an attempt, or whose
   duration is not the monotonic time elapsed since the reading that began the attempt, or whose flag is not the attempt's
   success (2xx, and authentic when CUP is on; an attempt that never reached the wire failed); an attempt whose metric is
   missing (unless the monotonic clock went backwards); two requests within one attempt; an update-check request outside
   the two clock readings of an attempt. *)
Require Import Verif.Model.Monitors6r Verif.Proofs.C06rtProof.
Theorem C06_response_time_metric_accounts_for_exactly_the_attempts :
  forall ep cfg url cup apps e, e_trace e = [] ->
    accepts step6r (init6r cup) (run_case ep cfg url cup apps e) = true.
Proof. exact model_accepted_c06rt. Qed.
Section Examples6r.
  Let w : wire := {| w_uri := []; w_headers := []; w_body := []; w_sum := {| ws_source := ScheduledTask; ws_session := None; ws_request := None; ws_apps := [] |} |}.
  Let ck (t : Z) := AClock {| wall := t; mono := t |}.
  Let start := [AEvent (EvState (CheckingForUpdates ScheduledTask)); ck 0].
  Example C06_rt_monitor_rejects :
    (* no metric for an attempt *)
    accepts step6r (init6r None) (start ++ [ck 1; AHttp w (HErr TTransport); ck 5; ATimer (WFor 1000000000)]) = false
    (* wrong duration; wrong flag; a second metric *)
    /\ accepts step6r (init6r None) (start ++ [ck 1; AHttp w (HErr TTransport); ck 5; AMetric (MResponseTime 5 false)]) = false
    /\ accepts step6r (init6r None) (start ++ [ck 1; AHttp w (HErr TTransport); ck 5; AMetric (MResponseTime 4 true)]) = false
    /\ accepts step6r (init6r None) (start ++ [ck 1; AHttp w (HErr TTransport); ck 5; AMetric (MResponseTime 4 false); AMetric (MResponseTime 4 false)]) = false
    (* a forged 2xx response counts as a failure when CUP is on, as a success when it is off *)
    /\ accepts step6r (init6r (Some 1%N)) (start ++ [ck 1; AHttp w (HResp 200%N None false BBad); ck 5; AMetric (MResponseTime 4 true)]) = false
    /\ accepts step6r (init6r None) (start ++ [ck 1; AHttp w (HResp 200%N None false BBad); ck 5; AMetric (MResponseTime 4 true)]) = true
    (* the legitimate sequence, with a retry *)
    /\ accepts step6r (init6r None) (start ++ [ck 1; AHttp w (HErr TTransport); ck 5; AMetric (MResponseTime 4 false); ATimer (WFor 1000000000);
                                                ck 7; AHttp w (HResp 200%N None true BBad); ck 9; AMetric (MResponseTime 2 true);
                                                AMetric (MRequestsPerCheck 2 true)]) = true
    (* the monotonic clock went backwards: nothing is reported *)
    /\ accepts step6r (init6r None) (start ++ [ck 5; AHttp w (HErr TTransport); ck 1; AMetric (MRequestsPerCheck 1 false)]) = true.
  Proof. vm_compute. repeat split. Qed.
End Examples6r.
Print Assumptions C06_response_time_metric_accounts_for_exactly_the_attempts.

(* ---- the jitter as a statement about two runs (Proofs/C06Rel.v) ----
   Change the random numbers drawn for the back-off in any way: the two runs are the same action for action - the same
   number of attempts, requests with the same bytes, events, metrics, storage operations, policy questions, replies -
   except for the duration of a relative wait.  Together with the retry monitor (every back-off wait lies in its
   window) this is the whole effect of the randomisation.  (`aeq`: equal, or both a relative wait.) *)
Require Import Verif.Proofs.C06Rel.
Theorem C06_the_random_draws_influence_nothing_but_the_length_of_the_waits :
  forall ep cfg url cup apps e draws draws',
    Forall2 C06Rel.aeq (run_case ep cfg url cup apps (setb e draws)) (run_case ep cfg url cup apps (setb e draws')).
Proof. exact draws_only_reach_the_waits. Qed.
Print Assumptions C06_the_random_draws_influence_nothing_but_the_length_of_the_waits.
Example C06_aeq_is_tight :
  C06Rel.aeq (ATimer (WFor 1500000000)) (ATimer (WFor 500000000))
  /\ ~ C06Rel.aeq (ATimer (WUntil (PMono 1))) (ATimer (WUntil (PMono 2)))
  /\ ~ C06Rel.aeq (AMetric (MRequestsPerCheck 1 true)) (AMetric (MRequestsPerCheck 2 true)).
Proof.
  repeat split.
  - right. eexists _, _. split; reflexivity.
  - intros [H|(d1 & d2 & H1 & H2)]; discriminate.
  - intros [H|(d1 & d2 & H1 & H2)]; discriminate.
Qed.
