(* Props/C14.v — what is proved of C14: the arithmetic that must not overflow, and "storage failures are harmless". *)
Require Import Verif.Model.Time Verif.Base.Bytes Verif.Model.Proto Verif.Model.Env Verif.Model.SM Verif.Proofs.C14Rel.
Open Scope Z_scope.

(* the saturating increments never leave their type's range and never decrease *)
Theorem C14_sat_inc_u32 : forall z, 0 <= z <= u32_max -> 0 <= sat_inc_u32 z <= u32_max /\ z <= sat_inc_u32 z.
Proof. intros z H. unfold sat_inc_u32. destruct (z <? u32_max) eqn:E; [apply Z.ltb_lt in E|apply Z.ltb_ge in E]; unfold u32_max in *; lia. Qed.
Theorem C14_sat_inc_i64 : forall z, i64_min <= z <= i64_max -> i64_min <= sat_inc_i64 z <= i64_max /\ z <= sat_inc_i64 z.
Proof. intros z H. unfold sat_inc_i64. destruct (z <? i64_max) eqn:E; [apply Z.ltb_lt in E|apply Z.ltb_ge in E]; unfold i64_max, i64_min in *; lia. Qed.
Print Assumptions C14_sat_inc_u32.

(* ---- storage failures are harmless ----
   Two runs of the machine on the same script (same entry point, configuration, apps, stored values, clock, policy,
   server, installer, timers and control requests) that differ only in WHICH storage operations fail - any two sets of
   failing writes, removes and commits - have the same trace once storage operations and metrics are taken out: the same
   requests with the same bytes, the same events, policy questions (with the same state shown), installer calls, clock
   readings, timers, control requests and replies, in the same order.  (Metrics may differ: the attempt counters and the
   first-seen time they report are read back from storage.) *)
Theorem C14_storage_failures_change_nothing_but_storage_operations_and_metrics :
  forall ep cfg url cup apps e failing failing',
    lowt (run_case ep cfg url cup apps (setf e failing)) = lowt (run_case ep cfg url cup apps (setf e failing')).
Proof. exact faults_harmless. Qed.
Print Assumptions C14_storage_failures_change_nothing_but_storage_operations_and_metrics.

(* the property's wording: requests sent and events announced, against the run in which storage works *)
Definition request_or_event (a : action) : bool := match a with AHttp _ _ | AEvent _ => true | _ => false end.
Lemma request_or_event_low t : filter request_or_event t = filter request_or_event (lowt t).
Proof.
  induction t as [|a r IH]; [reflexivity|]. unfold lowt. cbn [filter].
  destruct a; cbn [low request_or_event filter]; try (f_equal; exact IH); exact IH.
Qed.
Theorem C14_requests_and_events_as_if_storage_worked :
  forall ep cfg url cup apps e failing,
    filter request_or_event (run_case ep cfg url cup apps (setf e failing))
    = filter request_or_event (run_case ep cfg url cup apps (setf e [])).
Proof.
  intros. rewrite request_or_event_low, (request_or_event_low (run_case _ _ _ _ _ (setf e []))).
  f_equal. apply faults_harmless.
Qed.
Print Assumptions C14_requests_and_events_as_if_storage_worked.
(* the statement is about something: storage operations and metrics are the only actions left out, and a failing
   operation does show in the full trace *)
Example C14_low_keeps_everything_else :
  low (AClock {| wall := 0; mono := 0 |}) = true /\ low (ATimer (WFor 1)) = true /\ low (ARequest 0%N OnDemand) = true
  /\ low (AStore SCommit false) = false /\ low (AMetric (MFailureReason 1%N)) = false.
Proof. repeat split. Qed.
