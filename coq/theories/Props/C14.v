(* Props/C14.v — placeholder theorems; extended below as the development grows *)
Require Import Verif.Model.Time Verif.Base.Bytes Verif.Model.Env Verif.Model.SM.
Open Scope Z_scope.

(* the saturating increments never leave their type's range and never decrease *)
Theorem C14_sat_inc_u32 : forall z, 0 <= z <= u32_max -> 0 <= sat_inc_u32 z <= u32_max /\ z <= sat_inc_u32 z.
Proof. intros z H. unfold sat_inc_u32. destruct (z <? u32_max) eqn:E; [apply Z.ltb_lt in E|apply Z.ltb_ge in E]; unfold u32_max in *; lia. Qed.
Theorem C14_sat_inc_i64 : forall z, i64_min <= z <= i64_max -> i64_min <= sat_inc_i64 z <= i64_max /\ z <= sat_inc_i64 z.
Proof. intros z H. unfold sat_inc_i64. destruct (z <? i64_max) eqn:E; [apply Z.ltb_lt in E|apply Z.ltb_ge in E]; unfold i64_max, i64_min in *; lia. Qed.
Print Assumptions C14_sat_inc_u32.
