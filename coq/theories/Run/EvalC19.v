(* Run/EvalC19.v — evaluates the time model on harness cases *)
Require Export Verif.Base.Bytes Verif.Model.Time.
Open Scope Z_scope.

Inductive pshape := SWall | SMono | SComplex.
Definition mkp (s : pshape) (w m : Z) : pct :=
  match s with SWall => PWall w | SMono => PMono m | SComplex => PComplex {| wall := w; mono := m |} end.

Inductive c19case :=
| KToMicros (t : Z) (r : option Z)
| KFromMicros (m : Z) (r : Z)
| KRoundTrip (m : Z) (r : option Z)
| KTruncate (w m : Z) (r1w r1m r2w : Z)       (* truncate once, and twice *)
| KStoreReload (t : Z) (r : option Z)         (* MemStorage set_time; get_time *)
| KPctAdd (s : pshape) (w m d : Z) (rw rm : option Z)
| KPctSub (s : pshape) (w m d : Z) (rw rm : option Z)
| KComplete (s : pshape) (w m cw cm : Z) (rw rm : Z)
| KAfter (s : pshape) (w m cw cm : Z) (r : bool)
| KPctMicros (s : pshape) (w m : Z) (r : option Z).

Definition oz_eqb (a b : option Z) : bool :=
  match a, b with Some x, Some y => x =? y | None, None => true | _, _ => false end.
Definition ozz_eqb (a : option Z * option Z) (b c : option Z) : bool := oz_eqb (fst a) b && oz_eqb (snd a) c.

Definition check_c19 (c : c19case) : N :=
  let ok (b : bool) : N := if b then 0%N else 1%N in
  match c with
  | KToMicros t r => ok (oz_eqb (to_micros t) r)
  | KFromMicros m r => ok (from_micros m =? r)
  | KRoundTrip m r => ok (oz_eqb (to_micros (from_micros m)) r)
  | KTruncate w m r1w r1m r2w =>
      let c1 := truncate {| wall := w; mono := m |} in
      ok ((wall c1 =? r1w) && (mono c1 =? r1m) && (wall (truncate c1) =? r2w))
  | KStoreReload t r => ok (oz_eqb (load_time (store_time t)) r)
  | KPctAdd s w m d rw rm => ok (ozz_eqb (destructure (pct_add (mkp s w m) d)) rw rm)
  | KPctSub s w m d rw rm => ok (ozz_eqb (destructure (pct_sub (mkp s w m) d)) rw rm)
  | KComplete s w m cw cm rw rm =>
      let c := complete_with (mkp s w m) {| wall := cw; mono := cm |} in
      ok ((wall c =? rw) && (mono c =? rm))
  | KAfter s w m cw cm r => ok (Bool.eqb (after_or_eq_any {| wall := cw; mono := cm |} (mkp s w m)) r)
  | KPctMicros s w m r => ok (oz_eqb (pct_to_micros (mkp s w m)) r)
  end.

Definition run_c19 (cases : list (N * c19case)) : list (N * N) :=
  filter (fun p => negb (N.eqb (snd p) 0)) (map (fun p => (fst p, check_c19 (snd p))) cases).
