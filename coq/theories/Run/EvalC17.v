(* Run/EvalC17.v — evaluates the mock-server model on harness cases.

   A case is one history against one real mock_omaha_server::OmahaServer held
   in-process: reconfigurations (POST /set_responses_by_appid) and Omaha
   requests built by the real RequestBuilder (decorated by the real
   StandardCupv2Handler when the client has keys), each handed to the real
   handle_request under catch_unwind.  For every Omaha request the case
   records what the server did (panic | status, ETag, Content-Length, body)
   and what the REAL client then made of the reply: verify_response's verdict,
   parse_json_response's result (summarised), and the verdicts for this reply
   offered to every other exchange of the history.

   The crypto primitives are Section variables of the models; here they are
   lookup tables the harness computed with sha2 / p256 directly (never
   through omaha-client or the mock server).  A query the tables do not
   answer is code 3 (ORACLE-MISS, a harness bug).

   Result codes: 0 agree; 1 the model (Model/MockServer.v + Model/Cup.v +
   Model/Response.v) and the implementation differ; 2 a clause of the
   property fails on the implementation's own observations (an ETag of an
   exchange accepted for another one, a served request whose reply the client
   does not accept/parse as configured); 3 oracle miss; 5 the server panicked
   on an input of class D5 (make_etag: path without query, or a query
   parameter before cup2key) where the repaired model replies. *)
Require Export Verif.Base.Bytes Verif.Model.Version Verif.Model.Json Verif.Model.Proto Verif.Model.Request
               Verif.Model.Response Verif.Model.Cup Verif.Model.MockServer.
From Coq Require Import PrimInt63.
Open Scope N_scope.

(* ---- compact byte-string literals (same encoding as Run/EvalC01.v; copied so
        that the C17 case files depend on no other Run file) ---- *)
Inductive w63 := WE | W (x : int) (r : w63).
Arguments W _%uint63 _.
Definition byte_of_int (x : int) : N :=
  let bit (i : int) (w : N) : N :=
    if PrimInt63.eqb (PrimInt63.land (PrimInt63.lsr x i) 1%uint63) 0%uint63 then 0 else w in
  bit 0%uint63 1 + bit 1%uint63 2 + bit 2%uint63 4 + bit 3%uint63 8 +
  bit 4%uint63 16 + bit 5%uint63 32 + bit 6%uint63 64 + bit 7%uint63 128.
Fixpoint word_bytes (n : nat) (x : int) (acc : bytes) : bytes :=
  match n with
  | O => acc
  | S n' => word_bytes n' (PrimInt63.lsr x 8%uint63) (byte_of_int x :: acc)
  end.
Fixpoint unpack7 (len : nat) (l : w63) : bytes :=
  match l with
  | WE => []
  | W x r => let n := Nat.min len 7 in word_bytes n x [] ++ unpack7 (len - n) r
  end.
Definition b7 (len : N) (l : w63) : bytes := unpack7 (N.to_nat len) l.
Arguments b7 _%N _.

(* ---- oracle tables ---- *)
Fixpoint assoc_bytes {A} (k : bytes) (t : list (bytes * A)) : option A :=
  match t with
  | [] => None
  | (k', v) :: r => if bytes_eqb k k' then Some v else assoc_bytes k r
  end.
Fixpoint assoc_sign (sk : N) (d : bytes) (t : list (N * bytes * bytes)) : option bytes :=
  match t with
  | [] => None
  | (sk', d', s) :: r => if (sk =? sk') && bytes_eqb d d' then Some s else assoc_sign sk d r
  end.
Fixpoint assoc_ver (pk : N) (d s : bytes) (t : list (N * bytes * bytes * bool)) : option bool :=
  match t with
  | [] => None
  | (pk', d', s', v) :: r =>
      if (pk =? pk') && bytes_eqb d d' && bytes_eqb s s' then Some v else assoc_ver pk d s r
  end.
Definition dflt {A} (d : A) (o : option A) : A := match o with Some x => x | None => d end.
Definition is_none {A} (o : option A) : bool := match o with None => true | Some _ => false end.

Record tables := {
  t_sha : list (bytes * bytes);
  t_sign : list (N * bytes * bytes);            (* (secret key handle, message, DER signature) *)
  t_der : list (bytes * bool);
  t_ver : list (N * bytes * bytes * bool) }.    (* (public key handle, message, signature, verifies) *)
Definition sha_of (t : tables) (x : bytes) : bytes := dflt [] (assoc_bytes x (t_sha t)).
Definition sign_of (t : tables) (sk : N) (d : bytes) : bytes := dflt [] (assoc_sign sk d (t_sign t)).
Definition der_of (t : tables) (x : bytes) : bool := dflt false (assoc_bytes x (t_der t)).
Definition ver_of (t : tables) (pk : N) (d s : bytes) : bool := dflt false (assoc_ver pk d s (t_ver t)).

(* every query make_etag can make is answered *)
Definition etag_oracle_ok (t : tables) (req uri : bytes) (ks : private_keys) (resp : bytes) : bool :=
  match find_cup2key uri with
  | None => true
  | Some v =>
      match split_once 58 v with
      | None => true
      | Some (idstr, _) =>
          match parse_u64 idstr with
          | None => true
          | Some id =>
              match find_key ks id with
              | None => true
              | Some sk =>
                  let pre := sha_of t req ++ sha_of t resp ++ v in
                  negb (is_none (assoc_bytes req (t_sha t))) && negb (is_none (assoc_bytes resp (t_sha t)))
                  && negb (is_none (assoc_bytes pre (t_sha t)))
                  && negb (is_none (assoc_sign sk (sha_of t pre) (t_sign t)))
              end
          end
      end
  end.

(* every query Cup.verify can make is answered (as in Run/EvalC01.v) *)
Definition sig_candidate (etags : list bytes) : option bytes :=
  match etags with
  | [] => None
  | h :: _ => match split_once 58 (strip_etag h) with
              | Some (sighex, _) => hex_decode sighex
              | None => None
              end
  end.
Definition verify_oracle_ok (t : tables) (keys : list (N * N)) (req resp nonce : bytes) (id : N) (etags : list bytes) : bool :=
  match etags with
  | [] => true
  | _ :: _ =>
      let pre := digest_preimage (sha_of t) req resp id nonce in
      negb (is_none (assoc_bytes req (t_sha t))) &&
      negb (is_none (assoc_bytes resp (t_sha t))) &&
      negb (is_none (assoc_bytes pre (t_sha t))) &&
      match sig_candidate etags with
      | None => true
      | Some sg =>
          negb (is_none (assoc_bytes sg (t_der t))) &&
          match map_get id (build_map keys) with
          | None => true
          | Some pk => negb (is_none (assoc_ver pk (sha_of t pre) sg (t_ver t)))
          end
      end
  end.

Definition result_eqb (m : cup_error + bytes) (i : N + bytes) : bool :=
  match m, i with
  | inl e, inl n => cup_error_index e =? n
  | inr a, inr b => bytes_eqb a b
  | _, _ => false
  end.
Definition accepted {A B} (r : A + B) : bool := match r with inr _ => true | inl _ => false end.

(* ---- what the harness reports of a parsed reply ---- *)
Record uc_sum := {
  us_status : N;                                   (* 0 ok, 1 restricted, 2 noupdate, 3 error *)
  us_urls : list bytes;                            (* get_all_url_codebases *)
  us_version : option bytes;                       (* manifest.version *)
  us_pkgs : list (bytes * bytes * bool);           (* name, fp, required *)
  us_acts : list (option bytes * option bytes);    (* event, run *)
  us_urgent : bool;                                (* extra_attributes["_urgent_update"] == true *)
  us_nextra : N;                                   (* number of extra attributes *)
  us_full : list bytes }.                          (* get_all_full_urls *)
Record app_sum := {
  as_id : bytes; as_status : N; as_cohort : cohort; as_uc : option uc_sum;
  as_ping : bool; as_events : option N; as_nextra : N }.
Record resp_sum := { rs_protocol : bytes; rs_server : option bytes; rs_day : option (option N * option N); rs_apps : list app_sum }.

Definition status_code (s : omaha_status) : N :=
  match s with SOk => 0 | SRestricted => 1 | SNoUpdate => 2 | SError _ => 3 end.
Definition urgent_name : bytes := s2b "_urgent_update".
Definition sum_uc (u : rupdatecheck) : uc_sum :=
  {| us_status := status_code (uc_status u);
     us_urls := codebases u;
     us_version := option_map mf_version (uc_manifest u);
     us_pkgs := map (fun p => (pk_name p, pk_fp p, pk_required p)) (packages u);
     us_acts := match uc_manifest u with Some m => map (fun a => (ac_event a, ac_run a)) (mf_actions m) | None => [] end;
     us_urgent := existsb (fun e => bytes_eqb (fst e) urgent_name && json_eqb (snd e) (JBool true)) (uc_extra u);
     us_nextra := N.of_nat (length (uc_extra u));
     us_full := full_urls u |}.
Definition sum_app (a : rapp) : app_sum :=
  {| as_id := ra_id a; as_status := status_code (ra_status a); as_cohort := ra_cohort a;
     as_uc := option_map sum_uc (ra_update_check a);
     as_ping := match ra_ping a with Some _ => true | None => false end;
     as_events := option_map (fun l => N.of_nat (length l)) (ra_events a);
     as_nextra := N.of_nat (length (ra_extra a)) |}.
Definition sum_resp (r : response) : resp_sum :=
  {| rs_protocol := r_protocol r; rs_server := r_server r;
     rs_day := option_map (fun d => (ds_days d, ds_seconds d)) (r_daystart r);
     rs_apps := map sum_app (r_apps r) |}.

Fixpoint list_eqb {A} (eqb : A -> A -> bool) (a b : list A) : bool :=
  match a, b with
  | [], [] => true
  | x :: a', y :: b' => eqb x y && list_eqb eqb a' b'
  | _, _ => false
  end.
Definition opt_eqb {A} (eqb : A -> A -> bool) (a b : option A) : bool :=
  match a, b with Some x, Some y => eqb x y | None, None => true | _, _ => false end.
Definition uc_sum_eqb (a b : uc_sum) : bool :=
  (us_status a =? us_status b) && list_eqb bytes_eqb (us_urls a) (us_urls b)
  && obytes_eqb (us_version a) (us_version b)
  && list_eqb (fun x y => bytes_eqb (fst (fst x)) (fst (fst y)) && bytes_eqb (snd (fst x)) (snd (fst y))
                          && Bool.eqb (snd x) (snd y)) (us_pkgs a) (us_pkgs b)
  && list_eqb (fun x y => obytes_eqb (fst x) (fst y) && obytes_eqb (snd x) (snd y)) (us_acts a) (us_acts b)
  && Bool.eqb (us_urgent a) (us_urgent b) && (us_nextra a =? us_nextra b)
  && list_eqb bytes_eqb (us_full a) (us_full b).
Definition app_sum_eqb (a b : app_sum) : bool :=
  bytes_eqb (as_id a) (as_id b) && (as_status a =? as_status b) && cohort_eqb (as_cohort a) (as_cohort b)
  && opt_eqb uc_sum_eqb (as_uc a) (as_uc b) && Bool.eqb (as_ping a) (as_ping b)
  && oN_eqb (as_events a) (as_events b) && (as_nextra a =? as_nextra b).
Definition resp_sum_eqb (a b : resp_sum) : bool :=
  bytes_eqb (rs_protocol a) (rs_protocol b) && obytes_eqb (rs_server a) (rs_server b)
  && opt_eqb (fun x y => oN_eqb (fst x) (fst y) && oN_eqb (snd x) (snd y)) (rs_day a) (rs_day b)
  && list_eqb app_sum_eqb (rs_apps a) (rs_apps b).

(* ---- cases ---- *)
Inductive c17obs :=
| OPanic
| OReply (status : N) (etag : option bytes) (clen : option N) (body : bytes).

Record c17omaha := {
  o_cfg : config; o_params : params; o_ops : list op; o_reqid : option bytes; o_sessid : option bytes;
  o_base : bytes;                       (* origin-form of the configured service URL *)
  o_uri : bytes;                        (* origin-form URI of the built request = what the server sees *)
  o_req : bytes;                        (* body the real RequestBuilder produced *)
  o_cup : option (N * bytes);           (* request metadata: key id, nonce *)
  o_obs : c17obs;
  o_verdict : option (N + bytes);       (* real verify_response on the reply (None: no CUP, or no reply) *)
  o_parsed : option (option resp_sum);  (* real parse_json_response on the reply body (None: no reply) *)
  o_cross : list (N * (N + bytes)) }.   (* this reply offered to the request of step #k: real verdict *)

Inductive c17step :=
| SSet (body : bytes) (obs : c17obs)
| SOmaha (o : c17omaha).

Inductive c17case :=
| K17 (srv : server) (ckeys : list (N * N)) (t : tables) (steps : list c17step)
(* the real state machine (oneshot_check) against the in-process server:
   configured kind / forced ETag / CUP, and the observed result class *)
| KSm (kind : omaha_response) (forced_etag cup : bool) (result : N)
(* the same, twice, with a reconfiguration (POST /set_responses_by_appid) to kind2 in between *)
| KSmRe (kind1 kind2 : omaha_response) (cup : bool) (result1 result2 : N).

Definition obs_matches (o : outcome) (obs : c17obs) : bool :=
  match o, obs with
  | SrvPanic, OPanic => true
  | Reply st et body, OReply st' et' clen body' =>
      (st =? st') && obytes_eqb et et' && bytes_eqb body body'
      && oN_eqb clen (Some (N.of_nat (length body)))
  | _, _ => false
  end.

Definition mk_builder (p : params) (ops : list op) (reqid sessid : option bytes) : builder :=
  let b := add_ops (builder_new p) ops in
  {| b_params := p; b_entries := b_entries b; b_reqid := reqid; b_sessid := sessid |}.

Definition first_nonzero (l : list N) : N :=
  match filter (fun c => negb (c =? 0)) l with c :: _ => c | [] => 0 end.

(* the requests of all steps (for the cross checks): index -> (request body, cup) *)
Fixpoint nth_omaha (k : nat) (steps : list c17step) : option c17omaha :=
  match steps, k with
  | [], _ => None
  | SOmaha o :: _, O => Some o
  | SSet _ _ :: _, O => None
  | _ :: r, S k' => nth_omaha k' r
  end.

Definition check_omaha (t : tables) (ckeys : list (N * N)) (all : list c17step) (s : server) (o : c17omaha) : N :=
  let b := mk_builder (o_params o) (o_ops o) (o_reqid o) (o_sessid o) in
  let req := body_of (o_cfg o) b in
  let expect_uri := match o_cup o with Some (id, nonce) => decorate (o_base o) id nonce | None => o_base o end in
  if negb (query_in_domain (o_uri o)) then 3
  else if negb (bytes_eqb (o_req o) req) then 1                       (* the request encoder (C15) *)
  else if negb (bytes_eqb (o_uri o) expect_uri) then 1                (* append_query_parameter *)
  else
    let body_m := match s_responses s with [] => None | _ => server_body (s_responses s) req end in
    let m := fst (handle_request (sha_of t) (sign_of t) s {| hq_post := true; hq_uri := o_uri o; hq_body := req |}) in
    match o_obs o with
    | OPanic =>
        (* whether the model panics does not depend on the values of the primitives *)
        match m with
        | SrvPanic => 0
        | Reply _ _ _ => if d5_class (o_uri o) then 5 else 1
        end
    | OReply st etag _ body =>
      if negb (match body_m with Some bm => etag_oracle_ok t req (o_uri o) (s_keys s) bm | None => true end) then
        (* the tables were made for the implementation's body: a miss with another body is a difference *)
        (if match body_m with Some bm => bytes_eqb bm body | None => false end then 3 else 1)
      else if negb (obs_matches m (o_obs o)) then 1
      else
        match o_obs o with
        | OPanic => 0
        | OReply st etag _ body =>
            let etags := match etag with Some e => [e] | None => [] end in
            (* the client's verifier on this exchange *)
            let c_verify :=
              match o_cup o, o_verdict o with
              | Some (id, nonce), Some v =>
                  if negb (verify_oracle_ok t ckeys req body nonce id etags) then 3
                  else
                    let r := verify (sha_of t) (der_of t) (ver_of t) ckeys req body nonce id etags in
                    if negb (result_eqb r v) then 1
                    else
                      (* property: the server holds the key of a pair the client holds under the same id and
                         nothing forces the ETag => accepted; no such key on the server => no ETag, refused *)
                      if negb (st =? 200) then 0 else       (* status 500: nothing is configured, nothing is promised *)
                      if negb (is_none (find_cup2key (o_base o))) then 0 else   (* the service URL has a cup2key of its own *)
                      match find_key (s_keys s) id, s_etag_override s with
                      | Some sk, None =>
                          (* key handles are the harness's key-pair numbers on both sides:
                             the pair matches iff the handles are equal *)
                          match map_get id (build_map ckeys) with
                          | Some pk => if Bool.eqb (accepted v) (sk =? pk) then 0 else 2
                          | None => if accepted v then 2 else 0
                          end
                      | None, None => if accepted v then 2 else 0
                      | _, Some _ => 0
                      end
              | Some _, None => 1
              | None, Some _ => 1
              | None, None => 0
              end in
            (* the client's parser on this reply *)
            let c_parse :=
              if negb (st =? 200) then 0 else
              match o_parsed o with
              | None => 1
              | Some impl =>
                  let model := option_map sum_resp (parse_response body) in
                  if negb (opt_eqb resp_sum_eqb model impl) then 1
                  else if request_served (s_responses s) (o_cfg o) b
                       then (if opt_eqb resp_sum_eqb (option_map sum_resp (expected_response (s_responses s) (b_entries b))) impl
                             then 0 else 2)
                       else 0
              end in
            (* this reply offered to every other exchange *)
            let c_cross :=
              map (fun kv =>
                     match nth_omaha (N.to_nat (fst kv)) all with
                     | Some o' =>
                         match o_cup o' with
                         | Some (id', nonce') =>
                             let b' := mk_builder (o_params o') (o_ops o') (o_reqid o') (o_sessid o') in
                             let req' := body_of (o_cfg o') b' in
                             if accepted (snd kv) then 2
                             else if negb (verify_oracle_ok t ckeys req' body nonce' id' etags) then 3
                             else if result_eqb (verify (sha_of t) (der_of t) (ver_of t) ckeys req' body nonce' id' etags) (snd kv)
                                  then 0 else 1
                         | None => 3
                         end
                     | None => 3
                     end) (o_cross o) in
            first_nonzero (c_verify :: c_parse :: c_cross)
        end
    end.

Fixpoint check_steps (t : tables) (ckeys : list (N * N)) (all : list c17step) (s : server) (steps : list c17step) : N :=
  match steps with
  | [] => 0
  | SSet body obs :: r =>
      let '(o, s') := handle_request (sha_of t) (sign_of t) s
                                     {| hq_post := true; hq_uri := set_responses_path; hq_body := body |} in
      if obs_matches o obs then check_steps t ckeys all s' r else 1
  | SOmaha o :: r =>
      match check_omaha t ckeys all s o with
      | 0 => check_steps t ckeys all s r
      | c => c
      end
  end.

(* the configured outcome of a one-shot check of the real state machine
   (stub policy and installer): 0 no update, 1 update installed, 2 the reply
   was refused by the parser, 3 the reply was refused by the CUP verifier,
   4 anything else *)
Definition expected_sm_result (kind : omaha_response) (forced_etag cup : bool) : N :=
  if forced_etag && cup then 3
  else match kind with
       | NoUpdate => 0
       | Update | UrgentUpdate | InvalidURL => 1
       | InvalidResponse => 2
       end.

Definition check_c17 (c : c17case) : N :=
  match c with
  | K17 srv ckeys t steps => check_steps t ckeys steps srv steps
  | KSm kind forced cup result => if result =? expected_sm_result kind forced cup then 0 else 2
  | KSmRe k1 k2 cup r1 r2 =>
      if (r1 =? expected_sm_result k1 false cup) && (r2 =? expected_sm_result k2 false cup) then 0 else 2
  end.

Definition run_c17 (cases : list (N * c17case)) : list (N * N) :=
  filter (fun p => negb (N.eqb (snd p) 0)) (map (fun p => (fst p, check_c17 (snd p))) cases).
