(* Run/EvalC15.v *)
Require Export Verif.Base.Bytes Verif.Model.Version Verif.Model.Json Verif.Model.Proto Verif.Model.Request.
Open Scope N_scope.

Inductive c15case :=
| KBuild (cfg : config) (p : params) (ops : list op) (reqid sessid : option bytes)
         (stable : bool) (r : option (bytes * list (bytes * bytes) * bytes)).

Definition lower (s : bytes) : bytes := map (fun c => if (65 <=? c) && (c <=? 90) then c + 32 else c) s.

Fixpoint headers_eqb (a b : list (bytes * bytes)) : bool :=
  match a, b with
  | [], [] => true
  | (k, v) :: a', (k', v') :: b' => bytes_eqb (lower k) (lower k') && bytes_eqb v v' && headers_eqb a' b'
  | _, _ => false
  end.

Definition mk_builder (p : params) (ops : list op) (reqid sessid : option bytes) : builder :=
  let b := add_ops (builder_new p) ops in
  {| b_params := p; b_entries := b_entries b; b_reqid := reqid; b_sessid := sessid |}.

(* the spec-side builder: entries computed declaratively *)
Definition mk_spec_builder (p : params) (ops : list op) (reqid sessid : option bytes) : builder :=
  {| b_params := p; b_entries := spec_entries p ops; b_reqid := reqid; b_sessid := sessid |}.

Definition check_c15 (c : c15case) : N :=
  match c with
  | KBuild cfg p ops reqid sessid stable r =>
      let b := mk_builder p ops reqid sessid in
      let sb := mk_spec_builder p ops reqid sessid in
      if negb stable then 2
      else if negb (bytes_eqb (body_of cfg b) (body_of cfg sb)) then 4     (* model vs spec: excluded by theorem *)
      else
        match r with
        | Some (uri, hs, body) =>
            if headers_ok cfg b && bytes_eqb uri (cfg_url cfg) && headers_eqb hs (headers_of cfg b)
               && bytes_eqb body (body_of cfg b)
               && (match parse_json body with Some j => json_eqb j (json_of_request cfg b) | None => false end)
            then 0 else 1
        | None => if headers_ok cfg b && negb (match cfg_url cfg with [] => true | _ => false end) then 1 else 0
        end
  end.

Definition run_c15 (cases : list (N * c15case)) : list (N * N) :=
  filter (fun p => negb (N.eqb (snd p) 0)) (map (fun p => (fst p, check_c15 (snd p))) cases).
