(* Run/EvalC03.v — CUP decoration of requests: model vs the real RequestBuilder + StandardCupv2Handler *)
Require Export Verif.Model.Time Verif.Base.Bytes Verif.Model.Version Verif.Model.Json Verif.Model.Proto
               Verif.Model.Request Verif.Model.Env Verif.Model.SM Verif.Proofs.UriFacts.
Open Scope N_scope.

(* one decorated build: wire uri, wire body, metadata (body, key id, nonce as 64 hex chars) *)
Record built := { bw_uri : bytes; bw_body : bytes; bm_body : bytes; bm_kid : N; bm_nonce : bytes }.

Inductive c03case :=
| KDecorate (cfg : config) (url : urlparts) (absolute : bool) (kid : N) (p : params) (ops : list op)
            (r1 r2 : option built).

Definition lower_hex64 (s : bytes) : bool :=
  Nat.eqb (length s) 64 && forallb (fun c => ((48 <=? c) && (c <=? 57)) || ((97 <=? c) && (c <=? 102))) s.

Definition expected_uri (url : urlparts) (kid : N) (nonce : bytes) : bytes :=
  u_prefix url ++ append_query (u_path url) (u_query url) (s2b "cup2key") (print_dec kid ++ 58 :: nonce).

Definition built_ok (cfg : config) (url : urlparts) (kid : N) (b : builder) (x : built) : bool :=
  lower_hex64 (bm_nonce x)
  && bytes_eqb (bw_uri x) (expected_uri url kid (bm_nonce x))
  && bytes_eqb (bw_body x) (body_of cfg b)
  && bytes_eqb (bm_body x) (bw_body x)
  && (bm_kid x =? kid)
  && (* exactly one more cup2key parameter *)
     Nat.eqb (count_param (s2b "cup2key") (new_query (u_query url) (s2b "cup2key") (print_dec kid ++ 58 :: bm_nonce x)))
             (Datatypes.S (match u_query url with Some q => count_param (s2b "cup2key") q | None => O end)).

Definition check_c03 (c : c03case) : N :=
  match c with
  | KDecorate cfg url absolute kid p ops r1 r2 =>
      let b := add_ops (builder_new p) ops in
      match r1, r2 with
      | Some x, Some y =>
          if negb (u_valid url) then 1
          else if negb (headers_ok cfg b) then 1
          (* code 2: a request was built that is not the configured URL plus cup2key=<latest id>:<64 hex> with metadata = wire,
             or two builds share a nonce - the property's own statement fails on this input *)
          else if built_ok cfg url kid b x && built_ok cfg url kid b y && negb (bytes_eqb (bm_nonce x) (bm_nonce y)) then 0 else 2
      | None, None =>
          (* outside the absolute / origin-form URLs the model only requires "no panic" (absolute = false) *)
          if absolute && u_valid url && headers_ok cfg b then 1 else 0
      | _, _ => 1
      end
  end.

Definition run_c03 (cases : list (N * c03case)) : list (N * N) :=
  filter (fun p => negb (N.eqb (snd p) 0)) (map (fun p => (fst p, check_c03 (snd p))) cases).

(* state-machine histories: every request decorated, metadata = wire, nonces pairwise distinct *)
Require Export Verif.Run.EvalSM Verif.Model.Monitors Verif.Model.Monitors3 Verif.Proofs.Monitor.
Definition proj_c03 (a : action) : bool := match a with AHttp _ _ | AInstaller (ICreatePlan _ _ _ _) _ => true | _ => false end.
Definition mon_c03 (c : smcase) (t : list action) : bool :=
  match c with KSm _ _ url cup _ _ _ _ =>
    accepts step3 {| url3 := url; kid3 := cup; seen3 := [] |} t && accepts step3a (init3a url cup) t
    && accepts step3f (init3f url cup) t end.

Inductive c03any := K03 (c : c03case) | K03Sm (c : smcase).
Definition check_c03any (c : c03any) : N :=
  match c with K03 x => check_c03 x | K03Sm x => sm_check proj_c03 mon_c03 x end.
Definition run_c03any (cases : list (N * c03any)) : list (N * N) :=
  filter (fun p => negb (N.eqb (snd p) 0)) (map (fun p => (fst p, check_c03any (snd p))) cases).
