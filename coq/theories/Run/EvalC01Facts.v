(* Run/EvalC01Facts.v — the C01 evaluator never answers an oracle query by
   a silent default: when oracle_complete holds (otherwise the case is reported
   as ORACLE-MISS), the model's result is the same whatever the default values
   of the three table-lookup functions are, i.e. every query verify made was
   answered by a table entry supplied by the harness. *)
Require Import Verif.Base.Bytes Verif.Model.Cup Verif.Run.EvalC01.
Open Scope N_scope.

Lemma not_none {A} (o : option A) : negb (is_none o) = true -> exists v, o = Some v.
Proof. destruct o as [v|]; [exists v; reflexivity|discriminate]. Qed.

Lemma sha_fn_found d t x v : assoc_bytes x t = Some v -> sha_fn d t x = v.
Proof. unfold sha_fn. intros ->. reflexivity. Qed.

Lemma der_fn_found d t x v : assoc_bytes x t = Some v -> der_fn d t x = v.
Proof. unfold der_fn. intros ->. reflexivity. Qed.

Lemma ver_fn_found d t pk m s v : assoc_ver pk m s t = Some v -> ver_fn d t pk m s = v.
Proof. unfold ver_fn. intros ->. reflexivity. Qed.

Lemma oracle_complete_no_default sd sd' bd bd' vd vd' keys req resp nonce id etags sha_t der_t ver_t :
  oracle_complete sd keys req resp nonce id etags sha_t der_t ver_t = true ->
  verify (sha_fn sd sha_t) (der_fn bd der_t) (ver_fn vd ver_t) keys req resp nonce id etags =
  verify (sha_fn sd' sha_t) (der_fn bd' der_t) (ver_fn vd' ver_t) keys req resp nonce id etags.
Proof.
  unfold oracle_complete. intro H.
  apply andb_true_iff in H as [H HM]. apply andb_true_iff in H as [H Hc].
  apply andb_true_iff in H as [Ha Hb].
  destruct (not_none _ Ha) as [va Ea]. destruct (not_none _ Hb) as [vb Eb].
  assert (Sreq : forall d, sha_fn d sha_t req = va) by (intro; apply sha_fn_found; assumption).
  assert (Sresp : forall d, sha_fn d sha_t resp = vb) by (intro; apply sha_fn_found; assumption).
  assert (Hpre : forall d, digest_preimage (sha_fn d sha_t) req resp id nonce
                           = va ++ vb ++ cup2_urlparam id nonce).
  { intro d. unfold digest_preimage. rewrite Sreq, Sresp. reflexivity. }
  rewrite Hpre in Hc, HM.
  destruct (not_none _ Hc) as [vp Ep].
  assert (Hdig : forall d, tx_digest (sha_fn d sha_t) req resp id nonce = vp).
  { intro d. unfold tx_digest. rewrite Hpre. apply sha_fn_found. assumption. }
  rewrite (sha_fn_found sd _ _ _ Ep) in HM.
  unfold verify. destruct etags as [|h rest]; [reflexivity|].
  destruct (to_str_ok h); cbn [negb]; [|reflexivity].
  unfold sig_candidate in HM.
  destruct (split_once 58 (strip_etag h)) as [[sh hh]|]; [|reflexivity].
  destruct (hex_decode hh) as [hash|]; [|reflexivity].
  rewrite !Sreq. destruct (bytes_eqb hash va); cbn [negb]; [|reflexivity].
  destruct (hex_decode sh) as [sg|]; [|reflexivity].
  apply andb_true_iff in HM as [Hd Hk].
  destruct (not_none _ Hd) as [vder Eder].
  rewrite (der_fn_found bd _ _ _ Eder), (der_fn_found bd' _ _ _ Eder).
  destruct vder; cbn [negb]; [|reflexivity].
  destruct (map_get id (build_map keys)) as [pk|]; [|reflexivity].
  destruct (not_none _ Hk) as [vv Ev].
  rewrite !Hdig.
  rewrite (ver_fn_found vd _ _ _ _ _ Ev), (ver_fn_found vd' _ _ _ _ _ Ev). reflexivity.
Qed.

(* the compact literal notation of the case files decodes as intended *)
From Coq Require Import PrimInt63.
Example b7_example :
  b7 9 (W 0x68656c6c6f2c20 (W 0x776f WE)) = s2b "hello, wo" /\
  b7 3 (W 0x0000ff WE) = [0; 0; 255] /\ b7 0 WE = [] /\
  b7 7 (W 0xffffffffffffff WE) = [255; 255; 255; 255; 255; 255; 255] /\
  b7 8 (W 0x00000000000000 (W 0x80 WE)) = [0; 0; 0; 0; 0; 0; 0; 128].
Proof. vm_compute. repeat split. Qed.

Print Assumptions oracle_complete_no_default.
