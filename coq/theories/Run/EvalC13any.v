(* Run/EvalC13any.v — C13 has two kinds of cases: programs for the generator model (Run/EvalC13.v) and scripted runs of
   the state machine, whose traces are checked against the monitor step13 (Model/Monitors13.v) and the model's trace. *)
Require Export Verif.Run.EvalSM Verif.Model.Monitors13 Verif.Proofs.Monitor.
Require Export Verif.Run.EvalC13.
Open Scope N_scope.

(* what C13 says about the state machine: the event stream, the installer's calls, the requests *)
Definition proj_c13 (a : action) : bool := match a with AEvent _ | AInstaller _ _ | AHttp _ _ => true | _ => false end.
Definition mon_c13 (c : smcase) (t : list action) : bool := accepts step13 init13 t.

Inductive c13any := K13G (c : c13case) | K13Sm (c : smcase).
Definition check_c13any (c : c13any) : N :=
  match c with K13G x => check_c13 x | K13Sm x => sm_check proj_c13 mon_c13 x end.
Definition run_c13any (cases : list (N * c13any)) : list (N * N) :=
  filter (fun p => negb (N.eqb (snd p) 0)) (map (fun p => (fst p, check_c13any (snd p))) cases).
