(* Run/EvalC16.v — evaluates the response-parser model on harness cases.

   A case is the raw input and what the real
   omaha_client::protocol::response::parse_json_response did with it: the
   Response converted field by field into the model's record (or None for an
   Err), or the fact that it panicked / overflowed its stack.  Extension
   attribute maps are serde_json::Map = BTreeMap<String, Value> (preserve_order
   is off): sorted by key, a repeated key keeps its last value.  Both sides are
   therefore canonicalised with [canon_json] (objects sorted by key with
   last-wins, at every depth; numbers that serde_json stores as f64 become
   JFloat) before they are compared. *)
Require Export Verif.Base.Bytes Verif.Model.Json Verif.Model.Proto Verif.Model.Response.
From Coq Require Import PrimInt63.
Open Scope N_scope.

(* ---- compact byte-string literals (same encoding as Run/EvalC01.v; copied so
        that the C16 case files do not depend on the CUP model) ---- *)
Inductive w63 := WE | W (x : int) (r : w63).
Arguments W _%uint63 _.
Definition byte_of_int (x : int) : N :=
  let bit (i : int) (w : N) : N :=
    if PrimInt63.eqb (PrimInt63.land (PrimInt63.lsr x i) 1%uint63) 0%uint63 then 0 else w in
  bit 0%uint63 1 + bit 1%uint63 2 + bit 2%uint63 4 + bit 3%uint63 8 +
  bit 4%uint63 16 + bit 5%uint63 32 + bit 6%uint63 64 + bit 7%uint63 128.
Fixpoint word_bytes (n : nat) (x : int) (acc : bytes) : bytes :=
  match n with
  | O => acc
  | S n' => word_bytes n' (PrimInt63.lsr x 8%uint63) (byte_of_int x :: acc)
  end.
Fixpoint unpack7 (len : nat) (l : w63) : bytes :=
  match l with
  | WE => []
  | W x r => let n := Nat.min len 7 in word_bytes n x [] ++ unpack7 (len - n) r
  end.
Definition b7 (len : N) (l : w63) : bytes := unpack7 (N.to_nat len) l.
Arguments b7 _%N _.

(* ---- what serde_json::Value keeps of a JSON tree ---- *)
Fixpoint bytes_cmp (a b : bytes) : comparison :=
  match a, b with
  | [], [] => Eq
  | [], _ :: _ => Lt
  | _ :: _, [] => Gt
  | x :: a', y :: b' => match N.compare x y with Eq => bytes_cmp a' b' | c => c end
  end.
Fixpoint ins (key : bytes) (v : json) (l : list kv) : list kv :=
  match l with
  | [] => [(key, true, v)]
  | (key', o, v') :: r =>
      match bytes_cmp key key' with
      | Lt => (key, true, v) :: l
      | Eq => (key, true, v) :: r
      | Gt => (key', o, v') :: ins key v r
      end
  end.
(* Number: PosInt(u64) | NegInt(i64 < 0) | Float *)
Definition canon_int (neg : bool) (n : N) : json :=
  if neg then (if (1 <=? n) && (n <=? 2 ^ 63) then JInt true n else JFloat)
  else (if n <? 2 ^ 64 then JInt false n else JFloat).
Fixpoint canon_json (j : json) : json :=
  match j with
  | JInt neg n => canon_int neg n
  | JArr l => JArr (map canon_json l)
  | JObj kvs =>
      JObj (fold_left (fun acc x => ins (fst (fst x)) (snd x) acc)
                      (map (fun x => (fst x, canon_json (snd x))) kvs) [])
  | _ => j
  end.
Definition canon_extras (ex : jextras) : list kv :=
  fold_left (fun acc e => ins (fst e) (canon_json (snd e)) acc) ex [].

Fixpoint has_float (j : json) : bool :=
  match j with
  | JFloat => true
  | JArr l => existsb has_float l
  | JObj kvs => existsb (fun x => has_float (snd x)) kvs
  | _ => false
  end.
Definition kvs_float (l : list kv) : bool := existsb (fun x => has_float (snd x)) l.

(* ---- equality of typed results, extension maps canonicalised ---- *)
Definition status_eqb (a b : omaha_status) : bool :=
  match a, b with
  | SOk, SOk | SRestricted, SRestricted | SNoUpdate, SNoUpdate => true
  | SError x, SError y => bytes_eqb x y
  | _, _ => false
  end.
Fixpoint list_eqb {A} (eqb : A -> A -> bool) (a b : list A) : bool :=
  match a, b with
  | [], [] => true
  | x :: a', y :: b' => eqb x y && list_eqb eqb a' b'
  | _, _ => false
  end.
Definition opt_eqb {A} (eqb : A -> A -> bool) (a b : option A) : bool :=
  match a, b with Some x, Some y => eqb x y | None, None => true | _, _ => false end.
Definition extras_eqb (a b : jextras) : bool := json_eqb (JObj (canon_extras a)) (JObj (canon_extras b)).

Definition package_eqb (a b : rpackage) : bool :=
  bytes_eqb (pk_name a) (pk_name b) && Bool.eqb (pk_required a) (pk_required b) && oN_eqb (pk_size a) (pk_size b)
  && obytes_eqb (pk_hash a) (pk_hash b) && obytes_eqb (pk_hash_sha256 a) (pk_hash_sha256 b)
  && bytes_eqb (pk_fp a) (pk_fp b) && extras_eqb (pk_extra a) (pk_extra b).
Definition action_eqb (a b : raction) : bool :=
  obytes_eqb (ac_event a) (ac_event b) && obytes_eqb (ac_run a) (ac_run b) && extras_eqb (ac_extra a) (ac_extra b).
Definition manifest_eqb (a b : rmanifest) : bool :=
  bytes_eqb (mf_version a) (mf_version b) && list_eqb action_eqb (mf_actions a) (mf_actions b)
  && list_eqb package_eqb (mf_packages a) (mf_packages b).
Definition update_check_eqb (a b : rupdatecheck) : bool :=
  status_eqb (uc_status a) (uc_status b) && obytes_eqb (uc_info a) (uc_info b)
  && opt_eqb (list_eqb bytes_eqb) (uc_urls a) (uc_urls b) && opt_eqb manifest_eqb (uc_manifest a) (uc_manifest b)
  && extras_eqb (uc_extra a) (uc_extra b).
Definition app_eqb (a b : rapp) : bool :=
  bytes_eqb (ra_id a) (ra_id b) && status_eqb (ra_status a) (ra_status b) && cohort_eqb (ra_cohort a) (ra_cohort b)
  && opt_eqb status_eqb (ra_ping a) (ra_ping b) && opt_eqb update_check_eqb (ra_update_check a) (ra_update_check b)
  && opt_eqb (list_eqb status_eqb) (ra_events a) (ra_events b) && extras_eqb (ra_extra a) (ra_extra b).
Definition daystart_eqb (a b : daystart) : bool :=
  oN_eqb (ds_days a) (ds_days b) && oN_eqb (ds_seconds a) (ds_seconds b).
Definition response_eqb (a b : response) : bool :=
  bytes_eqb (r_protocol a) (r_protocol b) && obytes_eqb (r_server a) (r_server b)
  && opt_eqb daystart_eqb (r_daystart a) (r_daystart b) && list_eqb app_eqb (r_apps a) (r_apps b).

(* does the (model's) result keep a number that serde_json stores as f64? *)
Definition extras_float (ex : jextras) : bool := kvs_float (canon_extras ex).
Definition update_check_float (u : rupdatecheck) : bool :=
  extras_float (uc_extra u)
  || match uc_manifest u with
     | Some m => existsb (fun a => extras_float (ac_extra a)) (mf_actions m)
                 || existsb (fun p => extras_float (pk_extra p)) (mf_packages m)
     | None => false
     end.
Definition response_float (r : response) : bool :=
  existsb (fun a => extras_float (ra_extra a)
                    || match ra_update_check a with Some u => update_check_float u | None => false end) (r_apps r).

Definition urls_of (r : response) : list (list bytes) :=
  map (fun a => match ra_update_check a with Some u => full_urls u | None => [] end) (r_apps r).

(* ---- cases ---- *)
Inductive c16obs :=
| ORet (r : option response)     (* returned: Ok converted, or Err *)
| OPanic                         (* unwound *)
| OOverflow.                     (* the child process running the parse died (stack overflow / abort) *)

Inductive c16case :=
| K16 (input : bytes) (obs : c16obs)
      (urls : list (list bytes))     (* per app: the real get_all_full_urls (empty without updatecheck) *)
      (outside : bool)               (* advisory: the generator put a float into a kept position *)
| K16Big (len : N) (returned : bool).  (* input too large to ship to Coq (2 000 000 brackets):
                                          only "returned, neither panicked nor overflowed" is recorded *)

(* 0 = agree; 1 = model and implementation differ; 2 = panic or stack overflow *)
Definition check_c16 (c : c16case) : N :=
  match c with
  | K16Big _ returned => if returned then 0 else 2
  | K16 input obs urls _ =>
      match obs with
      | OPanic | OOverflow => 2
      | ORet impl =>
          match parse_response input, impl with
          | None, None => 0
          | Some m, Some i =>
              if response_eqb m i && list_eqb (list_eqb bytes_eqb) (urls_of i) urls then 0 else 1
          | Some m, None => if response_float m then 0 else 1     (* f64 overflow is not modelled *)
          | None, Some _ => 1
          end
      end
  end.

Definition run_c16 (cases : list (N * c16case)) : list (N * N) :=
  filter (fun p => negb (N.eqb (snd p) 0)) (map (fun p => (fst p, check_c16 (snd p))) cases).
