(* Run/EvalProps.v — per-property projections of the state-machine trace.
   Each property compares only the part of the trace it speaks about, so an
   observable but unrelated rewrite does not alarm properties it does not touch. *)
Require Export Verif.Run.EvalSM Verif.Model.Monitors Verif.Model.Monitors18 Verif.Model.Monitors2b Verif.Model.Monitors11a Verif.Model.Monitors6r Verif.Model.Monitors5b Verif.Model.Monitors8m Verif.Model.Monitors10l Verif.Proofs.Monitor.
Open Scope N_scope.

Definition is_metric (f : metric -> bool) (a : action) : bool := match a with AMetric m => f m | _ => false end.
Definition is_event (f : sm_event -> bool) (a : action) : bool := match a with AEvent e => f e | _ => false end.

(* C02: everything a forged response could influence: requests, events, installer, storage, metrics, policy arguments *)
Definition proj_c02 (a : action) : bool := match a with ATimer _ | AReply _ _ => false | _ => true end.
(* C04: the event stream *)
Definition proj_c04 (a : action) : bool := match a with AEvent _ => true | _ => false end.
(* C05: policy questions (with their arguments), requests, installer calls *)
Definition proj_c05 (a : action) : bool := match a with APolicy _ _ | AHttp _ _ | AInstaller _ _ => true | _ => false end.
(* C06: requests, waits, the two attempt metrics, and the states delimiting a check *)
Definition proj_c06 (a : action) : bool :=
  match a with
  | AHttp _ _ | ATimer (WFor _) => true
  | AMetric (MResponseTime _ _) | AMetric (MRequestsPerCheck _ _) => true
  | AEvent (EvState _) | AEvent (EvResult _) => true
  | _ => false
  end.
(* C07: requests, protocol-state announcements, policy arguments, storage *)
Definition proj_c07 (a : action) : bool :=
  match a with AHttp _ _ | AEvent (EvProtocol _) | APolicy _ _ | AStore _ _ => true | _ => false end.
(* C08: storage, what the policy is shown, schedule/protocol/result/state events *)
Definition proj_c08 (a : action) : bool :=
  match a with AStore _ _ | APolicy _ _ | AClock _ | AEvent (EvSchedule _) | AEvent (EvProtocol _) | AEvent (EvResult _) | AEvent (EvState _) => true | _ => false end.
(* C09: request bodies (cohort, ad/rd), per-app storage, apps shown to the policy *)
Definition proj_c09 (a : action) : bool := match a with AHttp _ _ | AStore _ _ | APolicy _ _ => true | _ => false end.
(* C10: requests, lost-event metrics, the check result *)
Definition proj_c10 (a : action) : bool :=
  match a with AHttp _ _ | AMetric (MOmahaEventLost _) | AEvent (EvResult _) | AEvent (EvState _) | AInstaller _ _ => true | _ => false end.
(* C12: policy questions, schedule announcements, timers, check starts, pings, reboot *)
Definition proj_c12 (a : action) : bool :=
  match a with APolicy _ _ | AEvent (EvSchedule _) | ATimer _ | AEvent (EvState _) | AHttp _ _ | AInstaller IReboot _ => true | _ => false end.
(* C18: storage, the attempt/duration metrics, reboot question and reboot *)
Definition proj_c18 (a : action) : bool :=
  match a with
  | AStore _ _ | AInstaller _ _ | AClock _ | APolicy (QRebootNeeded _) _ | APolicy (QCanStart _) _ => true
  | AMetric (MAttemptsToSuccessfulInstall _ _) | AMetric (MWaitedForReboot _) | AMetric (MSuccessfulUpdateFromFirstSeen _) => true
  | _ => false
  end.

Definition mon_c02 (c : smcase) (t : list action) : bool :=
  match c with KSm _ cfg url cup apps e _ _ =>
    (* "counted as one failed check", and the last-contact time untouched: the bookkeeping rules of C08's proved monitor *)
    accepts step2 (init2 cup) t && accepts step2b (init2b cup) t && accepts step8 (init8 cfg url cup apps (e_store e)) t end.
Definition run_c02 := run_sm proj_c02 mon_c02.
Definition mon_c04 (c : smcase) (t : list action) : bool := match c with KSm _ _ _ cup _ _ _ _ => accepts step4 (init4 cup) t end.
Definition run_c04 := run_sm proj_c04 mon_c04.
(* the machine never starts at all if any app has an empty id or version 0 (Props/C05.v: C05_invalid_app_set_is_inert) *)
Definition inert_ok (ep : entry_point) (apps : list app) (t : list action) : bool :=
  match ep with
  | EStart => if forallb app_valid apps then true else match t with [] => true | _ => false end
  | EOneshot => true
  end.
Definition mon_c05 (c : smcase) (t : list action) : bool :=
  match c with KSm ep _ _ _ apps _ _ _ => accepts step5 (init5 ep) t && accepts step5b init5b t && inert_ok ep apps t end.
Definition run_c05 := run_sm proj_c05 mon_c05.
Definition mon_c06 (c : smcase) (t : list action) : bool :=
  match c with KSm ep _ _ cup _ e _ _ =>
    accepts step6 (init6 ep cup (e_store e)) t && accepts step6ids {| i_in := false; i_sess := None; i_reqs := [] |} t
    && accepts step6r (init6r cup) t end.
Definition run_c06 := run_sm proj_c06 mon_c06.
Definition mon_c07 (c : smcase) (t : list action) : bool := match c with KSm _ _ _ cup _ e _ _ => accepts step7 (init7 cup (e_store e)) t end.
Definition run_c07 := run_sm proj_c07 mon_c07.
Definition mon_c08 (c : smcase) (t : list action) : bool :=
  match c with KSm _ cfg url cup apps e _ _ =>
    (* the poll interval is part of C08's durable state: its rules are C07's monitor *)
    accepts step8 (init8 cfg url cup apps (e_store e)) t && accepts step7 (init7 cup (e_store e)) t
    && accepts step8m init8m t end.
Definition run_c08 := run_sm proj_c08 mon_c08.
Definition mon_c09 (c : smcase) (t : list action) : bool :=
  match c with KSm _ _ _ cup apps e _ _ => accepts step9 (init9 cup apps (e_store e)) t end.
Definition run_c09 := run_sm proj_c09 mon_c09.
Definition mon_c10 (c : smcase) (t : list action) : bool :=
  match c with KSm _ cfg url cup apps _ _ _ =>
    accepts step10 (init10 cup apps) t && accepts step6ids {| i_in := false; i_sess := None; i_reqs := [] |} t
    && accepts step10l (init10l cfg url cup apps) t end.
Definition run_c10 := run_sm proj_c10 mon_c10.
Definition mon_c12 (c : smcase) (t : list action) : bool := accepts step12 init12 t.
Definition run_c12 := run_sm proj_c12 mon_c12.
Definition run_c14 := run_sm proj_all mon_true.
Definition mon_c18 (c : smcase) (t : list action) : bool :=
  match c with KSm _ cfg _ _ apps e _ _ => accepts step18 (init18 cfg apps (e_store e)) t end.
Definition run_c18 := run_sm proj_c18 mon_c18.

(* C11: requests, replies and everything that decides the reply or depends on the request's options *)
Definition proj_c11 (a : action) : bool :=
  match a with ARequest _ _ | AReply _ _ | APolicy _ _ | AEvent (EvState _) | AEvent (EvResult _) | AInstaller IReboot _ => true | _ => false end.
Definition mon_c11 (c : smcase) (t : list action) : bool :=
  match c with KSm ep _ _ _ _ e _ _ =>
    match ep with
    | EStart => accepts step11x {| base11 := init11; askdue11 := false |} t && accepts step11a {| out11a := []; next11a := e_ctl e |} t
    | EOneshot => true end end.
Definition run_c11 := run_sm proj_c11 mon_c11.
