(* Run/EvalC20.v — evaluates the Version model on harness cases. *)
Require Export Verif.Base.Bytes Verif.Model.Version.
Open Scope N_scope.

Inductive c20case :=
| KParse (s : bytes) (r : option version)
| KPrint (v : version) (display debug : bytes)
| KCmp (x y : version) (r : comparison) (eq : bool) (partial_agrees : bool)
| KFromArr (ns : list N) (r : version)
| KJsonSer (v : version) (r : bytes)
| KJsonDe (j : bytes) (r : option version).

Definition ver_eqb (x y : version) : bool := Version.eqb x y.
Definition over_eqb (x y : option version) : bool :=
  match x, y with Some a, Some b => ver_eqb a b | None, None => true | _, _ => false end.
Definition cmp_eqb (a b : comparison) : bool :=
  match a, b with Eq, Eq | Lt, Lt | Gt, Gt => true | _, _ => false end.

(* 0 = agrees; 1 = model and implementation differ *)
Definition check_c20 (c : c20case) : N :=
  match c with
  | KParse s r => if over_eqb (parse s) r then 0 else 1
  | KPrint v d g => if bytes_eqb (print v) d && bytes_eqb (print v) g then 0 else 1
  | KCmp x y r e p => if cmp_eqb (cmp x y) r && Bool.eqb (Version.eqb x y) e && p then 0 else 1
  | KFromArr ns r => if ver_eqb (from_array ns) r then 0 else 1
  | KJsonSer v r => if bytes_eqb (to_json v) r then 0 else 1
  | KJsonDe j r => if over_eqb (of_json j) r then 0 else 1
  end.

Definition run_c20 (cases : list (N * c20case)) : list (N * N) :=
  filter (fun p => negb (snd p =? 0)) (map (fun p => (fst p, check_c20 (snd p))) cases).
