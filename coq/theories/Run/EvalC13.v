(* Run/EvalC13.v — evaluates the generator model on harness cases *)
Require Export Verif.Model.Gen Verif.Model.GenMon.
Open Scope N_scope.

(* program, return value, consumer schedule, the implementation's observations *)
Inductive c13case := K13 (ops : list op) (ret : N) (s : schedule) (impl : list observation).

Definition check_c13 (c : c13case) : N :=
  match c with
  | K13 ops ret s impl =>
      let p := {| p_ops := ops; p_ret := ret |} in
      if negb (c13_monitor p impl) then 2
      else if negb (obs_list_eqb (run p s) impl) then 1
      else 0
  end.

Definition run_c13 (cases : list (N * c13case)) : list (N * N) :=
  filter (fun p => negb (N.eqb (snd p) 0)) (map (fun p => (fst p, check_c13 (snd p))) cases).
