(* Run/EvalC13.v — evaluates the generator model on harness cases *)
Require Export Verif.Model.Gen Verif.Model.GenMon.
Open Scope N_scope.

(* how the generator was consumed (raw Stream, .into_yielded(), .into_complete()), program,
   return value, the consumer schedule that was executed, the implementation's observations *)
Inductive c13case := K13 (md : mode) (ops : list op) (ret : N) (s : schedule) (impl : list observation).

(* code 2: the implementation's observations violate the executable monitor of
           order / exactly-once / back-pressure / no-lost-wake-up (raw stream only:
           the wrappers merge several inner polls into one)
   code 1: the observation lists differ *)
Definition check_c13 (c : c13case) : N :=
  match c with
  | K13 md ops ret s impl =>
      let p := {| p_ops := ops; p_ret := ret |} in
      if (match md with MRaw => negb (c13_monitor p impl) | _ => false end) then 2
      else if negb (obs_list_eqb (run_mode md p s) impl) then 1
      else 0
  end.

Definition run_c13 (cases : list (N * c13case)) : list (N * N) :=
  filter (fun p => negb (N.eqb (snd p) 0)) (map (fun p => (fst p, check_c13 (snd p))) cases).
