(* Run/EvalC01.v — evaluates the CUP verification model on harness cases.

   The primitives are Section variables of the model; here they are
   instantiated by finite lookup tables that the harness computed with the
   real sha2 / p256 crates (never through omaha-client).  A query the tables
   do not answer is reported as code 3 (ORACLE-MISS, a harness bug), never
   answered by a silent default: [oracle_complete] checks a superset of the
   queries [verify] can make (Run/EvalC01Facts.v: if it holds, the result
   does not depend on the default values). *)
Require Export Verif.Base.Bytes Verif.Model.Cup.
From Coq Require Import PrimInt63.
(* the case files import Coq PrimInt63 themselves for the literal notation 0x..%uint63 *)
Open Scope N_scope.

(* ---- compact byte-string literals for the generated case files ----
   Coq spends ~50 us per character on a string literal (10 constructor nodes
   per character go through type inference) and the C01 case files are several
   MB of byte strings; a primitive-integer literal is one node for 7 bytes.
   b7 len (W w1 (W w2 .. WE)): the bytes of w1, w2, .. big-endian, 7 per word,
   the last word holding the remaining len mod 7 (or 7) bytes.  Used only to
   write inputs down; no definition of the model or theorem mentions it. *)
Inductive w63 := WE | W (x : int) (r : w63).
Arguments W _%uint63 _.

(* low byte of a word as N, by its 8 bits (Uint63.to_Z walks all 63 bits and
   N division is bit-serial: both far too slow for megabytes of input) *)
Definition byte_of_int (x : int) : N :=
  let bit (i : int) (w : N) : N :=
    if PrimInt63.eqb (PrimInt63.land (PrimInt63.lsr x i) 1%uint63) 0%uint63 then 0 else w in
  bit 0%uint63 1 + bit 1%uint63 2 + bit 2%uint63 4 + bit 3%uint63 8 +
  bit 4%uint63 16 + bit 5%uint63 32 + bit 6%uint63 64 + bit 7%uint63 128.

Fixpoint word_bytes (k : nat) (x : int) (acc : bytes) : bytes :=
  match k with
  | O => acc
  | S k' => word_bytes k' (PrimInt63.lsr x 8%uint63) (byte_of_int x :: acc)
  end.

Fixpoint unpack7 (len : nat) (l : w63) : bytes :=
  match l with
  | WE => []
  | W x r => let k := Nat.min len 7 in word_bytes k x [] ++ unpack7 (len - k) r
  end.

Definition b7 (len : N) (l : w63) : bytes := unpack7 (N.to_nat len) l.
Arguments b7 _%N _.

Inductive c01case :=
| K01 (req resp nonce : bytes)                 (* retained request body, response body, 32-byte nonce *)
      (id : N)                                 (* public_key_id argument *)
      (keys : list (N * N))                    (* latest :: historical as (id, key handle) *)
      (etags : list bytes)                     (* ETag header values in order (0, 1 or 2) *)
      (sha_req sha_resp : bytes)               (* SHA-256 of req / resp above *)
      (sha_table : list (bytes * bytes))       (* further (input, SHA-256) pairs: the digest preimage *)
      (der_table : list (bytes * bool))        (* DerSignature::from_bytes(sig).is_ok() *)
      (ver_table : list (N * bytes * bytes * bool))   (* (key handle, message, sig, verifies) *)
      (impl : N + bytes).                      (* observed: inl error-variant index | inr signature bytes *)

Fixpoint assoc_bytes {A} (k : bytes) (t : list (bytes * A)) : option A :=
  match t with
  | [] => None
  | (k', v) :: r => if bytes_eqb k k' then Some v else assoc_bytes k r
  end.

Fixpoint assoc_ver (pk : N) (d s : bytes) (t : list (N * bytes * bytes * bool)) : option bool :=
  match t with
  | [] => None
  | (pk', d', s', v) :: r =>
      if (pk =? pk') && bytes_eqb d d' && bytes_eqb s s' then Some v else assoc_ver pk d s r
  end.

Definition sha_fn (dflt : bytes) (t : list (bytes * bytes)) (x : bytes) : bytes :=
  match assoc_bytes x t with Some y => y | None => dflt end.
Definition der_fn (dflt : bool) (t : list (bytes * bool)) (x : bytes) : bool :=
  match assoc_bytes x t with Some y => y | None => dflt end.
Definition ver_fn (dflt : bool) (t : list (N * bytes * bytes * bool)) (pk : N) (d s : bytes) : bool :=
  match assoc_ver pk d s t with Some y => y | None => dflt end.

Definition is_none {A} (o : option A) : bool := match o with None => true | Some _ => false end.

(* the signature candidate: whatever the signature half of the first ETag
   decodes to, whether or not the earlier checks let the code get that far *)
Definition sig_candidate (etags : list bytes) : option bytes :=
  match etags with
  | [] => None
  | h :: _ => match split_once 58 (strip_etag h) with
              | Some (sighex, _) => hex_decode sighex
              | None => None
              end
  end.

(* every query verify can possibly make is answered by the tables *)
Definition oracle_complete (sd : bytes) (keys : list (N * N)) (req resp nonce : bytes) (id : N)
           (etags : list bytes) (sha_t : list (bytes * bytes)) (der_t : list (bytes * bool))
           (ver_t : list (N * bytes * bytes * bool)) : bool :=
  let pre := digest_preimage (sha_fn sd sha_t) req resp id nonce in
  negb (is_none (assoc_bytes req sha_t)) &&
  negb (is_none (assoc_bytes resp sha_t)) &&
  negb (is_none (assoc_bytes pre sha_t)) &&
  match sig_candidate etags with
  | None => true
  | Some sg =>
      negb (is_none (assoc_bytes sg der_t)) &&
      match map_get id (build_map keys) with
      | None => true
      | Some pk => negb (is_none (assoc_ver pk (sha_fn sd sha_t pre) sg ver_t))
      end
  end.

Definition result_eqb (m : cup_error + bytes) (i : N + bytes) : bool :=
  match m, i with
  | inl e, inl n => cup_error_index e =? n
  | inr a, inr b => bytes_eqb a b
  | _, _ => false
  end.

(* 0 = agree, 1 = model and implementation differ, 3 = oracle miss *)
Definition check_c01 (c : c01case) : N :=
  match c with
  | K01 req resp nonce id keys etags sha_req sha_resp sha_t der_t ver_t impl =>
      let sha_t' := (req, sha_req) :: (resp, sha_resp) :: sha_t in
      if negb (oracle_complete [] keys req resp nonce id etags sha_t' der_t ver_t) then 3
      else
        let r := verify (sha_fn [] sha_t') (der_fn false der_t) (ver_fn false ver_t)
                        keys req resp nonce id etags in
        if result_eqb r impl then 0 else 1
  end.

Definition run_c01 (cases : list (N * c01case)) : list (N * N) :=
  filter (fun p => negb (N.eqb (snd p) 0)) (map (fun p => (fst p, check_c01 (snd p))) cases).
