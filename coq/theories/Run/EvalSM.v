(* Run/EvalSM.v — runs the state-machine model on a scripted environment and
   compares (a projection of) its trace with the implementation's trace. *)
Require Export Verif.Model.Time Verif.Base.Bytes Verif.Model.Version Verif.Model.Json Verif.Model.Proto
               Verif.Model.Request Verif.Model.Env Verif.Model.SM.
Open Scope N_scope.

Definition action_eq_dec : forall a b : action, {a = b} + {a <> b}.
Proof. repeat decide equality. Defined.

Definition action_eqb (a b : action) : bool := if action_eq_dec a b then true else false.

Inductive smcase :=
| KSm (ep : entry_point) (cfg : config) (url : urlparts) (cup : option N) (apps : list app) (e : env)
      (impl : list action) (hang_or_panic : bool).

(* back-off jitter is random in the implementation: waits inside a back-off window are compared by window *)
Definition canon_wait (d : Z) : Z :=
  (if (Z.eqb (d mod 1000000) 0) then
     let ms := d / 1000000 in
     if (500 <=? ms) && (ms <? 1500) then 1000000000
     else if (1500 <=? ms) && (ms <? 2500) then 2000000000
     else if (3500 <=? ms) && (ms <? 4500) then 4000000000
     else d
   else d)%Z.
Definition canon_action (a : action) : action :=
  match a with ATimer (WFor d) => ATimer (WFor (canon_wait d)) | _ => a end.

(* A reply is observed by the harness when it polls the requester's future, i.e. at the end of the
   state machine's poll: just before the next yielded event (or the end).  Both traces are put in
   that form before comparison. *)
Fixpoint norm_replies (held : list action) (t : list action) : list action :=
  match t with
  | [] => rev held
  | AReply i r :: rest => norm_replies (AReply i r :: held) rest
  | AEvent e :: rest => rev held ++ AEvent e :: norm_replies [] rest
  | a :: rest => a :: norm_replies held rest
  end.
Definition canon_trace (t : list action) : list action := norm_replies [] (map canon_action t).

Fixpoint first_diff (i : N) (a b : list action) : option N :=
  match a, b with
  | [], [] => None
  | x :: a', y :: b' => if action_eqb x y then first_diff (i + 1) a' b' else Some i
  | _, _ => Some i
  end.

Definition model_trace (c : smcase) : list action :=
  match c with KSm ep cfg url cup apps e _ _ => run_case ep cfg url cup apps e end.
Definition impl_trace (c : smcase) : list action := match c with KSm _ _ _ _ _ _ t _ => t end.

(* code 0 ok; 2 monitor rejects the implementation's trace (or it hung / panicked);
   100000 + i: projections differ first at index i (monitor accepted) *)
Definition sm_check (proj : action -> bool) (mon : smcase -> list action -> bool) (c : smcase) : N :=
  match c with
  | KSm ep _ _ _ _ _ impl bad =>
      if bad then 2
      else
        let it := canon_trace impl in
        if negb (mon c it) then 2
        else match first_diff 0 (filter proj (canon_trace (model_trace c))) (filter proj it) with
             | None => 0
             | Some i => 100000 + i
             end
  end.

Definition run_sm (proj : action -> bool) (mon : smcase -> list action -> bool) (cases : list (N * smcase)) : list (N * N) :=
  filter (fun p => negb (N.eqb (snd p) 0)) (map (fun p => (fst p, sm_check proj mon (snd p))) cases).

Definition proj_all (a : action) : bool := true.
Definition mon_true (c : smcase) (t : list action) : bool := true.
Definition run_sm_all := run_sm proj_all mon_true.
