(* Proofs/C08mProof.v — every model trace is accepted by step8m (Model/Monitors8m.v): while a check is under way, what is
   written to the last-contact-time key and the failure-count key is what the machine last announced. *)
Require Import Verif.Model.Time Verif.Base.Bytes Verif.Proofs.BytesFacts Verif.Model.Version Verif.Model.Json Verif.Model.Proto
               Verif.Model.Request Verif.Model.Env Verif.Model.SM Verif.Model.Monitors Verif.Model.Monitors18 Verif.Model.Monitors8m
               Verif.Proofs.Monitor Verif.Proofs.MonitorG.
From Coq Require Import Lia.
Open Scope Z_scope.

Notation TG := (tripleG step8m).

(* actions the monitor ignores in every state *)
Definition dull (a : action) : bool :=
  match a with
  | AEvent (EvState (CheckingForUpdates _)) | AEvent (EvResult _) | AEvent (EvSchedule _) | AEvent (EvProtocol _) | AStore _ _ => false
  | _ => true
  end.
Lemma step_dull q a : dull a = true -> step8m q a = Some q.
Proof.
  destruct a as [ev|pq ans|w o|c ans|c|w|op ok|mt|id src|id r]; try discriminate; try reflexivity.
  destruct ev as [s| | | | | |]; try discriminate; try reflexivity. destruct s; try discriminate; reflexivity.
Qed.
Definition L (P : q8m -> Prop) : q8m -> env -> Prop := fun q _ => P q.
(* programs that emit only such actions preserve every predicate on the monitor state *)
Definition ninv {A} (m : M A) : Prop := forall P, TG (L P) m (fun _ => L P).
Lemma ninv_ret {A} (a : A) : ninv (ret a). Proof. intros P. apply tripleG_ret. auto. Qed.
Lemma ninv_bind {A B} (m : M A) (f : A -> M B) : ninv m -> (forall a, ninv (f a)) -> ninv (bind m f).
Proof. intros Hm Hf P. eapply tripleG_bind; [apply Hm|]. intro a. apply Hf. Qed.
Lemma ninv_silent {A} (m : M A) : (forall e, e_trace (snd (m e)) = e_trace e) -> ninv m.
Proof. intros H P. apply tripleG_silent; [exact H|]. intros q e a Hp _. exact Hp. Qed.
Lemma ninv_emit a : dull a = true -> ninv (emit a).
Proof. intros H P. apply tripleG_emit. intros q e Hp. exists q. split; [apply step_dull; exact H|exact Hp]. Qed.
Lemma ninv_report x : ninv (report x). Proof. unfold report. apply ninv_emit. reflexivity. Qed.
Lemma ninv_halt {A} : ninv (@halt A). Proof. intros P. apply tripleG_halt. Qed.
Lemma ninv_iterM {A} (f : A -> M unit) l : (forall x, ninv (f x)) -> ninv (iterM f l).
Proof. intros H P. apply tripleG_iterM. intros x _. apply H. Qed.
Lemma ninv_after_event b : ninv (after_event b).
Proof.
  intros P q0 e q Hm Hp. exists q. unfold mst, after_event in *.
  destruct (c_inject (e_cs e)) as [|[k src] rest]; [split; [exact Hm|exact Hp]|].
  destruct ((k <=? c_evn (e_cs e))%N && negb b); [|split; [exact Hm|exact Hp]].
  destruct (c_incheck (e_cs e)); cbn [fst snd upd_trace set_cs e_trace rev]; (split; [|exact Hp]).
  - rewrite <- app_assoc, runmon_app, Hm. reflexivity.
  - rewrite runmon_app, Hm. reflexivity.
Qed.
Lemma ninv_yield ev : dull (AEvent ev) = true -> ninv (yield_ ev).
Proof. intro H. unfold yield_. apply ninv_bind; [apply ninv_emit; exact H|]. intros []. apply ninv_after_event. Qed.
Lemma ninv_enter_check : ninv enter_check.
Proof.
  intros P q0 e q Hm Hp. exists q. split; [|exact Hp].
  unfold mst, enter_check in *. cbn [snd upd_trace set_cs e_trace].
  rewrite rev_app_distr, rev_involutive, runmon_app, Hm.
  induction (c_inq (e_cs e)) as [|x r IH]; cbn [map runmon]; [reflexivity|exact IH].
Qed.
Ltac sil := apply ninv_silent; intro e; reflexivity.
Lemma ninv_pop_queued : ninv pop_queued. Proof. apply ninv_silent. intro e. unfold pop_queued. destruct (c_inq (e_cs e)); reflexivity. Qed.
Lemma ninv_do_outer_select roles : ninv (do_outer_select roles).
Proof.
  intros P. unfold do_outer_select. eapply tripleG_bind; [apply ninv_pop_queued|].
  intros [[id src]|]; [apply tripleG_ret; auto|].
  intros q0 e q Hm Hp. exists q. unfold mst in *.
  destruct (outer_select (e_stim e) roles (e_ctl e)) as [[[[[src id]|] r] c]|]; cbn [fst snd upd_trace set_stim e_trace rev].
  - split; [rewrite runmon_app, Hm; reflexivity|exact Hp].
  - split; [exact Hm|exact Hp].
  - split; [exact Hm|exact I].
Qed.
Lemma ninv_read_clock : ninv read_clock. Proof. apply ninv_silent. intro e. unfold read_clock. destruct (e_clock e); reflexivity. Qed.
Lemma ninv_pop_next_time : ninv pop_next_time. Proof. apply ninv_silent. intro e. unfold pop_next_time. destruct (q_next_time e); reflexivity. Qed.
Lemma ninv_pop_allowed : ninv pop_allowed. Proof. apply ninv_silent. intro e. unfold pop_allowed. destruct (q_allowed e); reflexivity. Qed.
Lemma ninv_pop_can_start : ninv pop_can_start. Proof. apply ninv_silent. intro e. unfold pop_can_start. destruct (q_can_start e); reflexivity. Qed.
Lemma ninv_pop_reboot_needed : ninv pop_reboot_needed. Proof. apply ninv_silent. intro e. unfold pop_reboot_needed. destruct (q_reboot_needed e); reflexivity. Qed.
Lemma ninv_pop_reboot_allowed : ninv pop_reboot_allowed. Proof. apply ninv_silent. intro e. unfold pop_reboot_allowed. destruct (q_reboot_allowed e); reflexivity. Qed.
Lemma ninv_pop_http : ninv pop_http. Proof. apply ninv_silent. intro e. unfold pop_http. destruct (q_http e); reflexivity. Qed.
Lemma ninv_pop_plan : ninv pop_plan. Proof. apply ninv_silent. intro e. unfold pop_plan. destruct (q_plan e); reflexivity. Qed.
Lemma ninv_pop_perform : ninv pop_perform. Proof. apply ninv_silent. intro e. unfold pop_perform. destruct (q_perform e); reflexivity. Qed.
Lemma ninv_pop_reboot : ninv pop_reboot. Proof. apply ninv_silent. intro e. unfold pop_reboot. destruct (q_reboot e); reflexivity. Qed.
Lemma ninv_pop_backoff : ninv pop_backoff. Proof. apply ninv_silent. intro e. unfold pop_backoff. destruct (q_backoff e); reflexivity. Qed.
Lemma ninv_pop_stim : ninv pop_stim. Proof. apply ninv_silent. intro e. unfold pop_stim. destruct (e_stim e); reflexivity. Qed.
Lemma ninv_canon_guid d : ninv (canon_guid d). Proof. apply ninv_silent. intro e. unfold canon_guid. destruct (glookup (e_guids e) d); reflexivity. Qed.
Lemma ninv_st_get_time k : ninv (st_get_time k).
Proof. unfold st_get_time. apply ninv_bind; [sil|intro; apply ninv_ret]. Qed.
Lemma ninv_with_ids b s r : ninv (with_ids b s r).
Proof. unfold with_ids. apply ninv_bind; [apply ninv_canon_guid|intro]. apply ninv_bind; [apply ninv_canon_guid|intro]. apply ninv_ret. Qed.
Lemma ninv_maybe_ids (c : bool) b s r : ninv (if c then with_ids b s r else ret b).
Proof. destruct c; [apply ninv_with_ids|apply ninv_ret]. Qed.
Lemma ninv_now : ninv now.
Proof. unfold now. apply ninv_bind; [apply ninv_read_clock|intro c]. apply ninv_bind; [apply ninv_emit; reflexivity|intro; apply ninv_ret]. Qed.
Lemma ninv_report_check_interval src m : ninv (report_check_interval src m).
Proof.
  unfold report_check_interval. apply ninv_bind; [apply ninv_now|intro n]. apply ninv_bind; [|intro; apply ninv_ret].
  destruct (s_last_check (m_sched m)) as [[w|mm|c]|]; try apply ninv_ret.
  - destruct (w <=? wall n); [apply ninv_report|apply ninv_ret].
  - destruct (mono c <=? mono n); [apply ninv_report|apply ninv_ret].
Qed.
Lemma ninv_make_wait t : ninv (make_wait t).
Proof.
  unfold make_wait. destruct (t_min t).
  - apply ninv_bind; [apply ninv_emit; reflexivity|intro]. apply ninv_bind; [apply ninv_emit; reflexivity|intro]. apply ninv_ret.
  - apply ninv_bind; [apply ninv_emit; reflexivity|intro]. apply ninv_ret.
Qed.
Lemma ninv_ask_reboot src : ninv (ask_reboot_allowed src).
Proof.
  unfold ask_reboot_allowed. apply ninv_bind; [apply ninv_pop_reboot_allowed|intro b].
  apply ninv_bind; [apply ninv_emit; reflexivity|intro]. apply ninv_ret.
Qed.
Lemma ninv_handle_in_reboot id sc0 : ninv (handle_in_reboot id sc0).
Proof. unfold handle_in_reboot. apply ninv_bind; [apply ninv_emit; reflexivity|intro]. destruct sc0; [apply ninv_ask_reboot|apply ninv_ret]. Qed.

(* ---------- stores ---------- *)
(* a key other than the two bookkeeping keys: ignored in every state *)
Definition safe_op (op : store_op) : bool := negb (key_is K_LAST_UPDATE_TIME op) && negb (key_is K_FAILED_CHECKS op).
Lemma step_safe q op ok : safe_op op = true -> step8m q (AStore op ok) = Some q.
Proof.
  unfold safe_op, step8m. intro H. apply andb_prop in H. destruct H as [H1 H2].
  destruct (in8m q); [|reflexivity]. destruct (key_is K_LAST_UPDATE_TIME op); [discriminate|]. destruct (key_is K_FAILED_CHECKS op); [discriminate|reflexivity].
Qed.
Lemma step_out q op ok : in8m q = false -> step8m q (AStore op ok) = Some q.
Proof. intro H. unfold step8m. rewrite H. reflexivity. Qed.
Lemma T_write_gen op (P : q8m -> Prop) : (forall q ok, P q -> step8m q (AStore op ok) = Some q) -> TG (L P) (st_write op) (fun _ => L P).
Proof.
  intros H q0 e q Hq Hp. exists q. split.
  - unfold mst, st_write. cbn [snd upd_trace e_trace rev]. rewrite runmon_app. unfold mst in Hq. rewrite Hq. cbn [runmon]. rewrite H; [reflexivity|exact Hp].
  - cbn [fst st_write]. exact Hp.
Qed.
Lemma ninv_write_safe op : safe_op op = true -> ninv (st_write op).
Proof. intros H P. apply T_write_gen. intros q ok _. apply step_safe. exact H. Qed.
(* outside a check every store is ignored *)
Definition OutP (P : q8m -> Prop) : Prop := forall q, P q -> in8m q = false.
Definition oinv {A} (m : M A) : Prop := forall P, OutP P -> TG (L P) m (fun _ => L P).
Lemma oinv_n {A} (m : M A) : ninv m -> oinv m. Proof. intros H P _. apply H. Qed.
Lemma oinv_ret {A} (a : A) : oinv (ret a). Proof. apply oinv_n, ninv_ret. Qed.
Lemma oinv_bind {A B} (m : M A) (f : A -> M B) : oinv m -> (forall a, oinv (f a)) -> oinv (bind m f).
Proof. intros Hm Hf P HP. eapply tripleG_bind; [apply Hm; exact HP|]. intro a. apply Hf. exact HP. Qed.
Lemma oinv_write op : oinv (st_write op).
Proof. intros P HP. apply T_write_gen. intros q ok Hq. apply step_out. apply HP. exact Hq. Qed.
Lemma oinv_iterM {A} (f : A -> M unit) l : (forall x, oinv (f x)) -> oinv (iterM f l).
Proof. intros H P HP. apply tripleG_iterM. intros x _. apply H. exact HP. Qed.
Lemma oinv_set_opt k v : oinv (st_set_option_int k v).
Proof. unfold st_set_option_int. destruct v; apply oinv_write. Qed.
Lemma oinv_ctx_persist s ps : oinv (ctx_persist s ps).
Proof. unfold ctx_persist. repeat (apply oinv_bind; [apply oinv_set_opt|intro]). apply oinv_ret. Qed.
Lemma oinv_persist_data m : oinv (persist_data m).
Proof.
  unfold persist_data. apply oinv_bind; [apply oinv_ctx_persist|intro]. apply oinv_bind.
  - apply oinv_iterM. intro ap. apply oinv_bind; [apply oinv_write|intro; apply oinv_ret].
  - intro. apply oinv_bind; [apply oinv_write|intro; apply oinv_ret].
Qed.
(* the keys the check itself writes are not the two bookkeeping keys *)
Lemma ninv_set_opt_safe k v : safe_op (SRemove k) = true -> ninv (st_set_option_int k v).
Proof.
  intro H. unfold st_set_option_int. destruct v; apply ninv_write_safe; [|exact H].
  unfold safe_op, key_is in *. cbn [op_key] in *. exact H.
Qed.
Lemma ninv_record_first_seen plan t : ninv (record_first_seen plan t).
Proof.
  unfold record_first_seen. apply ninv_bind; [sil|intro prev].
  assert (Hnew : ninv (ok1 <- st_write (SSetStr K_INSTALL_PLAN_ID plan);;
                        (if negb ok1 then ret t
                         else ok2 <- st_set_time K_FIRST_SEEN t;;
                              (if negb ok2 then st_write (SRemove K_INSTALL_PLAN_ID);;; ret t else st_write SCommit;;; ret t)))).
  { apply ninv_bind; [apply ninv_write_safe; reflexivity|intro ok1]. destruct (negb ok1); [apply ninv_ret|].
    apply ninv_bind; [apply ninv_set_opt_safe; reflexivity|intro ok2]. destruct (negb ok2);
      (apply ninv_bind; [apply ninv_write_safe; reflexivity|intro; apply ninv_ret]). }
  destruct prev as [p|]; [|exact Hnew].
  destruct (bytes_eqb p plan); [|exact Hnew].
  apply ninv_bind; [apply ninv_st_get_time|intro]. apply ninv_ret.
Qed.
Lemma ninv_report_attempts s : ninv (report_attempts_to_successful_install s).
Proof.
  unfold report_attempts_to_successful_install. apply ninv_bind; [sil|intro].
  apply ninv_bind; [apply ninv_report|intro]. apply ninv_bind; [destruct s; apply ninv_write_safe; reflexivity|intro]. apply ninv_ret.
Qed.

(* ---------- the invariant: what was last announced as last-contact time is what the machine holds ---------- *)
Definition J (m : sm) (q : q8m) : Prop := forall x, annlu8m q = Some x -> s_last_update (m_sched m) = x.
Definition Ph (b : bool) (m : sm) (q : q8m) : Prop := in8m q = b /\ J m q.
Lemma OutP_Ph m : OutP (Ph false m). Proof. intros q [H _]. exact H. Qed.
Definition slu (m m' : sm) : Prop := s_last_update (m_sched m') = s_last_update (m_sched m).
Lemma Ph_ext b m m' q : slu m m' -> Ph b m q -> Ph b m' q.
Proof. intros H [H1 H2]. split; [exact H1|]. intros x Hx. rewrite H. apply H2. exact Hx. Qed.

Ltac rj := apply tripleG_ret; auto.
Lemma key_lu lu : key_is K_LAST_UPDATE_TIME (lu_store_op lu) = true.
Proof. unfold lu_store_op. destruct (match lu with Some p => pct_to_micros p | None => None end); reflexivity. Qed.
Lemma key_f1 f : key_is K_LAST_UPDATE_TIME (fails_store_op f) = false.
Proof. unfold fails_store_op. destruct (f =? 0); reflexivity. Qed.
Lemma key_f2 f : key_is K_FAILED_CHECKS (fails_store_op f) = true.
Proof. unfold fails_store_op. destruct (f =? 0); reflexivity. Qed.
Lemma store_op_eqb_refl op : store_op_eqb op op = true.
Proof. destruct op; cbn; rewrite ?bytes_eqb_refl, ?Z.eqb_refl; reflexivity. Qed.

(* the poll interval changed in the middle of a check: announced, stored and committed at once *)
Lemma T_poll_change b m1 : 
  TG (L (Ph b m1)) (yield_ (EvProtocol (m_ps m1));;; ctx_persist (m_sched m1) (m_ps m1);;; st_write SCommit;;; ret m1) (fun r => L (Ph b r)).
Proof.
  set (Q := fun q => Ph b m1 q /\ annf8m q = Some (ps_fails (m_ps m1))).
  eapply tripleG_bind with (R := fun _ => L Q).
  { unfold yield_. eapply tripleG_bind with (R := fun _ => L Q); [|intros []; apply (ninv_after_event _ Q)].
    apply tripleG_emit. intros q e [Hi HJ]. eexists. split; [reflexivity|]. split; [split; [exact Hi|exact HJ]|reflexivity]. }
  intro. cbv beta.
  assert (Hw : forall op, (forall q ok, Q q -> step8m q (AStore op ok) = Some q) -> TG (L Q) (st_write op) (fun _ => L Q)) by (intros op H; apply T_write_gen; exact H).
  assert (Hlu : forall q ok, Q q -> step8m q (AStore (lu_store_op (s_last_update (m_sched m1))) ok) = Some q).
  { intros q ok [[Hi HJ] Hf]. unfold step8m. destruct (in8m q); [|reflexivity]. rewrite key_lu.
    destruct (annlu8m q) as [lu|] eqn:E; [|reflexivity]. rewrite <- (HJ lu E), store_op_eqb_refl. reflexivity. }
  assert (Hfl : forall q ok, Q q -> step8m q (AStore (fails_store_op (ps_fails (m_ps m1))) ok) = Some q).
  { intros q ok [[Hi HJ] Hf]. unfold step8m. destruct (in8m q); [|reflexivity]. rewrite key_f1, key_f2, Hf, store_op_eqb_refl. reflexivity. }
  eapply tripleG_bind with (R := fun _ => L Q).
  { unfold ctx_persist.
    eapply tripleG_bind with (R := fun _ => L Q).
    { unfold st_set_option_int at 1. pose proof Hlu as H. unfold lu_store_op in H.
      destruct (match s_last_update (m_sched m1) with Some p => pct_to_micros p | None => None end); apply Hw; exact H. }
    intro. cbv beta.
    eapply tripleG_bind with (R := fun _ => L Q); [apply (ninv_set_opt_safe K_POLL_INTERVAL _ eq_refl Q)|].
    intro. cbv beta.
    eapply tripleG_bind with (R := fun _ => L Q); [|intro; apply tripleG_ret; auto].
    unfold st_set_option_int. pose proof Hfl as H. unfold fails_store_op in H. destruct (ps_fails (m_ps m1) =? 0); apply Hw; exact H. }
  intro. cbv beta. eapply tripleG_bind; [apply (ninv_write_safe SCommit eq_refl Q)|]. intro. cbv beta.
  apply tripleG_ret. intros q e [H _]. exact H.
Qed.

(* ---------- the flow ---------- *)
Lemma ninv_fresh_guid : ninv fresh_guid. Proof. apply ninv_silent. intro e. reflexivity. Qed.
Lemma ninv_fresh_nonce : ninv fresh_nonce. Proof. apply ninv_silent. intro e. reflexivity. Qed.
Lemma ninv_set_incheck b : ninv (set_incheck b). Proof. apply ninv_silent. intro e. reflexivity. Qed.
Lemma ninv_take_upgrade : ninv take_upgrade. Proof. apply ninv_silent. intro e. reflexivity. Qed.
Lemma ninv_st_get_str k : ninv (st_get_str k). Proof. apply ninv_silent. intro e. reflexivity. Qed.
Lemma ninv_next_ctl : ninv next_ctl. Proof. apply ninv_silent. intro e. reflexivity. Qed.
Ltac nn H := eapply tripleG_bind; [eapply H|intro; cbv beta].
Tactic Notation "nna" constr(H) "as" ident(x) := eapply tripleG_bind; [eapply H|intro x; cbv beta].
Ltac no H := eapply tripleG_bind; [eapply H; apply OutP_Ph|intro; cbv beta].
Ltac ny := match goal with
  | |- TG (L ?P) (bind (yield_ ?ev) _) _ => eapply tripleG_bind; [apply (ninv_yield ev eq_refl P)|intro; cbv beta]
  | |- TG (L ?P) (bind (yield_state ?s) _) _ => eapply tripleG_bind; [apply (ninv_yield (EvState s) eq_refl P)|intro; cbv beta]
  end.
Ltac ne := match goal with |- TG (L ?P) (bind (emit ?a) _) _ => eapply tripleG_bind; [apply (ninv_emit a eq_refl P)|intro; cbv beta] end.

(* announcing the machine's own schedule re-establishes the invariant whatever was announced before *)
Lemma T_yield_sched b m (P : q8m -> Prop) : (forall q, P q -> in8m q = b) ->
  TG (L P) (yield_ (EvSchedule (m_sched m))) (fun _ => L (Ph b m)).
Proof.
  intro HP. unfold yield_. eapply tripleG_bind with (R := fun _ => L (Ph b m)); [|intros []; apply (ninv_after_event _ (Ph b m))].
  apply tripleG_emit. intros q e Hq. eexists. split; [reflexivity|]. split; [cbn; apply HP; exact Hq|]. intros x Hx. cbn in Hx. inversion Hx. reflexivity.
Qed.
Lemma T_yield_proto b m ps : TG (L (Ph b m)) (yield_ (EvProtocol ps)) (fun _ => L (Ph b m)).
Proof.
  unfold yield_. eapply tripleG_bind with (R := fun _ => L (Ph b m)); [|intros []; apply (ninv_after_event _ (Ph b m))].
  apply tripleG_emit. intros q e [Hi HJ]. eexists. split; [reflexivity|]. split; [exact Hi|exact HJ].
Qed.

Lemma T_do_req b bld m : TG (L (Ph b m)) (do_omaha_request bld m) (fun r => L (Ph b (fst r))).
Proof.
  unfold do_omaha_request.
  destruct (negb (u_valid (m_url m))); [rj|].
  destruct (negb (headers_ok (m_cfg m) bld)).
  { eapply tripleG_bind with (R := fun _ => L (Ph b m)); [|intro; rj]. destruct (m_cup m); [|rj]. nn ninv_fresh_nonce. rj. }
  eapply tripleG_bind with (R := fun _ => L (Ph b m)).
  { destruct (m_cup m); [|rj]. eapply tripleG_bind; [apply ninv_fresh_nonce|intro; rj]. }
  intro uri. cbv beta. nna ninv_pop_http as o. ne.
  destruct o as [k|status ra au bd]; [rj|].
  destruct (match m_cup m with Some _ => negb au | None => false end); [rj|].
  eapply tripleG_bind with (R := fun m' => L (Ph b m')).
  { destruct (oZ_eqb (ps_poll (m_ps m)) (parse_retry_after ra)); [rj|]. cbv zeta.
    eapply tripleG_conseq; [apply (T_poll_change b (with_ps m (set_poll (m_ps m) (parse_retry_after ra))))|intros q e H; eapply Ph_ext; [|exact H]; reflexivity|intros ? q e H; exact H]. }
  intro m'. cbv beta. destruct ((200 <=? status) && (status <? 300))%N; rj.
Qed.
Lemma T_report_event b p ev apps sess nv dur m : TG (L (Ph b m)) (report_event p ev apps sess nv dur m) (fun m' => L (Ph b m')).
Proof.
  unfold report_event. nna ninv_fresh_guid as req. nna ninv_maybe_ids as bld.
  eapply tripleG_bind; [apply T_do_req|]. intros [m' [e|bd]]; cbv beta; cbn [fst]; [|rj]. nn ninv_report. rj.
Qed.
Lemma T_attempt_loop b b0 sess fuel : forall attempt m, TG (L (Ph b m)) (attempt_loop fuel attempt b0 sess m) (fun r => L (Ph b (fst (fst r)))).
Proof.
  induction fuel as [|f IH]; intros attempt m; cbn [attempt_loop]; [apply tripleG_halt|].
  nna ninv_now as start. nna ninv_fresh_guid as req. nna ninv_maybe_ids as bld.
  eapply tripleG_bind; [apply T_do_req|]. intros [m1 res]. cbv beta. cbn [fst].
  nna ninv_now as fin.
  eapply tripleG_bind with (R := fun _ => L (Ph b m1)).
  { match goal with |- TG _ (if ?c then _ else _) _ => destruct c end; [apply ninv_report|rj]. }
  intro. cbv beta. destruct res as [e|bd]; [|rj].
  match goal with |- TG _ (if ?c then _ else _) _ => destruct c end.
  - ny. rj.
  - nna ninv_pop_backoff as r. ne. apply IH.
Qed.

Lemma T_report_check_interval b src m : TG (L (Ph b m)) (report_check_interval src m) (fun m0 => L (Ph b m0)).
Proof.
  unfold report_check_interval. nna ninv_now as n.
  eapply tripleG_bind with (R := fun _ => L (Ph b m)).
  { destruct (s_last_check (m_sched m)) as [[w|mm|c]|]; try rj.
    - destruct (w <=? wall n); [apply ninv_report|rj].
    - destruct (mono c <=? mono n); [apply ninv_report|rj]. }
  intro. cbv beta. apply tripleG_ret. intros q e H. eapply Ph_ext; [|exact H]. reflexivity.
Qed.

Lemma T_perform fuel p apps m : TG (L (Ph false m)) (perform_update_check fuel p apps m) (fun r => L (Ph true (fst r))).
Proof.
  unfold perform_update_check.
  eapply tripleG_bind with (R := fun _ => L (Ph true m)).
  { unfold yield_state, yield_. eapply tripleG_bind with (R := fun _ => L (Ph true m)); [|intros []; apply (ninv_after_event _ (Ph true m))].
    apply tripleG_emit. intros q e [Hi HJ]. eexists. split; [reflexivity|]. split; [reflexivity|exact HJ]. }
  intro. cbv beta.
  eapply tripleG_bind; [apply T_report_check_interval|]. intro m0. cbv beta.
  nna ninv_fresh_guid as sess.
  eapply tripleG_bind; [apply T_attempt_loop|]. intros [[m1 attempts] res]. cbv beta. cbn [fst].
  nn ninv_report.
  destruct res as [e|[d|]].
  - rj.
  - ny. destruct (filter uc_ok (d_apps d)) as [|wu0 wur]; [ny; rj|].
    nna ninv_pop_plan as pl. ne.
    destruct pl as [plan|].
    2:{ ny. ny. eapply tripleG_bind; [apply T_report_event|]. intro m2. cbv beta. rj. }
    nna ninv_pop_can_start as dec. ne.
    destruct dec.
    + ny. eapply tripleG_bind; [apply T_report_event|]. intro m2. cbv beta.
      nna ninv_now as t0. nna ninv_record_first_seen as fs. nna ninv_pop_perform as pa. ne.
      eapply tripleG_bind; [apply (ninv_iterM _ _ (fun bits => ninv_yield (EvProgress bits) eq_refl))|]. intro. cbv beta.
      nna ninv_now as t1.
      eapply tripleG_bind with (R := fun _ => L (Ph true m2)).
      { match goal with |- TG _ (if ?c then _ else _) _ => destruct c end; [|rj]. nn ninv_report. rj. }
      intro dur. cbv beta. nna ninv_fresh_guid as req. nna ninv_maybe_ids as bld.
      eapply tripleG_bind; [apply T_do_req|]. intros [m3 rr]. cbv beta. cbn [fst].
      eapply tripleG_bind with (R := fun _ => L (Ph true m3)).
      { destruct rr; [|rj]. apply (ninv_iterM _ _ (fun x => ninv_report _)). }
      intro. cbv beta.
      eapply tripleG_bind with (R := fun m4 => L (Ph true m4)).
      { match goal with |- TG _ (match ?l with [] => _ | _ => _ end) _ => destruct l end; [rj|apply T_report_event]. }
      intro m4. cbv beta.
      match goal with |- TG _ (match ?n with O => _ | S _ => _ end) _ => destruct n as [|nerr] end.
      * eapply tripleG_bind with (R := fun _ => L (Ph true m4)).
        { match goal with |- TG _ (if ?c then _ else _) _ => destruct c end; [apply ninv_report|rj]. }
        intro. cbv beta. eapply tripleG_bind; [apply (ninv_set_opt_safe K_FINISH_TIME _ eq_refl)|intro; cbv beta].
        eapply tripleG_bind with (R := fun _ => L (Ph true m4)).
        { match goal with |- TG _ (match ?x with Some _ => _ | None => _ end) _ => destruct x end; [|rj].
          eapply tripleG_bind; [apply ninv_write_safe; reflexivity|intro; cbv beta]. rj. }
        intro. cbv beta. eapply tripleG_bind; [apply (ninv_write_safe SCommit eq_refl)|intro; cbv beta].
        nna ninv_pop_reboot_needed as rn. ne. rj.
      * eapply tripleG_bind; [apply (ninv_iterM _ _ (fun _ : unit => ninv_yield EvInstallerError eq_refl))|]. intro. cbv beta. ny. rj.
    + eapply tripleG_bind; [apply T_report_event|]. intro m2. cbv beta. ny. rj.
    + eapply tripleG_bind; [apply T_report_event|]. intro m2. cbv beta. rj.
  - ny. eapply tripleG_bind; [apply T_report_event|]. intro m2. cbv beta. rj.
Qed.

Definition InT (q : q8m) : Prop := in8m q = true.

Lemma T_start fuel p m : TG (L (Ph false m)) (start_update_check fuel p m) (fun r => L (Ph false (fst r))).
Proof.
  unfold start_update_check. eapply tripleG_bind; [apply T_perform|]. intros [m1 res]. cbv beta. cbn [fst].
  (* the bookkeeping of the finished check changes the machine's last-contact time: only "inside a check" is kept
     until the new schedule is announced *)
  eapply tripleG_bind with (R := fun _ => L InT).
  { eapply tripleG_conseq with (P' := L InT) (Q' := fun _ => L InT); [|intros q e [H _]; exact H|auto].
    destruct res as [e|[rs rb]].
    - eapply tripleG_bind with (R := fun _ => L InT).
      + destruct e as [re| |]; [destruct re; rj| |]; (nna ninv_now as n; rj).
      + intros [m2 reason]. nn ninv_report. rj.
    - nna ninv_now as n. nn ninv_report.
      eapply tripleG_bind; [destruct (install_success rs); [apply ninv_report_attempts|apply ninv_ret]|]. intro. cbv beta. rj. }
  intros [[m2 result] rb]. cbv beta.
  eapply tripleG_bind; [apply (T_yield_sched true m2 InT); auto|]. intro. cbv beta.
  eapply tripleG_bind; [apply T_yield_proto|]. intro. cbv beta.
  eapply tripleG_bind with (R := fun _ => L (Ph false m2)).
  { unfold yield_. eapply tripleG_bind with (R := fun _ => L (Ph false m2)); [|intros []; apply (ninv_after_event _ (Ph false m2))].
    apply tripleG_emit. intros q e [Hi HJ]. eexists. split; [reflexivity|]. split; [reflexivity|exact HJ]. }
  intro. cbv beta. no oinv_persist_data. rj.
Qed.

Lemma T_update_next m : TG (L (Ph false m)) (update_next_update_time m) (fun r => L (Ph false (fst r))).
Proof.
  unfold update_next_update_time. nna ninv_pop_next_time as t. ne. cbv zeta.
  eapply tripleG_bind; [apply (T_yield_sched false _ (Ph false m)); intros q [H _]; exact H|]. intro. cbv beta. rj.
Qed.

Lemma T_ping m : TG (L (Ph false m)) (ping_omaha m) (fun m' => L (Ph false m')).
Proof.
  unfold ping_omaha. cbv zeta. nna ninv_fresh_guid as sess. nna ninv_fresh_guid as req. nna ninv_maybe_ids as bld.
  eapply tripleG_bind; [apply T_do_req|]. intros [m1 res]. cbv beta. cbn [fst].
  assert (Hf : TG (L (Ph false m1)) (persist_data (with_ps m1 (set_fails (m_ps m1) (sat_inc_u32 (ps_fails (m_ps m1)))));;;
                     ret (with_ps m1 (set_fails (m_ps m1) (sat_inc_u32 (ps_fails (m_ps m1)))))) (fun m' => L (Ph false m'))).
  { no oinv_persist_data. apply tripleG_ret. intros q e H. eapply Ph_ext; [|exact H]. reflexivity. }
  destruct res as [er|[d|]]; [exact Hf| |exact Hf].
  eapply tripleG_conseq with (P' := L (fun q => in8m q = false)) (Q' := fun m' => L (Ph false m')); [|intros q e [H _]; exact H|auto].
  nna ninv_now as n.
  eapply tripleG_bind; [apply (T_yield_sched false _ (fun q => in8m q = false)); auto|]. intro. cbv beta.
  no oinv_persist_data. apply tripleG_ret. intros q e H. eapply Ph_ext; [|exact H]. reflexivity.
Qed.

Lemma T_reboot_loop fuel : forall src pending m, TG (L (Ph false m)) (reboot_loop fuel src pending m) (fun m' => L (Ph false m')).
Proof.
  induction fuel as [|f IH]; intros src pending m; cbn [reboot_loop]; [apply tripleG_halt|].
  nna ninv_pop_queued as qd. destruct qd as [[id sc]|].
  { nna ninv_handle_in_reboot as go. destruct go; [rj|apply IH]. }
  nna ninv_pop_stim as st. destruct st as [i|sc|].
  - assert (Hping : TG (L (Ph false m)) (m1 <- ping_omaha m;; mt <- update_next_update_time m1;;
                            (let '(m2, t) := mt in roles <- make_wait t;; reboot_loop f src (remove_nth i pending ++ roles) m2)) (fun m' => L (Ph false m'))).
    { eapply tripleG_bind; [apply T_ping|]. intro m1. cbv beta. eapply tripleG_bind; [apply T_update_next|]. intros [m2 t]. cbv beta. cbn [fst].
      nna ninv_make_wait as roles. apply IH. }
    destruct (nth_error pending i) as [[| |]|].
    + destruct (has_ping_roles (remove_nth i pending)); [apply IH|exact Hping].
    + destruct (has_ping_roles (remove_nth i pending)); [apply IH|exact Hping].
    + nna ninv_ask_reboot as ok. destruct ok; [rj|]. ne. apply IH.
    + apply IH.
  - nna ninv_next_ctl as id. ne. nna ninv_handle_in_reboot as go. destruct go; [rj|apply IH].
  - apply IH.
Qed.
Lemma T_wait_for_reboot fuel src m : TG (L (Ph false m)) (wait_for_reboot fuel src m) (fun m' => L (Ph false m')).
Proof.
  unfold wait_for_reboot. nna ninv_ask_reboot as ok.
  eapply tripleG_bind with (R := fun m' => L (Ph false m')).
  { destruct ok; [rj|]. ne. eapply tripleG_bind; [apply T_update_next|]. intros [m1 t]. cbv beta. cbn [fst]. nna ninv_make_wait as roles. apply T_reboot_loop. }
  intro m1. cbv beta. nna ninv_pop_reboot as okr. ne. rj.
Qed.

Lemma T_run_iteration fuel finish start_mono sr m : TG (L (Ph false m)) (run_iteration fuel finish start_mono sr m) (fun r => L (Ph false (fst r))).
Proof.
  unfold run_iteration.
  eapply tripleG_bind with (R := fun _ => L (Ph false m)).
  { destruct sr; [|rj]. nna ninv_now as n.
    match goal with |- TG _ (match ?x with Some _ => _ | None => _ end) _ => destruct x end; [|rj].
    nn ninv_report. no oinv_write. no oinv_write. no oinv_write. rj. }
  intro sr'. cbv beta. eapply tripleG_bind; [apply T_update_next|]. intros [m1 t]. cbv beta. cbn [fst].
  nna ninv_make_wait as roles. nna ninv_do_outer_select as sel. nna ninv_pop_allowed as dec. ne.
  assert (Hrep : forall r, TG (L (Ph false m1)) (match sel with Some (_, id) => emit (AReply id r) | None => ret tt end) (fun _ => L (Ph false m1))).
  { intro r. destruct sel as [[s id]|]; [apply (ninv_emit (AReply id r) eq_refl)|rj]. }
  destruct dec.
  1,2: (eapply tripleG_bind; [apply Hrep|intro; cbv beta]; nn ninv_enter_check;
        eapply tripleG_bind; [apply T_start|]; intros [m2 rb]; cbv beta; cbn [fst];
        nn ninv_set_incheck; nna ninv_take_upgrade as upg;
        eapply tripleG_bind with (R := fun m' => L (Ph false m'));
        [destruct rb as [pl|]; [ny; apply T_wait_for_reboot|rj]|intro m3; cbv beta]; ny; rj).
  all: (eapply tripleG_bind; [apply Hrep|intro; cbv beta]; rj).
Qed.

Lemma T_run_loop iters : forall fuel finish start_mono sr m, TG (L (Ph false m)) (run_loop iters fuel finish start_mono sr m) (fun m' => L (Ph false m')).
Proof.
  induction iters as [|k IH]; intros; cbn [run_loop]; [apply tripleG_halt|].
  eapply tripleG_bind; [apply T_run_iteration|]. intros [m' sr']. cbv beta. cbn [fst]. apply IH.
Qed.
Lemma T_run iters fuel m : TG (L (Ph false m)) (run iters fuel m) (fun m' => L (Ph false m')).
Proof.
  unfold run. destruct (negb (forallb app_valid (m_apps m))); [rj|].
  nna ninv_now as n. nna ninv_st_get_time as fin. nna ninv_st_get_str as tv. apply T_run_loop.
Qed.
Lemma T_oneshot fuel m : TG (L (Ph false m)) (oneshot fuel m) (fun m' => L (Ph false m')).
Proof. unfold oneshot. eapply tripleG_bind; [apply T_start|]. intros [m' rb]. cbv beta. cbn [fst]. rj. Qed.

Theorem model_accepted_c08m ep cfg url cup apps e :
  e_trace e = [] -> accepts step8m init8m (run_case ep cfg url cup apps e) = true.
Proof.
  intros Ht. unfold run_case, accepts.
  assert (Hm0 : mst step8m init8m e = Some init8m) by (unfold mst; rewrite Ht; reflexivity).
  assert (HI : L (Ph false (build cfg url cup apps (e_store e))) init8m e).
  { split; [reflexivity|]. intros x Hx. discriminate Hx. }
  destruct ep.
  - destruct (T_run (Datatypes.S (length (e_stim e) + length (c_inject (e_cs e)))) (4 + length (e_stim e) + length (c_inject (e_cs e)))
                (build cfg url cup apps (e_store e)) init8m e init8m Hm0 HI) as (q' & Hq' & _).
    destruct (run _ _ _ e) as [r e'] eqn:E. cbn [snd] in Hq'. unfold mst in Hq'. rewrite Hq'. reflexivity.
  - destruct (T_oneshot (4 + length (e_stim e) + length (c_inject (e_cs e))) (build cfg url cup apps (e_store e)) init8m e init8m Hm0 HI) as (q' & Hq' & _).
    destruct (oneshot _ _ e) as [r e'] eqn:E. cbn [snd] in Hq'. unfold mst in Hq'. rewrite Hq'. reflexivity.
Qed.
