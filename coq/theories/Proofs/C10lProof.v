(* Proofs/C10lProof.v — every model trace is accepted by step10l (Model/Monitors10l.v): when the configuration lets
   every request be built, a lost-event metric follows only a request whose exchange failed. *)
Require Import Verif.Model.Time Verif.Base.Bytes Verif.Proofs.BytesFacts Verif.Model.Version Verif.Model.Json Verif.Model.Proto
               Verif.Model.Request Verif.Model.Env Verif.Model.SM Verif.Model.Monitors Verif.Model.Monitors10l
               Verif.Proofs.Monitor Verif.Proofs.MonitorG Verif.Proofs.C06rtProof.
From Coq Require Import Lia.
Open Scope Z_scope.

Notation TK := (tripleG step10l).

(* ---------- the configuration and the app ids of the machine never change ---------- *)
Definition sk (m m' : sm) : Prop := m_cfg m' = m_cfg m /\ map a_id (m_apps m') = map a_id (m_apps m).
Ltac skrefl := split; reflexivity.
Ltac ra := eapply retp_bind; [apply retp_any|]; intros ? _.
Lemma ids_update apps rs : map a_id (update_from_omaha apps rs) = map a_id apps.
Proof.
  unfold update_from_omaha. rewrite map_map. apply map_ext. intro a. unfold update_app.
  destruct (find _ rs); reflexivity.
Qed.
Lemma rk_do_req b m : retp (do_omaha_request b m) (fun r => sk m (fst r)).
Proof.
  unfold do_omaha_request.
  destruct (negb (u_valid (m_url m))); [apply retp_ret; skrefl|].
  destruct (negb (headers_ok (m_cfg m) b)); [ra; apply retp_ret; skrefl|].
  ra. ra. ra. match goal with |- retp (match ?o with HErr _ => _ | HResp _ _ _ _ => _ end) _ => destruct o as [k|status ra0 au bd] end; [apply retp_ret; skrefl|].
  destruct (match m_cup m with Some _ => negb au | None => false end); [apply retp_ret; skrefl|].
  eapply retp_bind with (R1 := fun m' => sk m m').
  { destruct (oZ_eqb (ps_poll (m_ps m)) (parse_retry_after ra0)); [apply retp_ret; skrefl|]. cbv zeta. ra. ra. ra. apply retp_ret. skrefl. }
  intros m' Hm'. destruct ((200 <=? status) && (status <? 300))%N; apply retp_ret; exact Hm'.
Qed.
Lemma rk_report_event p ev apps sess nv dur m : retp (report_event p ev apps sess nv dur m) (sk m).
Proof.
  unfold report_event. ra. ra. eapply retp_bind; [apply rk_do_req|]. intros [m' [e|bd]] Hm'; cbn [fst] in Hm'.
  - ra. apply retp_ret. exact Hm'.
  - apply retp_ret. exact Hm'.
Qed.
Lemma sk_trans a b c : sk a b -> sk b c -> sk a c. Proof. unfold sk. intros [H1 H2] [H3 H4]. split; congruence. Qed.
Lemma rk_attempt_loop b0 sess fuel : forall attempt m, retp (attempt_loop fuel attempt b0 sess m) (fun r => sk m (fst (fst r))).
Proof.
  induction fuel as [|f IH]; intros attempt m; cbn [attempt_loop]; [apply retp_halt|].
  ra. ra. ra. eapply retp_bind; [apply rk_do_req|]. intros [m1 res] Hm1; cbn [fst] in Hm1.
  ra. ra. destruct res as [e|bd]; [|apply retp_ret; exact Hm1].
  match goal with |- retp (if ?c then _ else _) _ => destruct c end.
  - ra. apply retp_ret. exact Hm1.
  - ra. ra. eapply retp_conseq; [apply IH|]. intros r Hr. eapply sk_trans; eassumption.
Qed.
Lemma rk_report_check_interval src m : retp (report_check_interval src m) (sk m).
Proof. unfold report_check_interval. ra. ra. apply retp_ret. skrefl. Qed.
Lemma rk_perform fuel p apps m : retp (perform_update_check fuel p apps m) (fun r => sk m (fst r)).
Proof.
  unfold perform_update_check. ra. eapply retp_bind; [apply rk_report_check_interval|]. intros m0 H0. ra.
  eapply retp_bind; [apply rk_attempt_loop|]. intros [[m1 attempts] res] H1; cbn [fst] in H1.
  assert (H01 : sk m m1) by (eapply sk_trans; eassumption). clear H0 H1.
  ra. destruct res as [e|[d|]].
  - apply retp_ret. exact H01.
  - ra. destruct (filter uc_ok (d_apps d)) as [|wu0 wur]; [ra; apply retp_ret; exact H01|].
    ra. ra. match goal with |- retp (match ?pl with Some _ => _ | None => _ end) _ => destruct pl as [plan|] end.
    2:{ ra. ra. eapply retp_bind; [apply rk_report_event|]. intros m2 H2. apply retp_ret. eapply sk_trans; eassumption. }
    ra. ra. match goal with |- retp (match ?d with UOk => _ | UDeferred => _ | UDenied => _ end) _ => destruct d end.
    + ra. eapply retp_bind; [apply rk_report_event|]. intros m2 H2. assert (H02 : sk m m2) by (eapply sk_trans; eassumption).
      ra. ra. ra. ra. ra. ra. ra. ra. ra.
      eapply retp_bind; [apply rk_do_req|]. intros [m3 rr] H3; cbn [fst] in H3. assert (H03 : sk m m3) by (eapply sk_trans; eassumption).
      ra. eapply retp_bind with (R1 := fun m4 => sk m m4).
      { match goal with |- retp (match ?l with [] => _ | _ => _ end) _ => destruct l end; [apply retp_ret; exact H03|].
        eapply retp_conseq; [apply rk_report_event|]. intros m4 H4. eapply sk_trans; eassumption. }
      intros m4 H04.
      match goal with |- retp (match ?n with O => _ | S _ => _ end) _ => destruct n as [|nerr] end.
      * ra. ra. ra. ra. ra. ra. apply retp_ret. exact H04.
      * ra. ra. apply retp_ret. exact H04.
    + eapply retp_bind; [apply rk_report_event|]. intros m2 H2. ra. apply retp_ret. eapply sk_trans; eassumption.
    + eapply retp_bind; [apply rk_report_event|]. intros m2 H2. apply retp_ret. eapply sk_trans; eassumption.
  - ra. eapply retp_bind; [apply rk_report_event|]. intros m2 H2. apply retp_ret. eapply sk_trans; eassumption.
Qed.
Lemma rk_start fuel p m : retp (start_update_check fuel p m) (fun r => sk m (fst r)).
Proof.
  unfold start_update_check. eapply retp_bind; [apply rk_perform|]. intros [m1 res] H1; cbn [fst] in H1.
  eapply retp_bind with (R1 := fun f => sk m (fst (fst f))).
  { destruct res as [e|[rs rb]].
    - eapply retp_bind with (R1 := fun mr => sk m (fst mr)).
      + destruct e as [re| |]; [destruct re; apply retp_ret; exact H1| |]; (ra; apply retp_ret; exact H1).
      + intros [m2 reason] H2. ra. apply retp_ret. exact H2.
    - ra. ra. ra. apply retp_ret. destruct H1 as [Hc Hi]. split; [exact Hc|]. cbn [fst m_apps with_apps]. rewrite ids_update. exact Hi. }
  intros [[m2 result] rb] H2. ra. ra. ra. ra. apply retp_ret. exact H2.
Qed.
Lemma rk_update_next m : retp (update_next_update_time m) (fun r => sk m (fst r)).
Proof. unfold update_next_update_time. ra. ra. ra. apply retp_ret. skrefl. Qed.
Lemma rk_ping m : retp (ping_omaha m) (sk m).
Proof.
  unfold ping_omaha. cbv zeta. ra. ra. ra. eapply retp_bind; [apply rk_do_req|]. intros [m1 res] H1; cbn [fst] in H1.
  destruct res as [er|[d|]]; [ra; apply retp_ret; exact H1| |ra; apply retp_ret; exact H1].
  ra. ra. ra. apply retp_ret. destruct H1 as [Hc Hi]. split; [exact Hc|]. cbn [m_apps with_apps]. rewrite ids_update. exact Hi.
Qed.
Lemma rk_reboot_loop fuel : forall src pending m, retp (reboot_loop fuel src pending m) (sk m).
Proof.
  induction fuel as [|f IH]; intros src pending m; cbn [reboot_loop]; [apply retp_halt|].
  ra. match goal with |- retp (match ?q with Some _ => _ | None => _ end) _ => destruct q as [[id sc0]|] end.
  { ra. match goal with |- retp (if ?g then _ else _) _ => destruct g end; [apply retp_ret; skrefl|apply IH]. }
  ra. match goal with |- retp (match ?s with Fire _ => _ | Control _ => _ | DropHandles => _ end) _ => destruct s as [i|sc0|] end.
  - assert (Hping : retp (m1 <- ping_omaha m;; mt <- update_next_update_time m1;;
                          (let '(m2, t) := mt in roles <- make_wait t;; reboot_loop f src (remove_nth i pending ++ roles) m2)) (sk m)).
    { eapply retp_bind; [apply rk_ping|]. intros m1 H1. eapply retp_bind; [apply rk_update_next|]. intros [m2 t] H2; cbn [fst] in H2.
      ra. eapply retp_conseq; [apply IH|]. intros m3 H3. eapply sk_trans; [|exact H3]. eapply sk_trans; eassumption. }
    destruct (nth_error pending i) as [[| |]|].
    + destruct (has_ping_roles (remove_nth i pending)); [apply IH|exact Hping].
    + destruct (has_ping_roles (remove_nth i pending)); [apply IH|exact Hping].
    + ra. match goal with |- retp (if ?g then _ else _) _ => destruct g end; [apply retp_ret; skrefl|]. ra. apply IH.
    + apply IH.
  - ra. ra. ra. match goal with |- retp (if ?g then _ else _) _ => destruct g end; [apply retp_ret; skrefl|apply IH].
  - apply IH.
Qed.
Lemma rk_wait_for_reboot fuel src m : retp (wait_for_reboot fuel src m) (sk m).
Proof.
  unfold wait_for_reboot. ra. eapply retp_bind with (R1 := sk m).
  { match goal with |- retp (if ?g then _ else _) _ => destruct g end; [apply retp_ret; skrefl|]. ra.
    eapply retp_bind; [apply rk_update_next|]. intros [m1 t] H1; cbn [fst] in H1. ra.
    eapply retp_conseq; [apply rk_reboot_loop|]. intros m2 H2. eapply sk_trans; eassumption. }
  intros m1 H1. ra. ra. apply retp_ret. exact H1.
Qed.
Lemma rk_run_iteration fuel finish start_mono sr m : retp (run_iteration fuel finish start_mono sr m) (fun r => sk m (fst r)).
Proof.
  unfold run_iteration. ra. eapply retp_bind; [apply rk_update_next|]. intros [m1 t] H1; cbn [fst] in H1.
  ra. ra. ra. ra.
  match goal with |- retp (match ?d with DOk _ => _ | _ => _ end) _ => destruct d end.
  1,2: (ra; ra; eapply retp_bind; [apply rk_start|]; intros [m2 rb] H2; cbn [fst] in H2; ra; ra;
        assert (H02 : sk m m2) by (eapply sk_trans; eassumption);
        eapply retp_bind with (R1 := sk m);
        [destruct rb; [ra; eapply retp_conseq; [apply rk_wait_for_reboot|]; intros m3 H3; eapply sk_trans; eassumption|apply retp_ret; exact H02]
        |intros m3 H3; ra; apply retp_ret; exact H3]).
  all: (ra; apply retp_ret; exact H1).
Qed.

(* ---------- the monitor ---------- *)
(* actions the monitor ignores in every state *)
Definition dull (a : action) : bool :=
  match a with AHttp _ _ | AMetric (MOmahaEventLost _) => false | _ => true end.
Lemma step_dull q a : dull a = true -> step10l q a = Some q.
Proof.
  destruct a as [ev|pq ans|w o|c ans|c|w|op ok|mt|id src|id r]; try discriminate; try reflexivity.
  destruct mt; try discriminate; reflexivity.
Qed.

(* programs that emit only such actions preserve every predicate on the monitor state *)
Definition L (P : q10l -> Prop) : q10l -> env -> Prop := fun q _ => P q.
Definition ninv {A} (m : M A) : Prop := forall P, TK (L P) m (fun _ => L P).
Lemma ninv_ret {A} (a : A) : ninv (ret a). Proof. intros P. apply tripleG_ret. auto. Qed.
Lemma ninv_bind {A B} (m : M A) (f : A -> M B) : ninv m -> (forall a, ninv (f a)) -> ninv (bind m f).
Proof. intros Hm Hf P. eapply tripleG_bind; [apply Hm|]. intro a. apply Hf. Qed.
Lemma ninv_silent {A} (m : M A) : (forall e, e_trace (snd (m e)) = e_trace e) -> ninv m.
Proof. intros H P. apply tripleG_silent; [exact H|]. intros q e a Hp _. exact Hp. Qed.
Lemma ninv_emit a : dull a = true -> ninv (emit a).
Proof. intros H P. apply tripleG_emit. intros q e Hp. exists q. split; [apply step_dull; exact H|exact Hp]. Qed.
Lemma ninv_report x : dull (AMetric x) = true -> ninv (report x). Proof. intro H. unfold report. apply ninv_emit. exact H. Qed.
Lemma ninv_write op : ninv (st_write op).
Proof.
  intros P q0 e q Hq Hp. exists q. split.
  - unfold mst, st_write. cbn [snd upd_trace e_trace rev]. rewrite runmon_app. unfold mst in Hq. rewrite Hq. reflexivity.
  - cbn [fst st_write]. exact Hp.
Qed.
Lemma ninv_halt {A} : ninv (@halt A). Proof. intros P. apply tripleG_halt. Qed.
Lemma ninv_iterM {A} (f : A -> M unit) l : (forall x, ninv (f x)) -> ninv (iterM f l).
Proof. intros H P. apply tripleG_iterM. intros x _. apply H. Qed.
Lemma ninv_after_event b : ninv (after_event b).
Proof.
  intros P q0 e q Hm Hp. exists q. unfold mst, after_event in *.
  destruct (c_inject (e_cs e)) as [|[k src] rest]; [split; [exact Hm|exact Hp]|].
  destruct ((k <=? c_evn (e_cs e))%N && negb b); [|split; [exact Hm|exact Hp]].
  destruct (c_incheck (e_cs e)); cbn [fst snd upd_trace set_cs e_trace rev]; (split; [|exact Hp]).
  - rewrite <- app_assoc, runmon_app, Hm. reflexivity.
  - rewrite runmon_app, Hm. reflexivity.
Qed.
Lemma ninv_yield ev : dull (AEvent ev) = true -> ninv (yield_ ev).
Proof. intro H. unfold yield_. apply ninv_bind; [apply ninv_emit; exact H|]. intros []. apply ninv_after_event. Qed.
Lemma ninv_enter_check : ninv enter_check.
Proof.
  intros P q0 e q Hm Hp. exists q. split; [|exact Hp].
  unfold mst, enter_check in *. cbn [snd upd_trace set_cs e_trace].
  rewrite rev_app_distr, rev_involutive, runmon_app, Hm.
  induction (c_inq (e_cs e)) as [|x r IH]; cbn [map runmon]; [reflexivity|exact IH].
Qed.
Ltac sil := apply ninv_silent; intro e; reflexivity.
Lemma ninv_pop_queued : ninv pop_queued. Proof. apply ninv_silent. intro e. unfold pop_queued. destruct (c_inq (e_cs e)); reflexivity. Qed.
Lemma ninv_do_outer_select roles : ninv (do_outer_select roles).
Proof.
  intros P. unfold do_outer_select. eapply tripleG_bind; [apply ninv_pop_queued|].
  intros [[id src]|]; [apply tripleG_ret; auto|].
  intros q0 e q Hm Hp. exists q. unfold mst in *.
  destruct (outer_select (e_stim e) roles (e_ctl e)) as [[[[[src id]|] r] c]|]; cbn [fst snd upd_trace set_stim e_trace rev].
  - split; [rewrite runmon_app, Hm; reflexivity|exact Hp].
  - split; [exact Hm|exact Hp].
  - split; [exact Hm|exact I].
Qed.
Lemma ninv_read_clock : ninv read_clock. Proof. apply ninv_silent. intro e. unfold read_clock. destruct (e_clock e); reflexivity. Qed.
Lemma ninv_pop_next_time : ninv pop_next_time. Proof. apply ninv_silent. intro e. unfold pop_next_time. destruct (q_next_time e); reflexivity. Qed.
Lemma ninv_pop_allowed : ninv pop_allowed. Proof. apply ninv_silent. intro e. unfold pop_allowed. destruct (q_allowed e); reflexivity. Qed.
Lemma ninv_pop_can_start : ninv pop_can_start. Proof. apply ninv_silent. intro e. unfold pop_can_start. destruct (q_can_start e); reflexivity. Qed.
Lemma ninv_pop_reboot_needed : ninv pop_reboot_needed. Proof. apply ninv_silent. intro e. unfold pop_reboot_needed. destruct (q_reboot_needed e); reflexivity. Qed.
Lemma ninv_pop_reboot_allowed : ninv pop_reboot_allowed. Proof. apply ninv_silent. intro e. unfold pop_reboot_allowed. destruct (q_reboot_allowed e); reflexivity. Qed.
Lemma ninv_pop_http : ninv pop_http. Proof. apply ninv_silent. intro e. unfold pop_http. destruct (q_http e); reflexivity. Qed.
Lemma ninv_pop_plan : ninv pop_plan. Proof. apply ninv_silent. intro e. unfold pop_plan. destruct (q_plan e); reflexivity. Qed.
Lemma ninv_pop_perform : ninv pop_perform. Proof. apply ninv_silent. intro e. unfold pop_perform. destruct (q_perform e); reflexivity. Qed.
Lemma ninv_pop_reboot : ninv pop_reboot. Proof. apply ninv_silent. intro e. unfold pop_reboot. destruct (q_reboot e); reflexivity. Qed.
Lemma ninv_pop_backoff : ninv pop_backoff. Proof. apply ninv_silent. intro e. unfold pop_backoff. destruct (q_backoff e); reflexivity. Qed.
Lemma ninv_pop_stim : ninv pop_stim. Proof. apply ninv_silent. intro e. unfold pop_stim. destruct (e_stim e); reflexivity. Qed.
Lemma ninv_canon_guid d : ninv (canon_guid d). Proof. apply ninv_silent. intro e. unfold canon_guid. destruct (glookup (e_guids e) d); reflexivity. Qed.
Lemma ninv_st_get_time k : ninv (st_get_time k).
Proof. unfold st_get_time. apply ninv_bind; [sil|intro; apply ninv_ret]. Qed.
Lemma ninv_with_ids b s r : ninv (with_ids b s r).
Proof. unfold with_ids. apply ninv_bind; [apply ninv_canon_guid|intro]. apply ninv_bind; [apply ninv_canon_guid|intro]. apply ninv_ret. Qed.
Lemma ninv_maybe_ids (c : bool) b s r : ninv (if c then with_ids b s r else ret b).
Proof. destruct c; [apply ninv_with_ids|apply ninv_ret]. Qed.
Lemma ninv_now : ninv now.
Proof. unfold now. apply ninv_bind; [apply ninv_read_clock|intro c]. apply ninv_bind; [apply ninv_emit; reflexivity|intro; apply ninv_ret]. Qed.
Lemma ninv_set_opt k v : ninv (st_set_option_int k v).
Proof. unfold st_set_option_int. destruct v; apply ninv_write. Qed.
Lemma ninv_ctx_persist s ps : ninv (ctx_persist s ps).
Proof. unfold ctx_persist. repeat (apply ninv_bind; [apply ninv_set_opt|intro]). apply ninv_ret. Qed.
Lemma ninv_persist_data m : ninv (persist_data m).
Proof.
  unfold persist_data. apply ninv_bind; [apply ninv_ctx_persist|intro]. apply ninv_bind.
  - apply ninv_iterM. intro ap. apply ninv_bind; [apply ninv_write|intro; apply ninv_ret].
  - intro. apply ninv_bind; [apply ninv_write|intro; apply ninv_ret].
Qed.
Lemma ninv_report_check_interval src m : ninv (report_check_interval src m).
Proof.
  unfold report_check_interval. apply ninv_bind; [apply ninv_now|intro n]. apply ninv_bind; [|intro; apply ninv_ret].
  destruct (s_last_check (m_sched m)) as [[w|mm|c]|]; try apply ninv_ret.
  - destruct (w <=? wall n); [apply ninv_report; reflexivity|apply ninv_ret].
  - destruct (mono c <=? mono n); [apply ninv_report; reflexivity|apply ninv_ret].
Qed.
Lemma ninv_record_first_seen plan t : ninv (record_first_seen plan t).
Proof.
  unfold record_first_seen. apply ninv_bind; [sil|intro prev].
  assert (Hnew : ninv (ok1 <- st_write (SSetStr K_INSTALL_PLAN_ID plan);;
                        (if negb ok1 then ret t
                         else ok2 <- st_set_time K_FIRST_SEEN t;;
                              (if negb ok2 then st_write (SRemove K_INSTALL_PLAN_ID);;; ret t else st_write SCommit;;; ret t)))).
  { apply ninv_bind; [apply ninv_write|intro ok1]. destruct (negb ok1); [apply ninv_ret|].
    apply ninv_bind; [apply ninv_set_opt|intro ok2]. destruct (negb ok2);
      (apply ninv_bind; [apply ninv_write|intro; apply ninv_ret]). }
  destruct prev as [p|]; [|exact Hnew].
  destruct (bytes_eqb p plan); [|exact Hnew].
  apply ninv_bind; [apply ninv_st_get_time|intro]. apply ninv_ret.
Qed.
Lemma ninv_report_attempts s : ninv (report_attempts_to_successful_install s).
Proof.
  unfold report_attempts_to_successful_install. apply ninv_bind; [sil|intro].
  apply ninv_bind; [apply ninv_report; reflexivity|intro]. apply ninv_bind; [destruct s; apply ninv_write|intro]. apply ninv_ret.
Qed.
Lemma ninv_update_next m : ninv (update_next_update_time m).
Proof.
  unfold update_next_update_time. apply ninv_bind; [apply ninv_pop_next_time|intro t].
  apply ninv_bind; [apply ninv_emit; reflexivity|intro]. apply ninv_bind; [apply ninv_yield; reflexivity|intro]. apply ninv_ret.
Qed.
Lemma ninv_make_wait t : ninv (make_wait t).
Proof.
  unfold make_wait. destruct (t_min t).
  - apply ninv_bind; [apply ninv_emit; reflexivity|intro]. apply ninv_bind; [apply ninv_emit; reflexivity|intro]. apply ninv_ret.
  - apply ninv_bind; [apply ninv_emit; reflexivity|intro]. apply ninv_ret.
Qed.
Lemma ninv_ask_reboot src : ninv (ask_reboot_allowed src).
Proof.
  unfold ask_reboot_allowed. apply ninv_bind; [apply ninv_pop_reboot_allowed|intro b].
  apply ninv_bind; [apply ninv_emit; reflexivity|intro]. apply ninv_ret.
Qed.
Lemma ninv_handle_in_reboot id sc0 : ninv (handle_in_reboot id sc0).
Proof. unfold handle_in_reboot. apply ninv_bind; [apply ninv_emit; reflexivity|intro]. destruct sc0; [apply ninv_ask_reboot|apply ninv_ret]. Qed.

(* ---------- programs that also put requests on the wire: the two constant fields are kept ---------- *)
Definition Lc (S C : bool) : q10l -> env -> Prop := L (fun q => strict10l q = S /\ cup10l q = C).
Definition kinv {A} (m : M A) : Prop := forall S C, TK (Lc S C) m (fun _ => Lc S C).
Lemma kn {A} (m : M A) : ninv m -> kinv m. Proof. intros H S C. apply H. Qed.
Lemma kinv_ret {A} (a : A) : kinv (ret a). Proof. apply kn, ninv_ret. Qed.
Lemma kinv_bind {A B} (m : M A) (f : A -> M B) : kinv m -> (forall a, kinv (f a)) -> kinv (bind m f).
Proof. intros Hm Hf S C. eapply tripleG_bind; [apply Hm|]. intro a. apply Hf. Qed.
Lemma kinv_halt {A} : kinv (@halt A). Proof. apply kn, ninv_halt. Qed.
Lemma kinv_http w o : kinv (emit (AHttp w o)).
Proof. intros S C. apply tripleG_emit. intros q e [Hs Hc]. eexists. split; [reflexivity|]. split; [exact Hs|exact Hc]. Qed.
Lemma kinv_lost ev : forall S C, TK (L (fun q => strict10l q = S /\ cup10l q = C /\ (S = true -> armed10l q = true))) (report (MOmahaEventLost ev))
                                    (fun _ => L (fun q => strict10l q = S /\ cup10l q = C /\ (S = true -> armed10l q = true))).
Proof.
  intros S C. unfold report. apply tripleG_emit. intros q e (Hs & Hc & Ha). exists q. split; [|repeat split; assumption].
  unfold step10l. rewrite Hs. destruct S; [rewrite (Ha eq_refl)|]; reflexivity.
Qed.
Lemma kinv_poll m ra0 :
  ninv (if oZ_eqb (ps_poll (m_ps m)) (parse_retry_after ra0) then ret m
        else let m1 := with_ps m (set_poll (m_ps m) (parse_retry_after ra0)) in
             yield_ (EvProtocol (m_ps m1));;; ctx_persist (m_sched m1) (m_ps m1);;; st_write SCommit;;; ret m1).
Proof.
  destruct (oZ_eqb (ps_poll (m_ps m)) (parse_retry_after ra0)); [apply ninv_ret|]. cbv zeta.
  apply ninv_bind; [apply ninv_yield; reflexivity|intro]. apply ninv_bind; [apply ninv_ctx_persist|intro].
  apply ninv_bind; [apply ninv_write|intro]. apply ninv_ret.
Qed.
Lemma kinv_do_req b m : kinv (do_omaha_request b m).
Proof.
  unfold do_omaha_request.
  destruct (negb (u_valid (m_url m))); [apply kinv_ret|].
  destruct (negb (headers_ok (m_cfg m) b)).
  { apply kinv_bind; [|intro; apply kinv_ret]. destruct (m_cup m); [|apply kinv_ret]. apply kn. apply ninv_bind; [sil|intro; apply ninv_ret]. }
  apply kinv_bind. { apply kn. destruct (m_cup m); [|apply ninv_ret]. apply ninv_bind; [sil|intro; apply ninv_ret]. }
  intro uri. apply kinv_bind; [apply kn, ninv_pop_http|intro o]. apply kinv_bind; [apply kinv_http|intro].
  destruct o as [k|status ra0 au bd]; [apply kinv_ret|].
  destruct (match m_cup m with Some _ => negb au | None => false end); [apply kinv_ret|].
  apply kinv_bind; [apply kn, kinv_poll|].
  intro m'. destruct ((200 <=? status) && (status <? 300))%N; apply kinv_ret.
Qed.
Lemma kinv_attempt_loop b0 sess fuel : forall attempt m, kinv (attempt_loop fuel attempt b0 sess m).
Proof.
  induction fuel as [|f IH]; intros attempt m; cbn [attempt_loop]; [apply kinv_halt|].
  apply kinv_bind; [apply kn, ninv_now|intro]. apply kinv_bind; [apply kn; sil|intro].
  apply kinv_bind; [apply kn, ninv_maybe_ids|intro b]. apply kinv_bind; [apply kinv_do_req|]. intros [m1 res].
  apply kinv_bind; [apply kn, ninv_now|intro fin].
  apply kinv_bind.
  { apply kn. match goal with |- ninv (if ?c then _ else _) => destruct c end; [apply ninv_report; reflexivity|apply ninv_ret]. }
  intros _. destruct res as [e|bd]; [|apply kinv_ret].
  match goal with |- kinv (if ?c then _ else _) => destruct c end.
  - apply kinv_bind; [apply kn, ninv_yield; reflexivity|intro; apply kinv_ret].
  - apply kinv_bind; [apply kn, ninv_pop_backoff|intro r].
    apply kinv_bind; [apply kn, ninv_emit; reflexivity|intro]. apply IH.
Qed.
Lemma kinv_ping m : kinv (ping_omaha m).
Proof.
  unfold ping_omaha. cbv zeta. apply kinv_bind; [apply kn; sil|intro]. apply kinv_bind; [apply kn; sil|intro].
  apply kinv_bind; [apply kn, ninv_maybe_ids|intro b]. apply kinv_bind; [apply kinv_do_req|]. intros [m1 res].
  destruct res as [er|[d|]]; [apply kinv_bind; [apply kn, ninv_persist_data|intro; apply kinv_ret]| |apply kinv_bind; [apply kn, ninv_persist_data|intro; apply kinv_ret]].
  apply kinv_bind; [apply kn, ninv_now|intro n]. apply kinv_bind; [apply kn, ninv_yield; reflexivity|intro].
  apply kinv_bind; [apply kn, ninv_persist_data|intro]. apply kinv_ret.
Qed.
Lemma kinv_reboot_loop fuel : forall src pending m, kinv (reboot_loop fuel src pending m).
Proof.
  induction fuel as [|f IH]; intros src pending m; cbn [reboot_loop]; [apply kinv_halt|].
  apply kinv_bind; [apply kn, ninv_pop_queued|]. intros [[id sc]|].
  { apply kinv_bind; [apply kn, ninv_handle_in_reboot|]. intros [|]; [apply kinv_ret|apply IH]. }
  apply kinv_bind; [apply kn, ninv_pop_stim|]. intros [i|sc|].
  - assert (Hping : kinv (m1 <- ping_omaha m;; mt <- update_next_update_time m1;;
                         (let '(m2, t) := mt in roles <- make_wait t;; reboot_loop f src (remove_nth i pending ++ roles) m2))).
    { apply kinv_bind; [apply kinv_ping|intro m1]. apply kinv_bind; [apply kn, ninv_update_next|]. intros [m2 t].
      apply kinv_bind; [apply kn, ninv_make_wait|intro roles]. apply IH. }
    destruct (nth_error pending i) as [[| |]|].
    + destruct (has_ping_roles (remove_nth i pending)); [apply IH|exact Hping].
    + destruct (has_ping_roles (remove_nth i pending)); [apply IH|exact Hping].
    + apply kinv_bind; [apply kn, ninv_ask_reboot|]. intros [|]; [apply kinv_ret|].
      apply kinv_bind; [apply kn, ninv_emit; reflexivity|intro]. apply IH.
    + apply IH.
  - apply kinv_bind; [apply kn; sil|intro id]. apply kinv_bind; [apply kn, ninv_emit; reflexivity|intro].
    apply kinv_bind; [apply kn, ninv_handle_in_reboot|]. intros [|]; [apply kinv_ret|apply IH].
  - apply IH.
Qed.
Lemma kinv_wait_for_reboot fuel src m : kinv (wait_for_reboot fuel src m).
Proof.
  unfold wait_for_reboot. apply kinv_bind; [apply kn, ninv_ask_reboot|intro ok]. apply kinv_bind.
  { destruct ok; [apply kinv_ret|]. apply kinv_bind; [apply kn, ninv_emit; reflexivity|intro].
    apply kinv_bind; [apply kn, ninv_update_next|]. intros [m1 t]. apply kinv_bind; [apply kn, ninv_make_wait|intro roles]. apply kinv_reboot_loop. }
  intro m1. apply kinv_bind; [apply kn, ninv_pop_reboot|intro okr]. apply kinv_bind; [apply kn, ninv_emit; reflexivity|intro]. apply kinv_ret.
Qed.

(* ---------- when can a request be built? ---------- *)
Notation hv := header_value_ok.
Lemma entries_insert (P : entry -> Prop) a f : (forall e, P e -> P (f e)) -> P (f (entry_new a)) ->
  forall es, Forall P es -> Forall P (insert_and_modify es a f).
Proof.
  intros Hf Hn. induction es as [|e r IH]; intro H; cbn [insert_and_modify].
  - constructor; [exact Hn|constructor].
  - inversion H as [|? ? He Hr]; subst. destruct (bytes_eqb (a_id (e_app e)) (a_id a)); constructor; auto.
Qed.
Lemma entries_ops p ops : forall es, Forall (fun e => hv (a_id (e_app e)) = true) es -> Forall (fun o => hv (a_id (op_app o)) = true) ops ->
  Forall (fun e => hv (a_id (e_app e)) = true) (fold_left (apply_op p) ops es).
Proof.
  induction ops as [|o r IH]; intros es He Ho; cbn [fold_left]; [exact He|].
  inversion Ho as [|? ? H1 H2]; subst. apply IH; [|exact H2].
  destruct o as [a|a|a ev]; cbn [apply_op op_app] in *; apply entries_insert; auto.
Qed.
Lemma headers_ok_ops cfg p ops : hv (cfg_name cfg) = true -> Forall (fun o => hv (a_id (op_app o)) = true) ops ->
  headers_ok cfg (add_ops (builder_new p) ops) = true.
Proof.
  intros Hn Ho. pose proof (entries_ops p ops [] (Forall_nil _) Ho) as He.
  unfold headers_ok, headers_of, add_ops, builder_new. cbn [b_entries b_params].
  destruct (fold_left (apply_op p) ops []) as [|e r].
  - cbn [List.app forallb snd]. rewrite Hn. destruct (p_source p); reflexivity.
  - inversion He as [|? ? H1 _]; subst. cbn [List.app forallb snd]. rewrite Hn, H1. destruct (p_source p); reflexivity.
Qed.
Lemma headers_ok_same cfg b b' : b_entries b' = b_entries b -> b_params b' = b_params b -> headers_ok cfg b' = headers_ok cfg b.
Proof. intros H1 H2. unfold headers_ok, headers_of. rewrite H1, H2. reflexivity. Qed.
Lemma retp_maybe_ids (c : bool) b s r :
  retp (if c then with_ids b s r else ret b) (fun b' => b_entries b' = b_entries b /\ b_params b' = b_params b).
Proof.
  destruct c; [|apply retp_ret; split; reflexivity].
  unfold with_ids. eapply retp_bind; [apply retp_any|]; intros ? _. eapply retp_bind; [apply retp_any|]; intros ? _.
  apply retp_ret. split; reflexivity.
Qed.
Lemma TK_and_ret {A} (P : q10l -> env -> Prop) (m : M A) Q (R : A -> Prop) :
  TK P m Q -> retp m R -> TK P m (fun a q e => Q a q e /\ R a).
Proof.
  intros H HR q0 e q Hq Hp. destruct (H q0 e q Hq Hp) as (q' & H1 & H2). exists q'. split; [exact H1|].
  destruct (fst (m e)) eqn:E; [|exact I]. split; [exact H2|]. eapply HR. exact E.
Qed.
Lemma retp_and {A} (m : M A) (R1 R2 : A -> Prop) : retp m R1 -> retp m R2 -> retp m (fun a => R1 a /\ R2 a).
Proof. intros H1 H2 e a E. split; [eapply H1|eapply H2]; exact E. Qed.

(* what the machine needs for every request to be buildable: the strictness of the monitor implies it *)
Definition Good (S : bool) (m : sm) (ids : list bytes) : Prop :=
  S = true -> u_valid (m_url m) = true /\ hv (cfg_name (m_cfg m)) = true /\ forallb hv ids = true.
Definition sx (m m' : sm) : Prop := sc m m' /\ sk m m'.
Lemma sx_refl m : sx m m. Proof. split; split; reflexivity. Qed.
Lemma sx_trans a b c : sx a b -> sx b c -> sx a c.
Proof. intros [H1 H2] [H3 H4]. split; [eapply sc_trans|eapply sk_trans]; eassumption. Qed.
Lemma Good_sx S m m' ids : sx m m' -> Good S m ids -> Good S m' ids.
Proof. intros [[_ Hu] [Hc _]] H HS. rewrite Hu, Hc. exact (H HS). Qed.
Lemma cupb_sx m m' : sx m m' -> cupb m' = cupb m. Proof. intros [H _]. apply cupb_sc. exact H. Qed.
Lemma ids_sx m m' : sx m m' -> map a_id (m_apps m') = map a_id (m_apps m). Proof. intros [_ [_ H]]. exact H. Qed.

Definition isl {A B} (x : A + B) : bool := match x with inl _ => true | inr _ => false end.
Definition Arm (S C need : bool) : q10l -> env -> Prop :=
  L (fun q => strict10l q = S /\ cup10l q = C /\ (need = true -> S = true -> armed10l q = true)).

Lemma T_do_req_armed S b m :
  (S = true -> u_valid (m_url m) = true /\ headers_ok (m_cfg m) b = true) ->
  TK (Lc S (cupb m)) (do_omaha_request b m) (fun r => Arm S (cupb m) (isl (snd r))).
Proof.
  intro HG. unfold do_omaha_request.
  destruct (u_valid (m_url m)) eqn:Eu; cbn [negb].
  2:{ apply tripleG_ret. intros q e [Hs Hc]. repeat split; try assumption. intros _ HS. destruct (HG HS) as [Hu _]. discriminate Hu. }
  destruct (headers_ok (m_cfg m) b) eqn:Eh; cbn [negb].
  2:{ eapply tripleG_bind with (R := fun _ => Lc S (cupb m)).
      { apply kn. destruct (m_cup m); [|apply ninv_ret]. apply ninv_bind; [sil|intro; apply ninv_ret]. }
      intros _. apply tripleG_ret. intros q e [Hs Hc]. repeat split; try assumption. intros _ HS. destruct (HG HS) as [_ Hh]. discriminate Hh. }
  eapply tripleG_bind with (R := fun _ => Lc S (cupb m)).
  { apply kn. destruct (m_cup m); [|apply ninv_ret]. apply ninv_bind; [sil|intro; apply ninv_ret]. }
  intro uri. eapply tripleG_bind; [apply (kn _ ninv_pop_http)|]. intro o. cbv beta.
  set (Po := fun q : q10l => strict10l q = S /\ cup10l q = cupb m /\ armed10l q = negb (delivered (cupb m) o)).
  eapply tripleG_bind with (R := fun _ => L Po).
  { apply tripleG_emit. intros q e [Hs Hc]. eexists. split; [reflexivity|]. unfold L, Po. cbn [strict10l cup10l armed10l]. rewrite Hc. auto. }
  intros _.
  assert (Hfail : forall (x : sm) (er : req_err), delivered (cupb m) o = false ->
                   TK (L Po) (ret (x, (inl er : req_err + body))) (fun r => Arm S (cupb m) (isl (snd r)))).
  { intros x er Hd. apply tripleG_ret. intros q e (Hs & Hc & Ha). repeat split; try assumption. intros _ _. rewrite Ha, Hd. reflexivity. }
  destruct o as [k|status ra0 au bd]; [apply Hfail; reflexivity|].
  destruct (match m_cup m with Some _ => negb au | None => false end) eqn:Ec.
  { apply Hfail. unfold cupb. destruct (m_cup m); [|discriminate Ec]. destruct au; [discriminate Ec|reflexivity]. }
  eapply tripleG_bind; [apply (kinv_poll m ra0 Po)|]. intro m'. cbv beta.
  destruct ((200 <=? status) && (status <? 300))%N eqn:E2.
  - apply tripleG_ret. intros q e (Hs & Hc & Ha). repeat split; try assumption. intro Hn. discriminate Hn.
  - apply Hfail. unfold delivered, is_2xx. rewrite E2. apply Bool.andb_false_r.
Qed.

Lemma lost_ok S C ev : TK (Arm S C true) (report (MOmahaEventLost ev)) (fun _ => Arm S C true).
Proof.
  unfold report. apply tripleG_emit. intros q e (Hs & Hc & Ha). exists q. split; [|repeat split; assumption].
  unfold step10l. rewrite Hs. destruct S; [rewrite (Ha eq_refl eq_refl)|]; reflexivity.
Qed.
Lemma Arm_Lc S C n q e : Arm S C n q e -> Lc S C q e. Proof. intros (Hs & Hc & _). split; assumption. Qed.

Lemma report_ops_apps ev apps nv dur : Forall (fun a => hv (a_id a) = true) apps ->
  Forall (fun o => hv (a_id (op_app o)) = true) (report_ops ev apps nv dur).
Proof.
  intro H. unfold report_ops. induction H as [|a r Ha Hr IH]; cbn [flat_map]; [constructor|].
  destruct (nv_get nv (a_id a)); cbn [List.app]; [constructor; [exact Ha|exact IH]|exact IH].
Qed.
Lemma forallb_ids apps : forallb hv (map a_id apps) = true -> Forall (fun a => hv (a_id a) = true) apps.
Proof. induction apps as [|a r IH]; cbn [map forallb]; intro H; [constructor|]. apply Bool.andb_true_iff in H. destruct H. constructor; auto. Qed.
Lemma ids_forallb apps : Forall (fun a => hv (a_id a) = true) apps -> forallb hv (map a_id apps) = true.
Proof. induction 1 as [|a r Ha Hr IH]; cbn [map forallb]; [reflexivity|]. rewrite Ha, IH. reflexivity. Qed.

Lemma T_report_event S p ev apps sess nv dur m : Good S m (map a_id apps) ->
  TK (Lc S (cupb m)) (report_event p ev apps sess nv dur m) (fun _ => Lc S (cupb m)).
Proof.
  intro HG. unfold report_event.
  eapply tripleG_bind; [apply (kn _ (ninv_silent fresh_guid ltac:(intro e; reflexivity)))|]. intro req. cbv beta.
  eapply tripleG_bind; [apply TK_and_ret; [apply (kn _ (ninv_maybe_ids _ _ _ _))|apply retp_maybe_ids]|]. intro b. cbv beta.
  apply tripleG_pre_pure. intros [Hb1 Hb2].
  eapply tripleG_bind.
  { apply T_do_req_armed. intro HS. destruct (HG HS) as (Hu & Hn & Hi). split; [exact Hu|].
    rewrite (headers_ok_same _ _ _ Hb1 Hb2). apply headers_ok_ops; [exact Hn|]. apply report_ops_apps. apply forallb_ids. exact Hi. }
  intros [m' [er|bd]]; cbn [snd isl].
  - eapply tripleG_bind; [apply lost_ok|]. intro. apply tripleG_ret. intros q e H. eapply Arm_Lc. exact H.
  - apply tripleG_ret. intros q e H. eapply Arm_Lc. exact H.
Qed.

Lemma rx_do_req b m : retp (do_omaha_request b m) (fun r => sx m (fst r)).
Proof. apply retp_and; [apply rc_do_req|apply rk_do_req]. Qed.
Lemma rx_report_event p ev apps sess nv dur m : retp (report_event p ev apps sess nv dur m) (sx m).
Proof. apply retp_and; [apply rc_report_event|apply rk_report_event]. Qed.
Lemma rx_attempt_loop b0 sess fuel attempt m : retp (attempt_loop fuel attempt b0 sess m) (fun r => sx m (fst (fst r))).
Proof. apply retp_and; [apply rc_attempt_loop|apply rk_attempt_loop]. Qed.
Lemma rx_report_check_interval src m : retp (report_check_interval src m) (sx m).
Proof. apply retp_and; [apply rc_report_check_interval|apply rk_report_check_interval]. Qed.
Lemma rx_start fuel p m : retp (start_update_check fuel p m) (fun r => sx m (fst r)).
Proof. apply retp_and; [apply rc_start|apply rk_start]. Qed.
Lemma rx_update_next m : retp (update_next_update_time m) (fun r => sx m (fst r)).
Proof. apply retp_and; [apply rc_update_next|apply rk_update_next]. Qed.
Lemma rx_wait_for_reboot fuel src m : retp (wait_for_reboot fuel src m) (sx m).
Proof. apply retp_and; [apply rc_wait_for_reboot|apply rk_wait_for_reboot]. Qed.
Lemma rx_run_iteration fuel finish start_mono sr m : retp (run_iteration fuel finish start_mono sr m) (fun r => sx m (fst r)).
Proof. apply retp_and; [apply rc_run_iteration|apply rk_run_iteration]. Qed.

Lemma T_report_event' S C p ev apps sess nv dur m : cupb m = C -> Good S m (map a_id apps) ->
  TK (Lc S C) (report_event p ev apps sess nv dur m) (fun m' q e => Lc S C q e /\ sx m m').
Proof. intros <- HG. apply TK_and_ret; [apply T_report_event; exact HG|apply rx_report_event]. Qed.

Ltac kb H := eapply tripleG_bind; [refine (kn _ _ _ _); apply H|intro; cbv beta].
Tactic Notation "kba" constr(H) "as" simple_intropattern(x) := eapply tripleG_bind; [refine (kn _ _ _ _); apply H|intros x; cbv beta].
Ltac ky := match goal with
  | |- TK _ (bind (yield_ ?ev) _) _ => eapply tripleG_bind; [apply (kn _ (ninv_yield ev eq_refl))|intro; cbv beta]
  | |- TK _ (bind (yield_state ?s) _) _ => eapply tripleG_bind; [apply (kn _ (ninv_yield (EvState s) eq_refl))|intro; cbv beta]
  end.
Ltac ke := match goal with |- TK _ (bind (emit ?a) _) _ => eapply tripleG_bind; [apply (kn _ (ninv_emit a eq_refl))|intro; cbv beta] end.
Ltac kr := match goal with |- TK _ (bind (report ?x) _) _ => eapply tripleG_bind; [apply (kn _ (ninv_report x eq_refl))|intro; cbv beta] end.

Lemma evs_apps {X Y Z} (P : app -> Prop) apps (key : X -> bytes) (g : X -> Y) (h : app -> X -> Z) (pairs : list X) :
  Forall P apps ->
  Forall (fun x => P (fst (fst x)))
         (flat_map (fun pr => match find (fun a => bytes_eqb (a_id a) (key pr)) apps with Some a => [(a, g pr, h a pr)] | None => [] end) pairs).
Proof.
  intro H. induction pairs as [|pr r IH]; cbn [flat_map]; [constructor|].
  destruct (find (fun a => bytes_eqb (a_id a) (key pr)) apps) as [a|] eqn:E; cbn [List.app]; [|exact IH].
  constructor; [|exact IH]. cbn [fst]. apply find_some in E. destruct E as [Hin _]. rewrite Forall_forall in H. apply H. exact Hin.
Qed.
Lemma installed_apps {Z} (P : app -> Prop) (evs : list (app * ares * Z)) :
  Forall (fun x => P (fst (fst x))) evs ->
  Forall P (flat_map (fun x => match snd (fst x) with RInstalled => [fst (fst x)] | _ => [] end) evs).
Proof.
  induction 1 as [|x r Hx Hr IH]; cbn [flat_map]; [constructor|]. destruct (snd (fst x)); cbn [List.app]; auto.
Qed.

Lemma T_perform S C fuel p apps m : cupb m = C -> Good S m (map a_id apps) ->
  TK (Lc S C) (perform_update_check fuel p apps m) (fun _ => Lc S C).
Proof.
  intros HC HG. unfold perform_update_check.
  ky.
  eapply tripleG_bind; [apply TK_and_ret; [apply (kn _ (ninv_report_check_interval _ _))|apply rx_report_check_interval]|]. intro m0. cbv beta.
  apply tripleG_pre_pure. intro H0.
  kba (ninv_silent fresh_guid ltac:(intro e; reflexivity)) as sess.
  eapply tripleG_bind; [apply TK_and_ret; [apply kinv_attempt_loop|apply rx_attempt_loop]|]. intros [[m1 attempts] res]. cbv beta. cbn [fst].
  apply tripleG_pre_pure. intro H1. assert (H01 : sx m m1) by (eapply sx_trans; eassumption). clear H0 H1 m0.
  assert (HC1 : cupb m1 = C) by (rewrite (cupb_sx _ _ H01); exact HC).
  assert (HG1 : Good S m1 (map a_id apps)) by (eapply Good_sx; eassumption).
  kr.
  destruct res as [e|[d|]].
  - apply tripleG_ret. auto.
  - ky.
    destruct (filter uc_ok (d_apps d)) as [|wu0 wur] eqn:Ewu; [ky; apply tripleG_ret; auto|].
    kba ninv_pop_plan as pl. ke.
    destruct pl as [plan|].
    2:{ ky. ky. eapply tripleG_bind; [apply (T_report_event' S C); assumption|]. intro m2. cbv beta. apply tripleG_ret. intros q e [H _]. exact H. }
    kba ninv_pop_can_start as dec. ke.
    destruct dec.
    + ky. eapply tripleG_bind; [apply (T_report_event' S C); assumption|]. intro m2. cbv beta. apply tripleG_pre_pure. intro H12.
      assert (H02 : sx m m2) by (eapply sx_trans; eassumption).
      assert (HC2 : cupb m2 = C) by (rewrite (cupb_sx _ _ H02); exact HC).
      assert (HG2 : Good S m2 (map a_id apps)) by (eapply Good_sx; eassumption).
      kba ninv_now as t0. kba ninv_record_first_seen as fs. kba ninv_pop_perform as pa. ke.
      eapply tripleG_bind; [apply (kn _ (ninv_iterM _ _ (fun bits => ninv_yield (EvProgress bits) eq_refl)))|]. intro. cbv beta.
      kba ninv_now as t1.
      eapply tripleG_bind with (R := fun _ => Lc S C).
      { match goal with |- TK _ (if ?c then _ else _) _ => destruct c end; [|apply tripleG_ret; auto].
        match goal with |- TK _ (bind (report ?x) _) _ => eapply tripleG_bind; [apply (kn _ (ninv_report x ltac:(destruct (forallb _ _); reflexivity)))|intro; cbv beta] end.
        apply tripleG_ret. auto. }
      intro dur.
      kba (ninv_silent fresh_guid ltac:(intro e; reflexivity)) as req.
      match goal with |- TK _ (bind (if _ then with_ids ?b0 _ _ else _) _) _ => set (B0 := b0) end.
      assert (HB0 : S = true -> headers_ok (m_cfg m2) B0 = true).
      { intro HS. destruct (HG2 HS) as (Hu & Hn & Hi). apply headers_ok_ops; [exact Hn|].
        apply Forall_map. cbn [op_app].
        apply (evs_apps (fun a => hv (a_id a) = true)). apply forallb_ids. exact Hi. }
      eapply tripleG_bind; [apply TK_and_ret; [apply (kn _ (ninv_maybe_ids _ _ _ _))|apply retp_maybe_ids]|]. intro b. cbv beta.
      apply tripleG_pre_pure. intros [Hb1 Hb2].
      eapply tripleG_bind.
      { rewrite <- HC2. apply TK_and_ret; [apply T_do_req_armed|apply rx_do_req]. intro HS. destruct (HG2 HS) as (Hu & _). split; [exact Hu|].
        rewrite (headers_ok_same _ _ _ Hb1 Hb2). apply HB0. exact HS. }
      intros [m3 rr]. cbv beta. cbn [fst snd]. apply tripleG_pre_pure. intro H23. rewrite HC2.
      assert (H03 : sx m m3) by (eapply sx_trans; eassumption).
      assert (HC3 : cupb m3 = C) by (rewrite (cupb_sx _ _ H03); exact HC).
      assert (HG3 : Good S m3 (map a_id apps)) by (eapply Good_sx; eassumption).
      eapply tripleG_bind with (R := fun _ => Lc S C).
      { destruct rr as [er|bd]; cbn [isl].
        - eapply tripleG_conseq; [apply (tripleG_iterM step10l _ _ (Arm S C true)); intros x _; apply lost_ok|auto|intros ? q e H; eapply Arm_Lc; exact H].
        - apply tripleG_ret. intros q e H. eapply Arm_Lc. exact H. }
      intros _.
      eapply tripleG_bind with (R := fun _ => Lc S C).
      { match goal with |- TK _ (match ?l with [] => _ | _ => _ end) _ => destruct l eqn:Einst end; [apply tripleG_ret; auto|].
        eapply tripleG_conseq; [apply (T_report_event' S C); [exact HC3|]|auto|intros ? q e [H _]; exact H].
        intro HS. destruct (HG3 HS) as (Hu & Hn & Hi). repeat split; try assumption. apply ids_forallb. rewrite <- Einst.
        apply installed_apps. apply (evs_apps (fun a => hv (a_id a) = true)). apply forallb_ids. exact Hi. }
      intro m4.
      match goal with |- TK _ (match ?n with O => _ | S _ => _ end) _ => destruct n as [|nerr] end.
      * eapply tripleG_bind with (R := fun _ => Lc S C).
        { match goal with |- TK _ (if ?c then _ else _) _ => destruct c end; [refine (kn _ _ _ _); apply ninv_report; reflexivity|apply tripleG_ret; auto]. }
        intros _. kb ninv_set_opt.
        eapply tripleG_bind with (R := fun _ => Lc S C).
        { match goal with |- TK _ (match ?x with Some _ => _ | None => _ end) _ => destruct x end; [|apply tripleG_ret; auto]. kb ninv_write. apply tripleG_ret. auto. }
        intros _. kb ninv_write. kba ninv_pop_reboot_needed as rn. ke. apply tripleG_ret. auto.
      * eapply tripleG_bind; [apply (kn _ (ninv_iterM _ _ (fun _ : unit => ninv_yield EvInstallerError eq_refl)))|]. intro. cbv beta. ky. apply tripleG_ret. auto.
    + eapply tripleG_bind; [apply (T_report_event' S C); assumption|]. intro m2. cbv beta. apply tripleG_pre_pure. intros _. ky. apply tripleG_ret. auto.
    + eapply tripleG_bind; [apply (T_report_event' S C); assumption|]. intro m2. cbv beta. apply tripleG_ret. intros q e [H _]. exact H.
  - ky. eapply tripleG_bind; [apply (T_report_event' S C); assumption|]. intro m2. cbv beta. apply tripleG_ret. intros q e [H _]. exact H.
Qed.

Definition GoodM (S : bool) (m : sm) : Prop := Good S m (map a_id (m_apps m)).
Lemma GoodM_sx S m m' : sx m m' -> GoodM S m -> GoodM S m'.
Proof. intros H HG. unfold GoodM. rewrite (ids_sx _ _ H). eapply Good_sx; eassumption. Qed.

Lemma T_start S C fuel p m : cupb m = C -> GoodM S m -> TK (Lc S C) (start_update_check fuel p m) (fun _ => Lc S C).
Proof.
  intros HC HG. unfold start_update_check. eapply tripleG_bind; [apply T_perform; assumption|]. intros [m1 res]. cbv beta.
  eapply tripleG_bind with (R := fun _ => Lc S C).
  { destruct res as [e|[rs rb]].
    - eapply tripleG_bind with (R := fun _ => Lc S C).
      + destruct e as [re| |]; [destruct re; apply tripleG_ret; auto| |]; (kba ninv_now as n; apply tripleG_ret; auto).
      + intros [m2 reason]. kr. apply tripleG_ret. auto.
    - kba ninv_now as n. kr.
      eapply tripleG_bind; [refine (kn _ _ _ _); destruct (install_success rs); [apply ninv_report_attempts|apply ninv_ret]|]. intro. cbv beta. apply tripleG_ret. auto. }
  intros [[m2 result] rb]. cbv beta. ky. ky. ky. kb ninv_persist_data. apply tripleG_ret. auto.
Qed.

Lemma T_run_iteration S C fuel finish start_mono sr m : cupb m = C -> GoodM S m ->
  TK (Lc S C) (run_iteration fuel finish start_mono sr m) (fun _ => Lc S C).
Proof.
  intros HC HG. unfold run_iteration.
  eapply tripleG_bind with (R := fun _ => Lc S C).
  { destruct sr; [|apply tripleG_ret; auto]. kba ninv_now as n.
    match goal with |- TK _ (match ?x with Some _ => _ | None => _ end) _ => destruct x end; [|apply tripleG_ret; auto].
    kr. kb ninv_write. kb ninv_write. kb ninv_write. apply tripleG_ret. auto. }
  intro sr'.
  eapply tripleG_bind; [apply TK_and_ret; [refine (kn _ _ _ _); apply ninv_update_next|apply rx_update_next]|]. intros [m1 t]. cbv beta. cbn [fst].
  apply tripleG_pre_pure. intro H1.
  assert (HC1 : cupb m1 = C) by (rewrite (cupb_sx _ _ H1); exact HC).
  assert (HG1 : GoodM S m1) by (eapply GoodM_sx; eassumption).
  kba ninv_make_wait as roles. kba ninv_do_outer_select as sel. kba ninv_pop_allowed as dec. ke.
  assert (Hrep : forall r, TK (Lc S C) (match sel with Some (_, id) => emit (AReply id r) | None => ret tt end) (fun _ => Lc S C)).
  { intro r. destruct sel as [[s id]|]; [refine (kn _ _ _ _); apply ninv_emit; reflexivity|apply tripleG_ret; auto]. }
  destruct dec.
  1,2: (eapply tripleG_bind; [apply Hrep|intro; cbv beta]; kb ninv_enter_check;
        eapply tripleG_bind; [apply TK_and_ret; [apply T_start; assumption|apply rx_start]|]; intros [m2 rb]; cbv beta; cbn [fst];
        apply tripleG_pre_pure; intro H2;
        kb (ninv_silent (set_incheck false) ltac:(intro e; reflexivity)); kba (ninv_silent take_upgrade ltac:(intro e; reflexivity)) as upg;
        eapply tripleG_bind with (R := fun _ => Lc S C);
        [destruct rb as [pl|]; [ky; apply kinv_wait_for_reboot|apply tripleG_ret; auto]
        |intro m3; cbv beta; ky; apply tripleG_ret; auto]).
  all: (eapply tripleG_bind; [apply Hrep|intro; cbv beta]; apply tripleG_ret; auto).
Qed.

Lemma T_run_loop S C iters : forall fuel finish start_mono sr m, cupb m = C -> GoodM S m ->
  TK (Lc S C) (run_loop iters fuel finish start_mono sr m) (fun _ => Lc S C).
Proof.
  induction iters as [|k IH]; intros fuel finish start_mono sr m HC HG; cbn [run_loop]; [apply tripleG_halt|].
  eapply tripleG_bind; [apply TK_and_ret; [apply T_run_iteration; assumption|apply rx_run_iteration]|]. intros [m' sr']. cbv beta. cbn [fst].
  apply tripleG_pre_pure. intro H. apply IH; [rewrite (cupb_sx _ _ H); exact HC|eapply GoodM_sx; eassumption].
Qed.
Lemma T_run S C iters fuel m : cupb m = C -> GoodM S m -> TK (Lc S C) (run iters fuel m) (fun _ => Lc S C).
Proof.
  intros HC HG. unfold run. destruct (negb (forallb app_valid (m_apps m))); [apply tripleG_ret; auto|].
  kba ninv_now as n. kba ninv_st_get_time as fin. kba (ninv_silent (st_get_str K_TARGET_VERSION) ltac:(intro e; reflexivity)) as tv.
  apply T_run_loop; assumption.
Qed.
Lemma T_oneshot S C fuel m : cupb m = C -> GoodM S m -> TK (Lc S C) (oneshot fuel m) (fun _ => Lc S C).
Proof. intros HC HG. unfold oneshot. eapply tripleG_bind; [apply T_start; assumption|]. intros [m' rb]. apply tripleG_ret. auto. Qed.

Lemma ids_build cfg url cup apps st : map a_id (m_apps (build cfg url cup apps st)) = map a_id apps.
Proof.
  unfold build. destruct (ctx_load (pend st)) as [sc0 ps]. cbn [m_apps]. rewrite map_map. apply map_ext. intro a.
  unfold app_load. destruct (sm_get (pend st) (a_id a)) as [v|]; [|reflexivity]. destruct v; try reflexivity.
  destruct (decode_persisted _) as [[c u]|]; reflexivity.
Qed.
Lemma forallb_map_ids apps : forallb hv (map a_id apps) = forallb (fun a => hv (a_id a)) apps.
Proof. induction apps as [|a r IH]; cbn [map forallb]; [reflexivity|]. rewrite IH. reflexivity. Qed.

Theorem model_accepted_c10l ep cfg url cup apps e :
  e_trace e = [] -> accepts step10l (init10l cfg url cup apps) (run_case ep cfg url cup apps e) = true.
Proof.
  intros Ht. unfold run_case, accepts.
  set (q0 := init10l cfg url cup apps). set (m := build cfg url cup apps (e_store e)).
  assert (Hm0 : mst step10l q0 e = Some q0) by (unfold mst; rewrite Ht; reflexivity).
  assert (HC : cupb m = cup10l q0).
  { unfold m, build, cupb. destruct (ctx_load (pend (e_store e))). cbn [m_cup]. reflexivity. }
  assert (HG : GoodM (strict10l q0) m).
  { unfold GoodM, Good. unfold m at 3. rewrite ids_build. cbn [q0 init10l strict10l]. unfold buildable. intro H.
    apply Bool.andb_true_iff in H. destruct H as [H H3]. apply Bool.andb_true_iff in H. destruct H as [H1 H2].
    unfold m, build. destruct (ctx_load (pend (e_store e))). cbn [m_url m_cfg]. rewrite forallb_map_ids. auto. }
  assert (HL : Lc (strict10l q0) (cup10l q0) q0 e) by (split; reflexivity).
  destruct ep.
  - destruct (T_run _ _ (Datatypes.S (length (e_stim e) + length (c_inject (e_cs e)))) (4 + length (e_stim e) + length (c_inject (e_cs e)))
                m HC HG q0 e q0 Hm0 HL) as (q' & Hq' & _).
    fold m. destruct (run _ _ m e) as [r e'] eqn:E. cbn [snd] in Hq'. unfold mst in Hq'. rewrite Hq'. reflexivity.
  - destruct (T_oneshot _ _ (4 + length (e_stim e) + length (c_inject (e_cs e))) m HC HG q0 e q0 Hm0 HL) as (q' & Hq' & _).
    fold m. destruct (oneshot _ m e) as [r e'] eqn:E. cbn [snd] in Hq'. unfold mst in Hq'. rewrite Hq'. reflexivity.
Qed.
