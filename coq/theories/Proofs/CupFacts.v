(* Proofs/CupFacts.v — facts about Model/Cup.v (CUPv2 response verification) *)
Require Import Verif.Base.Bytes Verif.Proofs.BytesFacts Verif.Model.Cup.
Open Scope N_scope.

(* ---------- generic list helpers ---------- *)
Lemma list_ind2 {A} (P : list A -> Prop) :
  P [] -> (forall a, P [a]) -> (forall a b r, P r -> P (a :: b :: r)) -> forall l, P l.
Proof.
  intros H0 H1 H2. fix IH 1. intros [|a [|b r]]; [exact H0|apply H1|apply H2, IH].
Qed.

Lemma app_inv_length {A} (a a' b b' : list A) :
  length a = length a' -> a ++ b = a' ++ b' -> a = a' /\ b = b'.
Proof.
  revert a'; induction a as [|x a IH]; intros [|y a'] Hl H; try discriminate.
  - split; [reflexivity|exact H].
  - cbn in Hl, H. inversion H; subst. destruct (IH a') as [-> ->]; [congruence|assumption|].
    split; reflexivity.
Qed.

Lemma bytes_neq a b : bytes_eqb a b = false -> a <> b.
Proof. intros H E. subst. rewrite bytes_eqb_refl in H. discriminate. Qed.

Lemma no_collision_by_eqb (sha : bytes -> bytes) a b :
  bytes_eqb (sha a) (sha b) = false -> no_collision sha a b.
Proof. intros H E. exfalso. exact (bytes_neq _ _ H E). Qed.

(* ---------- split_once ---------- *)
Lemma split_once_app sep a b : ~ In sep a -> split_once sep (a ++ sep :: b) = Some (a, b).
Proof.
  induction a as [|c r IH]; intro H; cbn [app split_once].
  - rewrite N.eqb_refl. reflexivity.
  - destruct (c =? sep) eqn:E.
    + apply N.eqb_eq in E. exfalso. apply H. left. assumption.
    + rewrite IH; [reflexivity|]. intro Hin. apply H. right. assumption.
Qed.

Lemma split_once_some sep s a b :
  split_once sep s = Some (a, b) -> s = a ++ sep :: b /\ ~ In sep a.
Proof.
  revert a; induction s as [|c r IH]; intros a H; cbn [split_once] in H; [discriminate|].
  destruct (c =? sep) eqn:E.
  - apply N.eqb_eq in E. inversion H; subst. split; [reflexivity|intros []].
  - destruct (split_once sep r) as [[a' b']|]; [|discriminate].
    inversion H; subst. destruct (IH a' eq_refl) as [-> Hn].
    split; [reflexivity|]. intros [Hc|Hin]; [apply N.eqb_neq in E; congruence|contradiction].
Qed.

Lemma split_once_iff sep s a b :
  split_once sep s = Some (a, b) <-> s = a ++ sep :: b /\ ~ In sep a.
Proof.
  split; [apply split_once_some|]. intros [-> H]. apply split_once_app. assumption.
Qed.

Lemma app_sep_inj sep (a a' b b' : bytes) :
  ~ In sep a -> ~ In sep a' -> a ++ sep :: b = a' ++ sep :: b' -> a = a' /\ b = b'.
Proof.
  intros Ha Ha' H.
  pose proof (split_once_app sep a b Ha) as H1. rewrite H in H1.
  rewrite (split_once_app sep a' b' Ha') in H1. inversion H1. split; reflexivity.
Qed.

(* ---------- hex ---------- *)
Lemma hex_decode_digits x s : hex_decode x = Some s -> forall c, In c x -> hexval c <> None.
Proof.
  revert s. induction x as [|a|a b r IH] using list_ind2; intros s H c Hin.
  - destruct Hin.
  - discriminate.
  - cbn [hex_decode] in H.
    destruct (hexval a) eqn:Ea; [|discriminate].
    destruct (hexval b) eqn:Eb; [|discriminate].
    destruct (hex_decode r) as [t|] eqn:Er; [|discriminate].
    destruct Hin as [<-|[<-|Hin]]; [congruence|congruence|]. exact (IH t eq_refl c Hin).
Qed.

Lemma hex_decode_no_colon x s : hex_decode x = Some s -> ~ In 58 x.
Proof.
  intros H Hin. apply (hex_decode_digits x s H 58 Hin). reflexivity.
Qed.

Lemma hex_decode_is_bytes x s : hex_decode x = Some s -> is_bytes s.
Proof.
  revert s. induction x as [|a|a b r IH] using list_ind2; intros s H.
  - inversion H. constructor.
  - discriminate.
  - cbn [hex_decode] in H.
    destruct (hexval a) as [va|] eqn:Ea; [|discriminate].
    destruct (hexval b) as [vb|] eqn:Eb; [|discriminate].
    destruct (hex_decode r) as [t|] eqn:Er; [|discriminate].
    inversion H; subst. constructor; [|apply IH; reflexivity].
    assert (Hv : forall c v, hexval c = Some v -> v < 16).
    { clear. intros c v. unfold hexval.
      destruct ((48 <=? c) && (c <=? 57)) eqn:E1.
      { apply andb_true_iff in E1 as [A B]. apply N.leb_le in A, B. intro H; inversion H. lia. }
      destruct ((97 <=? c) && (c <=? 102)) eqn:E2.
      { apply andb_true_iff in E2 as [A B]. apply N.leb_le in A, B. intro H; inversion H. lia. }
      destruct ((65 <=? c) && (c <=? 70)) eqn:E3; [|discriminate].
      apply andb_true_iff in E3 as [A B]. apply N.leb_le in A, B. intro H; inversion H. lia. }
    pose proof (Hv _ _ Ea). pose proof (Hv _ _ Eb). lia.
Qed.

Lemma hexval_upper c : hexval (upper_byte c) = hexval c.
Proof.
  unfold upper_byte. destruct ((97 <=? c) && (c <=? 122)) eqn:E; [|reflexivity].
  apply andb_true_iff in E as [E1 E2]. apply N.leb_le in E1, E2.
  unfold hexval.
  replace ((48 <=? c - 32) && (c - 32 <=? 57)) with false
    by (symmetry; apply andb_false_iff; right; apply N.leb_gt; lia).
  replace ((48 <=? c) && (c <=? 57)) with false
    by (symmetry; apply andb_false_iff; right; apply N.leb_gt; lia).
  replace ((97 <=? c - 32) && (c - 32 <=? 102)) with false
    by (symmetry; apply andb_false_iff; left; apply N.leb_gt; lia).
  replace (97 <=? c) with true by (symmetry; apply N.leb_le; lia).
  replace (65 <=? c - 32) with true by (symmetry; apply N.leb_le; lia).
  cbn [andb].
  destruct (c <=? 102) eqn:F; [apply N.leb_le in F|apply N.leb_gt in F].
  - replace (c - 32 <=? 70) with true by (symmetry; apply N.leb_le; lia). f_equal. lia.
  - replace (c - 32 <=? 70) with false by (symmetry; apply N.leb_gt; lia).
    replace ((65 <=? c) && (c <=? 70)) with false
      by (symmetry; apply andb_false_iff; right; apply N.leb_gt; lia).
    reflexivity.
Qed.

Lemma hex_decode_upper x : hex_decode (upper x) = hex_decode x.
Proof.
  induction x as [|a|a b r IH] using list_ind2; [reflexivity|reflexivity|].
  unfold upper in *. cbn [map hex_decode]. rewrite !hexval_upper, IH. reflexivity.
Qed.

Lemma upper_colon_app a b : upper (a ++ 58 :: b) = upper a ++ 58 :: upper b.
Proof. unfold upper. rewrite map_app. reflexivity. Qed.

(* ---------- parse_etag ---------- *)
Lemma unquote_quoted t : unquote (quoted t) = Some t.
Proof.
  unfold unquote, quoted. rewrite N.eqb_refl, rev_app_distr. cbn [rev app].
  rewrite N.eqb_refl, rev_involutive. reflexivity.
Qed.

Lemma unquote_some s i : unquote s = Some i -> s = quoted i.
Proof.
  destruct s as [|c r]; [discriminate|]. unfold unquote.
  destruct (c =? 34) eqn:Hc; [|discriminate]. apply N.eqb_eq in Hc. subst c.
  destruct (rev r) as [|d ri] eqn:Hr; [discriminate|].
  destruct (d =? 34) eqn:Hd; [|discriminate]. apply N.eqb_eq in Hd. subst d.
  intro H. inversion H. unfold quoted. f_equal.
  rewrite <- (rev_involutive r), Hr. reflexivity.
Qed.

Lemma unquote_iff s i : unquote s = Some i <-> s = quoted i.
Proof. split; [apply unquote_some|intros ->; apply unquote_quoted]. Qed.

Lemma strip_quoted t : strip_etag (quoted t) = t.
Proof.
  pose proof (unquote_quoted t) as H. unfold quoted in *.
  destruct t as [|x t']; cbn [app] in *; unfold strip_etag;
    (replace (34 =? 87) with false by reflexivity); cbn [andb]; rewrite H; reflexivity.
Qed.

Lemma strip_weak_quoted t : strip_etag (weak_quoted t) = t.
Proof.
  unfold weak_quoted, strip_etag. rewrite !N.eqb_refl. cbn [andb].
  change (34 :: t ++ [34]) with (quoted t). rewrite unquote_quoted. reflexivity.
Qed.

Lemma strip_encodings t : strip_etag (quoted t) = t /\ strip_etag (weak_quoted t) = t.
Proof. split; [apply strip_quoted|apply strip_weak_quoted]. Qed.

Lemma strip_plain t : plain_form t -> strip_etag t = t.
Proof.
  intros [Hq Hw]. unfold strip_etag. destruct t as [|a [|b r]]; try reflexivity.
  destruct ((a =? 87) && (b =? 47)) eqn:E.
  - apply andb_true_iff in E as [Ea Eb]. apply N.eqb_eq in Ea, Eb. subst.
    destruct (unquote r) as [i|] eqn:U; [|reflexivity].
    apply unquote_some in U. subst r. exfalso. exact (Hw i eq_refl).
  - destruct (unquote (a :: b :: r)) as [i|] eqn:U; [|reflexivity].
    apply unquote_some in U. exfalso. exact (Hq i U).
Qed.

Lemma quoted_length t : length (quoted t) = S (S (length t)).
Proof. unfold quoted. cbn [length]. rewrite app_length. cbn [length]. lia. Qed.

(* the side condition is exact: parse_etag leaves t alone iff t is plain *)
Lemma strip_fixed_iff t : strip_etag t = t <-> plain_form t.
Proof.
  split; [|apply strip_plain]. intro H. split; intros i ->.
  - rewrite strip_quoted in H. apply (f_equal (@length N)) in H.
    rewrite quoted_length in H. lia.
  - rewrite strip_weak_quoted in H. apply (f_equal (@length N)) in H.
    unfold weak_quoted in H. cbn [length] in H. rewrite app_length in H. cbn [length] in H. lia.
Qed.

(* a sufficient, syntactic condition: no leading quote (34) and no leading W/ + quote *)
Lemma plain_form_no_prefix t :
  (forall r, t <> 34 :: r) -> (forall r, t <> 87 :: 47 :: 34 :: r) -> plain_form t.
Proof.
  intros H1 H2. split; intros i E; [exact (H1 _ E)|exact (H2 _ E)].
Qed.

Lemma to_str_quoted t : to_str_ok (quoted t) = to_str_ok t.
Proof.
  unfold to_str_ok, quoted. cbn [forallb]. rewrite forallb_app. cbn [forallb].
  replace (is_visible_ascii 34) with true by reflexivity.
  rewrite andb_true_r. reflexivity.
Qed.

Lemma to_str_weak_quoted t : to_str_ok (weak_quoted t) = to_str_ok t.
Proof.
  unfold weak_quoted. change (34 :: t ++ [34]) with (quoted t).
  unfold to_str_ok. cbn [forallb].
  replace (is_visible_ascii 87) with true by reflexivity.
  replace (is_visible_ascii 47) with true by reflexivity.
  apply to_str_quoted.
Qed.

Lemma to_str_ok_iff h :
  to_str_ok h = true <-> Forall (fun b => 32 <= b < 127 \/ b = 9) h.
Proof.
  unfold to_str_ok. rewrite forallb_forall, Forall_forall.
  split; intros H b Hin; specialize (H b Hin); unfold is_visible_ascii in *.
  - apply orb_true_iff in H as [H|H].
    + apply andb_true_iff in H as [A B]. apply N.leb_le in A. apply N.ltb_lt in B. left; lia.
    + apply N.eqb_eq in H. right; assumption.
  - apply orb_true_iff. destruct H as [[A B]| ->].
    + left. apply andb_true_iff. split; [apply N.leb_le|apply N.ltb_lt]; assumption.
    + right. reflexivity.
Qed.

(* ---------- key map ---------- *)
Lemma build_map_rev_acc keys acc : fold_left map_insert keys acc = rev keys ++ acc.
Proof.
  revert acc; induction keys as [|kv r IH]; intro acc; cbn [fold_left rev]; [reflexivity|].
  rewrite IH. unfold map_insert. rewrite <- app_assoc. reflexivity.
Qed.

Lemma build_map_rev keys : build_map keys = rev keys.
Proof. unfold build_map. rewrite build_map_rev_acc, app_nil_r. reflexivity. Qed.

Lemma map_get_app id m1 m2 :
  map_get id (m1 ++ m2) = match map_get id m1 with Some k => Some k | None => map_get id m2 end.
Proof.
  induction m1 as [|[i k] r IH]; cbn [app map_get]; [reflexivity|].
  destruct (i =? id); [reflexivity|exact IH].
Qed.

Lemma map_get_none id m : map_get id m = None <-> ~ In id (map fst m).
Proof.
  induction m as [|[i k] r IH]; cbn [map_get map fst In].
  - split; [intros _ []|reflexivity].
  - destruct (i =? id) eqn:E.
    + apply N.eqb_eq in E. split; [discriminate|]. intro H. exfalso. apply H. left. assumption.
    + apply N.eqb_neq in E. rewrite IH. split.
      * intros H [Hc|Hin]; [congruence|contradiction].
      * intros H Hin. apply H. right. assumption.
Qed.

(* HashMap::collect: the LAST entry with the id wins *)
Lemma key_lookup_last_wins keys id pk :
  map_get id (build_map keys) = Some pk <->
  exists l1 l2, keys = l1 ++ (id, pk) :: l2 /\ ~ In id (map fst l2).
Proof.
  rewrite build_map_rev. split.
  - induction keys as [|[i k] r IH] using rev_ind; [discriminate|].
    rewrite rev_app_distr. cbn [rev app map_get].
    destruct (i =? id) eqn:E.
    + apply N.eqb_eq in E. subst i. intro H. inversion H; subst.
      exists r, []. split; [reflexivity|intros []].
    + intro H. destruct (IH H) as (l1 & l2 & -> & Hn).
      exists l1, (l2 ++ [(i, k)]). split; [rewrite <- app_assoc; reflexivity|].
      rewrite map_app, in_app_iff. cbn [map fst In].
      apply N.eqb_neq in E. intros [Hin|[Hc|[]]]; [contradiction|congruence].
  - intros (l1 & l2 & -> & Hn). rewrite rev_app_distr. cbn [rev].
    rewrite <- app_assoc. rewrite map_get_app.
    assert (Hnone : map_get id (rev l2) = None).
    { apply map_get_none. rewrite map_rev, <- in_rev. assumption. }
    rewrite Hnone. cbn [app map_get]. rewrite N.eqb_refl. reflexivity.
Qed.

Lemma key_lookup_none keys id :
  map_get id (build_map keys) = None <-> ~ In id (map fst keys).
Proof.
  rewrite build_map_rev, map_get_none, map_rev, <- in_rev. reflexivity.
Qed.

(* with pairwise distinct ids (DESIGN.md 6) "the key registered for the id" is unambiguous *)
Lemma key_lookup_distinct keys id pk :
  NoDup (map fst keys) ->
  (map_get id (build_map keys) = Some pk <-> In (id, pk) keys).
Proof.
  intro Hnd. rewrite key_lookup_last_wins. split.
  - intros (l1 & l2 & -> & _). apply in_or_app. right. left. reflexivity.
  - intro Hin. apply in_split in Hin as (l1 & l2 & ->). exists l1, l2.
    split; [reflexivity|].
    rewrite map_app in Hnd. cbn [map fst] in Hnd.
    apply NoDup_remove_2 in Hnd. intro H. apply Hnd. apply in_or_app. right. assumption.
Qed.

(* ---------- the verifier ---------- *)
Section Verify.
  Variable sha256 : bytes -> bytes.
  Variable der_ok : bytes -> bool.
  Variable ecdsa_verify : N -> bytes -> bytes -> bool.

  Notation verify := (verify sha256 der_ok ecdsa_verify).
  Notation tx_digest := (tx_digest sha256).
  Notation digest_preimage := (digest_preimage sha256).

  Lemma digest_composition req resp id nonce :
    tx_digest req resp id nonce =
    sha256 (sha256 req ++ sha256 resp ++ print_dec id ++ [58] ++ hex_encode nonce).
  Proof. reflexivity. Qed.

  Lemma accept_iff keys req resp nonce id etags s :
    verify keys req resp nonce id etags = inr s <->
    exists h rest sighex hashhex pk,
      etags = h :: rest /\
      to_str_ok h = true /\
      strip_etag h = sighex ++ [58] ++ hashhex /\
      hex_decode sighex = Some s /\
      hex_decode hashhex = Some (sha256 req) /\
      der_ok s = true /\
      map_get id (build_map keys) = Some pk /\
      ecdsa_verify pk (tx_digest req resp id nonce) s = true.
  Proof.
    unfold Cup.verify. split.
    - destruct etags as [|h rest]; [discriminate|].
      destruct (to_str_ok h) eqn:Hs; cbn [negb]; [|discriminate].
      destruct (split_once 58 (strip_etag h)) as [[sighex hashhex]|] eqn:Hsp; [|discriminate].
      destruct (hex_decode hashhex) as [hash|] eqn:Hh; [|discriminate].
      destruct (bytes_eqb hash (sha256 req)) eqn:Heq; cbn [negb]; [|discriminate].
      destruct (hex_decode sighex) as [sig|] eqn:Hsig; [|discriminate].
      destruct (der_ok sig) eqn:Hder; cbn [negb]; [|discriminate].
      destruct (map_get id (build_map keys)) as [pk|] eqn:Hk; [|discriminate].
      destruct (ecdsa_verify pk _ sig) eqn:Hv; [|discriminate].
      intro H. inversion H; subst sig.
      apply bytes_eqb_eq in Heq. subst hash.
      apply split_once_some in Hsp as [Hsp _].
      exists h, rest, sighex, hashhex, pk. repeat split; assumption.
    - intros (h & rest & sighex & hashhex & pk & -> & Hs & Hst & Hsig & Hh & Hder & Hk & Hv).
      rewrite Hs. cbn [negb]. rewrite Hst. cbn [app].
      rewrite split_once_app by (eapply hex_decode_no_colon; eassumption).
      rewrite Hh, bytes_eqb_refl. cbn [negb]. rewrite Hsig, Hder. cbn [negb].
      rewrite Hk, Hv. reflexivity.
  Qed.

  (* only the first ETag header is looked at *)
  Lemma first_etag_only keys req resp nonce id h rest :
    verify keys req resp nonce id (h :: rest) = verify keys req resp nonce id [h].
  Proof. reflexivity. Qed.

  (* the result depends on the header only through to_str_ok and strip_etag *)
  Lemma verify_strip keys req resp nonce id h h' rest rest' :
    to_str_ok h = to_str_ok h' -> strip_etag h = strip_etag h' ->
    verify keys req resp nonce id (h :: rest) = verify keys req resp nonce id (h' :: rest').
  Proof. intros H1 H2. unfold Cup.verify. rewrite H1, H2. reflexivity. Qed.

  Lemma encodings_quoted_weak keys req resp nonce id t rest :
    verify keys req resp nonce id (quoted t :: rest) =
    verify keys req resp nonce id (weak_quoted t :: rest).
  Proof.
    apply verify_strip.
    - rewrite to_str_quoted, to_str_weak_quoted. reflexivity.
    - rewrite strip_quoted, strip_weak_quoted. reflexivity.
  Qed.

  Lemma encodings keys req resp nonce id t rest :
    plain_form t ->
    verify keys req resp nonce id (quoted t :: rest) = verify keys req resp nonce id (t :: rest) /\
    verify keys req resp nonce id (weak_quoted t :: rest) = verify keys req resp nonce id (t :: rest).
  Proof.
    intro Hp. split; apply verify_strip.
    - apply to_str_quoted.
    - rewrite strip_quoted, strip_plain by assumption. reflexivity.
    - apply to_str_weak_quoted.
    - rewrite strip_weak_quoted, strip_plain by assumption. reflexivity.
  Qed.

  Lemma total keys req resp nonce id etags :
    let r := verify keys req resp nonce id etags in
    (exists s, r = inr s) \/
    r = inl EtagHeaderMissing \/ r = inl EtagNotString \/ r = inl EtagMalformed \/
    r = inl RequestHashMalformed \/ r = inl RequestHashMismatch \/ r = inl SignatureMalformed \/
    r = inl SpecifiedPublicKeyIdMissing \/ r = inl SignatureError.
  Proof.
    cbv zeta. destruct (verify keys req resp nonce id etags) as [[]|s]; eauto 10.
  Qed.

  (* exact reason for each of the early rejections *)
  Lemma reject_missing keys req resp nonce id :
    verify keys req resp nonce id [] = inl EtagHeaderMissing.
  Proof. reflexivity. Qed.

  Lemma reject_not_string keys req resp nonce id h rest :
    to_str_ok h = false -> verify keys req resp nonce id (h :: rest) = inl EtagNotString.
  Proof. intro H. unfold Cup.verify. rewrite H. reflexivity. Qed.

  Lemma reject_no_colon keys req resp nonce id h rest :
    to_str_ok h = true -> ~ In 58 (strip_etag h) ->
    verify keys req resp nonce id (h :: rest) = inl EtagMalformed.
  Proof.
    intros H Hn. unfold Cup.verify. rewrite H. cbn [negb].
    destruct (split_once 58 (strip_etag h)) as [[a b]|] eqn:E; [|reflexivity].
    apply split_once_some in E as [E _]. exfalso. apply Hn. rewrite E.
    apply in_or_app. right. left. reflexivity.
  Qed.

  (* ---------- what an acceptance implies (soundness half, for any ETag) ---------- *)
  Lemma accept_sound keys req resp nonce id etags s :
    verify keys req resp nonce id etags = inr s ->
    exists pk, map_get id (build_map keys) = Some pk /\ der_ok s = true /\
               ecdsa_verify pk (tx_digest req resp id nonce) s = true.
  Proof.
    intro H. apply accept_iff in H as (h & rest & sh & hh & pk & _ & _ & _ & _ & _ & Hd & Hk & Hv).
    exists pk. repeat split; assumption.
  Qed.

  (* once an exchange is accepted, the same ETag with the same retained request
     body and key set evaluates, for any other response body / nonce / key id,
     to exactly one signature check on the new digest *)
  Lemma same_etag_other_digest keys req resp nonce id etags s resp' nonce' id' :
    verify keys req resp nonce id etags = inr s ->
    verify keys req resp' nonce' id' etags =
      match map_get id' (build_map keys) with
      | None => inl SpecifiedPublicKeyIdMissing
      | Some pk' => if ecdsa_verify pk' (tx_digest req resp' id' nonce') s
                    then inr s else inl SignatureError
      end.
  Proof.
    intro H. apply accept_iff in H as (h & rest & sh & hh & pk & -> & Hs & Hst & Hsig & Hh & Hd & _ & _).
    unfold Cup.verify. rewrite Hs. cbn [negb]. rewrite Hst. cbn [app].
    rewrite split_once_app by (eapply hex_decode_no_colon; eassumption).
    rewrite Hh, bytes_eqb_refl. cbn [negb]. rewrite Hsig, Hd. cbn [negb]. reflexivity.
  Qed.

  (* ---------- the digest binds its four components ---------- *)
  Lemma print_dec_inj a b : print_dec a = print_dec b -> a = b.
  Proof.
    intro H. destruct (print_dec_canonical a) as (_ & _ & Ha & _).
    destruct (print_dec_canonical b) as (_ & _ & Hb & _). congruence.
  Qed.

  Lemma print_dec_no_colon n : ~ In 58 (print_dec n).
  Proof.
    destruct (print_dec_canonical n) as (_ & Had & _).
    apply (all_digits_no_sep 58 _ eq_refl Had).
  Qed.

  Lemma hex_encode_inj a b : is_bytes a -> is_bytes b -> hex_encode a = hex_encode b -> a = b.
  Proof.
    intros Ha Hb H. pose proof (hex_decode_encode a Ha) as H1.
    rewrite H, (hex_decode_encode b Hb) in H1. congruence.
  Qed.

  Lemma cup2_urlparam_inj id id' n n' :
    is_bytes n -> is_bytes n' -> cup2_urlparam id n = cup2_urlparam id' n' -> id = id' /\ n = n'.
  Proof.
    intros Hn Hn' H. unfold cup2_urlparam in H. cbn [app] in H.
    apply app_sep_inj in H as [H1 H2]; try apply print_dec_no_colon.
    split; [apply print_dec_inj; assumption|apply hex_encode_inj; assumption].
  Qed.

  Lemma preimage_inj req resp id nonce req' resp' id' nonce' :
    fixed_len sha256 -> is_bytes nonce -> is_bytes nonce' ->
    digest_preimage req resp id nonce = digest_preimage req' resp' id' nonce' ->
    sha256 req = sha256 req' /\ sha256 resp = sha256 resp' /\ id = id' /\ nonce = nonce'.
  Proof.
    intros Hl Hn Hn' H. unfold Cup.digest_preimage in H.
    apply app_inv_length in H as [H1 H]; [|apply Hl].
    apply app_inv_length in H as [H2 H]; [|apply Hl].
    apply cup2_urlparam_inj in H as [H3 H4]; try assumption.
    repeat split; assumption.
  Qed.

  Lemma digest_binds req resp id nonce req' resp' id' nonce' :
    fixed_len sha256 -> is_bytes nonce -> is_bytes nonce' ->
    no_collision sha256 (digest_preimage req resp id nonce) (digest_preimage req' resp' id' nonce') ->
    tx_digest req resp id nonce = tx_digest req' resp' id' nonce' ->
    sha256 req = sha256 req' /\ sha256 resp = sha256 resp' /\ id = id' /\ nonce = nonce'.
  Proof.
    intros Hl Hn Hn' Hc H. apply preimage_inj; try assumption. apply Hc. exact H.
  Qed.

  (* ---------- tamper lemmas ---------- *)
  (* response body *)
  Lemma tamper_response_body keys req resp nonce id etags s resp' :
    verify keys req resp nonce id etags = inr s ->
    resp' <> resp ->
    fixed_len sha256 -> is_bytes nonce ->
    no_collision sha256 resp' resp ->
    no_collision sha256 (digest_preimage req resp' id nonce) (digest_preimage req resp id nonce) ->
    tx_digest req resp' id nonce <> tx_digest req resp id nonce /\
    exists pk, map_get id (build_map keys) = Some pk /\
      ecdsa_verify pk (tx_digest req resp id nonce) s = true /\
      verify keys req resp' nonce id etags =
        (if ecdsa_verify pk (tx_digest req resp' id nonce) s then inr s else inl SignatureError).
  Proof.
    intros Hacc Hne Hl Hn Hc1 Hc2. split.
    - intro H. apply digest_binds in H as (_ & H & _); try assumption. apply Hne, Hc1, H.
    - destruct (accept_sound _ _ _ _ _ _ _ Hacc) as (pk & Hk & _ & Hv).
      exists pk. split; [assumption|]. split; [assumption|].
      rewrite (same_etag_other_digest _ _ _ _ _ _ _ resp' nonce id Hacc), Hk. reflexivity.
  Qed.

  Lemma tamper_response_body_rejected keys req resp nonce id etags s resp' :
    verify keys req resp nonce id etags = inr s ->
    resp' <> resp ->
    fixed_len sha256 -> is_bytes nonce ->
    no_collision sha256 resp' resp ->
    no_collision sha256 (digest_preimage req resp' id nonce) (digest_preimage req resp id nonce) ->
    (forall pk, map_get id (build_map keys) = Some pk -> sig_binds ecdsa_verify pk s) ->
    verify keys req resp' nonce id etags = inl SignatureError.
  Proof.
    intros Hacc Hne Hl Hn Hc1 Hc2 Hb.
    destruct (tamper_response_body _ _ _ _ _ _ _ _ Hacc Hne Hl Hn Hc1 Hc2) as (Hd & pk & Hk & Hv & ->).
    destruct (ecdsa_verify pk (tx_digest req resp' id nonce) s) eqn:E; [|reflexivity].
    exfalso. apply Hd. exact (Hb pk Hk _ _ E Hv).
  Qed.

  (* nonce *)
  Lemma tamper_nonce keys req resp nonce id etags s nonce' :
    verify keys req resp nonce id etags = inr s ->
    nonce' <> nonce ->
    fixed_len sha256 -> is_bytes nonce -> is_bytes nonce' ->
    no_collision sha256 (digest_preimage req resp id nonce') (digest_preimage req resp id nonce) ->
    tx_digest req resp id nonce' <> tx_digest req resp id nonce /\
    exists pk, map_get id (build_map keys) = Some pk /\
      ecdsa_verify pk (tx_digest req resp id nonce) s = true /\
      verify keys req resp nonce' id etags =
        (if ecdsa_verify pk (tx_digest req resp id nonce') s then inr s else inl SignatureError).
  Proof.
    intros Hacc Hne Hl Hn Hn' Hc. split.
    - intro H. apply digest_binds in H as (_ & _ & _ & H); try assumption. apply Hne, H.
    - destruct (accept_sound _ _ _ _ _ _ _ Hacc) as (pk & Hk & _ & Hv).
      exists pk. split; [assumption|]. split; [assumption|].
      rewrite (same_etag_other_digest _ _ _ _ _ _ _ resp nonce' id Hacc), Hk. reflexivity.
  Qed.

  Lemma tamper_nonce_rejected keys req resp nonce id etags s nonce' :
    verify keys req resp nonce id etags = inr s ->
    nonce' <> nonce ->
    fixed_len sha256 -> is_bytes nonce -> is_bytes nonce' ->
    no_collision sha256 (digest_preimage req resp id nonce') (digest_preimage req resp id nonce) ->
    (forall pk, map_get id (build_map keys) = Some pk -> sig_binds ecdsa_verify pk s) ->
    verify keys req resp nonce' id etags = inl SignatureError.
  Proof.
    intros Hacc Hne Hl Hn Hn' Hc Hb.
    destruct (tamper_nonce _ _ _ _ _ _ _ _ Hacc Hne Hl Hn Hn' Hc) as (Hd & pk & Hk & Hv & ->).
    destruct (ecdsa_verify pk (tx_digest req resp id nonce') s) eqn:E; [|reflexivity].
    exfalso. apply Hd. exact (Hb pk Hk _ _ E Hv).
  Qed.

  (* key id: the digest changes and the key looked up may change too *)
  Lemma tamper_key_id keys req resp nonce id etags s id' :
    verify keys req resp nonce id etags = inr s ->
    id' <> id ->
    fixed_len sha256 -> is_bytes nonce ->
    no_collision sha256 (digest_preimage req resp id' nonce) (digest_preimage req resp id nonce) ->
    tx_digest req resp id' nonce <> tx_digest req resp id nonce /\
    verify keys req resp nonce id' etags =
      match map_get id' (build_map keys) with
      | None => inl SpecifiedPublicKeyIdMissing
      | Some pk' => if ecdsa_verify pk' (tx_digest req resp id' nonce) s
                    then inr s else inl SignatureError
      end.
  Proof.
    intros Hacc Hne Hl Hn Hc. split.
    - intro H. apply digest_binds in H as (_ & _ & H & _); try assumption. apply Hne, H.
    - apply same_etag_other_digest with (1 := Hacc).
  Qed.

  (* retained request body, same ETag: rejected outright by the hash half *)
  Lemma tamper_request_body keys req resp nonce id etags s req' :
    verify keys req resp nonce id etags = inr s ->
    req' <> req ->
    no_collision sha256 req' req ->
    verify keys req' resp nonce id etags = inl RequestHashMismatch.
  Proof.
    intros Hacc Hne Hc.
    apply accept_iff in Hacc as (h & rest & sh & hh & pk & -> & Hs & Hst & Hsig & Hh & _).
    unfold Cup.verify. rewrite Hs. cbn [negb]. rewrite Hst. cbn [app].
    rewrite split_once_app by (eapply hex_decode_no_colon; eassumption).
    rewrite Hh. destruct (bytes_eqb (sha256 req) (sha256 req')) eqn:E; [|reflexivity].
    apply bytes_eqb_eq in E. exfalso. apply Hne, Hc. symmetry. exact E.
  Qed.

  (* retained request body with ANY replacement ETag (for instance the hash half
     recomputed for the new body): the digest is a different one, and whatever
     is accepted is a signature valid on that new digest *)
  Lemma tamper_request_body_any_etag keys req resp nonce id etags s req' etags' s' :
    verify keys req resp nonce id etags = inr s ->
    req' <> req ->
    fixed_len sha256 -> is_bytes nonce ->
    no_collision sha256 req' req ->
    no_collision sha256 (digest_preimage req' resp id nonce) (digest_preimage req resp id nonce) ->
    verify keys req' resp nonce id etags' = inr s' ->
    tx_digest req' resp id nonce <> tx_digest req resp id nonce /\
    exists pk, map_get id (build_map keys) = Some pk /\
      ecdsa_verify pk (tx_digest req resp id nonce) s = true /\
      ecdsa_verify pk (tx_digest req' resp id nonce) s' = true.
  Proof.
    intros Hacc Hne Hl Hn Hc1 Hc2 Hacc'. split.
    - intro H. apply digest_binds in H as (H & _); try assumption. apply Hne, Hc1, H.
    - destruct (accept_sound _ _ _ _ _ _ _ Hacc) as (pk & Hk & _ & Hv).
      destruct (accept_sound _ _ _ _ _ _ _ Hacc') as (pk' & Hk' & _ & Hv').
      assert (pk' = pk) by congruence. subst pk'.
      exists pk. repeat split; assumption.
  Qed.

  (* hash half: anything that does not decode to SHA-256(request body) is
     rejected outright, no hypothesis on the primitives *)
  Lemma tamper_hash_half keys req resp nonce id h rest sighex hashhex :
    to_str_ok h = true ->
    strip_etag h = sighex ++ [58] ++ hashhex -> ~ In 58 sighex ->
    hex_decode hashhex <> Some (sha256 req) ->
    verify keys req resp nonce id (h :: rest) =
      match hex_decode hashhex with
      | None => inl RequestHashMalformed
      | Some _ => inl RequestHashMismatch
      end.
  Proof.
    intros Hs Hst Hn Hne. unfold Cup.verify. rewrite Hs. cbn [negb]. rewrite Hst. cbn [app].
    rewrite split_once_app by assumption.
    destruct (hex_decode hashhex) as [hash|]; [|reflexivity].
    destruct (bytes_eqb hash (sha256 req)) eqn:E; [|reflexivity].
    apply bytes_eqb_eq in E. subst. congruence.
  Qed.

  (* signature (or the whole ETag) replaced: whatever comes out as accepted is
     itself a DER signature valid under the key registered for the id on the
     specified digest.  Stated exactly so because ECDSA is malleable. *)
  Lemma tamper_signature keys req resp nonce id etags' s' pk :
    map_get id (build_map keys) = Some pk ->
    verify keys req resp nonce id etags' = inr s' ->
    der_ok s' = true /\ ecdsa_verify pk (tx_digest req resp id nonce) s' = true.
  Proof.
    intros Hk H. destruct (accept_sound _ _ _ _ _ _ _ H) as (pk' & Hk' & Hd & Hv).
    assert (pk' = pk) by congruence. subst. split; assumption.
  Qed.

  (* signing key changed: a signature that does not verify under the
     REGISTERED key is rejected, however well-formed the ETag *)
  Lemma tamper_signing_key keys req resp nonce id h rest sighex hashhex s' pk :
    to_str_ok h = true ->
    strip_etag h = sighex ++ [58] ++ hashhex ->
    hex_decode sighex = Some s' ->
    hex_decode hashhex = Some (sha256 req) ->
    map_get id (build_map keys) = Some pk ->
    ecdsa_verify pk (tx_digest req resp id nonce) s' = false ->
    verify keys req resp nonce id (h :: rest) = inl SignatureError.
  Proof.
    intros Hs Hst Hsig Hh Hk Hv. unfold Cup.verify. rewrite Hs. cbn [negb]. rewrite Hst. cbn [app].
    rewrite split_once_app by (eapply hex_decode_no_colon; eassumption).
    rewrite Hh, bytes_eqb_refl. cbn [negb]. rewrite Hsig.
    destruct (der_ok s'); cbn [negb]; [|reflexivity]. rewrite Hk, Hv. reflexivity.
  Qed.
End Verify.

(* ---------- a toy instantiation, for non-vacuity examples only ----------
   (computable stand-ins with the shape of the primitives; nothing is claimed
   about SHA-256 or ECDSA) *)
Fixpoint be_bytes (k : nat) (n : N) : bytes :=
  match k with O => [] | S k' => be_bytes k' (n / 256) ++ [n mod 256] end.

Definition toy_sha (x : bytes) : bytes :=
  be_bytes 32 (fold_left (fun acc b => (acc * 257 + b + 1) mod 2 ^ 256) x 7).
Definition toy_der (s : bytes) : bool := match s with [] => false | _ => true end.
(* the one signature of message d under key pk is pk :: d *)
Definition toy_verify (pk : N) (d s : bytes) : bool := bytes_eqb s (pk :: d).

Lemma be_bytes_length k n : length (be_bytes k n) = k.
Proof.
  revert n; induction k as [|k IH]; intro n; cbn [be_bytes]; [reflexivity|].
  rewrite app_length, IH. cbn [length]. lia.
Qed.

Lemma toy_fixed_len : fixed_len toy_sha.
Proof. intros a b. unfold toy_sha. rewrite !be_bytes_length. reflexivity. Qed.

Lemma toy_sig_binds pk s : sig_binds toy_verify pk s.
Proof.
  intros d1 d2 H1 H2. unfold toy_verify in *.
  apply bytes_eqb_eq in H1, H2. congruence.
Qed.

Definition ex_req : bytes := s2b "{""request"":{""protocol"":""3.0""}}".
Definition ex_resp : bytes := s2b "{""response"":{""server"":""prod""}}".
Definition ex_resp' : bytes := s2b "{""response"":{""server"":""prad""}}".
Definition ex_nonce : bytes := repeat 171 32.
Definition ex_keys : list (N * N) := [(42, 5); (7, 9)].
Definition ex_sig : bytes := 5 :: tx_digest toy_sha ex_req ex_resp 42 ex_nonce.
Definition ex_etag : bytes := hex_encode ex_sig ++ [58] ++ hex_encode (toy_sha ex_req).
Definition ex_verify := verify toy_sha toy_der toy_verify ex_keys.
