(* Proofs/C02bProof.v — every model trace is accepted by step2b: no protocol-state announcement between an
   unauthenticated response and the next schedule announcement *)
Require Import Verif.Model.Time Verif.Base.Bytes Verif.Proofs.BytesFacts Verif.Model.Version Verif.Model.Json Verif.Model.Proto
               Verif.Model.Request Verif.Model.Env Verif.Model.SM Verif.Model.Monitors Verif.Model.Monitors2b
               Verif.Proofs.Monitor Verif.Proofs.MonGeneric.
Open Scope Z_scope.

Notation T := (triple step2b).
Definition Inv2b (q : q2b) : Prop := True.
Notation nM := (neutralM step2b Inv2b).
Definition cupb (m : sm) : bool := match m_cup m with Some _ => true | None => false end.
Definition J (m : sm) (q : q2b) : Prop := cup2b q = cupb m.
Lemma J_inv m q : J m q -> Inv2b q. Proof. intros; exact I. Qed.
Lemma J_ext m m' q : ps_poll (m_ps m') = ps_poll (m_ps m') -> m_cup m' = m_cup m -> J m q -> J m' q.
Proof. intros _ Hc H. unfold J, cupb in *. rewrite Hc. exact H. Qed.

Definition idle_action (a : action) : Prop :=
  match a with AHttp _ _ | AEvent (EvSchedule _) | AEvent (EvProtocol _) => False | _ => True end.
Lemma step2b_idle q a : idle_action a -> step2b q a = Some q.
Proof.
  intros Ha. destruct a as [ev|pq ans|w o|c ans|c|w|op ok|mt|id src|id r]; try contradiction; try reflexivity.
  destruct ev; try contradiction; reflexivity.
Qed.
Lemma ign_store2b : ign_store step2b Inv2b. Proof. intros op ok q H. reflexivity. Qed.
Lemma ign_clock2b : ign_clock step2b Inv2b. Proof. intros c q H. reflexivity. Qed.
Lemma ign_metric2b : ign_metric step2b Inv2b. Proof. intros c q H. reflexivity. Qed.
Lemma ign_timer2b w : neutral step2b Inv2b (ATimer w). Proof. intros q H. reflexivity. Qed.
Lemma ign_ctl2b : ign_ctl step2b. Proof. split; intros; reflexivity. Qed.
Ltac temit := first [apply triple_emit | apply (T_yield step2b _ _ _ ign_ctl2b) | (unfold yield_state; apply (T_yield step2b _ _ _ ign_ctl2b))].

Lemma Jn {A} (m0 : sm) (m : M A) : nM m -> T (J m0) m (fun _ => J m0).
Proof. intro H. apply (H (J m0)). apply J_inv. Qed.
Ltac kn H := eapply triple_bind; [apply (Jn _ _ H)|intro].
Tactic Notation "kna" constr(H) "as" ident(x) := eapply triple_bind; [apply (Jn _ _ H)|intro x].
Lemma nM_emit_idle a : idle_action a -> nM (emit a).
Proof. intro Ha. apply neutralM_emit. intros q H. apply step2b_idle; assumption. Qed.
Lemma nM_yield_idle ev : (match ev with EvSchedule _ | EvProtocol _ => False | _ => True end) -> nM (yield_ ev).
Proof.
  intro H. apply neutralM_yield; [apply ign_ctl2b|]. intros q Hq. apply step2b_idle. destruct ev; try contradiction; exact I.
Qed.
Lemma nM_yield_state s : nM (yield_state s).
Proof. apply nM_yield_idle. exact I. Qed.
Ltac rj := apply triple_ret; intros q Hq; exact Hq.
Ltac rext := apply triple_ret; intros q Hq; (eapply J_ext; [| |exact Hq]; reflexivity).

(* a schedule announcement disarms; a protocol-state announcement needs the monitor disarmed *)
Lemma T_sched m : forall s, T (J m) (yield_ (EvSchedule s)) (fun _ q => J m q /\ armed2b q = false).
Proof. intro s. temit. intros q Hq. eexists. split; [reflexivity|]. split; [exact Hq|reflexivity]. Qed.
Lemma T_proto_unarmed m : forall ps, T (fun q => J m q /\ armed2b q = false) (yield_ (EvProtocol ps)) (fun _ q => J m q /\ armed2b q = false).
Proof. intro ps. temit. intros q [Hq Ha]. exists q. split; [unfold step2b; rewrite Ha; reflexivity|split; assumption]. Qed.

Lemma T_do_req b m : T (J m) (do_omaha_request b m) (fun r => J (fst r)).
Proof.
  unfold do_omaha_request.
  destruct (negb (u_valid (m_url m))); [apply triple_ret; auto|].
  destruct (negb (headers_ok (m_cfg m) b)).
  { eapply triple_bind with (R := fun _ => J m); [|intro; apply triple_ret; auto].
    destruct (m_cup m); [|apply triple_ret; auto].
    kn (neutralM_silent step2b Inv2b _ silent_fresh_nonce). apply triple_ret. auto. }
  eapply triple_bind with (R := fun _ => J m).
  { destruct (m_cup m).
    - kn (neutralM_silent step2b Inv2b _ silent_fresh_nonce). apply triple_ret. auto.
    - apply triple_ret. auto. }
  intro uri. kna (neutralM_silent step2b Inv2b _ silent_pop_http) as o.
  eapply triple_bind with (R := fun _ q => J m q /\ armed2b q = forged (cupb m) o).
  { apply triple_emit. intros q Hq. eexists. split; [reflexivity|]. split; [exact Hq|]. cbn [armed2b]. rewrite Hq. reflexivity. }
  intros _.
  assert (Hdrop : forall (mm : sm) (x : req_err + body), mm = m -> T (fun q => J m q /\ armed2b q = forged (cupb m) o) (ret (mm, x)) (fun r => J (fst r))).
  { intros mm x ->. apply triple_ret. intros q [Hq _]. exact Hq. }
  destruct o as [k|status ra authentic bd]; [apply Hdrop; reflexivity|].
  destruct (match m_cup m with Some _ => negb authentic | None => false end) eqn:Ef; [apply Hdrop; reflexivity|].
  assert (Hnf : forged (cupb m) (HResp status ra authentic bd) = false).
  { unfold forged, cupb. destruct (m_cup m); [destruct authentic; [reflexivity|discriminate]|reflexivity]. }
  rewrite Hnf.
  eapply triple_bind with (R := fun m' => J m').
  { destruct (oZ_eqb (ps_poll (m_ps m)) (parse_retry_after ra)); [apply triple_ret; intros q [Hq _]; exact Hq|]. cbv zeta.
    eapply triple_bind; [apply T_proto_unarmed|]. intro.
    eapply triple_conseq with (P' := J m) (Q' := fun r => J r); [|intros q [Hq _]; exact Hq|auto].
    match goal with |- T _ (bind (ctx_persist ?a ?b) _) _ => kn (neutralM_ctx_persist step2b Inv2b a b ign_store2b) end.
    kn (neutralM_st_write step2b Inv2b SCommit ign_store2b). rext. }
  intro m'. destruct ((200 <=? status) && (status <? 300))%N; rj.
Qed.

(* ---------- the rest of the flow keeps the invariant ---------- *)
Lemma T_report_event p ev apps sess nv dur m : T (J m) (report_event p ev apps sess nv dur m) J.
Proof.
  unfold report_event. kn (neutralM_silent step2b Inv2b _ silent_fresh_guid).
  eapply triple_bind with (R := fun _ => J m).
  { eapply triple_conseq; [apply (T_maybe_ids step2b _ _ _ _ (J m))|auto|]. intros b q [H _]. exact H. }
  intro b. eapply triple_bind; [apply T_do_req|]. intros [m' [e|bd]]; cbn [fst].
  - kn (neutralM_report step2b Inv2b (MOmahaEventLost ev) ign_metric2b). apply triple_ret. auto.
  - apply triple_ret. auto.
Qed.

Lemma T_attempt_loop b0 sess fuel : forall attempt m,
  T (J m) (attempt_loop fuel attempt b0 sess m) (fun r => J (fst (fst r))).
Proof.
  induction fuel as [|f IH]; intros attempt m; cbn [attempt_loop]; [apply triple_halt|].
  kn (neutralM_now step2b Inv2b ign_clock2b). kn (neutralM_silent step2b Inv2b _ silent_fresh_guid).
  eapply triple_bind with (R := fun _ => J m).
  { eapply triple_conseq; [apply (T_maybe_ids step2b _ _ _ _ (J m))|auto|]. intros b q [H _]. exact H. }
  intro b. eapply triple_bind; [apply T_do_req|]. intros [m1 res]; cbn [fst].
  kna (neutralM_now step2b Inv2b ign_clock2b) as fin.
  eapply triple_bind with (R := fun _ => J m1).
  { match goal with |- T _ (if ?c then _ else _) _ => destruct c end;
      [apply (Jn _ _ (neutralM_report step2b Inv2b _ ign_metric2b))|apply triple_ret; auto]. }
  intros _. destruct res as [e|bd]; [|apply triple_ret; auto].
  match goal with |- T _ (if ?c then _ else _) _ => destruct c end.
  - kn (nM_yield_state ErrorCheckingForUpdate). apply triple_ret. auto.
  - kna (neutralM_silent step2b Inv2b _ silent_pop_backoff) as r.
    kn (neutralM_emit step2b Inv2b _ (ign_timer2b (WFor (randomize (Z.shiftl 1 (attempt - 1) * 1000) 1000 r * 1000000)))).
    apply IH.
Qed.


Lemma T_report_check_interval src m : T (J m) (report_check_interval src m) J.
Proof.
  unfold report_check_interval. kna (neutralM_now step2b Inv2b ign_clock2b) as n.
  eapply triple_bind with (R := fun _ => J m); [|intro; rext].
  destruct (s_last_check (m_sched m)) as [[w|mm|c]|]; try (apply triple_ret; auto).
  - destruct (w <=? wall n); [apply (Jn _ _ (neutralM_report step2b Inv2b _ ign_metric2b))|apply triple_ret; auto].
  - destruct (mono c <=? mono n); [apply (Jn _ _ (neutralM_report step2b Inv2b _ ign_metric2b))|apply triple_ret; auto].
Qed.

Lemma T_maybe_ids2b (c : bool) b s r m : T (J m) (if c then with_ids b s r else ret b) (fun _ => J m).
Proof. eapply triple_conseq; [apply (T_maybe_ids step2b _ _ _ _ (J m))|auto|]. intros b' q [H _]. exact H. Qed.

Lemma T_perform fuel p apps m : T (J m) (perform_update_check fuel p apps m) (fun r => J (fst r)).
Proof.
  unfold perform_update_check.
  kn (nM_yield_state (CheckingForUpdates (p_source p))).
  eapply triple_bind; [apply T_report_check_interval|]. intro m0.
  kn (neutralM_silent step2b Inv2b _ silent_fresh_guid).
  eapply triple_bind; [apply T_attempt_loop|]. intros [[m1 attempts] res]; cbn [fst].
  kn (neutralM_report step2b Inv2b (MRequestsPerCheck attempts (match res with inr _ => true | inl _ => false end)) ign_metric2b).
  destruct res as [e|[d|]].
  - rj.
  - kn (nM_yield_idle (EvServerResponse d) I).
    destruct (filter uc_ok (d_apps d)) as [|wu0 wur] eqn:Hwu.
    + kn (nM_yield_state NoUpdateAvailable). rj.
    + kna (neutralM_silent step2b Inv2b _ silent_pop_plan) as pl.
      match goal with |- T _ (bind (emit ?a) _) _ => kn (nM_emit_idle a I) end.
      destruct pl as [plan|].
      2:{ kn (nM_yield_state InstallingUpdate). kn (nM_yield_state InstallationError).
          eapply triple_bind; [apply T_report_event|]. intro. rj. }
      kna (neutralM_silent step2b Inv2b _ silent_pop_can_start) as dec.
      match goal with |- T _ (bind (emit ?a) _) _ => kn (nM_emit_idle a I) end.
      destruct dec.
      * kn (nM_yield_state InstallingUpdate).
        eapply triple_bind; [apply T_report_event|]. intro m2.
        kna (neutralM_now step2b Inv2b ign_clock2b) as t0.
        kn (neutralM_record_first_seen step2b Inv2b plan (wall t0) ign_store2b).
        kna (neutralM_silent step2b Inv2b _ silent_pop_perform) as pa.
        match goal with |- T _ (bind (emit ?a) _) _ => kn (nM_emit_idle a I) end.
        kn (neutralM_iterM step2b Inv2b (fun bits => yield_ (EvProgress bits)) (pa_progress pa)
              (fun bits => nM_yield_idle (EvProgress bits) I)).
        kna (neutralM_now step2b Inv2b ign_clock2b) as t1.
        eapply triple_bind with (R := fun _ => J m2).
        { match goal with |- T _ (if ?c then _ else _) _ => destruct c end.
          - match goal with |- T _ (bind (report ?x) _) _ => kn (neutralM_report step2b Inv2b x ign_metric2b) end. rj.
          - rj. }
        intro dur. kn (neutralM_silent step2b Inv2b _ silent_fresh_guid).
        eapply triple_bind; [apply T_maybe_ids2b|]. intro b.
        eapply triple_bind; [apply T_do_req|]. intros [m3 rr]; cbn [fst].
        eapply triple_bind with (R := fun _ => J m3).
        { destruct rr; [|rj]. apply (Jn _ _ (neutralM_iterM step2b Inv2b _ _ (fun x => neutralM_report step2b Inv2b _ ign_metric2b))). }
        intros _.
        eapply triple_bind with (R := fun m' => J m').
        { match goal with |- T _ (match ?l with [] => _ | _ => _ end) _ => destruct l end; [rj|apply T_report_event]. }
        intro m4.
        match goal with |- T _ (match ?n with O => _ | S _ => _ end) _ => destruct n as [|nerr] end.
        -- eapply triple_bind with (R := fun _ => J m4).
           { match goal with |- T _ (if ?c then _ else _) _ => destruct c end;
               [apply (Jn _ _ (neutralM_report step2b Inv2b _ ign_metric2b))|rj]. }
           intros _. kn (neutralM_st_set_time step2b Inv2b K_FINISH_TIME (wall t1) ign_store2b).
           eapply triple_bind with (R := fun _ => J m4).
           { match goal with |- T _ (match ?x with Some _ => _ | None => _ end) _ => destruct x as [o|] end; [|rj].
             kn (neutralM_st_write step2b Inv2b (SSetStr K_TARGET_VERSION (match o with Some v => v | None => s2b "UNKNOWN" end)) ign_store2b). rj. }
           intros _. kn (neutralM_st_write step2b Inv2b SCommit ign_store2b).
           kna (neutralM_silent step2b Inv2b _ silent_pop_reboot_needed) as rn.
           match goal with |- T _ (bind (emit ?a) _) _ => kn (nM_emit_idle a I) end. rj.
        -- kn (neutralM_iterM step2b Inv2b (fun _ : unit => yield_ EvInstallerError) (repeat tt (Datatypes.S nerr))
                 (fun _ => nM_yield_idle EvInstallerError I)).
           kn (nM_yield_state InstallationError). rj.
      * eapply triple_bind; [apply T_report_event|]. intro.
        kn (nM_yield_state InstallationDeferredByPolicy). rj.
      * eapply triple_bind; [apply T_report_event|]. intro. rj.
  - kn (nM_yield_state ErrorCheckingForUpdate).
    eapply triple_bind; [apply T_report_event|]. intro. rj.
Qed.


Lemma T_start fuel p m : T (J m) (start_update_check fuel p m) (fun r => J (fst r)).
Proof.
  unfold start_update_check.
  eapply triple_bind; [apply T_perform|]. intros [m1 res]; cbn [fst].
  eapply triple_bind with (R := fun fin => J (fst (fst fin))).
  { destruct res as [e|[rs rb]].
    - eapply triple_bind with (R := fun mr => J (fst mr)).
      { destruct e as [re| |].
        + destruct re; rj.
        + kna (neutralM_now step2b Inv2b ign_clock2b) as n. rext.
        + kna (neutralM_now step2b Inv2b ign_clock2b) as n. rext. }
      intros [m2 reason]; cbn [fst].
      kn (neutralM_report step2b Inv2b (MFailureReason reason) ign_metric2b). rext.
    - kna (neutralM_now step2b Inv2b ign_clock2b) as n.
      match goal with |- T _ (bind (report ?x) _) _ => kn (neutralM_report step2b Inv2b x ign_metric2b) end.
      eapply triple_bind with (R := fun _ => J m1).
      { destruct (install_success rs); [apply (Jn _ _ (neutralM_report_attempts_install step2b Inv2b _ ign_store2b ign_metric2b))|rj]. }
      intro. rext. }
  intros [[m2 result] rb]; cbn [fst].
  eapply triple_bind; [apply (T_sched m2)|]. intro.
  eapply triple_bind; [apply (T_proto_unarmed m2)|]. intro.
  eapply triple_bind with (R := fun _ => J m2); [eapply triple_conseq; [apply (Jn m2 _ (nM_yield_idle (EvResult result) I))|intros q [H _]; exact H|auto]|]. intro.
  kn (neutralM_persist_data step2b Inv2b m2 ign_store2b). rj.
Qed.

Lemma T_update_next m : T (J m) (update_next_update_time m) (fun r => J (fst r)).
Proof.
  unfold update_next_update_time. kna (neutralM_silent step2b Inv2b _ silent_pop_next_time) as t.
  match goal with |- T _ (bind (emit ?a) _) _ => kn (nM_emit_idle a I) end.
  eapply triple_bind; [eapply triple_conseq; [apply (T_sched m)|auto|intros ax qx [Hx _]; exact Hx]|]. intro. rext.
Qed.

Lemma T_ping m : T (J m) (ping_omaha m) J.
Proof.
  unfold ping_omaha. kn (neutralM_silent step2b Inv2b _ silent_fresh_guid). kn (neutralM_silent step2b Inv2b _ silent_fresh_guid).
  eapply triple_bind; [apply T_maybe_ids2b|]. intro b.
  eapply triple_bind; [apply T_do_req|]. intros [m1 res]; cbn [fst].
  assert (Hfail : T (J m1)
            (persist_data (with_ps m1 (set_fails (m_ps m1) (sat_inc_u32 (ps_fails (m_ps m1)))));;;
             ret (with_ps m1 (set_fails (m_ps m1) (sat_inc_u32 (ps_fails (m_ps m1)))))) J).
  { kn (neutralM_persist_data step2b Inv2b (with_ps m1 (set_fails (m_ps m1) (sat_inc_u32 (ps_fails (m_ps m1))))) ign_store2b). rext. }
  destruct res as [er|[d|]]; [exact Hfail| |exact Hfail].
  kna (neutralM_now step2b Inv2b ign_clock2b) as n.
  eapply triple_bind with (R := fun _ => J m1).
  { temit. intros q Hq. eexists. split; [reflexivity|]. exact Hq. }
  intro.
  match goal with |- T _ (bind (persist_data ?x) _) _ => kn (neutralM_persist_data step2b Inv2b x ign_store2b) end. rext.
Qed.

Lemma T_ask_reboot src m : T (J m) (ask_reboot_allowed src) (fun _ => J m).
Proof.
  unfold ask_reboot_allowed. kna (neutralM_silent step2b Inv2b _ silent_pop_reboot_allowed) as b.
  kn (nM_emit_idle (APolicy (QRebootAllowed src) (PBool b)) I). rj.
Qed.

Lemma T_handle_in_reboot id sc m : T (J m) (handle_in_reboot id sc) (fun _ => J m).
Proof.
  unfold handle_in_reboot. kn (nM_emit_idle (AReply id AlreadyRunning) I).
  destruct sc; [apply T_ask_reboot|rj].
Qed.

Lemma T_reboot_loop fuel : forall src pending m, T (J m) (reboot_loop fuel src pending m) J.
Proof.
  induction fuel as [|f IH]; intros src pending m; cbn [reboot_loop]; [apply triple_halt|].
  kna (neutralM_silent step2b Inv2b _ (silent_pop_queued)) as qd. destruct qd as [[id sc]|].
  { eapply triple_bind; [apply T_handle_in_reboot|]. intros [|]; [rj|apply IH]. }
  kna (neutralM_silent step2b Inv2b _ silent_pop_stim) as s. destruct s as [i|sc|].
  - assert (Hping : T (J m)
              (m1 <- ping_omaha m;; mt <- update_next_update_time m1;;
               (let '(m2, t) := mt in roles <- make_wait t;; reboot_loop f src (remove_nth i pending ++ roles) m2)) J).
    { eapply triple_bind; [apply T_ping|]. intro m1.
      eapply triple_bind; [apply T_update_next|]. intros [m2 t]; cbn [fst].
      kna (neutralM_make_wait step2b Inv2b t ign_timer2b) as roles. apply IH. }
    destruct (nth_error pending i) as [[| |]|].
    + destruct (has_ping_roles (remove_nth i pending)); [apply IH|exact Hping].
    + destruct (has_ping_roles (remove_nth i pending)); [apply IH|exact Hping].
    + eapply triple_bind; [apply T_ask_reboot|]. intros [|]; [rj|].
      kn (neutralM_emit step2b Inv2b _ (ign_timer2b (WFor REBOOT_INTERVAL_NS))). apply IH.
    + apply IH.
  - kna (neutralM_silent step2b Inv2b _ silent_next_ctl) as id.
    kn (nM_emit_idle (ARequest id sc) I).
    eapply triple_bind; [apply T_handle_in_reboot|]. intros [|]; [rj|apply IH].
  - apply IH.
Qed.

Lemma T_wait_for_reboot fuel src m : T (J m) (wait_for_reboot fuel src m) J.
Proof.
  unfold wait_for_reboot.
  eapply triple_bind; [apply T_ask_reboot|]. intro ok.
  eapply triple_bind with (R := J).
  { destruct ok; [rj|].
    kn (neutralM_emit step2b Inv2b _ (ign_timer2b (WFor REBOOT_INTERVAL_NS))).
    eapply triple_bind; [apply T_update_next|]. intros [m1 t]; cbn [fst].
    kna (neutralM_make_wait step2b Inv2b t ign_timer2b) as roles. apply T_reboot_loop. }
  intro m1. kna (neutralM_silent step2b Inv2b _ silent_pop_reboot) as okr.
  kn (nM_emit_idle (AInstaller IReboot (IRebooted okr)) I). rj.
Qed.

Lemma T_run_iteration fuel finish start_mono sr m :
  T (J m) (run_iteration fuel finish start_mono sr m) (fun r => J (fst r)).
Proof.
  unfold run_iteration.
  eapply triple_bind with (R := fun _ => J m).
  { destruct sr; [|rj]. kna (neutralM_now step2b Inv2b ign_clock2b) as n.
    match goal with |- T _ (match ?x with Some _ => _ | None => _ end) _ => destruct x end; [|rj].
    match goal with |- T _ (bind (report ?x) _) _ => kn (neutralM_report step2b Inv2b x ign_metric2b) end.
    kn (neutralM_st_write step2b Inv2b (SRemove K_FINISH_TIME) ign_store2b). kn (neutralM_st_write step2b Inv2b (SRemove K_TARGET_VERSION) ign_store2b).
    kn (neutralM_st_write step2b Inv2b SCommit ign_store2b). rj. }
  intro sr'. eapply triple_bind; [apply T_update_next|]. intros [m1 t]; cbn [fst].
  kna (neutralM_make_wait step2b Inv2b t ign_timer2b) as roles.
  eapply triple_bind with (R := fun _ => J m1); [apply (T_do_outer_select step2b roles (J m1) ign_ctl2b)|]. intro sel.
  kna (neutralM_silent step2b Inv2b _ silent_pop_allowed) as dec.
  match goal with |- T _ (bind (emit ?a) _) _ => kn (nM_emit_idle a I) end.
  assert (Hneg : T (J m1) (match sel with Some (_, id) => emit (AReply id Throttled) | None => ret tt end;;; ret (m1, sr'))
                   (fun r => J (fst r))).
  { eapply triple_bind with (R := fun _ => J m1); [|intro; rj].
    destruct sel as [[s id]|]; [apply (Jn _ _ (nM_emit_idle (AReply id Throttled) I))|rj]. }
  assert (Hpos : forall p, T (J m1)
            (match sel with Some (_, id) => emit (AReply id Started) | None => ret tt end;;;
             enter_check;;;
             r <- start_update_check fuel p m1;;
             set_incheck false;;;
             upg <- take_upgrade;;
             (let '(m0, rb) := r in
              m2 <- match rb with
                    | RebootNeeded _ => yield_state WaitingForReboot;;; wait_for_reboot fuel (if upg then OnDemand else match sel with Some (s, _) => s | None => ScheduledTask end) m0
                    | RebootNotNeeded => ret m0
                    end;;
              yield_state Idle;;; ret (m2, sr'))) (fun r => J (fst r))).
  { intro p. eapply triple_bind with (R := fun _ => J m1).
    { destruct sel as [[s id]|]; [apply (Jn _ _ (nM_emit_idle (AReply id Started) I))|rj]. }
    intro. eapply triple_bind with (R := fun _ => J m1); [apply (T_enter_check step2b (J m1) ign_ctl2b)|]. intro.
    eapply triple_bind; [apply T_start|]. intros [m2 rb]; cbn [fst].
    kn (neutralM_silent step2b Inv2b _ (silent_set_incheck false)).
    kna (neutralM_silent step2b Inv2b _ silent_take_upgrade) as upg.
    eapply triple_bind with (R := J).
    { destruct rb as [plan|]; [|rj]. kn (nM_yield_state WaitingForReboot). apply T_wait_for_reboot. }
    intro m3. kn (nM_yield_state Idle). rj. }
  destruct dec; [apply Hpos|apply Hpos|exact Hneg|exact Hneg|exact Hneg].
Qed.

Lemma T_run_loop iters : forall fuel finish start_mono sr m,
  T (J m) (run_loop iters fuel finish start_mono sr m) J.
Proof.
  induction iters as [|k IH]; intros; cbn [run_loop]; [apply triple_halt|].
  eapply triple_bind; [apply T_run_iteration|]. intros [m' sr']; cbn [fst]. apply IH.
Qed.

Lemma T_run iters fuel m : T (J m) (run iters fuel m) J.
Proof.
  unfold run. destruct (negb (forallb app_valid (m_apps m))); [rj|].
  kn (neutralM_now step2b Inv2b ign_clock2b). kn (neutralM_silent step2b Inv2b _ (silent_st_get_time K_FINISH_TIME)).
  kn (neutralM_silent step2b Inv2b _ (silent_st_get_str K_TARGET_VERSION)). apply T_run_loop.
Qed.

Lemma T_oneshot fuel m : T (J m) (oneshot fuel m) J.
Proof. unfold oneshot. eapply triple_bind; [apply T_start|]. intros [m' rb]; cbn [fst]. rj. Qed.

Theorem model_accepted_c02b ep cfg url cup apps e :
  e_trace e = [] -> accepts step2b ((init2b cup)) (run_case ep cfg url cup apps e) = true.
Proof.
  intro Ht. unfold run_case, accepts.
  set (m := build cfg url cup apps (e_store e)).
  assert (HJ : J m (init2b cup)).
  { unfold J, init2b, cupb, m, build. destruct (ctx_load (pend (e_store e))) as [sc ps]. reflexivity. }
  destruct ep.
  - destruct (T_run (Datatypes.S (length (e_stim e) + length (c_inject (e_cs e)))) (4 + length (e_stim e) + length (c_inject (e_cs e))) m ((init2b cup)) e ((init2b cup))) as (q' & Hq' & _).
    + unfold mst. rewrite Ht. reflexivity.
    + exact HJ.
    + destruct (run _ _ m e) as [r e'] eqn:E. cbn [snd] in Hq'. unfold mst in Hq'. rewrite Hq'. reflexivity.
  - destruct (T_oneshot (4 + length (e_stim e) + length (c_inject (e_cs e))) m ((init2b cup)) e ((init2b cup))) as (q' & Hq' & _).
    + unfold mst. rewrite Ht. reflexivity.
    + exact HJ.
    + destruct (oneshot _ m e) as [r e'] eqn:E. cbn [snd] in Hq'. unfold mst in Hq'. rewrite Hq'. reflexivity.
Qed.
