(* Proofs/C06rtProof.v — every model trace is accepted by step6r (Model/Monitors6r.v): one response-time metric per
   attempt, with the elapsed monotonic time and the attempt's success, and none on any other occasion. *)
Require Import Verif.Model.Time Verif.Base.Bytes Verif.Proofs.BytesFacts Verif.Model.Version Verif.Model.Json Verif.Model.Proto
               Verif.Model.Request Verif.Model.Env Verif.Model.SM Verif.Model.Monitors6r
               Verif.Proofs.Monitor Verif.Proofs.MonitorG.
From Coq Require Import Lia.
Open Scope Z_scope.

Notation TG := (tripleG step6r).

(* the monitor is in phase p (the CUP flag never changes) *)
Definition St (c : bool) (p : ph6r) (q : q6r) (e : env) : Prop := q = {| cup6r := c; ph6r_ := p |}.

(* actions ignored between and during attempts (and outside them) *)
Definition calm (a : action) : bool :=
  match a with
  | AClock _ | AHttp _ _ | AMetric (MResponseTime _ _) | AMetric (MRequestsPerCheck _ _) | AEvent (EvState (CheckingForUpdates _)) => false
  | _ => true
  end.
(* ... and those ignored outside the attempts *)
Definition idle_ok (a : action) : bool :=
  match a with AMetric (MResponseTime _ _) | AEvent (EvState (CheckingForUpdates _)) => false | _ => true end.
Definition quiet_ph (p : ph6r) : bool := match p with RIdle | RStart | RMid _ _ _ => true | _ => false end.

Lemma step_calm c p a : calm a = true -> quiet_ph p = true -> step6r {| cup6r := c; ph6r_ := p |} a = Some {| cup6r := c; ph6r_ := p |}.
Proof.
  intros Ha Hp. destruct a as [ev|pq ans|w o|ci ans|ck|w|op ok|mt|id src|id r]; try discriminate Ha; try reflexivity.
  - destruct ev as [s| | | | | |]; [destruct s; try discriminate Ha|..]; destruct p; try discriminate Hp; reflexivity.
  - destruct p; try discriminate Hp; reflexivity.
  - destruct p; try discriminate Hp; reflexivity.
  - destruct p; try discriminate Hp; reflexivity.
  - destruct p; try discriminate Hp; reflexivity.
  - destruct mt; try discriminate Ha; destruct p; try discriminate Hp; reflexivity.
Qed.
Lemma step_idle c a : idle_ok a = true -> step6r {| cup6r := c; ph6r_ := RIdle |} a = Some {| cup6r := c; ph6r_ := RIdle |}.
Proof.
  intros Ha. destruct a as [ev|pq ans|w o|ci ans|ck|w|op ok|mt|id src|id r]; try discriminate Ha; try reflexivity.
  - destruct ev as [s| | | | | |]; [destruct s; try discriminate Ha|..]; reflexivity.
  - destruct mt; try discriminate Ha; reflexivity.
Qed.

(* ---------- programs that only emit ignored actions ---------- *)
Section Class.
  Variable ok : action -> bool.
  Variable c : bool.
  Variable p : ph6r.
  Hypothesis Hok : forall a, ok a = true -> step6r {| cup6r := c; ph6r_ := p |} a = Some {| cup6r := c; ph6r_ := p |}.
  Hypothesis Hreq : forall id s, ok (ARequest id s) = true.
  Hypothesis Hrep : forall id r, ok (AReply id r) = true.
  Hypothesis Hstore : forall op b, ok (AStore op b) = true.

  Definition inv {A} (m : M A) : Prop := TG (St c p) m (fun _ => St c p).
  Lemma inv_ret {A} (a : A) : inv (ret a). Proof. apply tripleG_ret. auto. Qed.
  Lemma inv_bind {A B} (m : M A) (f : A -> M B) : inv m -> (forall a, inv (f a)) -> inv (bind m f).
  Proof. intros Hm Hf. eapply tripleG_bind; [exact Hm|]. intro a. apply Hf. Qed.
  Lemma inv_silent {A} (m : M A) : (forall e, e_trace (snd (m e)) = e_trace e) -> inv m.
  Proof. intro H. apply tripleG_silent; [exact H|]. intros q e a Hp _. exact Hp. Qed.
  Lemma inv_emit a : ok a = true -> inv (emit a).
  Proof. intro H. apply tripleG_emit. intros q e Hp. unfold St in Hp. subst q. eexists. split; [apply Hok; exact H|reflexivity]. Qed.
  Lemma inv_write op : inv (st_write op).
  Proof.
    intros q0 e q Hq Hp. unfold St in Hp. subst q. eexists. split.
    - unfold mst, st_write. cbn [snd upd_trace e_trace rev]. rewrite runmon_app. unfold mst in Hq. rewrite Hq. cbn [runmon]. rewrite Hok; [reflexivity|apply Hstore].
    - cbn [fst st_write]. reflexivity.
  Qed.
  Lemma inv_halt {A} : inv (@halt A). Proof. apply tripleG_halt. Qed.
  Lemma inv_iterM {A} (f : A -> M unit) l : (forall x, inv (f x)) -> inv (iterM f l).
  Proof. intro H. apply tripleG_iterM. intros x _. apply H. Qed.
  Lemma inv_after_event b : inv (after_event b).
  Proof.
    intros q0 e q Hm Hp. unfold St in Hp. subst q. eexists. unfold mst, after_event in *.
    destruct (c_inject (e_cs e)) as [|[k src] rest]; [split; [exact Hm|reflexivity]|].
    destruct ((k <=? c_evn (e_cs e))%N && negb b); [|split; [exact Hm|reflexivity]].
    destruct (c_incheck (e_cs e)); cbn [fst snd upd_trace set_cs e_trace rev]; (split; [|reflexivity]).
    - rewrite <- app_assoc, runmon_app, Hm. cbn [List.app runmon]. rewrite Hok by apply Hreq. rewrite Hok by apply Hrep. reflexivity.
    - rewrite runmon_app, Hm. cbn [runmon]. rewrite Hok by apply Hreq. reflexivity.
  Qed.
  Lemma inv_yield ev : ok (AEvent ev) = true -> inv (yield_ ev).
  Proof. intro H. unfold yield_. apply inv_bind; [apply inv_emit; exact H|]. intros []. apply inv_after_event. Qed.
  Lemma inv_set_opt k v : inv (st_set_option_int k v).
  Proof. unfold st_set_option_int. destruct v; apply inv_write. Qed.
  Lemma inv_ctx_persist sc ps : inv (ctx_persist sc ps).
  Proof. unfold ctx_persist. repeat (apply inv_bind; [apply inv_set_opt|intro]). apply inv_ret. Qed.
  Lemma inv_persist_data m : inv (persist_data m).
  Proof.
    unfold persist_data. apply inv_bind; [apply inv_ctx_persist|intro]. apply inv_bind.
    - apply inv_iterM. intro ap. apply inv_bind; [apply inv_write|intro; apply inv_ret].
    - intro. apply inv_bind; [apply inv_write|intro; apply inv_ret].
  Qed.
End Class.

(* ---------- outside the attempts: phase RIdle ---------- *)
Section Idle.
  Variable c : bool.
  Notation ii := (inv c RIdle).
  Let Hok := step_idle c.
  Ltac sil := apply inv_silent; intro e; reflexivity.
  Ltac em := apply (inv_emit idle_ok c RIdle Hok); reflexivity.
  Ltac wr := apply (inv_write idle_ok c RIdle Hok); intros; reflexivity.
  Ltac ye := apply (inv_yield idle_ok c RIdle Hok); intros; reflexivity.
  Ltac bd := apply inv_bind.
  Lemma ii_after_event b : ii (after_event b). Proof. apply (inv_after_event idle_ok c RIdle Hok); intros; reflexivity. Qed.
  Lemma ii_persist m : ii (persist_data m). Proof. apply (inv_persist_data idle_ok c RIdle Hok); intros; reflexivity. Qed.
  Lemma ii_ctx sc ps : ii (ctx_persist sc ps). Proof. apply (inv_ctx_persist idle_ok c RIdle Hok); intros; reflexivity. Qed.
  Lemma ii_set_opt k v : ii (st_set_option_int k v). Proof. apply (inv_set_opt idle_ok c RIdle Hok); intros; reflexivity. Qed.
  Lemma ii_pop {A} (m : M A) : (forall e, e_trace (snd (m e)) = e_trace e) -> ii m. Proof. apply inv_silent. Qed.
  Lemma ii_now : ii now.
  Proof. unfold now. bd; [apply ii_pop; intro e; unfold read_clock; destruct (e_clock e); reflexivity|intro ck]. bd; [em|intro; apply inv_ret]. Qed.
  Lemma ii_with_ids b s r : ii (with_ids b s r).
  Proof.
    unfold with_ids. bd; [apply ii_pop; intro e; unfold canon_guid; destruct (glookup (e_guids e) s); reflexivity|intro].
    bd; [apply ii_pop; intro e; unfold canon_guid; destruct (glookup (e_guids e) r); reflexivity|intro]. apply inv_ret.
  Qed.
  Lemma ii_do_req b m : ii (do_omaha_request b m).
  Proof.
    unfold do_omaha_request.
    destruct (negb (u_valid (m_url m))); [apply inv_ret|].
    destruct (negb (headers_ok (m_cfg m) b)).
    { bd; [|intro; apply inv_ret]. destruct (m_cup m); [|apply inv_ret]. bd; [sil|intro; apply inv_ret]. }
    bd. { destruct (m_cup m); [|apply inv_ret]. bd; [sil|intro; apply inv_ret]. }
    intro uri. bd; [apply ii_pop; intro e; unfold pop_http; destruct (q_http e); reflexivity|intro o].
    bd; [em|intro].
    destruct o as [k|status ra au bd0]; [apply inv_ret|].
    destruct (match m_cup m with Some _ => negb au | None => false end); [apply inv_ret|].
    bd.
    { destruct (oZ_eqb (ps_poll (m_ps m)) (parse_retry_after ra)); [apply inv_ret|]. cbv zeta.
      bd; [ye|intro]. bd; [apply ii_ctx|intro]. bd; [wr|intro]. apply inv_ret. }
    intro m'. destruct ((200 <=? status) && (status <? 300))%N; apply inv_ret.
  Qed.
  Lemma ii_maybe_ids (x : bool) b s r : ii (if x then with_ids b s r else ret b).
  Proof. destruct x; [apply ii_with_ids|apply inv_ret]. Qed.
  Lemma ii_report_event p ev apps sess nv dur m : ii (report_event p ev apps sess nv dur m).
  Proof.
    unfold report_event. bd; [sil|intro]. bd; [apply ii_maybe_ids|intro b]. bd; [apply ii_do_req|].
    intros [m' [e|b1]]; [|apply inv_ret]. bd; [em|intro; apply inv_ret].
  Qed.
  Lemma ii_record_first_seen plan t : ii (record_first_seen plan t).
  Proof.
    unfold record_first_seen. bd; [sil|intro prev].
    assert (Hnew : ii (ok1 <- st_write (SSetStr K_INSTALL_PLAN_ID plan);;
                        (if negb ok1 then ret t
                         else ok2 <- st_set_time K_FIRST_SEEN t;;
                              (if negb ok2 then st_write (SRemove K_INSTALL_PLAN_ID);;; ret t else st_write SCommit;;; ret t)))).
    { bd; [wr|intro ok1]. destruct (negb ok1); [apply inv_ret|].
      bd; [apply ii_set_opt|intro ok2]. destruct (negb ok2); (bd; [wr|intro; apply inv_ret]). }
    destruct prev as [p|]; [|exact Hnew].
    destruct (bytes_eqb p plan); [|exact Hnew].
    bd; [apply ii_pop; intro e; reflexivity|intro]. apply inv_ret.
  Qed.
  Lemma ii_report_attempts s : ii (report_attempts_to_successful_install s).
  Proof.
    unfold report_attempts_to_successful_install. bd; [sil|intro].
    bd; [em|intro]. bd; [destruct s; wr|intro]. apply inv_ret.
  Qed.
  Lemma ii_update_next m : ii (update_next_update_time m).
  Proof.
    unfold update_next_update_time. bd; [apply ii_pop; intro e; unfold pop_next_time; destruct (q_next_time e); reflexivity|intro t].
    bd; [em|intro]. bd; [ye|intro]. apply inv_ret.
  Qed.
  Lemma ii_make_wait t : ii (make_wait t).
  Proof. unfold make_wait. destruct (t_min t); [bd; [em|intro]; bd; [em|intro]; apply inv_ret|bd; [em|intro]; apply inv_ret]. Qed.
  Lemma ii_ping m : ii (ping_omaha m).
  Proof.
    unfold ping_omaha. cbv zeta. bd; [sil|intro]. bd; [sil|intro]. bd; [apply ii_maybe_ids|intro b]. bd; [apply ii_do_req|]. intros [m1 res].
    assert (Hf : ii (persist_data (with_ps m1 (set_fails (m_ps m1) (sat_inc_u32 (ps_fails (m_ps m1)))));;;
                     ret (with_ps m1 (set_fails (m_ps m1) (sat_inc_u32 (ps_fails (m_ps m1))))))).
    { bd; [apply ii_persist|intro; apply inv_ret]. }
    destruct res as [er|[d|]]; [exact Hf| |exact Hf].
    bd; [apply ii_now|intro n]. bd; [ye|intro]. bd; [apply ii_persist|intro]. apply inv_ret.
  Qed.
  Lemma ii_ask_reboot src : ii (ask_reboot_allowed src).
  Proof.
    unfold ask_reboot_allowed. bd; [apply ii_pop; intro e; unfold pop_reboot_allowed; destruct (q_reboot_allowed e); reflexivity|intro b].
    bd; [em|intro]. apply inv_ret.
  Qed.
  Lemma ii_handle_in_reboot id sc : ii (handle_in_reboot id sc).
  Proof. unfold handle_in_reboot. bd; [em|intro]. destruct sc; [apply ii_ask_reboot|apply inv_ret]. Qed.
  Lemma ii_pop_queued : ii pop_queued.
  Proof. apply ii_pop. intro e. unfold pop_queued. destruct (c_inq (e_cs e)); reflexivity. Qed.
  Lemma ii_reboot_loop fuel : forall src pending m, ii (reboot_loop fuel src pending m).
  Proof.
    induction fuel as [|f IH]; intros src pending m; cbn [reboot_loop]; [apply inv_halt|].
    bd; [apply ii_pop_queued|]. intros [[id sc]|].
    { bd; [apply ii_handle_in_reboot|]. intros [|]; [apply inv_ret|apply IH]. }
    bd; [apply ii_pop; intro e; unfold pop_stim; destruct (e_stim e); reflexivity|]. intros [i|sc|].
    - assert (Hping : ii (m1 <- ping_omaha m;; mt <- update_next_update_time m1;;
                          (let '(m2, t) := mt in roles <- make_wait t;; reboot_loop f src (remove_nth i pending ++ roles) m2))).
      { bd; [apply ii_ping|intro m1]. bd; [apply ii_update_next|]. intros [m2 t]. bd; [apply ii_make_wait|intro roles]. apply IH. }
      destruct (nth_error pending i) as [[| |]|].
      + destruct (has_ping_roles (remove_nth i pending)); [apply IH|exact Hping].
      + destruct (has_ping_roles (remove_nth i pending)); [apply IH|exact Hping].
      + bd; [apply ii_ask_reboot|]. intros [|]; [apply inv_ret|]. bd; [em|intro]. apply IH.
      + apply IH.
    - bd; [sil|intro id]. bd; [em|intro]. bd; [apply ii_handle_in_reboot|]. intros [|]; [apply inv_ret|apply IH].
    - apply IH.
  Qed.
  Lemma ii_wait_for_reboot fuel src m : ii (wait_for_reboot fuel src m).
  Proof.
    unfold wait_for_reboot. bd; [apply ii_ask_reboot|intro ok]. bd.
    { destruct ok; [apply inv_ret|]. bd; [em|intro]. bd; [apply ii_update_next|]. intros [m1 t]. bd; [apply ii_make_wait|intro roles]. apply ii_reboot_loop. }
    intro m1. bd; [apply ii_pop; intro e; unfold pop_reboot; destruct (q_reboot e); reflexivity|intro okr]. bd; [em|intro]. apply inv_ret.
  Qed.
  Lemma ii_enter_check : ii enter_check.
  Proof.
    intros q0 e q Hm Hp. unfold St in Hp. subst q. eexists. split; [|reflexivity].
    unfold mst, enter_check in *. cbn [snd upd_trace set_cs e_trace].
    rewrite rev_app_distr, rev_involutive, runmon_app, Hm.
    induction (c_inq (e_cs e)) as [|x r IH]; cbn [map runmon]; [reflexivity|exact IH].
  Qed.
  Lemma ii_do_outer_select roles : ii (do_outer_select roles).
  Proof.
    unfold do_outer_select. bd; [apply ii_pop_queued|]. intros [[id src]|]; [apply inv_ret|].
    intros q0 e q Hm Hp. unfold St in Hp. subst q. eexists. unfold mst in *.
    destruct (outer_select (e_stim e) roles (e_ctl e)) as [[[[[src id]|] r] c0]|]; cbn [fst snd upd_trace set_stim e_trace rev].
    - split; [rewrite runmon_app, Hm; reflexivity|reflexivity].
    - split; [exact Hm|reflexivity].
    - split; [exact Hm|exact I].
  Qed.
End Idle.

(* ---------- the CUP handler of the machine never changes ---------- *)
Definition retp {A} (m : M A) (R : A -> Prop) : Prop := forall e a, fst (m e) = Some a -> R a.
Lemma retp_ret {A} (a : A) (R : A -> Prop) : R a -> retp (ret a) R.
Proof. intros H e a' E. cbn in E. inversion E. subst. exact H. Qed.
Lemma retp_bind {A B} (m : M A) (f : A -> M B) (R1 : A -> Prop) (R2 : B -> Prop) :
  retp m R1 -> (forall a, R1 a -> retp (f a) R2) -> retp (bind m f) R2.
Proof.
  intros Hm Hf e b E. unfold bind in E. destruct (m e) as [[a|] e1] eqn:Em; [|discriminate].
  apply (Hf a (Hm e a ltac:(rewrite Em; reflexivity)) e1 b E).
Qed.
Lemma retp_any {A} (m : M A) : retp m (fun _ => True).
Proof. intros e a _. exact I. Qed.
Lemma retp_conseq {A} (m : M A) (R R' : A -> Prop) : retp m R -> (forall a, R a -> R' a) -> retp m R'.
Proof. intros H HR e a E. apply HR. eapply H. exact E. Qed.
Lemma retp_halt {A} (R : A -> Prop) : retp (@halt A) R.
Proof. intros e a E. discriminate E. Qed.
Lemma TG_and_ret {A} (P : q6r -> env -> Prop) (m : M A) Q (R : A -> Prop) :
  TG P m Q -> retp m R -> TG P m (fun a q e => Q a q e /\ R a).
Proof.
  intros H HR q0 e q Hq Hp. destruct (H q0 e q Hq Hp) as (q' & H1 & H2). exists q'. split; [exact H1|].
  destruct (fst (m e)) eqn:E; [|exact I]. split; [exact H2|]. eapply HR. exact E.
Qed.

(* neither the CUP handler nor the service URL of the machine ever changes *)
Definition sc (m m' : sm) : Prop := m_cup m' = m_cup m /\ m_url m' = m_url m.
Ltac screfl := split; reflexivity.
Ltac ra := eapply retp_bind; [apply retp_any|]; intros ? _.
Lemma rc_do_req b m : retp (do_omaha_request b m) (fun r => sc m (fst r)).
Proof.
  unfold do_omaha_request.
  destruct (negb (u_valid (m_url m))); [apply retp_ret; screfl|].
  destruct (negb (headers_ok (m_cfg m) b)); [ra; apply retp_ret; screfl|].
  ra. ra. ra. match goal with |- retp (match ?o with HErr _ => _ | HResp _ _ _ _ => _ end) _ => destruct o as [k|status ra0 au bd] end; [apply retp_ret; screfl|].
  destruct (match m_cup m with Some _ => negb au | None => false end); [apply retp_ret; screfl|].
  eapply retp_bind with (R1 := fun m' => sc m m').
  { destruct (oZ_eqb (ps_poll (m_ps m)) (parse_retry_after ra0)); [apply retp_ret; screfl|]. cbv zeta. ra. ra. ra. apply retp_ret. screfl. }
  intros m' Hm'. destruct ((200 <=? status) && (status <? 300))%N; apply retp_ret; exact Hm'.
Qed.
Lemma rc_report_event p ev apps sess nv dur m : retp (report_event p ev apps sess nv dur m) (sc m).
Proof.
  unfold report_event. ra. ra. eapply retp_bind; [apply rc_do_req|]. intros [m' [e|bd]] Hm'; cbn [fst] in Hm'.
  - ra. apply retp_ret. exact Hm'.
  - apply retp_ret. exact Hm'.
Qed.
Lemma sc_trans a b c : sc a b -> sc b c -> sc a c. Proof. unfold sc. intros [H1 H2] [H3 H4]. split; congruence. Qed.
Lemma rc_attempt_loop b0 sess fuel : forall attempt m, retp (attempt_loop fuel attempt b0 sess m) (fun r => sc m (fst (fst r))).
Proof.
  induction fuel as [|f IH]; intros attempt m; cbn [attempt_loop]; [apply retp_halt|].
  ra. ra. ra. eapply retp_bind; [apply rc_do_req|]. intros [m1 res] Hm1; cbn [fst] in Hm1.
  ra. ra. destruct res as [e|bd]; [|apply retp_ret; exact Hm1].
  match goal with |- retp (if ?c then _ else _) _ => destruct c end.
  - ra. apply retp_ret. exact Hm1.
  - ra. ra. eapply retp_conseq; [apply IH|]. intros r Hr. eapply sc_trans; eassumption.
Qed.
Lemma rc_report_check_interval src m : retp (report_check_interval src m) (sc m).
Proof. unfold report_check_interval. ra. ra. apply retp_ret. screfl. Qed.
Lemma rc_perform fuel p apps m : retp (perform_update_check fuel p apps m) (fun r => sc m (fst r)).
Proof.
  unfold perform_update_check. ra. eapply retp_bind; [apply rc_report_check_interval|]. intros m0 H0. ra.
  eapply retp_bind; [apply rc_attempt_loop|]. intros [[m1 attempts] res] H1; cbn [fst] in H1.
  assert (H01 : sc m m1) by (eapply sc_trans; eassumption). clear H0 H1.
  ra. destruct res as [e|[d|]].
  - apply retp_ret. exact H01.
  - ra. destruct (filter uc_ok (d_apps d)) as [|wu0 wur]; [ra; apply retp_ret; exact H01|].
    ra. ra. match goal with |- retp (match ?pl with Some _ => _ | None => _ end) _ => destruct pl as [plan|] end.
    2:{ ra. ra. eapply retp_bind; [apply rc_report_event|]. intros m2 H2. apply retp_ret. eapply sc_trans; eassumption. }
    ra. ra. match goal with |- retp (match ?d with UOk => _ | UDeferred => _ | UDenied => _ end) _ => destruct d end.
    + ra. eapply retp_bind; [apply rc_report_event|]. intros m2 H2. assert (H02 : sc m m2) by (eapply sc_trans; eassumption).
      ra. ra. ra. ra. ra. ra. ra. ra. ra.
      eapply retp_bind; [apply rc_do_req|]. intros [m3 rr] H3; cbn [fst] in H3. assert (H03 : sc m m3) by (eapply sc_trans; eassumption).
      ra. eapply retp_bind with (R1 := fun m4 => sc m m4).
      { match goal with |- retp (match ?l with [] => _ | _ => _ end) _ => destruct l end; [apply retp_ret; exact H03|].
        eapply retp_conseq; [apply rc_report_event|]. intros m4 H4. eapply sc_trans; eassumption. }
      intros m4 H04.
      match goal with |- retp (match ?n with O => _ | S _ => _ end) _ => destruct n as [|nerr] end.
      * ra. ra. ra. ra. ra. ra. apply retp_ret. exact H04.
      * ra. ra. apply retp_ret. exact H04.
    + eapply retp_bind; [apply rc_report_event|]. intros m2 H2. ra. apply retp_ret. eapply sc_trans; eassumption.
    + eapply retp_bind; [apply rc_report_event|]. intros m2 H2. apply retp_ret. eapply sc_trans; eassumption.
  - ra. eapply retp_bind; [apply rc_report_event|]. intros m2 H2. apply retp_ret. eapply sc_trans; eassumption.
Qed.
Lemma rc_start fuel p m : retp (start_update_check fuel p m) (fun r => sc m (fst r)).
Proof.
  unfold start_update_check. eapply retp_bind; [apply rc_perform|]. intros [m1 res] H1; cbn [fst] in H1.
  eapply retp_bind with (R1 := fun f => sc m (fst (fst f))).
  { destruct res as [e|[rs rb]].
    - eapply retp_bind with (R1 := fun mr => sc m (fst mr)).
      + destruct e as [re| |]; [destruct re; apply retp_ret; exact H1| |]; (ra; apply retp_ret; exact H1).
      + intros [m2 reason] H2. ra. apply retp_ret. exact H2.
    - ra. ra. ra. apply retp_ret. exact H1. }
  intros [[m2 result] rb] H2. ra. ra. ra. ra. apply retp_ret. exact H2.
Qed.
Lemma rc_update_next m : retp (update_next_update_time m) (fun r => sc m (fst r)).
Proof. unfold update_next_update_time. ra. ra. ra. apply retp_ret. screfl. Qed.
Lemma rc_ping m : retp (ping_omaha m) (sc m).
Proof.
  unfold ping_omaha. cbv zeta. ra. ra. ra. eapply retp_bind; [apply rc_do_req|]. intros [m1 res] H1; cbn [fst] in H1.
  destruct res as [er|[d|]]; [ra; apply retp_ret; exact H1| |ra; apply retp_ret; exact H1].
  ra. ra. ra. apply retp_ret. exact H1.
Qed.
Lemma rc_reboot_loop fuel : forall src pending m, retp (reboot_loop fuel src pending m) (sc m).
Proof.
  induction fuel as [|f IH]; intros src pending m; cbn [reboot_loop]; [apply retp_halt|].
  ra. match goal with |- retp (match ?q with Some _ => _ | None => _ end) _ => destruct q as [[id sc0]|] end.
  { ra. match goal with |- retp (if ?g then _ else _) _ => destruct g end; [apply retp_ret; screfl|apply IH]. }
  ra. match goal with |- retp (match ?s with Fire _ => _ | Control _ => _ | DropHandles => _ end) _ => destruct s as [i|sc0|] end.
  - assert (Hping : retp (m1 <- ping_omaha m;; mt <- update_next_update_time m1;;
                          (let '(m2, t) := mt in roles <- make_wait t;; reboot_loop f src (remove_nth i pending ++ roles) m2)) (sc m)).
    { eapply retp_bind; [apply rc_ping|]. intros m1 H1. eapply retp_bind; [apply rc_update_next|]. intros [m2 t] H2; cbn [fst] in H2.
      ra. eapply retp_conseq; [apply IH|]. intros m3 H3. eapply sc_trans; [|exact H3]. eapply sc_trans; eassumption. }
    destruct (nth_error pending i) as [[| |]|].
    + destruct (has_ping_roles (remove_nth i pending)); [apply IH|exact Hping].
    + destruct (has_ping_roles (remove_nth i pending)); [apply IH|exact Hping].
    + ra. match goal with |- retp (if ?g then _ else _) _ => destruct g end; [apply retp_ret; screfl|]. ra. apply IH.
    + apply IH.
  - ra. ra. ra. match goal with |- retp (if ?g then _ else _) _ => destruct g end; [apply retp_ret; screfl|apply IH].
  - apply IH.
Qed.
Lemma rc_wait_for_reboot fuel src m : retp (wait_for_reboot fuel src m) (sc m).
Proof.
  unfold wait_for_reboot. ra. eapply retp_bind with (R1 := sc m).
  { match goal with |- retp (if ?g then _ else _) _ => destruct g end; [apply retp_ret; screfl|]. ra.
    eapply retp_bind; [apply rc_update_next|]. intros [m1 t] H1; cbn [fst] in H1. ra.
    eapply retp_conseq; [apply rc_reboot_loop|]. intros m2 H2. eapply sc_trans; eassumption. }
  intros m1 H1. ra. ra. apply retp_ret. exact H1.
Qed.
Lemma rc_run_iteration fuel finish start_mono sr m : retp (run_iteration fuel finish start_mono sr m) (fun r => sc m (fst r)).
Proof.
  unfold run_iteration. ra. eapply retp_bind; [apply rc_update_next|]. intros [m1 t] H1; cbn [fst] in H1.
  ra. ra. ra. ra.
  match goal with |- retp (match ?d with DOk _ => _ | _ => _ end) _ => destruct d end.
  1,2: (ra; ra; eapply retp_bind; [apply rc_start|]; intros [m2 rb] H2; cbn [fst] in H2; ra; ra;
        assert (H02 : sc m m2) by (eapply sc_trans; eassumption);
        eapply retp_bind with (R1 := sc m);
        [destruct rb; [ra; eapply retp_conseq; [apply rc_wait_for_reboot|]; intros m3 H3; eapply sc_trans; eassumption|apply retp_ret; exact H02]
        |intros m3 H3; ra; apply retp_ret; exact H3]).
  all: (ra; apply retp_ret; exact H1).
Qed.

(* ---------- the attempts ---------- *)
Definition cupb (m : sm) : bool := match m_cup m with Some _ => true | None => false end.
Lemma cupb_sc m m' : sc m m' -> cupb m' = cupb m. Proof. unfold sc, cupb. intros [-> _]. reflexivity. Qed.
Definition is_inr {A B} (x : A + B) : bool := match x with inr _ => true | inl _ => false end.

Definition okctl (a : action) : bool := match a with ARequest _ _ | AReply _ _ => true | _ => false end.
Lemma step_ctl c p a : okctl a = true -> step6r {| cup6r := c; ph6r_ := p |} a = Some {| cup6r := c; ph6r_ := p |}.
Proof. destruct a; try discriminate; reflexivity. Qed.

Section Attempts.
  Variable c : bool.
  Lemma calm_ok p : quiet_ph p = true -> forall a, calm a = true -> step6r {| cup6r := c; ph6r_ := p |} a = Some {| cup6r := c; ph6r_ := p |}.
  Proof. intros Hp a Ha. apply step_calm; assumption. Qed.
  Ltac csil := apply inv_silent; intro e; reflexivity.

  (* the request of an attempt: at most one goes out, and the phase records whether the attempt succeeded *)
  Lemma A_do_req st b m : cupb m = c ->
    TG (St c (RMid st false false)) (do_omaha_request b m) (fun r q e => exists sent, St c (RMid st sent (is_inr (snd r))) q e).
  Proof.
    intro Hc. unfold do_omaha_request.
    assert (Hret : forall (x : sm * (req_err + body)), is_inr (snd x) = false ->
                   TG (St c (RMid st false false)) (ret x) (fun r q e => exists sent, St c (RMid st sent (is_inr (snd r))) q e)).
    { intros x Hx. apply tripleG_ret. intros q e H. exists false. rewrite Hx. exact H. }
    destruct (negb (u_valid (m_url m))); [apply Hret; reflexivity|].
    destruct (negb (headers_ok (m_cfg m) b)).
    { eapply tripleG_bind with (R := fun _ => St c (RMid st false false)); [|intro; apply Hret; reflexivity].
      destruct (m_cup m); [|apply tripleG_ret; auto]. eapply tripleG_bind; [apply (inv_silent c (RMid st false false)); intro e; reflexivity|intro; apply tripleG_ret; auto]. }
    eapply tripleG_bind with (R := fun _ => St c (RMid st false false)).
    { destruct (m_cup m); [|apply tripleG_ret; auto]. eapply tripleG_bind; [apply (inv_silent c (RMid st false false)); intro e; reflexivity|intro; apply tripleG_ret; auto]. }
    intro uri. eapply tripleG_bind; [apply (inv_silent c (RMid st false false)); intro e; unfold pop_http; destruct (q_http e); reflexivity|intro o]. cbv beta.
    eapply tripleG_bind with (R := fun _ => St c (RMid st true (outcome_ok c o))).
    { apply tripleG_emit. intros q e H. unfold St in H. subst q. eexists. split; reflexivity. }
    intros _.
    assert (Hfin : forall (x : sm * (req_err + body)), is_inr (snd x) = outcome_ok c o ->
                   TG (St c (RMid st true (outcome_ok c o))) (ret x) (fun r q e => exists sent, St c (RMid st sent (is_inr (snd r))) q e)).
    { intros x Hx. apply tripleG_ret. intros q e H. exists true. rewrite Hx. exact H. }
    destruct o as [k|status ra au bd]; [apply Hfin; reflexivity|].
    destruct (match m_cup m with Some _ => negb au | None => false end) eqn:Ef.
    { apply Hfin. cbn [snd is_inr outcome_ok]. rewrite <- Hc. unfold cupb. destruct (m_cup m); [|discriminate]. destruct au; [discriminate|reflexivity]. }
    assert (Hau : negb c || au = true).
    { rewrite <- Hc. unfold cupb. destruct (m_cup m); [|reflexivity]. destruct au; [reflexivity|discriminate]. }
    eapply tripleG_bind with (R := fun _ => St c (RMid st true (outcome_ok c (HResp status ra au bd)))).
    { set (P := RMid st true (outcome_ok c (HResp status ra au bd))).
      destruct (oZ_eqb (ps_poll (m_ps m)) (parse_retry_after ra)); [apply tripleG_ret; auto|]. cbv zeta.
      eapply tripleG_bind; [apply (inv_yield calm c P (calm_ok P eq_refl)); intros; reflexivity|intro].
      eapply tripleG_bind; [apply (inv_ctx_persist calm c P (calm_ok P eq_refl)); intros; reflexivity|intro].
      eapply tripleG_bind; [apply (inv_write calm c P (calm_ok P eq_refl)); intros; reflexivity|intro]. apply tripleG_ret. auto. }
    intro m'. cbv beta. cbn [outcome_ok]. rewrite Hau. cbn [andb].
    destruct ((200 <=? status) && (status <? 300))%N; apply tripleG_ret; intros q e H; exists true; exact H.
  Qed.

  Lemma A_attempt_loop b0 sess fuel : forall attempt m, cupb m = c ->
    TG (St c RStart) (attempt_loop fuel attempt b0 sess m) (fun _ => St c RStart).
  Proof.
    induction fuel as [|f IH]; intros attempt m Hc; cbn [attempt_loop]; [apply tripleG_halt|].
    (* the reading before the attempt *)
    eapply tripleG_bind with (R := fun st => St c (RMid st false false)).
    { unfold now. eapply tripleG_bind; [apply (inv_silent c RStart); intro e; unfold read_clock; destruct (e_clock e); reflexivity|intro ck]. cbv beta.
      eapply tripleG_bind with (R := fun _ => St c (RMid ck false false)); [|intro; apply tripleG_ret; auto].
      apply tripleG_emit. intros q e H. unfold St in H. subst q. eexists. split; reflexivity. }
    intro st. cbv beta.
    eapply tripleG_bind; [apply (inv_silent c (RMid st false false)); intro e; reflexivity|intro req].
    eapply tripleG_bind with (R := fun _ => St c (RMid st false false)).
    { destruct (u_valid (m_url m) && headers_ok (m_cfg m) b0); [|apply tripleG_ret; auto]. unfold with_ids.
      eapply tripleG_bind; [apply (inv_silent c (RMid st false false)); intro e; unfold canon_guid; destruct (glookup (e_guids e) sess); reflexivity|intro].
      eapply tripleG_bind; [apply (inv_silent c (RMid st false false)); intro e; unfold canon_guid; destruct (glookup (e_guids e) req); reflexivity|intro].
      apply tripleG_ret. auto. }
    intro b. cbv beta.
    eapply tripleG_bind; [apply TG_and_ret; [apply (A_do_req st b m Hc)|apply rc_do_req]|]. intros [m1 res]. cbv beta. cbn [fst snd].
    (* the reading after it, and the metric *)
    eapply tripleG_bind with (R := fun fin q e => St c (if mono st <=? mono fin then RDue (mono fin - mono st) (is_inr res) else RStart) q e /\ cupb m1 = c).
    { unfold now. intros q0 e q Hq [[sent Hs] Hsc]. unfold St in Hs. subst q.
      pose proof (cupb_sc _ _ Hsc) as Hc1. rewrite Hc in Hc1.
      assert (Hsil : e_trace (snd (read_clock e)) = e_trace e) by (unfold read_clock; destruct (e_clock e); reflexivity).
      unfold bind. destruct (read_clock e) as [[ck|] e1] eqn:Er; cbn [snd] in Hsil.
      - cbn [emit ret fst snd upd_trace e_trace rev]. unfold mst in *. cbn [e_trace upd_trace rev]. rewrite Hsil, runmon_app, Hq. cbn [runmon step6r ph6r_ set6r cup6r].
        destruct (mono st <=? mono ck); eexists; (split; [reflexivity|split; [reflexivity|exact Hc1]]).
      - exists {| cup6r := c; ph6r_ := RMid st sent (is_inr res) |}. cbn [fst snd]. unfold mst in *. rewrite Hsil. split; [exact Hq|exact I]. }
    intro fin. cbv beta.
    eapply tripleG_bind with (R := fun _ q e => St c RStart q e /\ cupb m1 = c).
    { destruct (mono st <=? mono fin).
      - unfold report. apply tripleG_emit. intros q e [H Hc1]. unfold St in H. subst q. eexists. split; [|split; [reflexivity|exact Hc1]].
        cbn [step6r ph6r_]. rewrite Z.eqb_refl, Bool.eqb_reflx. reflexivity.
      - apply tripleG_ret. auto. }
    intros _. cbv beta.
    apply tripleG_pre_pure. intro Hc1.
    destruct res as [er|bd]; [|apply tripleG_ret; auto].
    match goal with |- TG _ (if ?x then _ else _) _ => destruct x end.
    - eapply tripleG_bind; [apply (inv_yield calm c RStart (calm_ok RStart eq_refl)); intros; reflexivity|intro]. apply tripleG_ret. auto.
    - eapply tripleG_bind; [apply (inv_silent c RStart); intro e; unfold pop_backoff; destruct (q_backoff e); reflexivity|intro r].
      eapply tripleG_bind; [apply (inv_emit calm c RStart (calm_ok RStart eq_refl)); reflexivity|intro]. apply IH. exact Hc1.
  Qed.
End Attempts.

(* ---------- the whole machine ---------- *)
Section Flow.
  Variable c : bool.
  Notation ii := (inv c RIdle).
  Let Hok := step_idle c.
  Ltac sil := apply inv_silent; intro e; reflexivity.
  Ltac em := apply (inv_emit idle_ok c RIdle Hok); reflexivity.
  Ltac wr := apply (inv_write idle_ok c RIdle Hok); intros; reflexivity.
  Ltac ye := apply (inv_yield idle_ok c RIdle Hok); intros; reflexivity.
  Ltac bd := apply inv_bind.

  Lemma F_perform fuel p apps m : cupb m = c -> ii (perform_update_check fuel p apps m).
  Proof.
    intro Hc. unfold perform_update_check, inv.
    (* the check announces itself; the interval metric's clock reading; then the attempts *)
    eapply tripleG_bind with (R := fun _ => St c RInt).
    { unfold yield_state, yield_. eapply tripleG_bind with (R := fun _ => St c RInt).
      - apply tripleG_emit. intros q e H. unfold St in H. subst q. eexists. split; reflexivity.
      - intros []. apply (inv_after_event okctl c RInt (step_ctl c RInt)); intros; reflexivity. }
    intros _.
    eapply tripleG_bind with (R := fun m0 q e => St c RStart q e /\ cupb m0 = c).
    { apply TG_and_ret with (R := fun m0 => cupb m0 = c).
      - unfold report_check_interval.
        eapply tripleG_bind with (R := fun _ => St c RStart).
        { unfold now. eapply tripleG_bind; [apply (inv_silent c RInt); intro e; unfold read_clock; destruct (e_clock e); reflexivity|intro ck]. cbv beta.
          eapply tripleG_bind with (R := fun _ => St c RStart); [|intro; apply tripleG_ret; auto].
          apply tripleG_emit. intros q e H. unfold St in H. subst q. eexists. split; reflexivity. }
        intro n. cbv beta.
        eapply tripleG_bind with (R := fun _ => St c RStart); [|intro; apply tripleG_ret; auto].
        assert (Hrep : forall x, calm (AMetric x) = true -> TG (St c RStart) (report x) (fun _ => St c RStart)).
        { intros x Hx. unfold report. apply (inv_emit calm c RStart (calm_ok c RStart eq_refl)). exact Hx. }
        destruct (s_last_check (m_sched m)) as [[w|mm|cc]|]; try (apply tripleG_ret; auto).
        + destruct (w <=? wall n); [apply Hrep; reflexivity|apply tripleG_ret; auto].
        + destruct (mono cc <=? mono n); [apply Hrep; reflexivity|apply tripleG_ret; auto].
      - eapply retp_conseq; [apply rc_report_check_interval|]. intros m0 H0. rewrite (cupb_sc _ _ H0). exact Hc. }
    intro m0. cbv beta. apply tripleG_pre_pure. intro Hc0.
    eapply tripleG_bind; [apply (inv_silent c RStart); intro e; reflexivity|intro sess].
    eapply tripleG_bind; [apply (A_attempt_loop c _ sess fuel 1 m0 Hc0)|]. intros [[m1 attempts] res]. cbv beta.
    eapply tripleG_bind with (R := fun _ => St c RIdle).
    { unfold report. apply tripleG_emit. intros q e H. unfold St in H. subst q. eexists. split; reflexivity. }
    intros _. fold (@inv c RIdle (sm * (check_err + (list app_response * reboot)))).
    destruct res as [e|[d|]].
    - apply inv_ret.
    - bd; [ye|intro]. destruct (filter uc_ok (d_apps d)) as [|wu0 wur]; [bd; [ye|intro; apply inv_ret]|].
      bd; [apply ii_pop; intro e; unfold pop_plan; destruct (q_plan e); reflexivity|intro pl]. bd; [em|intro].
      destruct pl as [plan|].
      2:{ bd; [ye|intro]. bd; [ye|intro]. bd; [apply ii_report_event|intro]. apply inv_ret. }
      bd; [apply ii_pop; intro e; unfold pop_can_start; destruct (q_can_start e); reflexivity|intro dec]. bd; [em|intro].
      destruct dec.
      + bd; [ye|intro]. bd; [apply ii_report_event|intro m2].
        bd; [apply ii_now|intro t0]. bd; [apply ii_record_first_seen|intro fs].
        bd; [apply ii_pop; intro e; unfold pop_perform; destruct (q_perform e); reflexivity|intro pa]. bd; [em|intro].
        bd; [apply inv_iterM; intro; ye|intro]. bd; [apply ii_now|intro t1].
        bd. { match goal with |- inv _ _ (if ?x then _ else _) => destruct x end; [|apply inv_ret]. bd; [apply (inv_emit idle_ok c RIdle Hok); destruct (forallb _ _); reflexivity|intro; apply inv_ret]. }
        intro dur. bd; [sil|intro]. bd; [apply ii_maybe_ids|intro b].
        bd; [apply ii_do_req|]. intros [m3 rr].
        bd; [destruct rr; [apply inv_iterM; intro; em|apply inv_ret]|intro].
        bd. { match goal with |- inv _ _ (match ?l with [] => _ | _ => _ end) => destruct l end; [apply inv_ret|apply ii_report_event]. }
        intro m4.
        match goal with |- inv _ _ (match ?n with O => _ | S _ => _ end) => destruct n as [|nerr] end.
        * bd; [match goal with |- inv _ _ (if ?x then _ else _) => destruct x end; [em|apply inv_ret]|intro].
          bd; [apply ii_set_opt|intro].
          bd. { match goal with |- inv _ _ (match ?x with Some _ => _ | None => _ end) => destruct x end; [|apply inv_ret]. bd; [wr|intro; apply inv_ret]. }
          intro. bd; [wr|intro]. bd; [apply ii_pop; intro e; unfold pop_reboot_needed; destruct (q_reboot_needed e); reflexivity|intro rn].
          bd; [em|intro]. apply inv_ret.
        * bd; [apply inv_iterM; intro; ye|intro]. bd; [ye|intro]. apply inv_ret.
      + bd; [apply ii_report_event|intro]. bd; [ye|intro]. apply inv_ret.
      + bd; [apply ii_report_event|intro]. apply inv_ret.
    - bd; [ye|intro]. bd; [apply ii_report_event|intro]. apply inv_ret.
  Qed.

  Lemma F_start fuel p m : cupb m = c -> ii (start_update_check fuel p m).
  Proof.
    intro Hc. unfold start_update_check. bd; [apply F_perform; exact Hc|]. intros [m1 res].
    bd.
    { destruct res as [e|[rs rb]].
      - bd.
        + destruct e as [re| |]; [destruct re; apply inv_ret| |]; (bd; [apply ii_now|intro; apply inv_ret]).
        + intros [m2 reason]. bd; [em|intro; apply inv_ret].
      - bd; [apply ii_now|intro n]. bd; [em|intro].
        bd; [destruct (install_success rs); [apply ii_report_attempts|apply inv_ret]|intro]. apply inv_ret. }
    intros [[m2 result] rb]. bd; [ye|intro]. bd; [ye|intro]. bd; [ye|intro]. bd; [apply ii_persist|intro]. apply inv_ret.
  Qed.

  Lemma F_run_iteration fuel finish start_mono sr m : cupb m = c -> ii (run_iteration fuel finish start_mono sr m).
  Proof.
    intro Hc. unfold run_iteration.
    bd.
    { destruct sr; [|apply inv_ret]. bd; [apply ii_now|intro n].
      match goal with |- inv _ _ (match ?x with Some _ => _ | None => _ end) => destruct x end; [|apply inv_ret].
      bd; [em|intro]. repeat (bd; [wr|intro]). apply inv_ret. }
    intro sr'. unfold inv.
    eapply tripleG_bind; [apply TG_and_ret; [apply ii_update_next|apply rc_update_next]|]. intros [m1 t]. cbv beta. cbn [fst].
    apply tripleG_pre_pure. intro H1. pose proof (cupb_sc _ _ H1) as Hc1. rewrite Hc in Hc1.
    fold (@inv c RIdle (sm * bool)).
    bd; [apply ii_make_wait|intro roles]. bd; [apply ii_do_outer_select|intro sel].
    bd; [apply ii_pop; intro e; unfold pop_allowed; destruct (q_allowed e); reflexivity|intro dec]. bd; [em|intro].
    assert (Hrep : forall r, ii (match sel with Some (_, id) => emit (AReply id r) | None => ret tt end)).
    { intro r. destruct sel as [[s id]|]; [em|apply inv_ret]. }
    destruct dec.
    1,2: (bd; [apply Hrep|intro]; bd; [apply ii_enter_check|intro];
          bd; [apply F_start; exact Hc1|]; intros [m2 rb]; bd; [sil|intro]; bd; [sil|intro upg];
          bd; [destruct rb; [bd; [ye|intro; apply ii_wait_for_reboot]|apply inv_ret]|intro m3];
          bd; [ye|intro]; apply inv_ret).
    all: (bd; [apply Hrep|intro]; apply inv_ret).
  Qed.

  Lemma F_run_loop iters : forall fuel finish start_mono sr m, cupb m = c -> ii (run_loop iters fuel finish start_mono sr m).
  Proof.
    induction iters as [|k IH]; intros fuel finish start_mono sr m Hc; cbn [run_loop]; [apply inv_halt|]. unfold inv.
    eapply tripleG_bind; [apply TG_and_ret; [apply (F_run_iteration fuel finish start_mono sr m Hc)|apply rc_run_iteration]|]. intros [m' sr']. cbv beta. cbn [fst].
    apply tripleG_pre_pure. intro H1. apply IH. rewrite (cupb_sc _ _ H1). exact Hc.
  Qed.
  Lemma F_run iters fuel m : cupb m = c -> ii (run iters fuel m).
  Proof.
    intro Hc. unfold run. destruct (negb (forallb app_valid (m_apps m))); [apply inv_ret|].
    bd; [apply ii_now|intro]. bd; [sil|intro]. bd; [sil|intro]. apply F_run_loop. exact Hc.
  Qed.
  Lemma F_oneshot fuel m : cupb m = c -> ii (oneshot fuel m).
  Proof. intro Hc. unfold oneshot. bd; [apply F_start; exact Hc|]. intros [m' rb]. apply inv_ret. Qed.
End Flow.

Theorem model_accepted_c06rt ep cfg url cup apps e :
  e_trace e = [] -> accepts step6r (init6r cup) (run_case ep cfg url cup apps e) = true.
Proof.
  intros Ht. unfold run_case, accepts.
  set (c := match cup with Some _ => true | None => false end).
  set (q0 := init6r cup).
  assert (Hm0 : mst step6r q0 e = Some q0) by (unfold mst; rewrite Ht; reflexivity).
  assert (HI : St c RIdle q0 e) by reflexivity.
  assert (Hc : cupb (build cfg url cup apps (e_store e)) = c).
  { unfold cupb, build. destruct (ctx_load (pend (e_store e))). reflexivity. }
  destruct ep.
  - destruct (F_run c (Datatypes.S (length (e_stim e) + length (c_inject (e_cs e)))) (4 + length (e_stim e) + length (c_inject (e_cs e)))
                (build cfg url cup apps (e_store e)) Hc q0 e q0 Hm0 HI) as (q' & Hq' & _).
    destruct (run _ _ _ e) as [r e'] eqn:E. cbn [snd] in Hq'. unfold mst in Hq'. rewrite Hq'. reflexivity.
  - destruct (F_oneshot c (4 + length (e_stim e) + length (c_inject (e_cs e))) (build cfg url cup apps (e_store e)) Hc q0 e q0 Hm0 HI) as (q' & Hq' & _).
    destruct (oneshot _ _ e) as [r e'] eqn:E. cbn [snd] in Hq'. unfold mst in Hq'. rewrite Hq'. reflexivity.
Qed.
