(* Proofs/BytesFacts.v — facts about Base/Bytes.v *)
Require Import Verif.Base.Bytes.
Open Scope N_scope.

(* ---------- bytes_eqb ---------- *)
Lemma bytes_eqb_refl a : bytes_eqb a a = true.
Proof. induction a as [|x a IH]; cbn [bytes_eqb]; [reflexivity|]. rewrite N.eqb_refl, IH. reflexivity. Qed.

Lemma bytes_eqb_eq a b : bytes_eqb a b = true <-> a = b.
Proof.
  revert b; induction a as [|x a IH]; intros [|y b]; cbn [bytes_eqb]; split; intro H;
    try reflexivity; try discriminate.
  - apply andb_true_iff in H as [H1 H2]. apply N.eqb_eq in H1. apply IH in H2. congruence.
  - inversion H; subst. rewrite N.eqb_refl. cbn. apply IH. reflexivity.
Qed.

(* ---------- decimal ---------- *)
Lemma dec_value_app ds d : dec_value (ds ++ [d]) = dec_value ds * 10 + (d - 48).
Proof. unfold dec_value. rewrite fold_left_app. reflexivity. Qed.

Lemma all_digits_app a b : all_digits (a ++ b) = all_digits a && all_digits b.
Proof. unfold all_digits. apply forallb_app. Qed.

Lemma pos_size_nat_gt p : N.pos p < 2 ^ N.of_nat (Pos.size_nat p).
Proof.
  induction p as [p IH|p IH|]; cbn [Pos.size_nat].
  - rewrite Nat2N.inj_succ, N.pow_succ_r'. lia.
  - rewrite Nat2N.inj_succ, N.pow_succ_r'. lia.
  - cbn. lia.
Qed.

Lemma size_nat_gt n : n < 2 ^ N.of_nat (N.size_nat n).
Proof. destruct n as [|p]; [cbn; lia| apply pos_size_nat_gt]. Qed.

(* what a canonical decimal numeral of n is *)
Definition canonical_dec (n : N) (ds : bytes) : Prop :=
  ds <> [] /\ all_digits ds = true /\ dec_value ds = n /\
  (n = 0 -> ds = [48]) /\ (n <> 0 -> exists c r, ds = c :: r /\ c <> 48).

Lemma digit_is_digit d : d < 10 -> is_digit (48 + d) = true.
Proof. intro H. unfold is_digit. apply andb_true_iff. split; apply N.leb_le; lia. Qed.

Lemma print_dec_aux_S f n acc :
  print_dec_aux (S f) n acc =
  if n / 10 =? 0 then (48 + n mod 10) :: acc
  else print_dec_aux f (n / 10) ((48 + n mod 10) :: acc).
Proof. reflexivity. Qed.

Lemma print_dec_aux_spec f :
  forall n acc, n < 2 ^ N.of_nat f ->
    exists ds, print_dec_aux (S f) n acc = ds ++ acc /\ canonical_dec n ds.
Proof.
  induction f as [|f IH]; intros n acc Hn.
  - assert (n = 0) by (cbn in Hn; lia). subst n.
    exists [48]. split; [reflexivity|].
    unfold canonical_dec. repeat split; try reflexivity; try discriminate.
    intro H; congruence.
  - rewrite print_dec_aux_S. destruct (n / 10 =? 0) eqn:Hq.
    + apply N.eqb_eq in Hq.
      assert (Hlt : n < 10).
      { destruct (N.lt_ge_cases n 10) as [|Hge]; [assumption|].
        assert (1 <= n / 10) by (apply N.div_le_lower_bound; lia). lia. }
      rewrite (N.mod_small n 10 Hlt).
      exists [48 + n]. split; [reflexivity|].
      unfold canonical_dec. split; [discriminate|].
      split; [cbn [all_digits forallb]; rewrite digit_is_digit by assumption; reflexivity|].
      split; [unfold dec_value; cbn [fold_left]; lia|].
      split; [intro; subst; reflexivity|].
      intro Hnz. exists (48 + n), []. split; [reflexivity|lia].
    + apply N.eqb_neq in Hq.
      assert (Hdiv : n / 10 < 2 ^ N.of_nat f).
      { rewrite Nat2N.inj_succ, N.pow_succ_r' in Hn.
        apply N.div_lt_upper_bound; lia. }
      destruct (IH (n / 10) ((48 + n mod 10) :: acc) Hdiv) as (ds & Heq & Hc).
      exists (ds ++ [48 + n mod 10]).
      split; [rewrite Heq, <- app_assoc; reflexivity|].
      destruct Hc as (Hne & Had & Hv & _ & Hnz).
      assert (Hm : n mod 10 < 10) by (apply N.mod_lt; lia).
      unfold canonical_dec. split; [destruct ds; discriminate|].
      split.
      { rewrite all_digits_app, Had. cbn [all_digits forallb andb].
        rewrite digit_is_digit by assumption. reflexivity. }
      split.
      { rewrite dec_value_app, Hv.
        assert (Hdm := N.div_mod n 10 ltac:(lia)).
        clear - Hdm Hm. set (q := n / 10) in *. set (r := n mod 10) in *. clearbody q r. lia. }
      split.
      { intro; subst n. exfalso. apply Hq. reflexivity. }
      intros _. destruct (Hnz Hq) as (c & r & -> & Hc).
      exists c, (r ++ [48 + n mod 10]). split; [reflexivity|assumption].
Qed.

Lemma print_dec_canonical n : canonical_dec n (print_dec n).
Proof.
  unfold print_dec.
  destruct (print_dec_aux_spec (N.size_nat n) n [] (size_nat_gt n)) as (ds & Heq & Hc).
  rewrite Heq, app_nil_r. exact Hc.
Qed.

Lemma canonical_dec_first_digit n ds :
  canonical_dec n ds -> exists c r, ds = c :: r /\ is_digit c = true.
Proof.
  intros (Hne & Had & _). destruct ds as [|c r]; [congruence|].
  exists c, r. split; [reflexivity|]. cbn [all_digits forallb] in Had.
  apply andb_true_iff in Had. tauto.
Qed.

Lemma strip_plus_other c r : c <> 43 -> strip_plus (c :: r) = c :: r.
Proof.
  intro H. unfold strip_plus. destruct c as [|p]; [reflexivity|].
  do 6 (destruct p as [p|p|]; try reflexivity). congruence.
Qed.

Lemma strip_plus_digits ds : all_digits ds = true -> strip_plus ds = ds.
Proof.
  destruct ds as [|c r]; [reflexivity|]. intro H. apply strip_plus_other.
  intro; subst c. cbn in H. discriminate.
Qed.

Lemma parse_unsigned_canonical bound n ds :
  canonical_dec n ds -> n < bound -> parse_unsigned bound ds = Some n.
Proof.
  intros (Hne & Had & Hv & _) Hb. unfold parse_unsigned.
  rewrite strip_plus_digits by assumption. unfold parse_digits.
  destruct ds as [|c r]; [congruence|].
  rewrite Had, Hv. apply N.ltb_lt in Hb. rewrite Hb. reflexivity.
Qed.

Lemma parse_print_dec bound n : n < bound -> parse_unsigned bound (print_dec n) = Some n.
Proof. intro H. apply parse_unsigned_canonical; [apply print_dec_canonical|assumption]. Qed.

(* what parse_unsigned accepts, exactly *)
Definition numeral (bound : N) (s : bytes) (n : N) : Prop :=
  exists ds, (s = ds \/ s = 43 :: ds) /\ ds <> [] /\ all_digits ds = true /\
             dec_value ds = n /\ n < bound.

Lemma all_digits_no_plus ds : all_digits ds = true -> forall r, ds <> 43 :: r.
Proof.
  intros H r ->. cbn in H. discriminate.
Qed.

Lemma strip_plus_cases s : s = strip_plus s \/ s = 43 :: strip_plus s.
Proof.
  destruct s as [|c r]; [left; reflexivity|].
  destruct (N.eq_dec c 43) as [->|Hc]; [right; reflexivity|].
  left. rewrite strip_plus_other by assumption. reflexivity.
Qed.

Lemma parse_unsigned_iff bound s n :
  parse_unsigned bound s = Some n <-> numeral bound s n.
Proof.
  unfold parse_unsigned, numeral. split.
  - intro H. exists (strip_plus s). split; [apply strip_plus_cases|].
    unfold parse_digits in H.
    destruct (strip_plus s) as [|d ds']; [discriminate|].
    destruct (all_digits (d :: ds')) eqn:Had; [|discriminate].
    destruct (dec_value (d :: ds') <? bound) eqn:Hb; [|discriminate].
    inversion H; subst. apply N.ltb_lt in Hb.
    repeat split; try assumption; discriminate.
  - intros (ds & Hs & Hne & Had & Hv & Hb).
    assert (Hm : strip_plus s = ds).
    { destruct Hs as [->| ->]; [apply strip_plus_digits; assumption|reflexivity]. }
    rewrite Hm. unfold parse_digits. destruct ds as [|d ds']; [congruence|].
    rewrite Had, Hv. apply N.ltb_lt in Hb. rewrite Hb. reflexivity.
Qed.

Lemma parse_unsigned_empty bound : parse_unsigned bound [] = None.
Proof. reflexivity. Qed.

Lemma parse_unsigned_overflow bound s ds :
  (s = ds \/ s = 43 :: ds) -> all_digits ds = true -> bound <= dec_value ds ->
  parse_unsigned bound s = None.
Proof.
  intros Hs Had Hb. destruct (parse_unsigned bound s) as [n|] eqn:H; [|reflexivity].
  apply parse_unsigned_iff in H as (ds' & Hs' & Hne & Had' & Hv & Hlt).
  assert (ds' = ds).
  { destruct Hs as [Hs|Hs], Hs' as [Hs'|Hs']; rewrite Hs in Hs'.
    - congruence.
    - exfalso. exact (all_digits_no_plus ds Had _ Hs').
    - exfalso. symmetry in Hs'. exact (all_digits_no_plus ds' Had' _ Hs').
    - congruence. }
  subst. lia.
Qed.

Lemma parse_unsigned_nondigit bound s c :
  In c s -> is_digit c = false -> c <> 43 -> parse_unsigned bound s = None.
Proof.
  intros Hin Hd Hp. destruct (parse_unsigned bound s) as [n|] eqn:H; [|reflexivity].
  apply parse_unsigned_iff in H as (ds & Hs & _ & Had & _).
  assert (Hin' : In c ds).
  { destruct Hs as [->| ->]; [assumption|]. destruct Hin; [congruence|assumption]. }
  unfold all_digits in Had. rewrite forallb_forall in Had. rewrite (Had _ Hin') in Hd. discriminate.
Qed.

(* ---------- split / join ---------- *)
Lemma split_on_nonempty sep s : split_on sep s <> [].
Proof.
  induction s as [|c r IH]; cbn [split_on]; [discriminate|].
  destruct (c =? sep); [discriminate|]. destruct (split_on sep r); [congruence|discriminate].
Qed.

Lemma join_split sep s : join_with sep (split_on sep s) = s.
Proof.
  induction s as [|c r IH]; [reflexivity|]. cbn [split_on].
  destruct (c =? sep) eqn:E.
  - apply N.eqb_eq in E; subst.
    pose proof (split_on_nonempty sep r).
    destruct (split_on sep r) as [|p ps] eqn:Hs; [congruence|].
    cbn [join_with app]. cbn [join_with] in IH. rewrite IH. reflexivity.
  - pose proof (split_on_nonempty sep r).
    destruct (split_on sep r) as [|p ps] eqn:Hs; [congruence|].
    destruct ps as [|q qs]; cbn [join_with app] in *; rewrite IH; reflexivity.
Qed.

Definition no_sep (sep : N) (p : bytes) : Prop := ~ In sep p.

Lemma split_on_no_sep sep p : no_sep sep p -> split_on sep p = [p].
Proof.
  induction p as [|c r IH]; intro H; [reflexivity|]. cbn [split_on].
  destruct (c =? sep) eqn:E.
  - apply N.eqb_eq in E. exfalso. apply H. left. assumption.
  - rewrite IH; [reflexivity|]. intro Hin. apply H. right. assumption.
Qed.

Lemma split_on_app_sep sep p rest :
  no_sep sep p -> split_on sep (p ++ sep :: rest) = p :: split_on sep rest.
Proof.
  induction p as [|c r IH]; intro H; cbn [app split_on].
  - rewrite N.eqb_refl. reflexivity.
  - destruct (c =? sep) eqn:E.
    + apply N.eqb_eq in E. exfalso. apply H. left. assumption.
    + rewrite IH; [reflexivity|]. intro Hin. apply H. right. assumption.
Qed.

Lemma split_join sep parts :
  parts <> [] -> Forall (no_sep sep) parts -> split_on sep (join_with sep parts) = parts.
Proof.
  induction parts as [|p ps IH]; intros Hne Hall; [congruence|].
  inversion Hall as [|? ? Hp Hps]; subst.
  destruct ps as [|q qs].
  - cbn [join_with]. apply split_on_no_sep. assumption.
  - cbn [join_with]. cbn [join_with] in IH. rewrite split_on_app_sep by assumption.
    rewrite IH; [reflexivity|discriminate|assumption].
Qed.

Lemma split_on_parts_no_sep sep s : Forall (no_sep sep) (split_on sep s).
Proof.
  induction s as [|c r IH]; cbn [split_on].
  - constructor; [intros []|constructor].
  - destruct (c =? sep) eqn:E.
    + constructor; [intros []|assumption].
    + destruct (split_on sep r) as [|p ps]; [constructor; [|constructor]|].
      * intros [H|[]]. apply N.eqb_neq in E. congruence.
      * inversion IH; subst. constructor; [|assumption].
        intros [H|H]; [apply N.eqb_neq in E; congruence|contradiction].
Qed.

Lemma all_digits_no_sep sep ds :
  is_digit sep = false -> all_digits ds = true -> no_sep sep ds.
Proof.
  intros Hs Had Hin. unfold all_digits in Had. rewrite forallb_forall in Had.
  rewrite (Had _ Hin) in Hs. discriminate.
Qed.

(* ---------- hex ---------- *)
Lemma hexval_hexdigit n : n < 16 -> hexval (hexdigit n) = Some n.
Proof.
  intro H. unfold hexdigit.
  destruct (n <? 10) eqn:E; [apply N.ltb_lt in E|apply N.ltb_ge in E]; unfold hexval.
  - replace ((48 <=? 48 + n) && (48 + n <=? 57)) with true.
    2:{ symmetry. apply andb_true_iff. split; apply N.leb_le; lia. }
    f_equal. lia.
  - replace ((48 <=? 87 + n) && (87 + n <=? 57)) with false.
    2:{ symmetry. apply andb_false_iff. right. apply N.leb_gt. lia. }
    replace ((97 <=? 87 + n) && (87 + n <=? 102)) with true.
    2:{ symmetry. apply andb_true_iff. split; apply N.leb_le; lia. }
    f_equal. lia.
Qed.

Definition is_bytes (s : bytes) : Prop := Forall (fun b => b < 256) s.

Lemma hex_decode_encode s : is_bytes s -> hex_decode (hex_encode s) = Some s.
Proof.
  induction s as [|b r IH]; intro H; [reflexivity|].
  inversion H as [|? ? Hb Hr]; subst.
  cbn [hex_encode hex_decode].
  assert (b / 16 < 16) by (apply N.div_lt_upper_bound; lia).
  assert (b mod 16 < 16) by (apply N.mod_lt; lia).
  rewrite !hexval_hexdigit by assumption. rewrite IH by assumption.
  f_equal. f_equal. assert (Hdm := N.div_mod b 16 ltac:(lia)).
  set (q := b / 16) in *. set (m := b mod 16) in *. clearbody q m. lia.
Qed.
