(* Proofs/C02Proof.v — every model trace is accepted by the authentication monitor step2 *)
Require Import Verif.Model.Time Verif.Base.Bytes Verif.Proofs.BytesFacts Verif.Model.Version Verif.Model.Json Verif.Model.Proto
               Verif.Model.Request Verif.Model.Env Verif.Model.SM Verif.Model.Monitors Verif.Proofs.Monitor Verif.Proofs.MonGeneric.
From Coq Require Import Lia.
Open Scope Z_scope.

Notation T := (triple step2).
Definition Inv2 (q : q2) : Prop := True.
Notation nM := (neutralM step2 Inv2).

Definition cupb (m : sm) : bool := match m_cup m with Some _ => true | None => false end.
Definition S2 (c : bool) (L : option (option pct)) (A : option (list app)) (i : in2) (f : f2) (s r : bool) : q2 :=
  {| cup2 := c; in2_ := i; f2_ := f; lu2 := L; apps2 := A; same2 := s; reason2 := r |}.

(* actions that never change the monitor state, whatever it is *)
Definition quiet (a : action) : Prop :=
  match a with
  | AClock _ | AStore _ _ | AReply _ _ | ARequest _ _ | ATimer (WUntil _) => True
  | AEvent (EvState s) => match s with CheckingForUpdates _ => False | _ => True end
  | AEvent (EvProtocol _) | AEvent (EvProgress _) | AEvent EvInstallerError => True
  | APolicy (QCanStart _) _ | APolicy (QRebootAllowed _) _ | APolicy (QRebootNeeded _) _ => True
  | _ => False
  end.
Lemma step2_quiet q a : quiet a -> step2 q a = Some q.
Proof.
  intro H. destruct a as [ev|pq ans|w o|c ans|c|w|op ok|mt|id src|id r]; try contradiction; try reflexivity.
  - destruct ev as [s| | | | | |]; try contradiction; try reflexivity. destruct s; try contradiction; reflexivity.
  - destruct pq; try contradiction; reflexivity.
  - destruct w; try contradiction; reflexivity.
Qed.
Lemma nM_quiet a : quiet a -> nM (emit a).
Proof. intro H. apply neutralM_emit. intros q _. apply step2_quiet. exact H. Qed.
Lemma ign_store2 : ign_store step2 Inv2. Proof. intros op ok q _. reflexivity. Qed.
Lemma ign_clock2 : ign_clock step2 Inv2. Proof. intros c q _. reflexivity. Qed.
Lemma ign_ctl2 : ign_ctl step2.
Proof. split; intros; reflexivity. Qed.
Ltac temit := first [apply triple_emit | apply (T_yield step2 _ _ _ ign_ctl2) | (unfold yield_state; apply (T_yield step2 _ _ _ ign_ctl2))].
Lemma nM_yieldq ev : quiet (AEvent ev) -> nM (yield_ ev).
Proof. intro H. apply neutralM_yield; [apply ign_ctl2|]. intros q _. apply step2_quiet. exact H. Qed.

Lemma An {A} (P : q2 -> Prop) (m : M A) : nM m -> T P m (fun _ => P).
Proof. intro H. apply (H P). intros q _. exact I. Qed.
Lemma nM_now : nM now. Proof. apply neutralM_now, ign_clock2. Qed.
Lemma nM_st_write op : nM (st_write op). Proof. apply neutralM_st_write, ign_store2. Qed.
Lemma nM_persist_data m : nM (persist_data m). Proof. apply neutralM_persist_data, ign_store2. Qed.
Lemma nM_ctx_persist sc ps : nM (ctx_persist sc ps). Proof. apply neutralM_ctx_persist, ign_store2. Qed.
Lemma nM_silent {A} (m : M A) : silent m -> nM m. Proof. apply neutralM_silent. Qed.
Lemma nM_record_first_seen plan t : nM (record_first_seen plan t). Proof. apply neutralM_record_first_seen, ign_store2. Qed.
Lemma nM_yield_state s : (match s with CheckingForUpdates _ => False | _ => True end) -> nM (yield_state s).
Proof. intro H. unfold yield_state. apply nM_yieldq. destruct s; try contradiction; exact I. Qed.

Ltac kp P H := eapply triple_bind with (R := fun _ => P); [apply (An P), H|intro].
Tactic Notation "kpa" constr(P) constr(H) "as" ident(x) := eapply triple_bind with (R := fun _ => P); [apply (An P), H|intro x].
Lemma T_pre_false {A} (P : q2 -> Prop) (m : M A) Q : (forall q, P q -> False) -> T P m Q.
Proof. intros H q0 e q _ Hp. destruct (H q Hp). Qed.

(* metrics in a state that is not "lost event pending" *)
Definition notrep (q : q2) : Prop := f2_ q <> F2Rep.
Lemma step2_metric q mt :
  notrep q -> (match mt with MRequestsPerCheck _ _ | MFailureReason _ => False | _ => True end) -> step2 q (AMetric mt) = Some q.
Proof.
  intros Hn Hm. unfold step2. destruct mt; try contradiction; try (destruct (f2_ q) eqn:E; try reflexivity; exfalso; apply Hn; exact E).
Qed.
Lemma T_report (P : q2 -> Prop) mt :
  (forall q, P q -> notrep q) -> (match mt with MRequestsPerCheck _ _ | MFailureReason _ => False | _ => True end) ->
  T P (report mt) (fun _ => P).
Proof.
  intros HP Hm. unfold report. temit. intros q Hq. exists q. split; [apply step2_metric; [apply HP, Hq|exact Hm]|exact Hq].
Qed.

(* ---------- do_omaha_request ---------- *)
Definition same_but_ps (m m' : sm) : Prop :=
  m_cup m' = m_cup m /\ m_apps m' = m_apps m /\ m_sched m' = m_sched m /\ m_url m' = m_url m /\ m_cfg m' = m_cfg m.
Lemma same_but_ps_refl m : same_but_ps m m. Proof. repeat split. Qed.

Definition forged_state (c : bool) L A (i : in2) (f : f2) (s r : bool) (noev : bool) : q2 :=
  match i with
  | I2Att => S2 c L A I2Att F2Att s false
  | I2Rep => S2 c L A I2Rep (if noev then F2None else F2Rep) s r
  | I2Out => S2 c L A I2Out F2Ping s r
  end.

Definition req_post (m : sm) c L A i f0 s r (b : builder) (res : sm * (req_err + body)) (q : q2) : Prop :=
  same_but_ps m (fst res) /\
  ((q = S2 c L A i f0 s r /\ fst res = m /\ (snd res = inl REHttpBuilder \/ snd res = inl RECupDecoration))
   \/ (q = S2 c L A i F2None s r /\ snd res <> inl RECupValidation)
   \/ (exists noev, q = forged_state c L A i f0 s r noev /\ res = (m, inl RECupValidation) /\ (b_entries b = [] -> noev = true))).

Lemma total_events_nil b uri cfg :
  b_entries b = [] -> total_events {| w_uri := uri; w_headers := headers_of cfg b; w_body := body_of cfg b; w_sum := summary_of b |} = O.
Proof. intro H. unfold total_events, summary_of. cbn [w_sum ws_apps]. rewrite H. reflexivity. Qed.

Lemma T_do_req b m L A i f0 s r :
  (f0 = F2None \/ f0 = F2Ping) ->
  T (fun q => q = S2 (cupb m) L A i f0 s r) (do_omaha_request b m) (req_post m (cupb m) L A i f0 s r b).
Proof.
  intro Hf0. set (c := cupb m). set (Q0 := fun q => q = S2 c L A i f0 s r).
  unfold do_omaha_request.
  destruct (negb (u_valid (m_url m))).
  { apply triple_ret. intros q ->. split; [apply same_but_ps_refl|]. left. split; [reflexivity|split; [reflexivity|]].
    cbn [snd]. destruct (m_cup m); [right|left]; reflexivity. }
  destruct (negb (headers_ok (m_cfg m) b)).
  { eapply triple_bind with (R := fun _ => Q0).
    - destruct (m_cup m); [|apply triple_ret; auto]. kp Q0 (nM_silent _ silent_fresh_nonce). apply triple_ret. auto.
    - intro. apply triple_ret. intros q ->. split; [apply same_but_ps_refl|]. left. cbn. auto. }
  eapply triple_bind with (R := fun _ => Q0).
  { destruct (m_cup m); [kp Q0 (nM_silent _ silent_fresh_nonce); apply triple_ret; auto|apply triple_ret; auto]. }
  intro uri. kpa Q0 (nM_silent _ silent_pop_http) as o.
  destruct (forged c o) eqn:Efo.
  - (* forged: the exchange fails with a validation error and m is returned unchanged *)
    destruct o as [k|status ra authentic bd]; [discriminate|]. cbn [forged] in Efo.
    apply andb_true_iff in Efo as [Hc Ha]. apply negb_true_iff in Ha. subst authentic.
    set (w := {| w_uri := uri; w_headers := headers_of (m_cfg m) b; w_body := body_of (m_cfg m) b; w_sum := summary_of b |}).
    eapply triple_bind with (R := fun _ q => q = forged_state c L A i f0 s r (match total_events w with O => true | S _ => false end)).
    { temit. intros q ->. eexists. split; [|reflexivity].
      unfold step2, S2. cbn [f2_ cup2 in2_ same2 reason2 lu2 apps2]. fold c. fold w.
      destruct (total_events w) eqn:Et;
      destruct Hf0 as [-> | ->]; cbn [forged]; rewrite Hc; cbn [andb negb];
        destruct i; cbn [forged_state]; unfold q2_set, S2; cbn [f2_ cup2 in2_ same2 reason2 lu2 apps2]; reflexivity. }
    intro. unfold c, cupb in Hc. destruct (m_cup m) eqn:Ecup; [|discriminate]. cbn [negb].
    apply triple_ret. intros q ->. split; [apply same_but_ps_refl|]. right. right.
    eexists. split; [reflexivity|]. split; [reflexivity|].
    intro Hnil. unfold w. rewrite total_events_nil by exact Hnil. reflexivity.
  - (* not forged *)
    eapply triple_bind with (R := fun _ q => q = S2 c L A i F2None s r).
    { temit. intros q ->. eexists. split; [|reflexivity].
      unfold step2, S2. cbn [f2_ cup2 in2_ same2 reason2 lu2 apps2]. rewrite Efo.
      destruct Hf0 as [-> | ->]; reflexivity. }
    intro. set (Q1 := fun q => q = S2 c L A i F2None s r).
    destruct o as [k|status ra authentic bd].
    + apply triple_ret. intros q ->. split; [apply same_but_ps_refl|]. right. left. split; [reflexivity|discriminate].
    + assert (Hnf : match m_cup m with Some _ => negb authentic | None => false end = false).
      { cbn [forged] in Efo. unfold c, cupb in Efo. destruct (m_cup m); [exact Efo|reflexivity]. }
      rewrite Hnf.
      eapply triple_bind with (R := fun m' q => Q1 q /\ same_but_ps m m').
      { destruct (oZ_eqb (ps_poll (m_ps m)) (parse_retry_after ra)).
        - apply triple_ret. intros q Hq. split; [exact Hq|apply same_but_ps_refl].
        - kp Q1 (nM_yieldq (EvProtocol (m_ps (with_ps m (set_poll (m_ps m) (parse_retry_after ra))))) I).
          kp Q1 (nM_ctx_persist (m_sched (with_ps m (set_poll (m_ps m) (parse_retry_after ra)))) (m_ps (with_ps m (set_poll (m_ps m) (parse_retry_after ra))))).
          kp Q1 (nM_st_write SCommit).
          apply triple_ret. intros q Hq. split; [exact Hq|repeat split]. }
      intro m'. destruct ((200 <=? status)%N && (status <? 300)%N); apply triple_ret; intros q [-> Hs];
        (split; [exact Hs|right; left; split; [reflexivity|discriminate]]).
Qed.

(* ---------- relations on the state machine value ---------- *)
Definition keeps (m m' : sm) : Prop :=
  m_cup m' = m_cup m /\ m_apps m' = m_apps m /\ s_last_update (m_sched m') = s_last_update (m_sched m).
Lemma keeps_refl m : keeps m m. Proof. repeat split. Qed.
Lemma keeps_trans a b c : keeps a b -> keeps b c -> keeps a c.
Proof. intros (H1 & H2 & H3) (H4 & H5 & H6). repeat split; congruence. Qed.
Lemma same_keeps m m' : same_but_ps m m' -> keeps m m'.
Proof. intros (H1 & H2 & H3 & _). repeat split; congruence. Qed.
Lemma keeps_cupb m m' : keeps m m' -> cupb m' = cupb m.
Proof. intros (H & _). unfold cupb. rewrite H. reflexivity. Qed.

Lemma T_maybe_ids2 (cnd : bool) b s r (P : q2 -> Prop) :
  T P (if cnd then with_ids b s r else ret b) (fun b' q => P q /\ b_entries b' = b_entries b).
Proof.
  eapply triple_conseq; [apply (T_maybe_ids step2 _ _ _ _ P)|auto|]. intros b' q [H (_ & He & _)]. auto.
Qed.

(* an event report inside a check: whatever happens to the exchange, the monitor is back in "no forgery pending" *)
Lemma T_report_event p ev apps sess nv dur m L A s r :
  T (fun q => q = S2 (cupb m) L A I2Rep F2None s r) (report_event p ev apps sess nv dur m)
    (fun m' q => q = S2 (cupb m) L A I2Rep F2None s r /\ same_but_ps m m').
Proof.
  set (Q := fun q => q = S2 (cupb m) L A I2Rep F2None s r).
  unfold report_event. kp Q (nM_silent _ silent_fresh_guid).
  eapply triple_bind; [apply T_maybe_ids2|]. intro b. apply T_pre_pure. intro He.
  eapply triple_bind; [apply (T_do_req b m L A I2Rep F2None s r); left; reflexivity|].
  intros [m' res]. unfold req_post. cbn [fst snd].
  destruct res as [e|bd].
  - eapply triple_bind with (R := fun _ q => Q q /\ same_but_ps m m').
    { temit. intros q (Hs & [(-> & _ & _)|[(-> & _)|(noev & -> & _ & _)]]); (eexists; split; [|split; [reflexivity|exact Hs]]).
      - reflexivity.
      - reflexivity.
      - cbn [forged_state]. destruct noev; reflexivity. }
    intro. apply triple_ret. auto.
  - apply triple_ret. intros q (Hs & [(_ & _ & [H|H])|[(-> & _)|(noev & _ & H & _)]]); try discriminate.
    split; [reflexivity|exact Hs].
Qed.

(* the attempt loop: either no forgery was seen, or the loop ended at once with a validation error *)
Definition att_post2 (m : sm) c L A s (r : sm * Z * (req_err + body)) (q : q2) : Prop :=
  keeps m (fst (fst r)) /\
  (q = S2 c L A I2Att F2None s false \/ (q = S2 c L A I2Att F2Att s false /\ snd r = inl RECupValidation)).

Lemma T_attempt_loop b0 sess L A s fuel : forall attempt m m0,
  keeps m0 m ->
  T (fun q => q = S2 (cupb m) L A I2Att F2None s false) (attempt_loop fuel attempt b0 sess m) (att_post2 m0 (cupb m) L A s).
Proof.
  induction fuel as [|f IH]; intros attempt m m0 Hk; cbn [attempt_loop]; [apply triple_halt|].
  set (Q := fun q => q = S2 (cupb m) L A I2Att F2None s false).
  kp Q nM_now. kp Q (nM_silent _ silent_fresh_guid).
  eapply triple_bind with (R := fun _ => Q).
  { eapply triple_conseq; [apply (T_maybe_ids2 _ _ _ _ Q)|auto|]. intros b' q [H _]. exact H. }
  intro b.
  eapply triple_bind; [apply (T_do_req b m L A I2Att F2None s false); left; reflexivity|].
  intros [m1 res]. unfold req_post. cbn [fst snd].
  set (P1 := fun q : q2 => same_but_ps m m1 /\
     ((q = S2 (cupb m) L A I2Att F2None s false /\ m1 = m /\ (res = inl REHttpBuilder \/ res = inl RECupDecoration)) \/
      (q = S2 (cupb m) L A I2Att F2None s false /\ res <> inl RECupValidation) \/
      (exists noev : bool, q = forged_state (cupb m) L A I2Att F2None s false noev /\ (m1, res) = (m, inl RECupValidation) /\ (b_entries b = [] -> noev = true)))).
  assert (HP1 : forall q, P1 q -> notrep q).
  { intros q (_ & [(-> & _)|[(-> & _)|(noev & -> & _)]]); unfold notrep; cbn; discriminate. }
  kp P1 nM_now.
  eapply triple_bind with (R := fun _ => P1).
  { match goal with |- T _ (if ?cnd then _ else _) _ => destruct cnd end; [apply T_report; [exact HP1|exact I]|apply triple_ret; auto]. }
  intros _.
  assert (Hk1 : same_but_ps m m1 -> keeps m0 m1) by (intro H; eapply keeps_trans; [exact Hk|apply same_keeps, H]).
  destruct res as [e|bd].
  2:{ apply triple_ret. intros q (Hs & [(_ & _ & [H|H])|[(-> & _)|(noev & _ & H & _)]]); try discriminate.
      split; [apply Hk1, Hs|left; reflexivity]. }
  match goal with |- T _ (if ?cnd then _ else _) _ => destruct cnd eqn:Est end.
  - kp P1 (nM_yield_state ErrorCheckingForUpdate I).
    apply triple_ret. intros q (Hs & [(-> & _)|[(-> & _)|(noev & -> & H & _)]]); cbn [fst snd]; (split; [apply Hk1, Hs|]).
    + left. reflexivity.
    + left. reflexivity.
    + right. inversion H. split; reflexivity.
  - (* retry: only possible when the outcome was not a forgery *)
    destruct e; try discriminate.
    + kp P1 (nM_silent _ silent_pop_backoff).
      eapply triple_bind with (R := fun _ q => q = S2 (cupb m) L A I2Att F2None s false /\ same_but_ps m m1).
      { temit. intros q (Hs & [(-> & _)|[(-> & _)|(noev & _ & H & _)]]); try (inversion H; fail);
          (eexists; split; [reflexivity|split; [reflexivity|exact Hs]]). }
      intro. intros q0 e0 q Hq (-> & Hs).
      assert (HT := IH (attempt + 1) m1 m0 (Hk1 Hs)).
      rewrite (keeps_cupb _ _ (same_keeps _ _ Hs)) in HT. exact (HT q0 e0 _ Hq eq_refl).
    + kp P1 (nM_silent _ silent_pop_backoff).
      eapply triple_bind with (R := fun _ q => q = S2 (cupb m) L A I2Att F2None s false /\ same_but_ps m m1).
      { temit. intros q (Hs & [(-> & _)|[(-> & _)|(noev & _ & H & _)]]); try (inversion H; fail);
          (eexists; split; [reflexivity|split; [reflexivity|exact Hs]]). }
      intro. intros q0 e0 q Hq (-> & Hs).
      assert (HT := IH (attempt + 1) m1 m0 (Hk1 Hs)).
      rewrite (keeps_cupb _ _ (same_keeps _ _ Hs)) in HT. exact (HT q0 e0 _ Hq eq_refl).
Qed.

Lemma T_do_req' c b m L A i f0 s r :
  c = cupb m -> (f0 = F2None \/ f0 = F2Ping) ->
  T (fun q => q = S2 c L A i f0 s r) (do_omaha_request b m) (req_post m c L A i f0 s r b).
Proof. intros ->. apply T_do_req. Qed.

Lemma T_report_event' c p ev apps sess nv dur m L A s r :
  c = cupb m ->
  T (fun q => q = S2 c L A I2Rep F2None s r) (report_event p ev apps sess nv dur m)
    (fun m' q => q = S2 c L A I2Rep F2None s r /\ same_but_ps m m').
Proof. intros ->. apply T_report_event. Qed.

Definition perf_post (m : sm) c L A s (r : sm * (check_err + (list app_response * reboot))) (q : q2) : Prop :=
  keeps m (fst r) /\
  (q = S2 c L A I2Rep F2None s false \/ (q = S2 c L A I2Rep F2Att s false /\ snd r = inl (CEOmahaRequest RECupValidation))).

Lemma T_report_check_interval src m (P : q2 -> Prop) :
  (forall q, P q -> notrep q) ->
  T P (report_check_interval src m) (fun m' q => P q /\ same_but_ps m m' \/ P q /\ keeps m m').
Proof.
  intro HP. unfold report_check_interval. kpa P nM_now as n.
  eapply triple_bind with (R := fun _ => P).
  { destruct (s_last_check (m_sched m)) as [[w|mm|c]|]; try (apply triple_ret; auto).
    - destruct (w <=? wall n); [apply T_report; [exact HP|exact I]|apply triple_ret; auto].
    - destruct (mono c <=? mono n); [apply T_report; [exact HP|exact I]|apply triple_ret; auto]. }
  intro. apply triple_ret. intros q Hq. right. split; [exact Hq|repeat split].
Qed.

Ltac okrep := apply T_report; [intros ? ->; unfold notrep; cbn; discriminate|exact I].

Lemma T_perform fuel p apps m L A s r0 :
  T (fun q => q = S2 (cupb m) L A I2Out F2None s r0) (perform_update_check fuel p apps m) (perf_post m (cupb m) L A s).
Proof.
  set (c := cupb m). unfold perform_update_check.
  eapply triple_bind with (R := fun _ q => q = S2 c L A I2Att F2None s false).
  { temit. intros q ->. eexists. split; reflexivity. }
  intro.
  eapply triple_bind with (R := fun m' q => q = S2 c L A I2Att F2None s false /\ keeps m m').
  { eapply triple_conseq; [apply (T_report_check_interval (p_source p) m (fun q => q = S2 c L A I2Att F2None s false))|auto|].
    - intros q ->. unfold notrep. cbn. discriminate.
    - intros m' q [[H1 H2]|[H1 H2]]; (split; [exact H1|]); [apply same_keeps, H2|exact H2]. }
  intro m0. apply T_pre_pure. intro Hk0.
  assert (Hc0 : c = cupb m0) by (symmetry; apply keeps_cupb; exact Hk0).
  kpa (fun q => q = S2 c L A I2Att F2None s false) (nM_silent _ silent_fresh_guid) as sess.
  eapply triple_bind.
  { rewrite Hc0. apply (T_attempt_loop _ sess L A s fuel 1 m0 m Hk0). }
  intros [[m1 attempts] res]. unfold att_post2. cbn [fst snd]. rewrite <- Hc0.
  eapply triple_bind with (R := fun _ q =>
     (q = S2 c L A I2Rep F2None s false \/ (q = S2 c L A I2Rep F2Att s false /\ res = inl RECupValidation)) /\ keeps m m1).
  { temit. intros q (Hk & [-> | (-> & Hr)]); (eexists; split; [reflexivity|split; [|exact Hk]]); [left|right]; auto. }
  intro. apply T_pre_pure. intro Hk1.
  assert (Hc1 : c = cupb m1) by (symmetry; apply keeps_cupb; exact Hk1).
  set (QR := fun q => q = S2 c L A I2Rep F2None s false).
  assert (Hdone : forall (m' : sm) x, same_but_ps m1 m' -> forall q, QR q -> perf_post m c L A s (m', x) q).
  { intros m' x Hs q ->. split; [eapply keeps_trans; [exact Hk1|apply same_keeps, Hs]|left; reflexivity]. }
  destruct res as [e|[d|]].
  - apply triple_ret. intros q [-> | (-> & Hr)]; (split; [exact Hk1|]); [left; reflexivity|right; split; [reflexivity|]].
    inversion Hr. reflexivity.
  - (* a parsed document: from here on no forgery is pending *)
    eapply triple_conseq with (P' := QR) (Q' := perf_post m c L A s); [|intros q [H|[_ H]]; [exact H|discriminate]|auto].
    eapply triple_bind with (R := fun _ => QR).
    { temit. intros q ->. eexists. split; reflexivity. }
    intro.
    destruct (filter uc_ok (d_apps d)) as [|wu0 wur] eqn:Hwu.
    + kp QR (nM_yield_state NoUpdateAvailable I). apply triple_ret. intros q Hq. apply (Hdone m1); [apply same_but_ps_refl|exact Hq].
    + kpa QR (nM_silent _ silent_pop_plan) as pl.
      eapply triple_bind with (R := fun _ => QR).
      { temit. intros q ->. eexists. split; reflexivity. }
      intro. destruct pl as [plan|].
      2:{ kp QR (nM_yield_state InstallingUpdate I). kp QR (nM_yield_state InstallationError I).
          eapply triple_bind; [apply (T_report_event' c); exact Hc1|]. intro m2. apply triple_ret. intros q [Hq Hs]. apply (Hdone m2); assumption. }
      kpa QR (nM_silent _ silent_pop_can_start) as dec.
      match goal with |- T _ (bind (emit ?a) _) _ => kp QR (nM_quiet a I) end.
      destruct dec.
      * kp QR (nM_yield_state InstallingUpdate I).
        eapply triple_bind; [apply (T_report_event' c); exact Hc1|]. intro m2. apply T_pre_pure. intro Hs2.
        assert (Hc2 : c = cupb m2) by (rewrite Hc1; symmetry; apply keeps_cupb, same_keeps, Hs2).
        kpa QR nM_now as t0. kp QR (nM_record_first_seen plan (wall t0)).
        kpa QR (nM_silent _ silent_pop_perform) as pa.
        eapply triple_bind with (R := fun _ => QR).
        { temit. intros q ->. eexists. split; reflexivity. }
        intro.
        kp QR (neutralM_iterM step2 Inv2 (fun bits => yield_ (EvProgress bits)) (pa_progress pa) (fun bits => nM_yieldq (EvProgress bits) I)).
        kpa QR nM_now as t1.
        eapply triple_bind with (R := fun _ => QR).
        { match goal with |- T _ (if ?cnd then _ else _) _ => destruct cnd end; [|apply triple_ret; auto].
          destruct (forallb _ _); (eapply triple_bind with (R := fun _ => QR); [okrep|intro; apply triple_ret; auto]). }
        intro dur. kpa QR (nM_silent _ silent_fresh_guid) as req.
        eapply triple_bind; [apply T_maybe_ids2|]. intro b. apply T_pre_pure. intro He.
        eapply triple_bind; [apply (T_do_req' c b m2 L A I2Rep F2None s false Hc2); left; reflexivity|].
        intros [m3 rr]. unfold req_post. cbn [fst snd].
        (* lost events are recorded first; afterwards nothing is pending *)
        match goal with |- T _ (bind (match rr with inl _ => iterM ?f ?evs | inr _ => _ end) _) _ => set (EVS := evs) in *; set (F := f) end.
        eapply triple_bind with (R := fun _ q => QR q /\ same_but_ps m2 m3).
        { destruct rr as [er|bd].
          - destruct EVS as [|ev0 evr] eqn:Eevs.
            + apply triple_ret. intros q (Hs & [(-> & _)|[(-> & _)|(noev & -> & _ & Hn)]]); (split; [|exact Hs]); try reflexivity.
              rewrite Hn; [reflexivity|]. rewrite He. reflexivity.
            + cbn [iterM].
              eapply triple_bind with (R := fun _ q => QR q /\ same_but_ps m2 m3).
              { unfold F, report. temit.
                intros q (Hs & [(-> & _)|[(-> & _)|(noev & -> & _ & _)]]); (eexists; split; [|split; [reflexivity|exact Hs]]); try reflexivity.
                cbn [forged_state]. destruct noev; reflexivity. }
              intro. eapply triple_conseq with (P' := fun q => QR q /\ same_but_ps m2 m3) (Q' := fun _ q => QR q /\ same_but_ps m2 m3); [|auto|auto].
              apply triple_iterM. intros x _. unfold F. apply T_report; [intros q [-> _]; unfold notrep; cbn; discriminate|exact I].
          - apply triple_ret. intros q (Hs & [(_ & _ & [H|H])|[(-> & _)|(noev & _ & H & _)]]); try discriminate. split; [reflexivity|exact Hs]. }
        intro. apply T_pre_pure. intro Hs3.
        assert (Hc3 : c = cupb m3) by (rewrite Hc2; symmetry; apply keeps_cupb, same_keeps, Hs3).
        assert (Hs13 : same_but_ps m1 m3).
        { destruct Hs2 as (x1 & x2 & x3 & x4 & x5), Hs3 as (y1 & y2 & y3 & y4 & y5). repeat split; congruence. }
        eapply triple_bind with (R := fun m' q => QR q /\ same_but_ps m1 m').
        { match goal with |- T _ (match ?l with [] => _ | _ => _ end) _ => destruct l end.
          - apply triple_ret. intros q Hq. split; [exact Hq|exact Hs13].
          - eapply triple_conseq with (P' := QR) (Q' := fun m' q => QR q /\ same_but_ps m3 m');
              [apply (T_report_event' c); exact Hc3|auto|].
            intros m' q [Hq Hs]. split; [exact Hq|]. destruct Hs13 as (x1 & x2 & x3 & x4 & x5), Hs as (y1 & y2 & y3 & y4 & y5). repeat split; congruence. }
        intro m4. apply T_pre_pure. intro Hs4.
        match goal with |- T _ (match ?n with O => _ | S _ => _ end) _ => destruct n as [|nerr] end.
        -- eapply triple_bind with (R := fun _ => QR).
           { match goal with |- T _ (if ?cnd then _ else _) _ => destruct cnd end; [okrep|apply triple_ret; auto]. }
           intros _. kp QR (neutralM_st_set_time step2 Inv2 K_FINISH_TIME (wall t1) ign_store2).
           eapply triple_bind with (R := fun _ => QR).
           { match goal with |- T _ (match ?x with Some _ => _ | None => _ end) _ => destruct x as [o|] end; [|apply triple_ret; auto].
             kp QR (nM_st_write (SSetStr K_TARGET_VERSION (match o with Some v => v | None => s2b "UNKNOWN" end))). apply triple_ret. auto. }
           intros _. kp QR (nM_st_write SCommit).
           kpa QR (nM_silent _ silent_pop_reboot_needed) as rn.
           match goal with |- T _ (bind (emit ?a) _) _ => kp QR (nM_quiet a I) end.
           apply triple_ret. intros q Hq. apply (Hdone m4); assumption.
        -- kp QR (neutralM_iterM step2 Inv2 (fun _ : unit => yield_ EvInstallerError) (repeat tt (Datatypes.S nerr)) (fun _ => nM_yieldq EvInstallerError I)).
           kp QR (nM_yield_state InstallationError I).
           apply triple_ret. intros q Hq. apply (Hdone m4); assumption.
      * eapply triple_bind; [apply (T_report_event' c); exact Hc1|]. intro m2. apply T_pre_pure. intro Hs2.
        kp QR (nM_yield_state InstallationDeferredByPolicy I).
        apply triple_ret. intros q Hq. apply (Hdone m2); assumption.
      * eapply triple_bind; [apply (T_report_event' c); exact Hc1|]. intro m2.
        apply triple_ret. intros q [Hq Hs]. apply (Hdone m2); assumption.
  - (* unparseable body of an authenticated response *)
    eapply triple_conseq with (P' := QR) (Q' := perf_post m c L A s); [|intros q [H|[_ H]]; [exact H|discriminate]|auto].
    kp QR (nM_yield_state ErrorCheckingForUpdate I).
    eapply triple_bind; [apply (T_report_event' c); exact Hc1|]. intro m2.
    apply triple_ret. intros q [Hq Hs]. apply (Hdone m2); assumption.
Qed.

(* ---------- start_update_check ---------- *)
Definition start_post (m : sm) c L A (r : sm * reboot) (q : q2) : Prop :=
  cupb (fst r) = c /\ exists s', q = S2 c L A I2Out F2None s' false /\ (s' = true -> keeps m (fst r)).

Lemma nM_report_attempts_install2 s0 (P : q2 -> Prop) :
  (forall q, P q -> notrep q) -> T P (report_attempts_to_successful_install s0) (fun _ => P).
Proof.
  intro HP. unfold report_attempts_to_successful_install.
  kp P (nM_silent _ (silent_st_get_int K_FAILED_INSTALLS)).
  eapply triple_bind with (R := fun _ => P); [apply T_report; [exact HP|exact I]|]. intro.
  eapply triple_bind with (R := fun _ => P); [destruct s0; apply (An P), nM_st_write|]. intro. apply triple_ret. auto.
Qed.

Lemma T_pre_pure_l {A} (P : q2 -> Prop) (phi : Prop) (m : M A) Q :
  (phi -> T P m Q) -> T (fun q => phi /\ P q) m Q.
Proof. intros H q0 e q Hq [Hphi Hp]. exact (H Hphi q0 e q Hq Hp). Qed.

Lemma T_or {A} (P1 P2 : q2 -> Prop) (m : M A) Q : T P1 m Q -> T P2 m Q -> T (fun q => P1 q \/ P2 q) m Q.
Proof. intros H1 H2 q0 e q Hq [Hp|Hp]; [exact (H1 q0 e q Hq Hp)|exact (H2 q0 e q Hq Hp)]. Qed.

Lemma with_fails_cupb m1 f : cupb (with_ps m1 (set_fails (m_ps m1) f)) = cupb m1.
Proof. reflexivity. Qed.

Lemma T_start fuel p m L A s r0 :
  (L = None \/ L = Some (s_last_update (m_sched m))) ->
  T (fun q => q = S2 (cupb m) L A I2Out F2None s r0) (start_update_check fuel p m) (start_post m (cupb m) L A).
Proof.
  intro HL. set (c := cupb m). unfold start_update_check.
  eapply triple_bind; [apply T_perform|]. intros [m1 res]. unfold perf_post. cbn [fst snd]. fold c.
  apply T_pre_pure_l. intro Hk1.
  assert (Hc1 : cupb m1 = c) by (apply keeps_cupb; exact Hk1).
  set (QN := fun q => q = S2 c L A I2Rep F2None s false).
  apply T_or.
  - (* no forgery pending: the ordinary end of a check *)
    assert (HQn : forall q, QN q -> notrep q) by (intros q ->; unfold notrep; cbn; discriminate).
    eapply triple_bind with (R := fun fin q => QN q /\ cupb (fst (fst fin)) = c).
    { destruct res as [e|[rs rb]].
      - eapply triple_bind with (R := fun mr q => QN q /\ cupb (fst mr) = c).
        { destruct e as [re| |].
          + destruct re; apply triple_ret; intros q Hq; (split; [exact Hq|exact Hc1]).
          + kpa QN nM_now as n. apply triple_ret. intros q Hq. split; [exact Hq|exact Hc1].
          + kpa QN nM_now as n. apply triple_ret. intros q Hq. split; [exact Hq|exact Hc1]. }
        intros [m2 reason]. cbn [fst]. apply T_pre_pure. intro Hc2.
        eapply triple_bind with (R := fun _ => QN).
        { temit. intros q ->. eexists. split; reflexivity. }
        intro. apply triple_ret. intros q Hq. split; [exact Hq|]. cbn [fst]. exact Hc2.
      - kpa QN nM_now as n.
        eapply triple_bind with (R := fun _ => QN); [apply T_report; [exact HQn|exact I]|]. intro.
        eapply triple_bind with (R := fun _ => QN).
        { destruct (install_success rs); [apply nM_report_attempts_install2; exact HQn|apply triple_ret; auto]. }
        intro. apply triple_ret. intros q Hq. split; [exact Hq|]. cbn [fst]. exact Hc1. }
    intros [[m2 result] rb]. cbn [fst]. apply T_pre_pure. intro Hc2.
    eapply triple_bind with (R := fun _ => QN).
    { temit. intros q ->. eexists. split; reflexivity. }
    intro. kp QN (nM_yieldq (EvProtocol (m_ps m2)) I).
    eapply triple_bind with (R := fun _ q => q = S2 c L A I2Out F2None false false).
    { temit. intros q ->. eexists. split; reflexivity. }
    intro. kp (fun q => q = S2 c L A I2Out F2None false false) (nM_persist_data m2).
    apply triple_ret. intros q ->. split; [exact Hc2|]. exists false. split; [reflexivity|discriminate].
  - (* a forged update-check response: validation error, failure reason Internal, nothing else changed *)
    apply T_pre_pure. intro Hres. inversion Hres; subst res.
    set (m2 := with_ps m1 (set_fails (m_ps m1) (sat_inc_u32 (ps_fails (m_ps m1))))).
    cbn [bind]. 
    eapply triple_bind with (R := fun fin q => q = S2 c L A I2Rep F2Att s true /\ fin = (m2, inl (CEOmahaRequest RECupValidation), RebootNotNeeded)).
    { eapply triple_bind with (R := fun mr q => q = S2 c L A I2Rep F2Att s false /\ mr = (m1, 4%N)); [apply triple_ret; auto|].
      intros mr. apply T_pre_pure. intros ->.
      eapply triple_bind with (R := fun _ q => q = S2 c L A I2Rep F2Att s true).
      { temit. intros q ->. eexists. split; reflexivity. }
      intro. apply triple_ret. auto. }
    intro fin. apply T_pre_pure. intros ->.
    assert (Hk2 : keeps m m2) by (destruct Hk1 as (H1 & H2 & H3); repeat split; assumption).
    eapply triple_bind with (R := fun _ q => q = S2 c L A I2Rep F2Att s true).
    { temit. intros q ->. eexists. split; [|reflexivity].
      unfold step2. cbn [f2_ lu2 S2]. destruct HL as [-> | ->]; [reflexivity|].
      destruct Hk2 as (_ & _ & H3). rewrite <- H3.
      destruct (opct_eq_dec (s_last_update (m_sched m2)) (s_last_update (m_sched m2))); [reflexivity|congruence]. }
    intro. kp (fun q => q = S2 c L A I2Rep F2Att s true) (nM_yieldq (EvProtocol (m_ps m2)) I).
    eapply triple_bind with (R := fun _ q => q = S2 c L A I2Out F2None true false).
    { temit. intros q ->. eexists. split; reflexivity. }
    intro. kp (fun q => q = S2 c L A I2Out F2None true false) (nM_persist_data m2).
    apply triple_ret. intros q ->. split; [exact Hc1|]. exists true. split; [reflexivity|intros _; exact Hk2].
Qed.

(* ---------- between checks ---------- *)
Definition Aok (A : option (list app)) (m : sm) : Prop := A = None \/ A = Some (m_apps m).
Definition W (m : sm) (q : q2) : Prop :=
  exists L A s, q = S2 (cupb m) L A I2Out F2None s false /\ (s = true -> Aok A m).
Definition Wp (m : sm) (q : q2) : Prop :=                      (* possibly just after a forged ping *)
  exists L A s f r, q = S2 (cupb m) L A I2Out f s r /\ (f = F2None \/ f = F2Ping) /\ (s = true -> Aok A m).
Definition W0 (m : sm) (q : q2) : Prop := exists L A, q = S2 (cupb m) L A I2Out F2None false false.

Lemma W0_W m q : W0 m q -> W m q.
Proof. intros (L & A & ->). exists L, A, false. split; [reflexivity|discriminate]. Qed.
Lemma W_Wp m q : W m q -> Wp m q.
Proof. intros (L & A & s & -> & H). exists L, A, s, F2None, false. auto. Qed.
Lemma W0_ext m m' q : cupb m' = cupb m -> W0 m q -> W0 m' q.
Proof. intros Hc (L & A & ->). exists L, A. rewrite Hc. reflexivity. Qed.

Lemma W_quiet m a : quiet a -> T (W m) (emit a) (fun _ => W m).
Proof. intro H. apply (An (W m)), nM_quiet, H. Qed.
Lemma W_yieldq m ev : quiet (AEvent ev) -> T (W m) (yield_ ev) (fun _ => W m).
Proof. intro H. apply (An (W m)), nM_yieldq, H. Qed.

Lemma T_update_next m : T (Wp m) (update_next_update_time m) (fun r => W0 (fst r)).
Proof.
  unfold update_next_update_time.
  eapply triple_bind; [apply (An (Wp m)), nM_silent, silent_pop_next_time|]. intro t.
  eapply triple_bind with (R := fun _ => W0 m).
  { temit. intros q (L & A & s & f & r & -> & Hf & Hs). eexists. split; [|exists L, A; reflexivity].
    unfold step2. cbn [same2 apps2 S2]. destruct s; [|reflexivity].
    destruct (Hs eq_refl) as [-> | ->]; [reflexivity|].
    destruct (apps_eq_dec (m_apps m) (m_apps m)); [reflexivity|congruence]. }
  intro.
  eapply triple_bind with (R := fun _ => W0 m).
  { temit. intros q (L & A & ->). eexists. split; [reflexivity|exists L, A; reflexivity]. }
  intro. apply triple_ret. intros q Hq. exact Hq.
Qed.

Lemma T_timer m w : T (W0 m) (emit (ATimer w)) (fun _ => W0 m).
Proof. temit. intros q (L & A & ->). eexists. split; [destruct w; reflexivity|exists L, A; reflexivity]. Qed.
Lemma T_make_wait m t : T (W0 m) (make_wait t) (fun _ => W0 m).
Proof.
  unfold make_wait. destruct (t_min t).
  - eapply triple_bind; [apply T_timer|]. intro. eapply triple_bind; [apply T_timer|]. intro. apply triple_ret. auto.
  - eapply triple_bind; [apply T_timer|]. intro. apply triple_ret. auto.
Qed.

Lemma T_exists {A X} (P : X -> q2 -> Prop) (m : M A) Q : (forall x, T (P x) m Q) -> T (fun q => exists x, P x q) m Q.
Proof. intros H q0 e q Hq [x Hp]. exact (H x q0 e q Hq Hp). Qed.

Lemma T_ping m : T (W0 m) (ping_omaha m) (fun m' q => exists L A f r, q = S2 (cupb m') L A I2Out f false r /\ (f = F2None \/ f = F2Ping)).
Proof.
  unfold W0. apply T_exists. intro L. apply T_exists. intro A.
  set (Q := fun q => q = S2 (cupb m) L A I2Out F2None false false).
  { unfold ping_omaha. kp Q (nM_silent _ silent_fresh_guid). kp Q (nM_silent _ silent_fresh_guid).
    eapply triple_bind with (R := fun _ => Q).
    { eapply triple_conseq; [apply (T_maybe_ids2 _ _ _ _ Q)|auto|]. intros b' q [H _]. exact H. }
    intro b. eapply triple_bind; [apply (T_do_req b m L A I2Out F2None false false); left; reflexivity|].
    intros [m1 res]. unfold req_post. cbn [fst snd].
    set (P := fun q : q2 => same_but_ps m m1 /\
                 (q = S2 (cupb m) L A I2Out F2None false false \/ (q = S2 (cupb m) L A I2Out F2Ping false false /\ res = inl RECupValidation))).
    eapply triple_conseq with (P' := P)
      (Q' := fun m' q => exists f, q = S2 (cupb m) L A I2Out f false false /\ (f = F2None \/ f = F2Ping) /\ cupb m' = cupb m).
    2:{ intros q (Hs & [(-> & _)|[(-> & _)|(noev & -> & Hr & _)]]); (split; [exact Hs|]); [left; reflexivity|left; reflexivity|right].
        split; [reflexivity|]. inversion Hr. reflexivity. }
    2:{ intros m' q (f & -> & Hf & Hc). exists L, A, f, false. rewrite Hc. auto. }
    assert (Hc1 : cupb m1 = cupb m -> True) by auto.
    assert (Hfail : T P (persist_data (with_ps m1 (set_fails (m_ps m1) (sat_inc_u32 (ps_fails (m_ps m1)))));;;
                         ret (with_ps m1 (set_fails (m_ps m1) (sat_inc_u32 (ps_fails (m_ps m1))))))
                      (fun m' q => exists f, q = S2 (cupb m) L A I2Out f false false /\ (f = F2None \/ f = F2Ping) /\ cupb m' = cupb m)).
    { kp P (nM_persist_data (with_ps m1 (set_fails (m_ps m1) (sat_inc_u32 (ps_fails (m_ps m1)))))).
      apply triple_ret. intros q (Hs & [-> | (-> & _)]); eexists; (split; [reflexivity|split; [auto|]]);
        rewrite with_fails_cupb; apply keeps_cupb, same_keeps, Hs. }
    destruct res as [er|[d|]]; [exact Hfail| |exact Hfail].
    (* a successful ping can only follow an authentic response: no forgery pending *)
    eapply triple_conseq with (P' := fun q => same_but_ps m m1 /\ q = S2 (cupb m) L A I2Out F2None false false)
      (Q' := fun m' q => q = S2 (cupb m) L A I2Out F2None false false /\ cupb m' = cupb m).
    3:{ intros m' q (-> & Hc). exists F2None. auto. }
    2:{ intros q (Hs & [-> | (_ & H)]); [split; [exact Hs|reflexivity]|discriminate]. }
    1:{ set (P2 := fun q => same_but_ps m m1 /\ q = S2 (cupb m) L A I2Out F2None false false).
        kpa P2 nM_now as n.
        eapply triple_bind with (R := fun _ => P2).
        { temit. intros q (Hs & ->). eexists. split; [reflexivity|split; [exact Hs|reflexivity]]. }
        intro. match goal with |- T _ (bind (persist_data ?x) _) _ => kp P2 (nM_persist_data x) end.
        apply triple_ret. intros q (Hs & ->). split; [reflexivity|].
        unfold cupb. cbn [m_cup with_apps with_sched with_ps]. destruct Hs as (H & _). rewrite H. reflexivity. } }
Qed.

Lemma ping_post_Wp m' q :
  (exists L A f r, q = S2 (cupb m') L A I2Out f false r /\ (f = F2None \/ f = F2Ping)) -> Wp m' q.
Proof. intros (L & A & f & r & -> & Hf). exists L, A, false, f, r. split; [reflexivity|split; [exact Hf|discriminate]]. Qed.

Lemma T_ask_reboot src (P : q2 -> Prop) : T P (ask_reboot_allowed src) (fun _ => P).
Proof.
  unfold ask_reboot_allowed. kpa P (nM_silent _ silent_pop_reboot_allowed) as b.
  kp P (nM_quiet (APolicy (QRebootAllowed src) (PBool b)) I). apply triple_ret. auto.
Qed.

Lemma T_handle_in_reboot id sc m : T (W0 m) (handle_in_reboot id sc) (fun _ => W0 m).
Proof.
  unfold handle_in_reboot. kp (W0 m) (nM_quiet (AReply id AlreadyRunning) I).
  destruct sc; [apply T_ask_reboot|apply triple_ret; auto].
Qed.

Lemma T_reboot_loop fuel : forall src pending m, T (W0 m) (reboot_loop fuel src pending m) (fun m' => W0 m').
Proof.
  induction fuel as [|f IH]; intros src pending m; cbn [reboot_loop]; [apply triple_halt|].
  kpa (W0 m) (nM_silent _ (silent_pop_queued)) as qd. destruct qd as [[id sc]|].
  { eapply triple_bind; [apply T_handle_in_reboot|]. intros [|]; [apply triple_ret; auto|apply IH]. }
  kpa (W0 m) (nM_silent _ (silent_pop_stim)) as st. destruct st as [i|sc|].
  - assert (Hping : T (W0 m)
              (m1 <- ping_omaha m;; mt <- update_next_update_time m1;;
               (let '(m2, t) := mt in roles <- make_wait t;; reboot_loop f src (remove_nth i pending ++ roles) m2)) (fun m' => W0 m')).
    { eapply triple_bind; [apply T_ping|]. intro m1.
      eapply triple_bind with (R := fun r => W0 (fst r)); [eapply triple_conseq; [apply T_update_next|intros q Hq; apply ping_post_Wp; exact Hq|auto]|].
      intros [m2 t]; cbn [fst].
      eapply triple_bind; [apply T_make_wait|]. intro roles. apply IH. }
    destruct (nth_error pending i) as [[| |]|].
    + destruct (has_ping_roles (remove_nth i pending)); [apply IH|exact Hping].
    + destruct (has_ping_roles (remove_nth i pending)); [apply IH|exact Hping].
    + eapply triple_bind; [apply T_ask_reboot|]. intros [|]; [apply triple_ret; auto|].
      eapply triple_bind; [apply T_timer|]. intro. apply IH.
    + apply IH.
  - kpa (W0 m) (nM_silent _ silent_next_ctl) as id.
    kp (W0 m) (nM_quiet (ARequest id sc) I).
    eapply triple_bind; [apply T_handle_in_reboot|]. intros [|]; [apply triple_ret; auto|apply IH].
  - apply IH.
Qed.

Lemma T_wait_for_reboot fuel src m : T (W m) (wait_for_reboot fuel src m) (fun m' => W m').
Proof.
  unfold wait_for_reboot.
  eapply triple_bind; [apply T_ask_reboot|]. intro ok.
  eapply triple_bind with (R := fun m' => W m').
  { destruct ok; [apply triple_ret; auto|].
    eapply triple_bind with (R := fun _ => W m).
    { temit. intros q (L & A & s & -> & Hs). eexists. split; [reflexivity|exists L, A, s; auto]. }
    intro.
    eapply triple_bind with (R := fun r => W0 (fst r)); [eapply triple_conseq; [apply T_update_next|intros q Hq; apply W_Wp; exact Hq|auto]|].
    intros [m1 t]; cbn [fst].
    eapply triple_bind; [apply T_make_wait|]. intro roles.
    eapply triple_conseq; [apply T_reboot_loop|auto|]. intros m' q Hq. apply W0_W. exact Hq. }
  intro m1. kpa (W m1) (nM_silent _ silent_pop_reboot) as okr.
  eapply triple_bind with (R := fun _ => W m1).
  { temit. intros q (L & A & s & -> & Hs). eexists. split; [reflexivity|exists L, A, s; auto]. }
  intro. apply triple_ret. auto.
Qed.

Lemma T_run_iteration fuel finish start_mono sr m :
  T (W m) (run_iteration fuel finish start_mono sr m) (fun r => W (fst r)).
Proof.
  unfold run_iteration.
  assert (HWn : forall q, W m q -> notrep q) by (intros q (L & A & s & -> & _); unfold notrep; cbn; discriminate).
  eapply triple_bind with (R := fun _ => W m).
  { destruct sr; [|apply triple_ret; auto]. kpa (W m) nM_now as n.
    match goal with |- T _ (match ?x with Some _ => _ | None => _ end) _ => destruct x end; [|apply triple_ret; auto].
    eapply triple_bind with (R := fun _ => W m); [apply T_report; [exact HWn|exact I]|]. intro.
    kp (W m) (nM_st_write (SRemove K_FINISH_TIME)). kp (W m) (nM_st_write (SRemove K_TARGET_VERSION)).
    kp (W m) (nM_st_write SCommit). apply triple_ret. auto. }
  intro sr'.
  eapply triple_bind with (R := fun r => W0 (fst r)); [eapply triple_conseq; [apply T_update_next|intros q Hq; apply W_Wp; exact Hq|auto]|].
  intros [m1 t]; cbn [fst].
  eapply triple_bind; [apply T_make_wait|]. intro roles.
  eapply triple_bind with (R := fun _ => W0 m1); [apply (T_do_outer_select step2 roles (W0 m1) ign_ctl2)|]. intro sel.
  kpa (W0 m1) (nM_silent _ silent_pop_allowed) as dec.
  set (L1 := Some (s_last_update (m_sched m1))). set (A1 := Some (m_apps m1)).
  eapply triple_bind with (R := fun _ q => q = S2 (cupb m1) L1 A1 I2Out F2None false false).
  { temit. intros q (L & A & ->). eexists. split; reflexivity. }
  intro. set (Q1 := fun q => q = S2 (cupb m1) L1 A1 I2Out F2None false false).
  assert (HQ1W : forall q, Q1 q -> W m1 q).
  { intros q ->. exists L1, A1, false. split; [reflexivity|discriminate]. }
  assert (Hneg : T Q1 (match sel with Some (_, id) => emit (AReply id Throttled) | None => ret tt end;;; ret (m1, sr'))
                   (fun r => W (fst r))).
  { eapply triple_bind with (R := fun _ => Q1); [|intro; apply triple_ret; intros q Hq; apply HQ1W, Hq].
    destruct sel as [[s id]|]; [apply (An Q1), nM_quiet; exact I|apply triple_ret; auto]. }
  assert (Hpos : forall p, T Q1
            (match sel with Some (_, id) => emit (AReply id Started) | None => ret tt end;;;
             enter_check;;;
             r <- start_update_check fuel p m1;;
             set_incheck false;;;
             upg <- take_upgrade;;
             (let '(m0, rb) := r in
              m2 <- match rb with
                    | RebootNeeded _ => yield_state WaitingForReboot;;; wait_for_reboot fuel (if upg then OnDemand else match sel with Some (s, _) => s | None => ScheduledTask end) m0
                    | RebootNotNeeded => ret m0
                    end;;
              yield_state Idle;;; ret (m2, sr'))) (fun r => W (fst r))).
  { intro p. eapply triple_bind with (R := fun _ => Q1).
    { destruct sel as [[s id]|]; [apply (An Q1), nM_quiet; exact I|apply triple_ret; auto]. }
    intro. eapply triple_bind with (R := fun _ => Q1); [apply (T_enter_check step2 Q1 ign_ctl2)|]. intro.
    eapply triple_bind; [apply (T_start fuel p m1 L1 A1 false false); right; reflexivity|].
    intros [m2 rb]. unfold start_post. cbn [fst].
    set (P2 := fun q : q2 => cupb m2 = cupb m1 /\ (exists s' : bool, q = S2 (cupb m1) L1 A1 I2Out F2None s' false /\ (s' = true -> keeps m1 m2))).
    kp P2 (nM_silent _ (silent_set_incheck false)).
    kpa P2 (nM_silent _ silent_take_upgrade) as upg.
    assert (HW2 : forall q, (cupb m2 = cupb m1 /\ exists s', q = S2 (cupb m1) L1 A1 I2Out F2None s' false /\ (s' = true -> keeps m1 m2)) -> W m2 q).
    { intros q (Hc & s' & -> & Hk). exists L1, A1, s'. rewrite Hc. split; [reflexivity|].
      intro Hs. right. unfold A1. destruct (Hk Hs) as (_ & Ha & _). rewrite Ha. reflexivity. }
    eapply triple_bind with (R := fun m' => W m').
    { destruct rb as [plan|]; [|apply triple_ret; intros q Hq; apply HW2, Hq].
      eapply triple_bind with (R := fun _ => W m2).
      { eapply triple_conseq; [apply (W_yieldq m2 (EvState WaitingForReboot) I)|intros q Hq; apply HW2, Hq|auto]. }
      intro. apply T_wait_for_reboot. }
    intro m3. eapply triple_bind; [apply (W_yieldq m3 (EvState Idle) I)|]. intro. apply triple_ret. auto. }
  destruct dec; [apply Hpos|apply Hpos|exact Hneg|exact Hneg|exact Hneg].
Qed.

Lemma T_run_loop iters : forall fuel finish start_mono sr m,
  T (W m) (run_loop iters fuel finish start_mono sr m) (fun m' => W m').
Proof.
  induction iters as [|k IH]; intros; cbn [run_loop]; [apply triple_halt|].
  eapply triple_bind; [apply T_run_iteration|]. intros [m' sr']; cbn [fst]. apply IH.
Qed.

Lemma T_run iters fuel m : T (W m) (run iters fuel m) (fun m' => W m').
Proof.
  unfold run. destruct (negb (forallb app_valid (m_apps m))); [apply triple_ret; auto|].
  kp (W m) nM_now. kp (W m) (nM_silent _ (silent_st_get_time K_FINISH_TIME)).
  kp (W m) (nM_silent _ (silent_st_get_str K_TARGET_VERSION)). apply T_run_loop.
Qed.

Theorem model_accepted_c02 ep cfg url cup apps e :
  e_trace e = [] -> accepts step2 (init2 cup) (run_case ep cfg url cup apps e) = true.
Proof.
  intro Ht. unfold run_case, accepts.
  set (m := build cfg url cup apps (e_store e)).
  assert (Hc : init2 cup = S2 (cupb m) None None I2Out F2None false false).
  { unfold init2, S2, cupb, m, build. destruct (ctx_load (pend (e_store e))). reflexivity. }
  destruct ep.
  - destruct (T_run (Datatypes.S (length (e_stim e) + length (c_inject (e_cs e)))) (4 + length (e_stim e) + length (c_inject (e_cs e))) m (init2 cup) e (init2 cup)) as (q' & Hq' & _).
    + unfold mst. rewrite Ht. reflexivity.
    + rewrite Hc. exists None, None, false. split; [reflexivity|discriminate].
    + destruct (run _ _ m e) as [r e'] eqn:E. cbn [snd] in Hq'. unfold mst in Hq'. rewrite Hq'. reflexivity.
  - assert (HT : T (fun q => q = S2 (cupb m) None None I2Out F2None false false) (oneshot (4 + length (e_stim e) + length (c_inject (e_cs e))) m) (fun _ _ => True)).
    { unfold oneshot. eapply triple_bind; [apply (T_start _ params_default m None None false false); left; reflexivity|].
      intro. apply triple_ret. auto. }
    destruct (HT (init2 cup) e (init2 cup)) as (q' & Hq' & _).
    + unfold mst. rewrite Ht. reflexivity.
    + exact Hc.
    + destruct (oneshot _ m e) as [r e'] eqn:E. cbn [snd] in Hq'. unfold mst in Hq'. rewrite Hq'. reflexivity.
Qed.
