(* Proofs/C06Rel.v — the random draws of the back-off influence nothing but the length of the back-off waits (C06 as a
   two-run statement).  Two runs of the model on scripts that differ only in the random numbers drawn for the back-off
   jitter are the same action for action, except for the duration of a relative wait: the same number of attempts, the
   same requests, events, metrics, storage operations, policy questions and replies.  Relational Hoare logic as in
   Proofs/C14Rel.v and Proofs/C02Rel.v; the relation forgets the queue of draws and, in the trace, the duration of
   relative waits. *)
Require Import Verif.Model.Time Verif.Base.Bytes Verif.Model.Version Verif.Model.Json Verif.Model.Proto
               Verif.Model.Request Verif.Model.Env Verif.Model.SM Verif.Proofs.C06rtProof.
From Coq Require Import Lia.
Open Scope Z_scope.

(* two actions agree: equal, or both relative waits (of any duration) *)
Definition aeq (a1 a2 : action) : Prop := a1 = a2 \/ exists d1 d2, a1 = ATimer (WFor d1) /\ a2 = ATimer (WFor d2).
Lemma aeq_refl a : aeq a a. Proof. left. reflexivity. Qed.
Lemma Forall2_refl {A} (P : A -> A -> Prop) l : (forall x, P x x) -> Forall2 P l l.
Proof. intro H. induction l; constructor; auto. Qed.

(* the environment with its queue of draws and its trace blanked *)
Definition nq (e : env) : env :=
  {| e_clock := e_clock e; e_last_clock := e_last_clock e; e_store := e_store e; e_faults := e_faults e;
     q_next_time := q_next_time e; q_allowed := q_allowed e; q_can_start := q_can_start e;
     q_reboot_needed := q_reboot_needed e; q_reboot_allowed := q_reboot_allowed e;
     q_http := q_http e; q_plan := q_plan e; q_perform := q_perform e; q_reboot := q_reboot e;
     q_backoff := []; e_stim := e_stim e; e_ctl := e_ctl e; e_cs := e_cs e;
     e_draws := e_draws e; e_guids := e_guids e; e_nonces := e_nonces e; e_trace := [] |}.
Definition R (e1 e2 : env) : Prop :=
  nq e1 = nq e2 /\ Forall2 aeq (e_trace e1) (e_trace e2).

Definition rtx {A} (m1 m2 : M A) : Prop :=
  forall e1 e2, R e1 e2 -> R (snd (m1 e1)) (snd (m2 e2)) /\ fst (m1 e1) = fst (m2 e2).
Notation rte m := (rtx m m).

Lemma rtx_ret {A} (a : A) : rtx (ret a) (ret a).
Proof. intros e1 e2 H. split; [exact H|reflexivity]. Qed.
Lemma rtx_halt {A} : rtx (@halt A) (@halt A).
Proof. intros e1 e2 H. split; [exact H|reflexivity]. Qed.
Lemma rtx_bind {A B} (m1 m2 : M A) (f1 f2 : A -> M B) :
  rtx m1 m2 -> (forall a, rtx (f1 a) (f2 a)) -> rtx (bind m1 f1) (bind m2 f2).
Proof.
  intros Hm Hf e1 e2 H. destruct (Hm e1 e2 H) as [HR Hv]. unfold bind.
  destruct (m1 e1) as [[a1|] e1'], (m2 e2) as [[a2|] e2']; cbn [fst snd] in *; try discriminate Hv.
  - inversion Hv; subst. apply Hf. exact HR.
  - split; [exact HR|reflexivity].
Qed.
(* the same, knowing something about the value the first program returns *)
Lemma rtx_bind_retp_unused {A B} (m : M A) (f1 f2 : A -> M B) (P : A -> Prop) :
  rte m -> retp m P -> (forall a, P a -> rtx (f1 a) (f2 a)) -> rtx (bind m f1) (bind m f2).
Proof.
  intros Hm HP Hf e1 e2 H. destruct (Hm e1 e2 H) as [HR Hv]. unfold bind.
  pose proof (HP e1) as HP1.
  destruct (m e1) as [[a1|] e1'], (m e2) as [[a2|] e2']; cbn [fst snd] in *; try discriminate Hv.
  - inversion Hv; subst. apply Hf; [apply HP1; reflexivity|exact HR].
  - split; [exact HR|reflexivity].
Qed.
Lemma rte_if {A} (c : bool) (a b : M A) : rte a -> rte b -> rte (if c then a else b). Proof. destruct c; auto. Qed.


(* programs that neither look at nor touch the queue of draws, and whose additions to the trace do not depend on the
   trace so far *)
Definition lq_prog {A} (m : M A) : Prop :=
  forall e, fst (m e) = fst (m (nq e)) /\ nq (snd (m e)) = nq (snd (m (nq e)))
            /\ e_trace (snd (m e)) = e_trace (snd (m (nq e))) ++ e_trace e.
Lemma rtx_lq {A} (m : M A) : lq_prog m -> rte m.
Proof.
  intros H e1 e2 (Hn & Ht). destruct (H e1) as (V1 & N1 & T1). destruct (H e2) as (V2 & N2 & T2).
  split; [split|].
  - rewrite N1, N2, Hn. reflexivity.
  - rewrite T1, T2, Hn. apply Forall2_app; [apply Forall2_refl, aeq_refl|exact Ht].
  - rewrite V1, V2, Hn. reflexivity.
Qed.
Ltac lp := intro e; repeat split; reflexivity.
Lemma lp_read_clock : lq_prog read_clock. Proof. intro e. unfold read_clock. cbn. destruct (e_clock e); repeat split; reflexivity. Qed.
Lemma lp_pop_next_time : lq_prog pop_next_time. Proof. intro e. unfold pop_next_time. cbn. destruct (q_next_time e); repeat split; reflexivity. Qed.
Lemma lp_pop_allowed : lq_prog pop_allowed. Proof. intro e. unfold pop_allowed. cbn. destruct (q_allowed e); repeat split; reflexivity. Qed.
Lemma lp_pop_can_start : lq_prog pop_can_start. Proof. intro e. unfold pop_can_start. cbn. destruct (q_can_start e); repeat split; reflexivity. Qed.
Lemma lp_pop_reboot_needed : lq_prog pop_reboot_needed. Proof. intro e. unfold pop_reboot_needed. cbn. destruct (q_reboot_needed e); repeat split; reflexivity. Qed.
Lemma lp_pop_reboot_allowed : lq_prog pop_reboot_allowed. Proof. intro e. unfold pop_reboot_allowed. cbn. destruct (q_reboot_allowed e); repeat split; reflexivity. Qed.
Lemma lp_pop_http : lq_prog pop_http. Proof. intro e. unfold pop_http. cbn. destruct (q_http e); repeat split; reflexivity. Qed.
Lemma lp_pop_plan : lq_prog pop_plan. Proof. intro e. unfold pop_plan. cbn. destruct (q_plan e); repeat split; reflexivity. Qed.
Lemma lp_pop_perform : lq_prog pop_perform. Proof. intro e. unfold pop_perform. cbn. destruct (q_perform e); repeat split; reflexivity. Qed.
Lemma lp_pop_reboot : lq_prog pop_reboot. Proof. intro e. unfold pop_reboot. cbn. destruct (q_reboot e); repeat split; reflexivity. Qed.
Lemma lp_pop_stim : lq_prog pop_stim. Proof. intro e. unfold pop_stim. cbn. destruct (e_stim e); repeat split; reflexivity. Qed.
Lemma lp_next_ctl : lq_prog next_ctl. Proof. lp. Qed.
Lemma lp_pop_queued : lq_prog pop_queued. Proof. intro e. unfold pop_queued. cbn. destruct (c_inq (e_cs e)); repeat split; reflexivity. Qed.
Lemma lp_set_incheck b : lq_prog (set_incheck b). Proof. lp. Qed.
Lemma lp_take_upgrade : lq_prog take_upgrade. Proof. lp. Qed.
Lemma lp_fresh_guid : lq_prog fresh_guid. Proof. lp. Qed.
Lemma lp_fresh_nonce : lq_prog fresh_nonce. Proof. lp. Qed.
Lemma lp_canon_guid d : lq_prog (canon_guid d). Proof. intro e. unfold canon_guid. cbn. destruct (glookup (e_guids e) d); repeat split; reflexivity. Qed.
Lemma lp_emit a : lq_prog (emit a). Proof. lp. Qed.
Lemma lp_enter_check : lq_prog enter_check.
Proof. intro e. unfold enter_check. cbn. repeat split; try reflexivity. rewrite app_nil_r. reflexivity. Qed.
Lemma lp_after_event b : lq_prog (after_event b).
Proof.
  intro e. unfold after_event. cbn. destruct (c_inject (e_cs e)) as [|[k src] rest]; [repeat split; reflexivity|].
  destruct ((k <=? c_evn (e_cs e))%N && negb b); [|repeat split; reflexivity].
  destruct (c_incheck (e_cs e)); repeat split; reflexivity.
Qed.
Lemma lp_write op : lq_prog (st_write op).
Proof. intro e. unfold st_write, faulty. cbn. repeat split; reflexivity. Qed.
Lemma lp_get_int k : lq_prog (st_get_int k). Proof. lp. Qed.
Lemma lp_get_str k : lq_prog (st_get_str k). Proof. lp. Qed.

(* ---------- the one place where the two runs see different values: the draw ---------- *)
Lemma rel_pop_backoff e1 e2 : R e1 e2 ->
  (exists r1 r2, fst (pop_backoff e1) = Some r1 /\ fst (pop_backoff e2) = Some r2) /\ R (snd (pop_backoff e1)) (snd (pop_backoff e2)).
Proof.
  intros (Hn & Ht). unfold pop_backoff.
  destruct (q_backoff e1) as [|x1 r1], (q_backoff e2) as [|x2 r2]; cbn [fst snd]; (split; [eexists _, _; split; reflexivity|]);
    (split; [exact Hn|exact Ht]).
Qed.
Lemma rtx_bind_any {A B} (m1 m2 : M A) (f1 f2 : A -> M B) :
  (forall e1 e2, R e1 e2 -> (exists a1 a2, fst (m1 e1) = Some a1 /\ fst (m2 e2) = Some a2) /\ R (snd (m1 e1)) (snd (m2 e2))) ->
  (forall a1 a2, rtx (f1 a1) (f2 a2)) -> rtx (bind m1 f1) (bind m2 f2).
Proof.
  intros Hm Hf e1 e2 H. destruct (Hm e1 e2 H) as [(a1 & a2 & V1 & V2) HR]. unfold bind.
  destruct (m1 e1) as [o1 e1'], (m2 e2) as [o2 e2']; cbn [fst snd] in *. subst o1 o2. apply Hf. exact HR.
Qed.
Lemma rtx_emit_rel a1 a2 : aeq a1 a2 -> rtx (emit a1) (emit a2).
Proof. intros Ha e1 e2 (Hn & Ht). split; [|reflexivity]. split; [exact Hn|]. cbn. constructor; assumption. Qed.

Ltac rb := apply rtx_bind; [|intro].
Tactic Notation "rbx" simple_intropattern(x) := apply rtx_bind; [|intros x].
Ltac rl H := apply rtx_lq, H.
Lemma rte_emit a : rte (emit a). Proof. rl (lp_emit a). Qed.
Lemma rte_report x : rte (report x). Proof. apply rte_emit. Qed.
Lemma rte_write op : rte (st_write op). Proof. rl (lp_write op). Qed.
Lemma rte_set_opt k v : rte (st_set_option_int k v). Proof. unfold st_set_option_int. destruct v; apply rte_write. Qed.
Lemma rte_set_time k t : rte (st_set_time k t). Proof. apply rte_set_opt. Qed.
Lemma rte_get_time k : rte (st_get_time k). Proof. unfold st_get_time. rb; [rl lp_get_int|apply rtx_ret]. Qed.
Lemma rte_iterM {A} (f : A -> M unit) l : (forall x, rte (f x)) -> rte (iterM f l).
Proof. intro H. induction l as [|x r IH]; cbn [iterM]; [apply rtx_ret|]. rb; [apply H|exact IH]. Qed.
Lemma rte_ctx_persist sc ps : rte (ctx_persist sc ps).
Proof. unfold ctx_persist. repeat (rb; [apply rte_set_opt|]). apply rtx_ret. Qed.
Lemma rte_persist_data m : rte (persist_data m).
Proof.
  unfold persist_data. rb; [apply rte_ctx_persist|]. rb.
  - apply rte_iterM. intro ap. rb; [apply rte_write|apply rtx_ret].
  - rb; [apply rte_write|apply rtx_ret].
Qed.
Lemma rte_now : rte now.
Proof. unfold now. rb; [rl lp_read_clock|]. rb; [apply rte_emit|]. apply rtx_ret. Qed.
Lemma rte_yield ev : rte (yield_ ev).
Proof. unfold yield_. rb; [apply rte_emit|]. rl lp_after_event. Qed.
Lemma rte_with_ids b s r : rte (with_ids b s r).
Proof. unfold with_ids. rb; [rl lp_canon_guid|]. rb; [rl lp_canon_guid|]. apply rtx_ret. Qed.
Lemma rte_maybe_ids (c : bool) b s r : rte (if c then with_ids b s r else ret b).
Proof. destruct c; [apply rte_with_ids|apply rtx_ret]. Qed.
Lemma rte_record_first_seen plan t : rte (record_first_seen plan t).
Proof.
  unfold record_first_seen. rbx prev; [rl lp_get_str|].
  assert (Hnew : rte (ok1 <- st_write (SSetStr K_INSTALL_PLAN_ID plan);;
                       (if negb ok1 then ret t
                        else ok2 <- st_set_time K_FIRST_SEEN t;;
                             (if negb ok2 then st_write (SRemove K_INSTALL_PLAN_ID);;; ret t else st_write SCommit;;; ret t)))).
  { rbx ok1; [apply rte_write|]. destruct (negb ok1); [apply rtx_ret|].
    rbx ok2; [apply rte_set_time|]. destruct (negb ok2); (rb; [apply rte_write|apply rtx_ret]). }
  destruct prev as [p|]; [|exact Hnew].
  destruct (bytes_eqb p plan); [|exact Hnew].
  rb; [apply rte_get_time|]. apply rtx_ret.
Qed.
Lemma rte_report_attempts s : rte (report_attempts_to_successful_install s).
Proof.
  unfold report_attempts_to_successful_install. rb; [rl lp_get_int|].
  rb; [apply rte_report|]. rb; [destruct s; apply rte_write|]. apply rtx_ret.
Qed.
Lemma rte_report_check_interval src m : rte (report_check_interval src m).
Proof.
  unfold report_check_interval. rbx n; [apply rte_now|]. rb; [|apply rtx_ret].
  destruct (s_last_check (m_sched m)) as [[w|mm|c]|]; try apply rtx_ret.
  - destruct (w <=? wall n); [apply rte_report|apply rtx_ret].
  - destruct (mono c <=? mono n); [apply rte_report|apply rtx_ret].
Qed.
Lemma rte_update_next m : rte (update_next_update_time m).
Proof. unfold update_next_update_time. rb; [rl lp_pop_next_time|]. rb; [apply rte_emit|]. rb; [apply rte_yield|]. apply rtx_ret. Qed.
Lemma rte_make_wait t : rte (make_wait t).
Proof.
  unfold make_wait. destruct (t_min t).
  - rb; [apply rte_emit|]. rb; [apply rte_emit|]. apply rtx_ret.
  - rb; [apply rte_emit|]. apply rtx_ret.
Qed.
Lemma rte_ask_reboot src : rte (ask_reboot_allowed src).
Proof. unfold ask_reboot_allowed. rb; [rl lp_pop_reboot_allowed|]. rb; [apply rte_emit|]. apply rtx_ret. Qed.
Lemma rte_handle_in_reboot id sc0 : rte (handle_in_reboot id sc0).
Proof. unfold handle_in_reboot. rb; [apply rte_emit|]. destruct sc0; [apply rte_ask_reboot|apply rtx_ret]. Qed.
Lemma rte_do_req b m : rte (do_omaha_request b m).
Proof.
  unfold do_omaha_request.
  destruct (negb (u_valid (m_url m))); [apply rtx_ret|].
  destruct (negb (headers_ok (m_cfg m) b)).
  { rb; [|apply rtx_ret]. destruct (m_cup m); [|apply rtx_ret]. rb; [rl lp_fresh_nonce|apply rtx_ret]. }
  rbx uri. { destruct (m_cup m); [|apply rtx_ret]. rb; [rl lp_fresh_nonce|apply rtx_ret]. }
  rbx o; [rl lp_pop_http|]. rb; [apply rte_emit|].
  destruct o as [k|status ra0 au bd]; [apply rtx_ret|].
  destruct (match m_cup m with Some _ => negb au | None => false end); [apply rtx_ret|].
  rb.
  { destruct (oZ_eqb (ps_poll (m_ps m)) (parse_retry_after ra0)); [apply rtx_ret|]. cbv zeta.
    rb; [apply rte_yield|]. rb; [apply rte_ctx_persist|]. rb; [apply rte_write|]. apply rtx_ret. }
  destruct ((200 <=? status) && (status <? 300))%N; apply rtx_ret.
Qed.
Lemma rte_report_event p ev apps sess nv dur m : rte (report_event p ev apps sess nv dur m).
Proof.
  unfold report_event. rb; [rl lp_fresh_guid|]. rb; [apply rte_maybe_ids|]. rbx [m' [e|bd]]; [apply rte_do_req| |apply rtx_ret].
  rb; [apply rte_report|apply rtx_ret].
Qed.
(* the attempts: the draw only reaches the duration of the wait that follows *)
Lemma rte_attempt_loop b0 sess fuel : forall attempt m, rte (attempt_loop fuel attempt b0 sess m).
Proof.
  induction fuel as [|f IH]; intros attempt m; cbn [attempt_loop]; [apply rtx_halt|].
  rb; [apply rte_now|]. rb; [rl lp_fresh_guid|]. rb; [apply rte_maybe_ids|]. rbx [m1 res]; [apply rte_do_req|].
  rb; [apply rte_now|].
  rb. { match goal with |- rtx (if ?c then _ else _) _ => destruct c end; [apply rte_report|apply rtx_ret]. }
  destruct res as [e|bd]; [|apply rtx_ret].
  match goal with |- rtx (if ?c then _ else _) _ => destruct c end.
  - rb; [apply rte_yield|apply rtx_ret].
  - apply rtx_bind_any; [apply rel_pop_backoff|]. intros r1 r2. cbv zeta.
    rb; [|apply IH]. apply rtx_emit_rel. right. eexists _, _. split; reflexivity.
Qed.
Lemma rte_ping m : rte (ping_omaha m).
Proof.
  unfold ping_omaha. cbv zeta. rb; [rl lp_fresh_guid|]. rb; [rl lp_fresh_guid|]. rb; [apply rte_maybe_ids|]. rbx [m1 res]; [apply rte_do_req|].
  destruct res as [er|[d|]]; [rb; [apply rte_persist_data|apply rtx_ret]| |rb; [apply rte_persist_data|apply rtx_ret]].
  rb; [apply rte_now|]. rb; [apply rte_yield|]. rb; [apply rte_persist_data|apply rtx_ret].
Qed.
Lemma rte_reboot_loop fuel : forall src pending m, rte (reboot_loop fuel src pending m).
Proof.
  induction fuel as [|f IH]; intros src pending m; cbn [reboot_loop]; [apply rtx_halt|].
  rbx [[id sc0]|]; [rl lp_pop_queued| |].
  { rbx [|]; [apply rte_handle_in_reboot|apply rtx_ret|apply IH]. }
  rbx [i|sc0|]; [rl lp_pop_stim| | |].
  - assert (Hping : rte (m1 <- ping_omaha m;; mt <- update_next_update_time m1;;
                         (let '(m2, t) := mt in roles <- make_wait t;; reboot_loop f src (remove_nth i pending ++ roles) m2))).
    { rb; [apply rte_ping|]. rbx [m2 t]; [apply rte_update_next|]. rb; [apply rte_make_wait|]. apply IH. }
    destruct (nth_error pending i) as [[| |]|].
    + destruct (has_ping_roles (remove_nth i pending)); [apply IH|exact Hping].
    + destruct (has_ping_roles (remove_nth i pending)); [apply IH|exact Hping].
    + rbx [|]; [apply rte_ask_reboot|apply rtx_ret|]. rb; [apply rte_emit|]. apply IH.
    + apply IH.
  - rb; [rl lp_next_ctl|]. rb; [apply rte_emit|]. rbx [|]; [apply rte_handle_in_reboot|apply rtx_ret|apply IH].
  - apply IH.
Qed.
Lemma rte_wait_for_reboot fuel src m : rte (wait_for_reboot fuel src m).
Proof.
  unfold wait_for_reboot. rbx ok; [apply rte_ask_reboot|]. rb.
  { destruct ok; [apply rtx_ret|]. rb; [apply rte_emit|]. rbx [m1 t]; [apply rte_update_next|]. rb; [apply rte_make_wait|]. apply rte_reboot_loop. }
  rb; [rl lp_pop_reboot|]. rb; [apply rte_emit|]. apply rtx_ret.
Qed.
Lemma rte_iter_yield {A} (f : A -> sm_event) l : rte (iterM (fun x => yield_ (f x)) l).
Proof. apply rte_iterM. intro. apply rte_yield. Qed.
Lemma rte_perform fuel p apps m : rte (perform_update_check fuel p apps m).
Proof.
  unfold perform_update_check.
  rb; [apply rte_yield|]. rbx m0; [apply rte_report_check_interval|]. rbx sess; [rl lp_fresh_guid|].
  rbx [[m1 attempts] res]; [apply rte_attempt_loop|]. rb; [apply rte_report|].
  destruct res as [e|[d|]].
  - apply rtx_ret.
  - rb; [apply rte_yield|].
    destruct (filter uc_ok (d_apps d)) as [|wu0 wur] eqn:Ewu; [rb; [apply rte_yield|apply rtx_ret]|].
    rbx pl; [rl lp_pop_plan|]. rb; [apply rte_emit|].
    destruct pl as [plan|].
    2:{ rb; [apply rte_yield|]. rb; [apply rte_yield|]. rbx m2; [apply rte_report_event|]. apply rtx_ret. }
    rbx dec; [rl lp_pop_can_start|]. rb; [apply rte_emit|].
    destruct dec.
    + rb; [apply rte_yield|]. rbx m2; [apply rte_report_event|]. rbx t0; [apply rte_now|]. rbx fs; [apply rte_record_first_seen|].
      rbx pa; [rl lp_pop_perform|]. rb; [apply rte_emit|]. rb; [apply rte_iter_yield|]. rbx t1; [apply rte_now|].
      rbx dur.
      { match goal with |- rtx (if ?c then _ else _) _ => destruct c end; [|apply rtx_ret]. rb; [apply rte_report|apply rtx_ret]. }
      rbx req; [rl lp_fresh_guid|]. rbx b; [apply rte_maybe_ids|]. rbx [m3 rr]; [apply rte_do_req|].
      rb. { destruct rr; [apply rte_iterM; intro; apply rte_report|apply rtx_ret]. }
      rbx m4.
      { match goal with |- rtx (match ?l with [] => _ | _ => _ end) _ => destruct l end; [apply rtx_ret|apply rte_report_event]. }
      match goal with |- rtx (match ?n with O => _ | S _ => _ end) _ => destruct n as [|nerr] end.
      * rb. { match goal with |- rtx (if ?c then _ else _) _ => destruct c end; [apply rte_report|apply rtx_ret]. }
        rb; [apply rte_set_time|].
        rb. { match goal with |- rtx (match ?x with Some _ => _ | None => _ end) _ => destruct x end; [|apply rtx_ret]. rb; [apply rte_write|apply rtx_ret]. }
        rb; [apply rte_write|]. rbx rn; [rl lp_pop_reboot_needed|]. rb; [apply rte_emit|]. apply rtx_ret.
      * rb; [apply rte_iter_yield|]. rb; [apply rte_yield|]. apply rtx_ret.
    + rbx m2; [apply rte_report_event|]. rb; [apply rte_yield|]. apply rtx_ret.
    + rbx m2; [apply rte_report_event|]. apply rtx_ret.
  - rb; [apply rte_yield|]. rbx m2; [apply rte_report_event|]. apply rtx_ret.
Qed.
Lemma rte_start fuel p m : rte (start_update_check fuel p m).
Proof.
  unfold start_update_check. rbx [m1 res]; [apply rte_perform|].
  rbx [[m2 result] rb0].
  { destruct res as [e|[rs rb0]].
    - rbx [m2 reason].
      + destruct e as [re| |]; [destruct re; apply rtx_ret| |]; (rb; [apply rte_now|apply rtx_ret]).
      + rb; [apply rte_report|apply rtx_ret].
    - rbx n; [apply rte_now|]. rb; [apply rte_report|].
      rb; [destruct (install_success rs); [apply rte_report_attempts|apply rtx_ret]|]. apply rtx_ret. }
  rb; [apply rte_yield|]. rb; [apply rte_yield|]. rb; [apply rte_yield|]. rb; [apply rte_persist_data|apply rtx_ret].
Qed.
Lemma lp_outer_raw roles : lq_prog (fun e : env =>
        match outer_select (e_stim e) roles (e_ctl e) with
        | None => (None, set_stim e [] (e_ctl e))
        | Some (None, r, c) => (Some None, set_stim e r c)
        | Some (Some (src, id), r, c) =>
            (Some (Some (src, id)), upd_trace (set_stim e r c) (ARequest id src :: e_trace e))
        end).
Proof.
  intro e. cbn. destruct (outer_select (e_stim e) roles (e_ctl e)) as [[[[[src id]|] r] c]|]; repeat split; reflexivity.
Qed.
Lemma rte_do_outer_select roles : rte (do_outer_select roles).
Proof. unfold do_outer_select. rbx [[id src]|]; [rl lp_pop_queued|apply rtx_ret|]. rl (lp_outer_raw roles). Qed.
Lemma rte_run_iteration fuel finish start_mono sr m : rte (run_iteration fuel finish start_mono sr m).
Proof.
  unfold run_iteration.
  rbx sr'.
  { destruct sr; [|apply rtx_ret]. rbx n; [apply rte_now|].
    match goal with |- rtx (match ?x with Some _ => _ | None => _ end) _ => destruct x end; [|apply rtx_ret].
    rb; [apply rte_report|]. rb; [apply rte_write|]. rb; [apply rte_write|]. rb; [apply rte_write|]. apply rtx_ret. }
  rbx [m1 t]; [apply rte_update_next|]. rbx roles; [apply rte_make_wait|]. rbx sel; [apply rte_do_outer_select|].
  rbx dec; [rl lp_pop_allowed|]. rb; [apply rte_emit|].
  assert (Hrep : forall r, rte (match sel with Some (_, id) => emit (AReply id r) | None => ret tt end)).
  { intro r. destruct sel as [[s id]|]; [apply rte_emit|apply rtx_ret]. }
  destruct dec.
  1,2: (rb; [apply Hrep|]; rb; [rl lp_enter_check|]; rbx [m2 rb0]; [apply rte_start|]; rb; [rl (lp_set_incheck false)|];
        rbx upg; [rl lp_take_upgrade|]; rbx m3;
        [destruct rb0 as [pl|]; [rb; [apply rte_yield|apply rte_wait_for_reboot]|apply rtx_ret]
        |rb; [apply rte_yield|apply rtx_ret]]).
  all: (rb; [apply Hrep|apply rtx_ret]).
Qed.
Lemma rte_run_loop iters : forall fuel finish start_mono sr m, rte (run_loop iters fuel finish start_mono sr m).
Proof.
  induction iters as [|k IH]; intros; cbn [run_loop]; [apply rtx_halt|].
  rbx [m' sr']; [apply rte_run_iteration|apply IH].
Qed.
Lemma rte_run iters fuel m : rte (run iters fuel m).
Proof.
  unfold run. destruct (negb (forallb app_valid (m_apps m))); [apply rtx_ret|].
  rbx n; [apply rte_now|]. rbx fin; [apply rte_get_time|]. rbx tv; [rl lp_get_str|]. apply rte_run_loop.
Qed.
Lemma rte_oneshot fuel m : rte (oneshot fuel m).
Proof. unfold oneshot. rbx [m' rb0]; [apply rte_start|apply rtx_ret]. Qed.

(* ---------- the two runs ---------- *)
Definition setb (e : env) (draws : list Z) : env :=
  {| e_clock := e_clock e; e_last_clock := e_last_clock e; e_store := e_store e; e_faults := e_faults e;
     q_next_time := q_next_time e; q_allowed := q_allowed e; q_can_start := q_can_start e;
     q_reboot_needed := q_reboot_needed e; q_reboot_allowed := q_reboot_allowed e;
     q_http := q_http e; q_plan := q_plan e; q_perform := q_perform e; q_reboot := q_reboot e;
     q_backoff := draws; e_stim := e_stim e; e_ctl := e_ctl e; e_cs := e_cs e;
     e_draws := e_draws e; e_guids := e_guids e; e_nonces := e_nonces e; e_trace := e_trace e |}.
Lemma R_setb e d1 d2 : R (setb e d1) (setb e d2).
Proof. split; [reflexivity|apply Forall2_refl, aeq_refl]. Qed.
Lemma Forall2_rev' {A} (P : A -> A -> Prop) l1 l2 : Forall2 P l1 l2 -> Forall2 P (rev l1) (rev l2).
Proof. induction 1 as [|x y r1 r2 Hxy Hr IH]; cbn [rev]; [constructor|]. apply Forall2_app; [exact IH|constructor; [exact Hxy|constructor]]. Qed.

Theorem draws_only_reach_the_waits ep cfg url cup apps e draws draws' :
  Forall2 aeq (run_case ep cfg url cup apps (setb e draws)) (run_case ep cfg url cup apps (setb e draws')).
Proof.
  unfold run_case. cbn [setb e_store e_stim e_cs].
  set (m := build cfg url cup apps (e_store e)).
  set (n := Datatypes.S (length (e_stim e) + length (c_inject (e_cs e)))).
  set (fuel := (4 + length (e_stim e) + length (c_inject (e_cs e)))%nat).
  destruct ep.
  - pose proof (rte_run n fuel m (setb e draws) (setb e draws') (R_setb e draws draws')) as [(_ & HR) _].
    destruct (run n fuel m (setb e draws)) as [r1 e1'], (run n fuel m (setb e draws')) as [r2 e2']. cbn [snd] in HR.
    apply Forall2_rev'. exact HR.
  - pose proof (rte_oneshot fuel m (setb e draws) (setb e draws') (R_setb e draws draws')) as [(_ & HR) _].
    destruct (oneshot fuel m (setb e draws)) as [r1 e1'], (oneshot fuel m (setb e draws')) as [r2 e2']. cbn [snd] in HR.
    apply Forall2_rev'. exact HR.
Qed.
