(* Proofs/C05Proof.v — every model trace is accepted by the consent monitor step5 *)
Require Import Verif.Model.Time Verif.Base.Bytes Verif.Proofs.BytesFacts Verif.Model.Version Verif.Model.Json Verif.Model.Proto
               Verif.Model.Request Verif.Model.Env Verif.Model.SM Verif.Model.Monitors Verif.Proofs.Monitor
               Verif.Proofs.RequestFacts Verif.Proofs.MonGeneric.
Open Scope Z_scope.

Notation T := (triple step5).
Lemma ign_ctl5 : ign_ctl step5.
Proof. split; intros; reflexivity. Qed.
Ltac temit := first [apply triple_emit | apply (T_yield step5 _ _ _ ign_ctl5) | (unfold yield_state; apply (T_yield step5 _ _ _ ign_ctl5))].

Definition neutral (a : action) : Prop := forall q, step5 q a = Some q.
Definition neutralM {A} (m : M A) : Prop := forall P : ph5 -> Prop, T P m (fun _ q => P q).

Lemma neutralM_ret {A} (a : A) : neutralM (ret a).
Proof. intro P. apply triple_ret. auto. Qed.
Lemma neutralM_bind {A B} (m : M A) (f : A -> M B) : neutralM m -> (forall a, neutralM (f a)) -> neutralM (bind m f).
Proof. intros Hm Hf P. eapply triple_bind; [apply Hm|]. intro a. apply Hf. Qed.
Lemma neutralM_emit a : neutral a -> neutralM (emit a).
Proof. intros H P. temit. intros q Hq. exists q. split; [apply H|exact Hq]. Qed.
Lemma neutralM_silent {A} (m : M A) : silent m -> neutralM m.
Proof. intros H P. apply triple_silent. exact H. Qed.
Lemma neutralM_halt {A} : neutralM (@halt A).
Proof. intro P. apply triple_halt. Qed.
Lemma neutralM_iterM {A} (f : A -> M unit) l : (forall x, neutralM (f x)) -> neutralM (iterM f l).
Proof. intros H P. apply triple_iterM. intros x _. apply H. Qed.

Lemma neutralM_yield5 ev : neutral (AEvent ev) -> neutralM (yield_ ev).
Proof. intros H P. apply (T_yield step5 _ _ _ ign_ctl5). intros q Hq. exists q. split; [apply H|exact Hq]. Qed.

Lemma neutralM_st_write op : neutralM (st_write op).
Proof.
  intros P q0 e q Hq Hp. exists q. split; [|exact Hp].
  unfold mst, st_write. cbn [snd upd_trace e_trace rev]. rewrite runmon_app.
  unfold mst in Hq. rewrite Hq. reflexivity.
Qed.

Lemma neutralM_now : neutralM now.
Proof.
  unfold now. apply neutralM_bind; [apply neutralM_silent, silent_read_clock|].
  intro c. apply neutralM_bind; [apply neutralM_emit; intro q; reflexivity|]. intro. apply neutralM_ret.
Qed.

Ltac neu :=
  repeat first
    [ apply neutralM_ret
    | apply neutralM_now
    | apply neutralM_st_write
    | apply neutralM_halt
    | apply neutralM_bind; [|intro]
    | apply neutralM_iterM; intro
    | apply neutralM_emit; intro; reflexivity
    | apply neutralM_silent;
      first [ apply silent_pop_next_time | apply silent_pop_backoff | apply silent_fresh_guid | apply silent_fresh_nonce
            | apply silent_canon_guid | apply silent_st_get_int | apply silent_st_get_str | apply silent_st_get_time
            | apply silent_ret ]
    | match goal with
      | |- neutralM (match ?x with _ => _ end) => destruct x
      | |- neutralM (if ?x then _ else _) => destruct x
      | |- neutralM (let '(_, _) := ?x in _) => destruct x
      end ].

Lemma neutralM_report m : neutralM (report m).
Proof. unfold report. neu. Qed.
Lemma neutralM_st_set_option_int k v : neutralM (st_set_option_int k v).
Proof. unfold st_set_option_int. neu. Qed.
Lemma neutralM_st_set_time k t : neutralM (st_set_time k t).
Proof. unfold st_set_time. apply neutralM_st_set_option_int. Qed.
Lemma neutralM_ctx_persist sc ps : neutralM (ctx_persist sc ps).
Proof. unfold ctx_persist. repeat (apply neutralM_bind; [apply neutralM_st_set_option_int|intro]). apply neutralM_ret. Qed.
Lemma neutralM_persist_data m : neutralM (persist_data m).
Proof.
  unfold persist_data. apply neutralM_bind; [apply neutralM_ctx_persist|intro].
  apply neutralM_bind; [apply neutralM_iterM; intro; neu|intro]. neu.
Qed.
Lemma neutralM_with_ids b s r : neutralM (with_ids b s r).
Proof. unfold with_ids. neu. Qed.
Lemma neutralM_report_check_interval src m : neutralM (report_check_interval src m).
Proof. unfold report_check_interval. apply neutralM_bind; [apply neutralM_now|intro]. apply neutralM_bind; [|intro; apply neutralM_ret].
  destruct (s_last_check (m_sched m)) as [[w|mm|c]|]; try apply neutralM_ret.
  - destruct (w <=? wall a); [apply neutralM_report|apply neutralM_ret].
  - destruct (mono c <=? mono a); [apply neutralM_report|apply neutralM_ret].
Qed.
Lemma neutralM_record_first_seen plan t : neutralM (record_first_seen plan t).
Proof.
  unfold record_first_seen. apply neutralM_bind; [apply neutralM_silent, silent_st_get_str|intro prev].
  destruct prev as [p|].
  - destruct (bytes_eqb p plan).
    + apply neutralM_bind; [apply neutralM_silent, silent_st_get_time|intro]. apply neutralM_ret.
    + apply neutralM_bind; [apply neutralM_st_write|intro ok1]. destruct (negb ok1); [apply neutralM_ret|].
      apply neutralM_bind; [apply neutralM_st_set_time|intro ok2]. destruct (negb ok2).
      * apply neutralM_bind; [apply neutralM_st_write|intro]. apply neutralM_ret.
      * apply neutralM_bind; [apply neutralM_st_write|intro]. apply neutralM_ret.
  - apply neutralM_bind; [apply neutralM_st_write|intro ok1]. destruct (negb ok1); [apply neutralM_ret|].
    apply neutralM_bind; [apply neutralM_st_set_time|intro ok2]. destruct (negb ok2).
    + apply neutralM_bind; [apply neutralM_st_write|intro]. apply neutralM_ret.
    + apply neutralM_bind; [apply neutralM_st_write|intro]. apply neutralM_ret.
Qed.
Lemma neutralM_report_attempts_install s : neutralM (report_attempts_to_successful_install s).
Proof.
  unfold report_attempts_to_successful_install.
  apply neutralM_bind; [apply neutralM_silent, silent_st_get_int|intro].
  apply neutralM_bind; [apply neutralM_report|intro].
  apply neutralM_bind; [destruct s; apply neutralM_st_write|intro]. apply neutralM_ret.
Qed.
Lemma neutralM_yield_state s :
  (match s with CheckingForUpdates _ | WaitingForReboot | Idle => False | _ => True end) -> neutralM (yield_state s).
Proof. intro H. unfold yield_state. apply neutralM_yield5. intro q. destruct s; try contradiction; reflexivity. Qed.

(* ---------- builders made for a check with parameters p ---------- *)
Definition euc_ok (p : params) (e : entry) : Prop := e_uc e = None \/ e_uc e = Some (p_disable p, p_samever p).

Lemma iam_uc p es a f :
  Forall (euc_ok p) es -> (forall e, euc_ok p e -> euc_ok p (f e)) -> euc_ok p (f (entry_new a)) ->
  Forall (euc_ok p) (insert_and_modify es a f).
Proof.
  intros Hes Hf Hn. induction Hes as [|e r He Hr IH]; cbn [insert_and_modify].
  - constructor; [exact Hn|constructor].
  - destruct (bytes_eqb (a_id (e_app e)) (a_id a)); constructor; auto.
Qed.

Lemma apply_op_uc p es o : Forall (euc_ok p) es -> Forall (euc_ok p) (apply_op p es o).
Proof.
  intro H. destruct o; cbn [apply_op]; apply iam_uc; try assumption;
    try (intros e He; unfold euc_ok in *; cbn [e_uc]; tauto);
    try (unfold euc_ok; cbn [e_uc entry_new]; tauto).
Qed.

Lemma fold_ops_uc p ops : forall es, Forall (euc_ok p) es -> Forall (euc_ok p) (fold_left (apply_op p) ops es).
Proof. induction ops as [|o r IH]; intros es H; cbn [fold_left]; [exact H|]. apply IH. apply apply_op_uc. exact H. Qed.

Lemma add_ops_uc p ops : Forall (euc_ok p) (b_entries (add_ops (builder_new p) ops)).
Proof. unfold add_ops, builder_new. cbn [b_entries b_params]. apply fold_ops_uc. constructor. Qed.

Definition wire_of (cfg : config) (b : builder) (uri : bytes) : wire :=
  {| w_uri := uri; w_headers := headers_of cfg b; w_body := body_of cfg b; w_sum := summary_of b |}.

Lemma ia1 : bytes_eqb (s2b "content-type") (s2b "x-goog-update-interactivity") = false.
Proof. vm_compute. reflexivity. Qed.
Lemma ia2 : bytes_eqb (s2b "x-goog-update-updater") (s2b "x-goog-update-interactivity") = false.
Proof. vm_compute. reflexivity. Qed.
Lemma ia3 : bytes_eqb (s2b "x-goog-update-interactivity") (s2b "x-goog-update-interactivity") = true.
Proof. vm_compute. reflexivity. Qed.

Lemma interactivity_builder cfg b : interactivity_ok (p_source (b_params b)) (headers_of cfg b) = true.
Proof.
  unfold interactivity_ok, headers_of. cbn [List.app existsb fst snd].
  rewrite ia1, ia2, ia3. cbn [andb orb]. rewrite bytes_eqb_refl. reflexivity.
Qed.

Lemma http_ok_builder p cfg b uri :
  b_params b = p -> Forall (euc_ok p) (b_entries b) -> http_ok p (wire_of cfg b uri) = true.
Proof.
  intros Hp Huc. unfold http_ok, wire_of. cbn [w_sum w_headers summary_of ws_source ws_apps].
  rewrite Hp. destruct (p_source p) eqn:Es; cbn [isource_eqb andb];
    (rewrite <- Es, <- Hp, interactivity_builder; cbn [andb];
     rewrite forallb_forall; intros wa Hin; apply in_map_iff in Hin as (e & <- & He); cbn [wa_uc];
     rewrite Forall_forall in Huc; destruct (Huc e He) as [->| ->]; cbn [obool_pair_ok]; [reflexivity|];
     rewrite Hp, !Bool.eqb_reflx; reflexivity).
Qed.

(* ping builders: only OpPing operations *)
Definition ping_entry (e : entry) : Prop := e_uc e = None /\ e_events e = [].
Lemma fold_ping_ops p apps : forall es, Forall ping_entry es -> Forall ping_entry (fold_left (apply_op p) (map OpPing apps) es).
Proof.
  induction apps as [|a r IH]; intros es H; cbn [map fold_left]; [exact H|]. apply IH. cbn [apply_op].
  induction H as [|e r' He Hr IH']; cbn [insert_and_modify].
  - constructor; [split; reflexivity|constructor].
  - destruct (bytes_eqb (a_id (e_app e)) (a_id a)); constructor; auto.
Qed.
Lemma ping_ok_builder cfg apps uri b :
  b_params b = ping_params -> b_entries b = b_entries (add_ops (builder_new ping_params) (map OpPing apps)) ->
  ping_ok (wire_of cfg b uri) = true.
Proof.
  intros Hp He. unfold ping_ok, wire_of. cbn [w_sum w_headers summary_of ws_source ws_apps].
  rewrite Hp. cbn [p_source ping_params isource_eqb andb].
  replace ScheduledTask with (p_source (b_params b)) at 1 by (rewrite Hp; reflexivity).
  rewrite interactivity_builder. cbn [andb].
  rewrite forallb_forall. intros wa Hin. apply in_map_iff in Hin as (e & <- & Hin). cbn [wa_uc wa_events].
  rewrite He in Hin. unfold add_ops, builder_new in Hin. cbn [b_entries b_params] in Hin.
  pose proof (fold_ping_ops ping_params apps [] (Forall_nil _)) as HF. rewrite Forall_forall in HF.
  destruct (HF e Hin) as [-> ->]. reflexivity.
Qed.

(* with_ids keeps params and entries *)
Definition same_core (b b' : builder) : Prop := b_params b' = b_params b /\ b_entries b' = b_entries b.

Lemma T_silent_val {A} (m : M A) (P : ph5 -> Prop) (R : A -> Prop) :
  silent m -> (forall e a, fst (m e) = Some a -> R a) -> T P m (fun a q => P q /\ R a).
Proof.
  intros Hs Hr q0 e q Hq Hp. exists q. split; [unfold mst; rewrite Hs; exact Hq|].
  destruct (fst (m e)) eqn:E; [split; [exact Hp|eapply Hr; exact E]|exact I].
Qed.

Lemma silent_with_ids b s r : silent (with_ids b s r).
Proof. unfold with_ids. apply silent_bind; [apply silent_canon_guid|intro]. apply silent_bind; [apply silent_canon_guid|intro]. apply silent_ret. Qed.

Lemma with_ids_core b s r e b' : fst (with_ids b s r e) = Some b' -> same_core b b'.
Proof.
  unfold with_ids, bind, ret. destruct (canon_guid s e) as [[cs|] e1] eqn:E1; [|discriminate].
  destruct (canon_guid r e1) as [[cr|] e2] eqn:E2; [|discriminate].
  cbn [fst]. intro H. inversion H. split; reflexivity.
Qed.

Lemma T_maybe_ids (c : bool) b s r P :
  T P (if c then with_ids b s r else ret b) (fun b' q => P q /\ same_core b b').
Proof.
  destruct c.
  - apply T_silent_val; [apply silent_with_ids|]. intros e a H. eapply with_ids_core; exact H.
  - apply triple_ret. intros q Hq. split; [exact Hq|split; reflexivity].
Qed.

(* ---------- do_omaha_request ---------- *)
Definition req_allowed (q1 : ph5) (cfg : config) (b : builder) : Prop :=
  match q1 with
  | P5Check p _ => http_ok p (wire_of cfg b []) = true
  | P5Reboot _ => ping_ok (wire_of cfg b []) = true
  | _ => False
  end.

Lemma http_ok_uri p cfg b u1 u2 : http_ok p (wire_of cfg b u1) = http_ok p (wire_of cfg b u2).
Proof. reflexivity. Qed.
Lemma ping_ok_uri cfg b u1 u2 : ping_ok (wire_of cfg b u1) = ping_ok (wire_of cfg b u2).
Proof. reflexivity. Qed.

Lemma T_do_req q1 b m :
  req_allowed q1 (m_cfg m) b ->
  T (fun q => q = q1) (do_omaha_request b m) (fun _ q => q = q1).
Proof.
  intro Hok. unfold do_omaha_request.
  destruct (negb (u_valid (m_url m))); [apply triple_ret; auto|].
  destruct (negb (headers_ok (m_cfg m) b)).
  { eapply triple_bind; [|intro; apply triple_ret; intros q Hq; exact Hq].
    destruct (m_cup m); [|apply triple_ret; auto].
    eapply triple_bind; [apply (neutralM_silent _ silent_fresh_nonce)|]. intro. apply triple_ret. auto. }
  eapply triple_bind with (R := fun _ q => q = q1).
  { destruct (m_cup m).
    - eapply triple_bind; [apply (neutralM_silent _ silent_fresh_nonce)|]. intro. apply triple_ret. auto.
    - apply triple_ret. auto. }
  intro uri.
  eapply triple_bind; [apply (neutralM_silent _ silent_pop_http)|]. intro o.
  eapply triple_bind with (R := fun _ q => q = q1).
  { temit. intros q ->. exists q1. split; [|reflexivity].
    change {| w_uri := uri; w_headers := headers_of (m_cfg m) b; w_body := body_of (m_cfg m) b; w_sum := summary_of b |}
      with (wire_of (m_cfg m) b uri).
    destruct q1; cbn [req_allowed] in Hok; try contradiction; cbn [step5].
    - rewrite (http_ok_uri _ _ _ uri []), Hok. reflexivity.
    - rewrite (ping_ok_uri _ _ uri []), Hok. reflexivity. }
  intros _. destruct o as [k|status ra authentic bd]; [apply triple_ret; auto|].
  destruct (match m_cup m with Some _ => negb authentic | None => false end); [apply triple_ret; auto|].
  eapply triple_bind with (R := fun _ q => q = q1).
  { destruct (oZ_eqb (ps_poll (m_ps m)) (parse_retry_after ra)); [apply triple_ret; auto|].
    eapply triple_bind; [apply (neutralM_yield5 (EvProtocol _)); intro; reflexivity|]. intro.
    eapply triple_bind; [apply neutralM_ctx_persist|]. intro.
    eapply triple_bind; [apply neutralM_st_write|]. intro. apply triple_ret. auto. }
  intro m'. destruct ((200 <=? status)%N && (status <? 300)%N); apply triple_ret; auto.
Qed.

(* ---------- helpers ---------- *)
Lemma T_pre_pure {A} (P : ph5 -> Prop) (phi : Prop) (m : M A) Q :
  (phi -> T P m Q) -> T (fun q => P q /\ phi) m Q.
Proof. intros H q0 e q Hq [Hp Hphi]. exact (H Hphi q0 e q Hq Hp). Qed.

Definition Keep (q1 : ph5) : ph5 -> Prop := fun q => q = q1.

Lemma T_keep {A} (m : M A) q1 : neutralM m -> T (Keep q1) m (fun _ => Keep q1).
Proof. intro H. apply (H (Keep q1)). Qed.

Ltac keepn H := eapply triple_bind; [apply (T_keep _ _ H)|intro].
Tactic Notation "keepas" constr(H) "as" ident(x) := eapply triple_bind; [apply (T_keep _ _ H)|intro x].

Lemma builder_params_add p ops : b_params (add_ops (builder_new p) ops) = p.
Proof. reflexivity. Qed.

Lemma req_allowed_check p ps cfg ops b :
  same_core (add_ops (builder_new p) ops) b -> req_allowed (P5Check p ps) cfg b.
Proof.
  intros [Hp He]. cbn [req_allowed]. apply http_ok_builder.
  - rewrite Hp. reflexivity.
  - rewrite He. apply add_ops_uc.
Qed.

(* a request built from ops for parameters p, inside a check allowed with p *)
Lemma T_request_in_check p ps ops sess req m :
  T (Keep (P5Check p ps))
    (b <- (if u_valid (m_url m) && headers_ok (m_cfg m) (add_ops (builder_new p) ops)
           then with_ids (add_ops (builder_new p) ops) sess req else ret (add_ops (builder_new p) ops)) ;;
     do_omaha_request b m)
    (fun _ => Keep (P5Check p ps)).
Proof.
  eapply triple_bind; [apply T_maybe_ids|]. intro b. apply T_pre_pure. intro Hc.
  apply T_do_req. eapply req_allowed_check. exact Hc.
Qed.

Lemma T_report_event p ps ev apps sess nv dur m :
  T (Keep (P5Check p ps)) (report_event p ev apps sess nv dur m) (fun _ => Keep (P5Check p ps)).
Proof.
  unfold report_event. keepn (neutralM_silent _ silent_fresh_guid).
  eapply triple_bind; [apply T_maybe_ids|]. intro b.
  eapply triple_bind.
  { apply T_pre_pure. intro Hc. apply T_do_req. eapply req_allowed_check. exact Hc. }
  intros [m' [e|bd]].
  - keepn (neutralM_report (MOmahaEventLost ev)). apply triple_ret. auto.
  - apply triple_ret. auto.
Qed.

Lemma T_attempt_loop p ps ops sess fuel : forall attempt m,
  T (Keep (P5Check p ps)) (attempt_loop fuel attempt (add_ops (builder_new p) ops) sess m) (fun _ => Keep (P5Check p ps)).
Proof.
  induction fuel as [|f IH]; intros attempt m; cbn [attempt_loop]; [apply triple_halt|].
  keepn neutralM_now. keepn (neutralM_silent _ silent_fresh_guid).
  eapply triple_bind; [apply T_maybe_ids|]. intro b.
  eapply triple_bind.
  { apply T_pre_pure. intro Hc. apply T_do_req. eapply req_allowed_check. exact Hc. }
  intros [m1 res].
  keepn neutralM_now.
  eapply triple_bind with (R := fun _ => Keep (P5Check p ps)).
  { destruct (mono a <=? mono a1); [apply (T_keep _ _ (neutralM_report _))|apply triple_ret; auto]. }
  intros _. destruct res as [e|bd]; [|apply triple_ret; auto].
  match goal with |- T _ (if ?c then _ else _) _ => destruct c end.
  - keepn (neutralM_yield_state ErrorCheckingForUpdate I). apply triple_ret. auto.
  - keepn (neutralM_silent _ silent_pop_backoff).
    keepn (neutralM_emit (ATimer (WFor (randomize (Z.shiftl 1 (attempt - 1) * 1000) 1000 a2 * 1000000))) (fun q => eq_refl)).
    apply IH.
Qed.

(* ---------- perform_update_check ---------- *)
Definition post_check (p : params) (r : sm * (check_err + (list app_response * reboot))) (q : ph5) : Prop :=
  exists ps, q = P5Check p ps /\
    (forall rs plan, snd r = inr (rs, RebootNeeded plan) -> exists pl, ps = Installed pl true (Some true)).

Lemma post_check_inl p ps m e : post_check p (m, inl e) (P5Check p ps).
Proof. exists ps. split; [reflexivity|]. intros rs plan H. discriminate. Qed.
Lemma post_check_not_needed p ps m rs : post_check p (m, inr (rs, RebootNotNeeded)) (P5Check p ps).
Proof. exists ps. split; [reflexivity|]. intros rs' plan H. cbn in H. inversion H. Qed.

Ltac ret_post := apply triple_ret; intros q Hq; unfold Keep in Hq; subst q;
                 first [apply post_check_inl | apply post_check_not_needed].

Lemma T_perform fuel p apps m :
  T (Keep (P5Check p NoPlan)) (perform_update_check fuel p apps m) (post_check p).
Proof.
  unfold perform_update_check.
  eapply triple_bind with (R := fun _ => Keep (P5Check p NoPlan)).
  { temit. intros q ->. exists (P5Check p NoPlan). split; [|reflexivity].
    cbn [step5]. destruct (p_source p); reflexivity. }
  intros _. keepn (neutralM_report_check_interval (p_source p) m).
  keepn (neutralM_silent _ silent_fresh_guid).
  eapply triple_bind; [apply T_attempt_loop|]. intros [[m1 attempts] res].
  keepn (neutralM_report (MRequestsPerCheck attempts (match res with inr _ => true | inl _ => false end))).
  destruct res as [e|[d|]].
  - ret_post.
  - (* parsed document *)
    keepn (neutralM_yield5 (EvServerResponse d) (fun q => eq_refl)).
    destruct (filter SM.uc_ok (d_apps d)) as [|wu0 wur] eqn:Hwu.
    + keepn (neutralM_yield_state NoUpdateAvailable I). ret_post.
    + keepn (neutralM_silent _ silent_pop_plan).
      eapply triple_bind with (R := fun _ => Keep (P5Check p NoPlan)).
      { temit. intros q ->. exists (P5Check p NoPlan). split; reflexivity. }
      intros _. match goal with |- T _ (match ?pl with _ => _ end) _ => destruct pl as [plan|] end.
      2:{ keepn (neutralM_yield_state InstallingUpdate I). keepn (neutralM_yield_state InstallationError I).
          eapply triple_bind; [apply T_report_event|]. intro. ret_post. }
      keepn (neutralM_silent _ silent_pop_can_start).
      match goal with |- T _ (bind (emit (APolicy _ (PUDecision ?d))) _) _ => rename d into dec end.
      eapply triple_bind with (R := fun _ => Keep (P5Check p (match dec with UOk => Approved plan | _ => NoPlan end))).
      { temit. intros q ->. eexists. split; reflexivity. }
      intros _. destruct dec.
      * (* UOk *)
        keepn (neutralM_yield_state InstallingUpdate I).
        eapply triple_bind; [apply T_report_event|]. intro m2.
        keepas neutralM_now as t0.
        keepn (neutralM_record_first_seen plan (wall t0)).
        keepas (neutralM_silent _ silent_pop_perform) as pa.
        eapply triple_bind with (R := fun _ => Keep (P5Check p (Installed plan true None))).
        { temit. intros q ->. eexists. split; [|reflexivity]. cbn [step5]. rewrite bytes_eqb_refl. reflexivity. }
        intros _.
        keepn (neutralM_iterM (fun bits => yield_ (EvProgress bits)) (pa_progress pa)
                 (fun bits => neutralM_yield5 (EvProgress bits) (fun q => eq_refl))).
        keepas neutralM_now as t1.
        eapply triple_bind with (R := fun _ => Keep (P5Check p (Installed plan true None))).
        { match goal with |- T _ (if ?c then _ else _) _ => destruct c end.
          - match goal with |- T _ (bind (report ?x) _) _ => keepn (neutralM_report x) end. apply triple_ret. auto.
          - apply triple_ret. auto. }
        intro dur.
        keepn (neutralM_silent _ silent_fresh_guid).
        eapply triple_bind; [apply T_maybe_ids|]. intro b.
        eapply triple_bind.
        { apply T_pre_pure. intro Hc. apply T_do_req. eapply req_allowed_check. exact Hc. }
        intros [m3 rr].
        eapply triple_bind with (R := fun _ => Keep (P5Check p (Installed plan true None))).
        { destruct rr; [|apply triple_ret; auto].
          apply (T_keep _ _ (neutralM_iterM _ _ (fun x => neutralM_report _))). }
        intros _.
        eapply triple_bind with (R := fun _ => Keep (P5Check p (Installed plan true None))).
        { match goal with |- T _ (match ?l with [] => _ | _ => _ end) _ => destruct l end;
            [apply triple_ret; auto|apply T_report_event]. }
        intro m4.
        match goal with |- T _ (match ?n with O => _ | S _ => _ end) _ => destruct n as [|nerr] end.
        -- (* no failed app *)
           eapply triple_bind with (R := fun _ => Keep (P5Check p (Installed plan true None))).
           { match goal with |- T _ (if ?c then _ else _) _ => destruct c end;
               [apply (T_keep _ _ (neutralM_report _))|apply triple_ret; auto]. }
           intros _. keepn (neutralM_st_set_time K_FINISH_TIME (wall t1)).
           eapply triple_bind with (R := fun _ => Keep (P5Check p (Installed plan true None))).
           { match goal with |- T _ (match ?x with Some _ => _ | None => _ end) _ => destruct x as [o|] end;
               [|apply triple_ret; auto].
             keepn (neutralM_st_write (SSetStr K_TARGET_VERSION (match o with Some v => v | None => s2b "UNKNOWN" end))).
             apply triple_ret. auto. }
           intros _. keepn (neutralM_st_write SCommit).
           keepas (neutralM_silent _ silent_pop_reboot_needed) as rn.
           eapply triple_bind with (R := fun _ => Keep (P5Check p (Installed plan true (Some rn)))).
           { temit. intros q ->. eexists. split; [|reflexivity]. cbn [step5]. rewrite bytes_eqb_refl. reflexivity. }
           intros _. apply triple_ret. intros q ->. eexists. split; [reflexivity|].
           intros rs pl H. cbn [snd] in H. destruct rn; inversion H. eexists. reflexivity.
        -- (* some app failed: one installer-error event each, no reboot *)
           eapply triple_bind with (R := fun _ q => exists c, q = P5Check p (Installed plan c None)).
           { eapply triple_conseq;
               [apply (triple_iterM step5 (fun _ : unit => yield_ EvInstallerError) (repeat tt (S nerr))
                         (fun q => exists c, q = P5Check p (Installed plan c None)))| |].
             - intros x _. temit. intros q [c ->]. eexists. split; [reflexivity|]. exists false. reflexivity.
             - intros q ->. exists true. reflexivity.
             - intros u q H. exact H. }
           intros _.
           eapply triple_bind with (R := fun _ q => exists c, q = P5Check p (Installed plan c None)).
           { apply (neutralM_yield_state InstallationError I (fun q => exists c, q = P5Check p (Installed plan c None))). }
           intros _. apply triple_ret. intros q [c ->]. apply post_check_not_needed.
      * (* UDeferred *)
        eapply triple_bind; [apply T_report_event|]. intro.
        keepn (neutralM_yield_state InstallationDeferredByPolicy I). ret_post.
      * (* UDenied *)
        eapply triple_bind; [apply T_report_event|]. intro. ret_post.
  - (* unparseable body *)
    keepn (neutralM_yield_state ErrorCheckingForUpdate I).
    eapply triple_bind; [apply T_report_event|]. intro. ret_post.
Qed.

(* ---------- start_update_check ---------- *)
Definition post_start (r : sm * reboot) (q : ph5) : Prop :=
  exists ps, q = P5After ps /\ (forall plan, snd r = RebootNeeded plan -> exists pl, ps = Installed pl true (Some true)).

Lemma T_start fuel p m :
  T (Keep (P5Check p NoPlan)) (start_update_check fuel p m) post_start.
Proof.
  unfold start_update_check.
  eapply triple_bind; [apply T_perform|]. intros [m1 res].
  eapply triple_bind with
    (R := fun fin q => exists ps, q = P5Check p ps /\
                        (forall plan, snd fin = RebootNeeded plan -> exists pl, ps = Installed pl true (Some true))).
  { destruct res as [e|[rs rb]].
    - eapply triple_bind with (R := fun _ q => exists ps, q = P5Check p ps).
      { eapply triple_conseq with (P' := fun q => exists ps, q = P5Check p ps) (Q' := fun _ q => exists ps, q = P5Check p ps).
        - destruct e as [re| |].
          + destruct re; apply triple_ret; auto.
          + eapply triple_bind; [apply (neutralM_now (fun q => exists ps, q = P5Check p ps))|]. intro. apply triple_ret. auto.
          + eapply triple_bind; [apply (neutralM_now (fun q => exists ps, q = P5Check p ps))|]. intro. apply triple_ret. auto.
        - intros q (ps & -> & _). eauto.
        - auto. }
      intros [m2 reason].
      eapply triple_bind; [apply (neutralM_report (MFailureReason reason) (fun q => exists ps, q = P5Check p ps))|]. intro.
      apply triple_ret. intros q (ps & ->). exists ps. split; [reflexivity|]. intros plan H. discriminate.
    - eapply triple_bind with (R := fun _ => post_check p (m1, inr (rs, rb))); [apply (neutralM_now (post_check p (m1, inr (rs, rb))))|]. intro n.
      eapply triple_bind; [apply (neutralM_report _ (post_check p (m1, inr (rs, rb))))|]. intro.
      eapply triple_bind with (R := fun _ => post_check p (m1, inr (rs, rb))).
      { destruct (install_success rs); [apply neutralM_report_attempts_install|apply triple_ret; auto]. }
      intro. apply triple_ret. intros q (ps & -> & H). exists ps. split; [reflexivity|].
      intros plan Hp. cbn [snd] in Hp. subst rb. eapply H. reflexivity. }
  intros [[m2 result] rb].
  eapply triple_bind;
    [apply (neutralM_yield5 (EvSchedule (m_sched m2)) (fun q => eq_refl)
              (fun q => exists ps, q = P5Check p ps /\ (forall plan, rb = RebootNeeded plan -> exists pl, ps = Installed pl true (Some true))))|].
  intro.
  eapply triple_bind;
    [apply (neutralM_yield5 (EvProtocol (m_ps m2)) (fun q => eq_refl)
              (fun q => exists ps, q = P5Check p ps /\ (forall plan, rb = RebootNeeded plan -> exists pl, ps = Installed pl true (Some true))))|].
  intro.
  eapply triple_bind with (R := fun _ q => exists ps, q = P5After ps /\ (forall plan, rb = RebootNeeded plan -> exists pl, ps = Installed pl true (Some true))).
  { temit. intros q (ps & -> & H). exists (P5After ps). split; [reflexivity|]. exists ps. split; [reflexivity|exact H]. }
  intro.
  eapply triple_bind; [apply (neutralM_persist_data m2)|]. intro.
  apply triple_ret. intros q H. exact H.
Qed.

(* ---------- waiting ---------- *)
Lemma neutralM_update_next m (P : ph5 -> Prop) :
  (forall q, P q -> match q with P5Check _ _ => False | _ => True end) ->
  T P (update_next_update_time m) (fun _ q => P q).
Proof.
  intro Hp. unfold update_next_update_time.
  eapply triple_bind; [apply (neutralM_silent _ silent_pop_next_time)|]. intro t.
  eapply triple_bind with (R := fun _ q => P q).
  { temit. intros q Hq. exists q. split; [|exact Hq]. specialize (Hp q Hq). destruct q; try contradiction; reflexivity. }
  intro. match goal with |- T _ (bind (yield_ ?ev) _) _ => eapply triple_bind; [apply (neutralM_yield5 ev (fun q => eq_refl))|] end.
  intro. apply triple_ret. auto.
Qed.

Lemma neutralM_make_wait t : neutralM (make_wait t).
Proof. unfold make_wait. destruct (t_min t); neu. Qed.

Definition in_reboot (q : ph5) : Prop := exists l, q = P5Reboot l.

Lemma T_ask_reboot src :
  T in_reboot (ask_reboot_allowed src) (fun b q => q = P5Reboot (Some b)).
Proof.
  unfold ask_reboot_allowed.
  eapply triple_bind; [apply (neutralM_silent _ silent_pop_reboot_allowed)|]. intro b.
  eapply triple_bind with (R := fun _ q => q = P5Reboot (Some b)).
  { temit. intros q [l ->]. eexists. split; reflexivity. }
  intro. apply triple_ret. auto.
Qed.

Lemma T_ping m : T in_reboot (ping_omaha m) (fun _ => in_reboot).
Proof.
  intros q0 e q Hq [l ->]. revert q0 e Hq.
  change (forall q0 e, mst step5 q0 e = Some (P5Reboot l) -> exists q', mst step5 q0 (snd (ping_omaha m e)) = Some q' /\
            match fst (ping_omaha m e) with Some _ => in_reboot q' | None => True end).
  intros q0 e Hq.
  assert (HT : T (Keep (P5Reboot l)) (ping_omaha m) (fun _ => Keep (P5Reboot l))).
  { unfold ping_omaha.
    keepn (neutralM_silent _ silent_fresh_guid). keepn (neutralM_silent _ silent_fresh_guid).
    eapply triple_bind; [apply T_maybe_ids|]. intro b.
    eapply triple_bind.
    { apply T_pre_pure. intros [Hp He]. apply T_do_req. cbn [req_allowed].
      apply (ping_ok_builder (m_cfg m) (m_apps m)); [rewrite Hp; reflexivity|rewrite He; reflexivity]. }
    intros [m1 res].
    destruct res as [er|[d|]].
    - keepn (neutralM_persist_data (with_ps m1 (set_fails (m_ps m1) (sat_inc_u32 (ps_fails (m_ps m1)))))). apply triple_ret. auto.
    - keepn neutralM_now.
      match goal with |- T _ (bind (yield_ ?ev) _) _ => keepn (neutralM_yield5 ev (fun q => eq_refl)) end.
      match goal with |- T _ (bind (persist_data ?x) _) _ => keepn (neutralM_persist_data x) end. apply triple_ret. auto.
    - keepn (neutralM_persist_data (with_ps m1 (set_fails (m_ps m1) (sat_inc_u32 (ps_fails (m_ps m1)))))). apply triple_ret. auto. }
  destruct (HT q0 e _ Hq eq_refl) as (q' & Hq' & Hr). exists q'. split; [exact Hq'|].
  destruct (fst (ping_omaha m e)); [exists l; exact Hr|exact I].
Qed.

Lemma in_reboot_not_check q : in_reboot q -> match q with P5Check _ _ => False | _ => True end.
Proof. intros [l ->]. exact I. Qed.

(* handling a request while waiting to reboot: leaves the loop only when the policy has just said yes *)
Lemma T_handle_in_reboot id sc :
  T in_reboot (handle_in_reboot id sc) (fun go q => if go then q = P5Reboot (Some true) else in_reboot q).
Proof.
  unfold handle_in_reboot.
  eapply triple_bind; [apply (neutralM_emit (AReply id AlreadyRunning) (fun q => eq_refl))|]. intro.
  destruct sc.
  - eapply triple_conseq; [apply T_ask_reboot|auto|]. intros [|] q ->; [reflexivity|eexists; reflexivity].
  - apply triple_ret. auto.
Qed.

Lemma T_reboot_loop fuel : forall src pending m,
  T in_reboot (reboot_loop fuel src pending m) (fun _ q => q = P5Reboot (Some true)).
Proof.
  induction fuel as [|f IH]; intros src pending m; cbn [reboot_loop]; [apply triple_halt|].
  eapply triple_bind with (R := fun _ => in_reboot).
  { apply (neutralM_silent pop_queued). intro e. unfold pop_queued. destruct (c_inq (e_cs e)); reflexivity. }
  intros [[id sc]|].
  { eapply triple_bind; [apply T_handle_in_reboot|]. intros [|]; [apply triple_ret; auto|apply IH]. }
  eapply triple_bind with (R := fun _ => in_reboot).
  { apply (neutralM_silent pop_stim). intro e. unfold pop_stim. destruct (e_stim e); reflexivity. }
  intros [i|sc|].
  - destruct (nth_error pending i) as [[| |]|].
    + (* a ping-wait timer *)
      destruct (has_ping_roles (remove_nth i pending)); [apply IH|].
      eapply triple_bind; [apply T_ping|]. intro m1.
      eapply triple_bind; [apply (neutralM_update_next m1 in_reboot in_reboot_not_check)|]. intros [m2 t].
      eapply triple_bind; [apply (neutralM_make_wait t in_reboot)|]. intro roles. apply IH.
    + destruct (has_ping_roles (remove_nth i pending)); [apply IH|].
      eapply triple_bind; [apply T_ping|]. intro m1.
      eapply triple_bind; [apply (neutralM_update_next m1 in_reboot in_reboot_not_check)|]. intros [m2 t].
      eapply triple_bind; [apply (neutralM_make_wait t in_reboot)|]. intro roles. apply IH.
    + (* the reboot-question timer *)
      eapply triple_bind; [apply T_ask_reboot|]. intros [|].
      * apply triple_ret. auto.
      * eapply triple_bind with (R := fun _ => in_reboot).
        { temit. intros q ->. eexists. split; [reflexivity|]. eexists. reflexivity. }
        intro. apply IH.
    + apply IH.
  - eapply triple_bind with (R := fun _ => in_reboot).
    { apply (neutralM_silent next_ctl). intro e. reflexivity. }
    intro id.
    eapply triple_bind; [apply (neutralM_emit (ARequest id sc) (fun q => eq_refl))|]. intro.
    eapply triple_bind; [apply T_handle_in_reboot|]. intros [|]; [apply triple_ret; auto|apply IH].
  - apply IH.
Qed.

Lemma T_wait_for_reboot fuel src m :
  T (Keep (P5Reboot None)) (wait_for_reboot fuel src m) (fun _ q => q = P5After NoPlan).
Proof.
  unfold wait_for_reboot.
  eapply triple_bind with (R := fun b q => q = P5Reboot (Some b)).
  { eapply triple_conseq; [apply (T_ask_reboot src)|intros q ->; eexists; reflexivity|auto]. }
  intro ok.
  eapply triple_bind with (R := fun _ q => q = P5Reboot (Some true)).
  { destruct ok; [apply triple_ret; auto|].
    eapply triple_bind with (R := fun _ => in_reboot).
    { temit. intros q ->. eexists. split; [reflexivity|]. eexists. reflexivity. }
    intro.
    eapply triple_bind; [apply (neutralM_update_next m in_reboot in_reboot_not_check)|]. intros [m1 t].
    eapply triple_bind; [apply (neutralM_make_wait t in_reboot)|]. intro roles.
    apply T_reboot_loop. }
  intro m1.
  eapply triple_bind; [apply (neutralM_silent _ silent_pop_reboot)|]. intro okr.
  eapply triple_bind with (R := fun _ q => q = P5After NoPlan).
  { temit. intros q ->. eexists. split; reflexivity. }
  intro. apply triple_ret. auto.
Qed.

(* ---------- the outer loop ---------- *)
Lemma T_run_iteration fuel finish start_mono sr m :
  T (Keep P5Idle) (run_iteration fuel finish start_mono sr m) (fun _ => Keep P5Idle).
Proof.
  unfold run_iteration.
  eapply triple_bind with (R := fun _ => Keep P5Idle).
  { destruct sr; [|apply triple_ret; auto].
    keepn neutralM_now.
    match goal with |- T _ (match ?x with Some _ => _ | None => _ end) _ => destruct x end; [|apply triple_ret; auto].
    match goal with |- T _ (bind (report ?x) _) _ => keepn (neutralM_report x) end.
    keepn (neutralM_st_write (SRemove K_FINISH_TIME)). keepn (neutralM_st_write (SRemove K_TARGET_VERSION)).
    keepn (neutralM_st_write SCommit). apply triple_ret. auto. }
  intro sr'.
  eapply triple_bind; [apply (neutralM_update_next m (Keep P5Idle))|].
  { intros q ->. exact I. }
  intros [m1 t].
  keepn (neutralM_make_wait t).
  eapply triple_bind with (R := fun _ => Keep P5Idle); [apply (T_do_outer_select step5 a (Keep P5Idle) ign_ctl5)|]. intro.
  keepn (neutralM_silent _ silent_pop_allowed).
  rename a1 into dec.
  eapply triple_bind with
    (R := fun _ => Keep (match dec with DOk p | DOkDeferred p => P5Check p NoPlan | _ => P5Idle end)).
  { temit. intros q ->. eexists. split; [|reflexivity]. destruct dec; reflexivity. }
  intro.
  assert (Hneg : T (Keep P5Idle)
                   (match a0 with Some (_, id) => emit (AReply id Throttled) | None => ret tt end;;; ret (m1, sr'))
                   (fun _ => Keep P5Idle)).
  { eapply triple_bind with (R := fun _ => Keep P5Idle).
    - destruct a0 as [[s id]|]; [apply (T_keep _ _ (neutralM_emit (AReply id Throttled) (fun q => eq_refl)))|apply triple_ret; auto].
    - intro. apply triple_ret. auto. }
  assert (Hpos : forall p, T (Keep (P5Check p NoPlan))
                   (match a0 with Some (_, id) => emit (AReply id Started) | None => ret tt end;;;
                    enter_check;;;
                    r <- start_update_check fuel p m1;;
                    set_incheck false;;;
                    upg <- take_upgrade;;
                    (let '(m0, rb) := r in
                     m2 <- match rb with
                           | RebootNeeded _ => yield_state WaitingForReboot;;; wait_for_reboot fuel (if upg then OnDemand else match a0 with Some (s, _) => s | None => ScheduledTask end) m0
                           | RebootNotNeeded => ret m0
                           end;;
                     yield_state Idle;;; ret (m2, sr')))
                   (fun _ => Keep P5Idle)).
  { intro p.
    eapply triple_bind with (R := fun _ => Keep (P5Check p NoPlan)).
    { destruct a0 as [[s id]|]; [apply (T_keep _ _ (neutralM_emit (AReply id Started) (fun q => eq_refl)))|apply triple_ret; auto]. }
    intro. eapply triple_bind with (R := fun _ => Keep (P5Check p NoPlan)); [apply (T_enter_check step5 (Keep (P5Check p NoPlan)) ign_ctl5)|]. intro.
    eapply triple_bind; [apply T_start|]. intros [m2 rb].
    eapply triple_bind; [apply (neutralM_silent _ (silent_set_incheck false) (post_start (m2, rb)))|]. intro.
    eapply triple_bind; [apply (neutralM_silent _ (silent_take_upgrade) (post_start (m2, rb)))|]. intro upg.
    eapply triple_bind with (R := fun _ q => exists ps, q = P5After ps).
    { destruct rb as [plan|].
      - eapply triple_bind with (R := fun _ => Keep (P5Reboot None)).
        { temit. intros q (ps & -> & H). destruct (H plan eq_refl) as [pl ->]. eexists. split; reflexivity. }
        intro. eapply triple_conseq; [apply T_wait_for_reboot|auto|]. intros x q ->. eexists. reflexivity.
      - apply triple_ret. intros q (ps & -> & _). eexists. reflexivity. }
    intro m3.
    eapply triple_bind with (R := fun _ => Keep P5Idle).
    { temit. intros q [ps ->]. eexists. split; reflexivity. }
    intro. apply triple_ret. auto. }
  destruct dec; [apply Hpos|apply Hpos|exact Hneg|exact Hneg|exact Hneg].
Qed.

Lemma T_run_loop iters : forall fuel finish start_mono sr m,
  T (Keep P5Idle) (run_loop iters fuel finish start_mono sr m) (fun _ => Keep P5Idle).
Proof.
  induction iters as [|k IH]; intros; cbn [run_loop]; [apply triple_halt|].
  eapply triple_bind; [apply T_run_iteration|]. intros [m' sr']. apply IH.
Qed.

Lemma T_run iters fuel m : T (Keep P5Idle) (run iters fuel m) (fun _ => Keep P5Idle).
Proof.
  unfold run. destruct (negb (forallb app_valid (m_apps m))); [apply triple_ret; auto|].
  keepn neutralM_now. keepn (neutralM_silent _ (silent_st_get_time K_FINISH_TIME)).
  keepn (neutralM_silent _ (silent_st_get_str K_TARGET_VERSION)). apply T_run_loop.
Qed.

Lemma T_oneshot fuel m : T (Keep (P5Check params_default NoPlan)) (oneshot fuel m) (fun _ q => exists ps, q = P5After ps).
Proof.
  unfold oneshot. eapply triple_bind; [apply T_start|]. intros r. apply triple_ret. intros q (ps & -> & _). eexists. reflexivity.
Qed.

(* every trace of the model, for every script, is accepted by the consent monitor *)
Theorem model_accepted_c05 ep cfg url cup apps e :
  e_trace e = [] -> accepts step5 (init5 ep) (run_case ep cfg url cup apps e) = true.
Proof.
  intro Ht. unfold run_case, accepts.
  set (m := build cfg url cup apps (e_store e)).
  destruct ep.
  - destruct (T_run (Datatypes.S (length (e_stim e) + length (c_inject (e_cs e)))) (4 + length (e_stim e) + length (c_inject (e_cs e))) m (init5 EStart) e P5Idle) as (q' & Hq' & _).
    + unfold mst. rewrite Ht. reflexivity.
    + reflexivity.
    + destruct (run _ _ m e) as [r e'] eqn:E. cbn [snd] in Hq'. unfold mst in Hq'. rewrite Hq'. reflexivity.
  - destruct (T_oneshot (4 + length (e_stim e) + length (c_inject (e_cs e))) m (init5 EOneshot) e (P5Check params_default NoPlan)) as (q' & Hq' & _).
    + unfold mst. rewrite Ht. reflexivity.
    + reflexivity.
    + destruct (oneshot _ m e) as [r e'] eqn:E. cbn [snd] in Hq'. unfold mst in Hq'. rewrite Hq'. reflexivity.
Qed.
